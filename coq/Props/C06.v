(* C06 -- no input can crash the library.  PARTIAL by nature: what is proved here is that the
   conditions under which the crate's own parsing code would panic are never met in the model
   (slice ranges, `content_length - body.len()`, str slicing at char boundaries, byte-count
   arithmetic); panic-freedom inside rhymuri / flate2 / encoding_rs / rhymessage's generator,
   stack and allocator behaviour are runtime facts, covered by the supervised correspondence
   run (catch_unwind + process-abort detection, overflow checks on and off). *)
From Coq Require Import String.
From Http Require Import Model.Bytes Model.Utf8 Model.Num Model.Request Model.Chunked Model.Response
     Proofs.ReqResume Proofs.ChunkResume Proofs.RespResume Proofs.Safety.

(* `&raw_message[total_consumed..]`, `&raw_message[..needed]`: consumed never exceeds the input *)
Theorem C06_request_consumed_within_input :
  forall (uri : Type) (uri_parse : bytes -> option uri) cfg (st : req_state uri) buf st1 c,
    req_parse uri uri_parse cfg st buf = (st1, Complete c) \/
    req_parse uri uri_parse cfg st buf = (st1, Incomplete c) -> c <= length buf.
Proof. exact req_parse_consumed. Qed.
Print Assumptions C06_request_consumed_within_input.

Theorem C06_response_consumed_within_input :
  forall st buf st1 c, rwf st ->
    resp_parse st buf = (st1, Complete c) \/ resp_parse st buf = (st1, Incomplete c) -> c <= length buf.
Proof. exact resp_parse_consumed. Qed.
Print Assumptions C06_response_consumed_within_input.

Theorem C06_chunk_consumed_within_input :
  forall st buf st1 c, cwf st ->
    chunk_decode st buf = (st1, Complete c) \/ chunk_decode st buf = (st1, Incomplete c) -> c <= length buf.
Proof. exact chunk_decode_consumed. Qed.
Print Assumptions C06_chunk_consumed_within_input.

(* `content_length - self.body.len()` cannot underflow: invariant of every reachable state *)
Theorem C06_body_never_longer_than_declared :
  forall (uri : Type) (uri_parse : bytes -> option uri) cfg (st : req_state uri) buf st1 o,
    body_inv uri st -> req_dispatch uri uri_parse cfg st buf = (st1, o) ->
    match o with
    | Reject _ => True
    | _ => body_inv uri st1 /\ length (r_body st1) <= length (r_body st) + length buf
    end.
Proof. exact req_dispatch_inv. Qed.
Print Assumptions C06_body_never_longer_than_declared.

(* the byte count saturates: it never exceeds usize::MAX, whatever is added (no overflow in
   either build mode) *)
Theorem C06_count_saturates :
  forall a b : N, (sat_add a b <= USIZE_MAX)%N.
Proof. intros a b. unfold sat_add. apply N.le_min_r. Qed.
Print Assumptions C06_count_saturates.

(* str slicing (`&line[..i]`, `&line[i+1..]` at a found ' ', ':', ';', '/', '='): both indices
   are char boundaries of the UTF-8-valid line, for multi-byte text at any position *)
Theorem C06_slices_at_char_boundaries :
  forall (s : bytes) (c : N) (i : nat),
    utf8_valid s = true -> (c < 128)%N -> find_byte c s = Some i ->
    char_boundary s i /\ char_boundary s (S i).
Proof. exact ascii_delimiter_boundaries. Qed.
Print Assumptions C06_slices_at_char_boundaries.

(* the numeric extremes of the quantifier text, on the model: rejected or waiting, never stuck *)
Example C06_extremes :
  let big := str "POST / HTTP/1.1"%string ++ CRLF ++ str "Content-Length: 18446744073709551615"%string ++ CRLF ++ CRLF in
  snd (req_parse bytes (fun b => Some b) default_cfg req_init big) = Reject EMessageTooLong
  /\ snd (req_parse bytes (fun b => Some b) {| rl := None; hl := None; mm := None |} req_init big) = Incomplete 57
  /\ snd (resp_parse resp_init (str "HTTP/1.1 200 OK"%string ++ CRLF ++ str "Transfer-Encoding: chunked"%string
                                ++ CRLF ++ CRLF ++ str "FFFFFFFFFFFFFFFF"%string ++ CRLF ++ str "x"%string)) = Incomplete 66.
Proof. vm_compute. repeat split. Qed.
