(* HuffmanFixedLZ.v -- a final block in the fixed code with literals AND matches (what zlib emits with
   Z_FIXED at any level), specified by its bits, for ANY choice of matches the encoder made: the model of
   inflate returns the bytes that RFC 1951's byte-at-a-time copy semantics assigns to the symbol sequence. *)
From Coq Require Import List NArith ZArith Arith Bool Lia ZifyBool ZifyN.
From Http Require Import Model.Bytes Model.Inflate Proofs.InflateLocal Proofs.HuffmanCanon Proofs.HuffmanFixed
     Proofs.CopyMatch.
Import ListNotations.

(* n bits of v, least significant first (extra bits of lengths and distances) *)
Fixpoint lsb_bits (n : nat) (v : N) : list bool :=
  match n with
  | 0 => []
  | S n' => N.odd v :: lsb_bits n' (N.div2 v)
  end.

Lemma odd_mod2 x : bit_val (N.odd x) = (x mod 2)%N.
Proof.
  rewrite <- N.bit0_odd, N.bit0_eqb.
  assert (x mod 2 < 2)%N by (apply N.mod_lt; lia).
  destruct (N.eqb_spec (x mod 2) 1); unfold bit_val; lia.
Qed.

Lemma getbits_view n : forall v s t,
    bits_of s = lsb_bits n v ++ t ->
    exists s', getbits n s = Ok (v mod 2 ^ N.of_nat n)%N s' /\ bits_of s' = t.
Proof.
  induction n as [|n IH]; intros v s t H.
  - exists s. split; [cbn [getbits]; rewrite N.mod_1_r; reflexivity | exact H].
  - cbn [lsb_bits app] in H. destruct (getbit_view _ _ _ H) as [s1 [G B1]].
    destruct (IH _ _ _ B1) as [s' [G' B']]. exists s'. split; [|exact B'].
    cbn [getbits]. rewrite G, G'. f_equal.
    rewrite Nat2N.inj_succ, N.pow_succ_r', odd_mod2, N.div2_div.
    rewrite (N.mod_mul_r v 2 (2 ^ N.of_nat n)) by (try lia; apply N.pow_nonzero; lia). reflexivity.
Qed.

(* the fixed distance code: 32 codes of 5 bits *)
Definition fixed_dcode (dsym : nat) : list bool := code_bits fixed_dist_lens dsym 5.

Definition fixed_dsym_ok (dsym : nat) : bool :=
  match nth_error fixed_dist_lens dsym with
  | Some l => (N.eqb l 5 && N.ltb (code_value fixed_dist_lens dsym 5) 32)%bool
  | None => false
  end.
Lemma fixed_dsyms_ok : forallb fixed_dsym_ok (seq 0 32) = true.
Proof. vm_compute. reflexivity. Qed.

Lemma dec_fixed_dist dsym s t :
  dsym < 32 -> bits_of s = fixed_dcode dsym ++ t ->
  exists s', dec_sym fixed_dist s = Ok dsym s' /\ bits_of s' = t.
Proof.
  intros Hs Hb.
  assert (Hok : fixed_dsym_ok dsym = true).
  { pose proof fixed_dsyms_ok as H. rewrite forallb_forall in H. apply H. apply in_seq. lia. }
  unfold fixed_dsym_ok in Hok.
  destruct (nth_error fixed_dist_lens dsym) as [l|] eqn:E; [|discriminate].
  apply andb_true_iff in Hok. destruct Hok as [H1 H2]. apply N.eqb_eq in H1. apply N.ltb_lt in H2. subst l.
  apply (dec_sym_canonical fixed_dist_lens dsym 5 s t); try lia; assumption.
Qed.

(* what an encoder emits: literals and (length symbol, extra, distance symbol, extra) *)
Inductive fsym := FLit (b : N) | FMatch (lsym : nat) (e : N) (dsym : nat) (e2 : N).

Definition fsym_ok (x : fsym) : Prop :=
  match x with
  | FLit b => (b < 256)%N
  | FMatch lsym e dsym e2 =>
      257 <= lsym /\ lsym <= 285 /\ (e < 2 ^ N.of_nat (nth (lsym - 257)%nat LENGTH_EXTRA 0%nat))%N /\
      dsym <= 29 /\ (e2 < 2 ^ N.of_nat (nth dsym DIST_EXTRA 0%nat))%N
  end.

Definition fsym_bits (x : fsym) : list bool :=
  match x with
  | FLit b => fixed_code (N.to_nat b)
  | FMatch lsym e dsym e2 =>
      fixed_code lsym ++ lsb_bits (nth (lsym - 257) LENGTH_EXTRA 0) e
      ++ fixed_dcode dsym ++ lsb_bits (nth dsym DIST_EXTRA 0) e2
  end.

(* RFC 1951 semantics of the symbols over the output so far (most recent byte first) *)
Definition fsym_apply (out : bytes) (x : fsym) : bytes :=
  match x with
  | FLit b => b :: out
  | FMatch lsym e dsym e2 =>
      copy_match (N.to_nat (nth (lsym - 257)%nat LENGTH_BASE 0 + e)%N) (N.to_nat (nth dsym DIST_BASE 0 + e2)%N) out
  end.

Fixpoint block_bits (xs : list fsym) : list bool :=
  match xs with
  | [] => fixed_code 256
  | x :: t => fsym_bits x ++ block_bits t
  end.

Lemma codes_symbols xs : forall f out s t,
    Forall fsym_ok xs -> length xs < f ->
    bits_of s = block_bits xs ++ t ->
    exists s', codes f fixed_lit fixed_dist out s = Ok (fold_left fsym_apply xs out) s' /\ bits_of s' = t.
Proof.
  induction xs as [|x xs IH]; intros f out s t Hx Hf Hb.
  - destruct f as [|f]; [simpl in Hf; lia|]. cbn [block_bits] in Hb.
    destruct (dec_fixed 256 s t ltac:(lia) Hb) as [s' [D B]].
    exists s'. split; [|exact B]. rewrite codes_S. unfold codes_body, bind. rewrite D. reflexivity.
  - destruct f as [|f]; [simpl in Hf; lia|]. inversion Hx as [|? ? Hx1 Hx']; subst.
    cbn [block_bits] in Hb. cbn [fold_left]. destruct x as [b | lsym e dsym e2].
    + cbn [fsym_bits] in Hb. rewrite <- app_assoc in Hb. cbn [fsym_ok] in Hx1.
      destruct (dec_fixed (N.to_nat b) s _ ltac:(lia) Hb) as [s1 [D B1]].
      destruct (IH f (b :: out) s1 t Hx' ltac:(simpl in Hf; lia) B1) as [s' [C B']].
      exists s'. split; [|exact B']. rewrite codes_S. unfold codes_body, bind. rewrite D.
      replace (Nat.ltb (N.to_nat b) 256) with true by (symmetry; apply Nat.ltb_lt; lia).
      rewrite N2Nat.id. exact C.
    + cbn [fsym_bits] in Hb. repeat rewrite <- app_assoc in Hb.
      destruct Hx1 as [L1 [L2 [He [D1 He2]]]].
      destruct (dec_fixed lsym s _ ltac:(lia) Hb) as [s1 [D B1]].
      destruct (getbits_view _ _ _ _ B1) as [s2 [G B2]].
      destruct (dec_fixed_dist dsym s2 _ ltac:(lia) B2) as [s3 [Dd B3]].
      destruct (getbits_view _ _ _ _ B3) as [s4 [G2 B4]].
      rewrite N.mod_small in G by exact He. rewrite N.mod_small in G2 by exact He2.
      destruct (IH f (fsym_apply out (FMatch lsym e dsym e2)) s4 t Hx' ltac:(simpl in Hf; lia) B4) as [s' [C B']].
      exists s'. split; [|exact B']. rewrite codes_S. unfold codes_body, bind. rewrite D.
      replace (Nat.ltb lsym 256) with false by (symmetry; apply Nat.ltb_ge; lia).
      replace (Nat.eqb lsym 256) with false by (symmetry; apply Nat.eqb_neq; lia).
      replace (Nat.ltb 285 lsym) with false by (symmetry; apply Nat.ltb_ge; lia).
      rewrite G, Dd.
      replace (Nat.ltb 29 dsym) with false by (symmetry; apply Nat.ltb_ge; lia).
      rewrite G2. rewrite copy_match_fast_is_rfc_copy. exact C.
Qed.

Lemma msb_bits_length n v : length (msb_bits n v) = n.
Proof. induction n; cbn [msb_bits length]; auto. Qed.

Lemma fsym_bits_nonempty x : 1 <= length (fsym_bits x).
Proof.
  destruct x as [b | lsym e dsym e2]; cbn [fsym_bits]; rewrite ?app_length; unfold fixed_code, code_bits;
    rewrite msb_bits_length; unfold fixed_len;
    match goal with |- context [Nat.ltb ?a 144] => destruct (Nat.ltb a 144), (Nat.ltb a 256), (Nat.ltb a 280) end; lia.
Qed.

Lemma block_bits_length xs : length xs <= length (block_bits xs).
Proof.
  induction xs as [|x xs IH]; [cbn; lia|]. cbn [block_bits length]. rewrite app_length.
  pose proof (fsym_bits_nonempty x). lia.
Qed.

Lemma byte_bits_total e : length (flat_map byte_bits e) = 8 * length e.
Proof.
  induction e as [|x e IH]; [reflexivity|]. cbn [flat_map]. rewrite app_length, IH.
  change (length (byte_bits x)) with 8. cbn [length]. lia.
Qed.

(* one final fixed-code block with any literals and matches, as a raw DEFLATE stream *)
Theorem fixed_block_inverts e xs pad :
  Forall fsym_ok xs ->
  flat_map byte_bits e = [true; true; false] ++ block_bits xs ++ pad ->
  length pad < 8 ->
  inflate_raw_model e = Some (rev (fold_left fsym_apply xs [])).
Proof.
  intros Hx He Hp. unfold inflate_raw_model, inflate_fuel.
  assert (Hf : length xs + 1 < fuel_for e).
  { unfold fuel_for. pose proof (f_equal (@length bool) He) as HL.
    rewrite byte_bits_total, !app_length in HL. pose proof (block_bits_length xs). cbn [length] in HL. lia. }
  remember (fuel_for e) as f eqn:Ef. destruct f as [|f]; [lia|].
  rewrite blocks_S. unfold blocks_body, bind.
  match goal with |- context [getbits 3 ?st] => set (st0 := st) end.
  assert (B0 : bits_of st0 = true :: true :: false :: block_bits xs ++ pad) by (unfold st0, bits_of; cbn [fst snd app]; exact He).
  destruct (getbit_view _ _ _ B0) as [s1 [G1 B1]].
  destruct (getbit_view _ _ _ B1) as [s2 [G2 B2]].
  destruct (getbit_view _ _ _ B2) as [s3 [G3 B3]].
  assert (G : getbits 3 st0 = Ok 3%N s3).
  { cbn [getbits]. rewrite G1, G2, G3. reflexivity. }
  rewrite G. unfold block_content. change (N.div2 3) with 1%N. change (N.odd 3) with true. cbv iota.
  destruct (codes_symbols xs (S f) [] s3 pad Hx ltac:(lia) B3) as [s' [C B']].
  rewrite C.
  assert (Hs' : snd s' = []) by (apply bits_short_no_bytes; rewrite B'; exact Hp).
  destruct s' as [c' r']. cbn [snd] in Hs'. subst r'. unfold align, to_option. cbn [snd].
  rewrite rev_append_rev, app_nil_r. reflexivity.
Qed.
