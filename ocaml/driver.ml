(* driver.ml -- runs the extracted Coq model on a case file; the dependency oracles
   (rhymuri, flate2, encoding_rs) are answered by the real libraries through the
   harness's `oracle` mode.  Hand-written glue: hex parsing, integer conversion,
   canonical printing.  usage: driver <harness-binary> <cases> <out> *)
open Model
type string = Stdlib.String.t

(* ---- conversions ---- *)
let rec pos_of_int (i : int) : positive =
  if i = 1 then XH else if i land 1 = 0 then XO (pos_of_int (i lsr 1)) else XI (pos_of_int (i lsr 1))
let n_of_int (i : int) : n = if i = 0 then N0 else Npos (pos_of_int i)
let rec int_of_pos = function XH -> 1 | XO p -> 2 * int_of_pos p | XI p -> 2 * int_of_pos p + 1
let int_of_n = function N0 -> 0 | Npos p -> int_of_pos p
let rec nat_of_int (i : int) : nat = if i <= 0 then O else S (nat_of_int (i - 1))
let int_of_nat (x : nat) : int = let rec go acc = function O -> acc | S m -> go (acc + 1) m in go 0 x

let bytes_of_string (s : string) : bytes =
  let rec go i acc = if i < 0 then acc else go (i - 1) (n_of_int (Char.code s.[i]) :: acc) in
  go (String.length s - 1) []
let string_of_bytes (b : bytes) : string =
  let buf = Buffer.create 64 in
  List.iter (fun x -> Buffer.add_char buf (Char.chr ((int_of_n x) land 255))) b;
  Buffer.contents buf

let hexdigit c = match c with
  | '0'..'9' -> Char.code c - 48 | 'a'..'f' -> Char.code c - 87 | 'A'..'F' -> Char.code c - 55
  | _ -> failwith "hex"
let unhex_string (s : string) : string =
  if s = "." || s = "-" then "" else begin
    let n = String.length s / 2 in
    String.init n (fun i -> Char.chr (hexdigit s.[2*i] * 16 + hexdigit s.[2*i+1]))
  end
let unhex (s : string) : bytes = bytes_of_string (unhex_string s)
let hex_of_string (s : string) : string =
  let buf = Buffer.create (2 * String.length s) in
  String.iter (fun c -> Buffer.add_string buf (Printf.sprintf "%02x" (Char.code c))) s;
  Buffer.contents buf
let hex (b : bytes) : string = hex_of_string (string_of_bytes b)

(* decimal <-> N through the model's own (extracted) functions *)
let n_of_decimal (s : string) : n = dec_value (bytes_of_string s)
let decimal_of_n (x : n) : string = string_of_bytes (show_dec x)

(* code points <-> UTF-8 (strings given to coding:: are Rust Strings) *)
let codepoints_of_utf8_hex (s : string) : bytes =
  match utf8_decode (unhex s) with Some t -> t | None -> failwith "case not utf8"
let hex_of_codepoints (t : bytes) : string = hex (utf8_encode t)

(* ---- oracle process ---- *)
let oracle_in = ref stdin
let oracle_out = ref stdout
let oracle_queries = ref 0
let ask (q : string) : string =
  incr oracle_queries;
  output_string !oracle_out q; output_char !oracle_out '\n'; flush !oracle_out;
  input_line !oracle_in

type uri = string * string        (* display bytes (raw), debug identity *)

let split_on_char_n c s = String.split_on_char c s

let uri_cache : (string, uri option) Hashtbl.t = Hashtbl.create 64
let parse_uri_answer (a : string) : uri option =
  match split_on_char_n ' ' a with
  | ["none"] -> None
  | ["some"; v] ->
    (match split_on_char_n '#' v with
     | [d; g] -> Some (unhex_string d, unhex_string g)
     | _ -> failwith ("oracle uri answer: " ^ a))
  | _ -> failwith ("oracle uri answer: " ^ a)
let uri_parse (b : bytes) : uri option =
  let k = string_of_bytes b in
  match Hashtbl.find_opt uri_cache k with
  | Some r -> r
  | None ->
    let r = parse_uri_answer (ask ("uri " ^ (if k = "" then "." else hex_of_string k))) in
    Hashtbl.replace uri_cache k r; r
let uri_default = lazy (match parse_uri_answer (ask "uridefault") with Some u -> u | None -> failwith "uridefault")
let show_uri ((d, g) : uri) = hex_of_string d ^ "#" ^ hex_of_string g

let opt_bytes_answer (a : string) : bytes option =
  match split_on_char_n ' ' a with
  | ["none"] -> None
  | ["some"; v] -> Some (unhex v)
  | _ -> failwith ("oracle answer: " ^ a)
let hexarg (b : bytes) = match b with [] -> "." | _ -> hex b
(* The stream decoders.  The Coq model of flate2/miniz_oxide (Model/Inflate.v) is evaluated on every
   body up to INFLATE_MODEL_MAX bytes and compared with the real library, asked directly (not through
   rhymuweb).  flate2 is a pinned dependency, not the code under verification: a disagreement is a gap in
   the *model of the dependency*; it is counted and shown (never a verdict by itself) and the case goes on
   with the library's answer, so that a fault in my model of flate2 can never be blamed on rhymuweb. *)
let inflate_model_max = try int_of_string (Sys.getenv "INFLATE_MODEL_MAX") with _ -> 40000
let inflate_modelled = ref 0
let inflate_skipped = ref 0
let inflate_gaps = ref 0
let inflate_gap_log : string list ref = ref []
let via_model (name : string) (model : bytes -> bytes option) (b : bytes) : bytes option =
  let o = opt_bytes_answer (ask (name ^ " " ^ hexarg b)) in
  if List.length b > inflate_model_max then (incr inflate_skipped; o)
  else begin
    incr inflate_modelled;
    let m = model b in
    if m <> o then begin
      incr inflate_gaps;
      if List.length !inflate_gap_log < 5 then inflate_gap_log := (name ^ ":" ^ hexarg b) :: !inflate_gap_log
    end;
    o
  end
let gunzip b = via_model "gunzip" gunzip_model b
let inflate_raw b = via_model "inflate" inflate_raw_model b
let inflate_zlib b = via_model "zlib" inflate_zlib_model b

(* encodings: identified by the label bytes that selected them *)
let for_label (label : bytes) : bytes option =
  match split_on_char_n ' ' (ask ("label " ^ hexarg label)) with
  | ["none"] -> None
  | ["some"; _] -> Some label
  | _ -> failwith "oracle label answer"
let enc_decode (label : bytes) (body : bytes) : bytes option =
  match opt_bytes_answer (ask ("decode " ^ hexarg label ^ " " ^ hexarg body)) with
  | None -> None
  | Some utf8 -> utf8_decode utf8

(* ---- case parsing ---- *)
let opt_limit (dflt : n option) (s : string) : n option =
  if s = "-" then None else if s = "d" then dflt else Some (n_of_decimal s)
let cfg_of rl_s hl_s mm_s : rcfg =
  { rl = opt_limit default_cfg.rl rl_s; hl = opt_limit default_cfg.hl hl_s;
    mm = opt_limit default_cfg.mm mm_s }
let deliveries (s : string) : bytes list = List.map unhex (split_on_char_n ',' s)
let parse_headers ~(cp : bool) (s : string) : header list =
  if s = "-" || s = "" then [] else
    List.map (fun nv ->
        match split_on_char_n ':' nv with
        | [n; v] -> if cp then (codepoints_of_utf8_hex n, codepoints_of_utf8_hex v) else (unhex n, unhex v)
        | [n] -> if cp then (codepoints_of_utf8_hex n, []) else (unhex n, [])
        | _ -> failwith "header spec") (split_on_char_n ';' s)
let show_headers ?(cp = false) (hs : header list) : string =
  match hs with
  | [] -> "-"
  | _ -> String.concat "," (List.map (fun (n, v) ->
      if cp then hex_of_codepoints n ^ ":" ^ hex_of_codepoints v else hex n ^ ":" ^ hex v) hs)

(* ---- error categories, spelled as the harness spells rhymuweb::Error variants ---- *)
let herr_cat = function
  | HTooLong -> "TooLong" | HNotText -> "NotText" | HNoColon -> "NoColon"
  | HBadName -> "BadName" | HBadValue -> "BadValue"
let err_cat = function
  | EHeaders h -> "Headers." ^ herr_cat h
  | ETrailer h -> "Trailer." ^ herr_cat h
  | EChunkSizeLineNotValidText -> "ChunkSizeLineNotValidText"
  | EInvalidChunkSize -> "InvalidChunkSize"
  | EInvalidChunkTerminator -> "InvalidChunkTerminator"
  | EInvalidContentLength -> "InvalidContentLength"
  | EInvalidStatusCode -> "InvalidStatusCode"
  | EMessageTooLong -> "MessageTooLong"
  | ERequestLineNoMethodDelimiter -> "RequestLineNoMethodDelimiter"
  | ERequestLineNoMethodOrExtraWhitespace -> "RequestLineNoMethodOrExtraWhitespace"
  | ERequestLineNoTargetDelimiter -> "RequestLineNoTargetDelimiter"
  | ERequestLineNoTargetOrExtraWhitespace -> "RequestLineNoTargetOrExtraWhitespace"
  | ERequestLineNotValidText -> "RequestLineNotValidText"
  | ERequestLineProtocol -> "RequestLineProtocol"
  | ERequestLineTooLong -> "RequestLineTooLong"
  | ERequestTargetUriInvalid -> "RequestTargetUriInvalid"
  | EStatusCodeOutOfRange -> "StatusCodeOutOfRange"
  | EStatusLineNoProtocolDelimiter -> "StatusLineNoProtocolDelimiter"
  | EStatusLineNoStatusCodeDelimiter -> "StatusLineNoStatusCodeDelimiter"
  | EStatusLineNotValidText -> "StatusLineNotValidText"
  | EStatusLineProtocol -> "StatusLineProtocol"

let show_trace (tr : outcome list) : string =
  String.concat "," (List.map (function
      | Complete c -> "C" ^ string_of_int (int_of_nat c)
      | Incomplete c -> "I" ^ string_of_int (int_of_nat c)
      | Reject _ -> "R") tr)

let req_fields (st : uri req_state) : string =
  let t = match st.r_target with Some u -> u | None -> Lazy.force uri_default in
  Printf.sprintf "m=%s;t=%s;h=%s;b=%s" (hex st.r_method) (show_uri t)
    (show_headers st.r_headers) (hex st.r_body)
let resp_fields (st : resp_state) : string =
  Printf.sprintf "code=%s;r=%s;h=%s;b=%s;x=%s" (decimal_of_n st.s_code) (hex st.s_reason)
    (show_headers st.s_headers) (hex st.s_body) (hex st.s_trailer)

let phase_string = function
  | PRequestLine -> "RequestLine" | PHeaders -> "Headers"
  | PBody n -> "Body(" ^ decimal_of_n n ^ ")"

(* reserve requests along the feed, mirrored from feed (diagnostic column, C07) *)
let run_req (a : string array) : string * string =
  let cfg = cfg_of a.(0) a.(1) a.(2) in
  let ds = deliveries a.(3) in
  let (tr, r) = feed_trace (req_parse uri_parse cfg) req_init [] ds O in
  (* reserve events: replay the protocol with the model's own step function *)
  let reserves =
    let rec go st pending ds acc =
      match ds with
      | [] -> List.rev acc
      | d :: ds' ->
        let buf = pending @ d in
        let acc = match req_reserve cfg st buf with Some x -> decimal_of_n x :: acc | None -> acc in
        (match req_parse uri_parse cfg st buf with
         | (st', Incomplete c) -> go st' (skipn c buf) ds' acc
         | _ -> List.rev acc)
    in go req_init [] ds [] in
  let canon = match r with
    | Done (st, tot, _) ->
      Printf.sprintf "tr=%s;v=C;tot=%d;%s" (show_trace tr) (int_of_nat tot) (req_fields st)
    | NeedMore (st, tot, _) ->
      Printf.sprintf "tr=%s;v=N;tot=%d;%s" (show_trace tr) (int_of_nat tot) (req_fields st)
    | Rejected e -> Printf.sprintf "tr=%s;v=R:%s" (show_trace tr) (err_cat e) in
  let dbg = match r with
    | Done (st, _, _) | NeedMore (st, _, _) ->
      Printf.sprintf "state:%s total_bytes:%s " (phase_string st.r_phase) (decimal_of_n st.r_total)
    | Rejected _ -> "" in
  (canon, Printf.sprintf "reserves=%s;dbg=%s" (String.concat "," reserves) (hex_of_string dbg))

let rec run_resp (a : string array) : string * string = run_resp_from resp_init a
(* resppre <body> <deliveries>: the public body field holds something before the first call *)
and run_resppre (a : string array) : string * string =
  run_resp_from { resp_init with s_body = unhex a.(0) } (Array.sub a 1 (Array.length a - 1))
and run_resp_from (init : resp_state) (a : string array) : string * string =
  let resp_init = init in
  let ds = deliveries a.(0) in
  let (tr, r) = feed_trace resp_parse resp_init [] ds O in
  let reserves =
    let rec go st pending ds acc =
      match ds with
      | [] -> List.rev acc
      | d :: ds' ->
        let buf = pending @ d in
        let acc = match st.s_phase with
          | SChunkedBody cs ->
            List.rev_append (List.map decimal_of_n (chunk_reserves (S (length buf)) cs buf)) acc
          | _ -> acc in
        (match resp_parse st buf with
         | (st', Incomplete c) -> go st' (skipn c buf) ds' acc
         | _ -> List.rev acc)
    in go resp_init [] ds [] in
  let canon = match r with
    | Done (st, tot, _) ->
      Printf.sprintf "tr=%s;v=C;tot=%d;%s" (show_trace tr) (int_of_nat tot) (resp_fields st)
    | NeedMore (st, tot, _) ->
      Printf.sprintf "tr=%s;v=N;tot=%d;%s" (show_trace tr) (int_of_nat tot) (resp_fields st)
    | Rejected e -> Printf.sprintf "tr=%s;v=R:%s" (show_trace tr) (err_cat e) in
  (canon, Printf.sprintf "reserves=%s" (String.concat "," reserves))

let run_dec (a : string array) : string * string =
  let hs = parse_headers ~cp:true a.(0) in
  let body = unhex a.(1) in
  let canon = match decode_body gunzip inflate_raw inflate_zlib hs body with
    | Some (hs', b) -> Printf.sprintf "ok;b=%s;h=%s" (hex b) (show_headers ~cp:true hs')
    | None -> Printf.sprintf "err:BadContentEncoding;h=%s" (show_headers ~cp:true hs) in
  let diag = Printf.sprintf "im=%d;is=%d;ig=%d%s" !inflate_modelled !inflate_skipped !inflate_gaps
      (match !inflate_gap_log with [] -> "" | l -> ";igl=" ^ String.concat "," l) in
  inflate_modelled := 0; inflate_skipped := 0; inflate_gaps := 0; inflate_gap_log := [];
  (canon, diag)

(* decode_body again and again on one headers value: each call starts from the headers the previous one left
   (unchanged after a failure) *)
let run_decchain (a : string array) : string * string =
  let hs = ref (parse_headers ~cp:true a.(0)) in
  let outs = ref [] in
  for i = 1 to Array.length a - 1 do
    let body = unhex a.(i) in
    let canon = match decode_body gunzip inflate_raw inflate_zlib !hs body with
      | Some (hs', b) -> hs := hs'; Printf.sprintf "ok;b=%s;h=%s" (hex b) (show_headers ~cp:true hs')
      | None -> Printf.sprintf "err:BadContentEncoding;h=%s" (show_headers ~cp:true !hs) in
    outs := canon :: !outs
  done;
  inflate_modelled := 0; inflate_skipped := 0; inflate_gaps := 0; inflate_gap_log := [];
  (String.concat "|" (List.rev !outs), "")

let run_decseq (a : string array) : string * string =
  let n = Array.length a / 2 in
  let rs = List.init n (fun i -> run_dec [| a.(2 * i); a.(2 * i + 1) |]) in
  (String.concat "|" (List.map fst rs), match List.rev rs with (_, d) :: _ -> d | [] -> "")

(* model of flate2 against flate2 itself, one stream decoder, one body (tools/fuzz_inflate.py) *)
let run_inf (a : string array) : string * string =
  let body = unhex a.(1) in
  let (name, model) = match a.(0) with
    | "gunzip" -> ("gunzip", gunzip_model) | "zlib" -> ("zlib", inflate_zlib_model)
    | _ -> ("inflate", inflate_raw_model) in
  let o = opt_bytes_answer (ask (name ^ " " ^ hexarg body)) in
  let m = model body in
  let show = function None -> "none" | Some b -> "some:" ^ string_of_int (List.length b) in
  if m = o then ("agree:" ^ show o, "") else ("gap:model=" ^ show m ^ ";lib=" ^ show o, "")

let run_txt (a : string array) : string * string =
  let hs = parse_headers ~cp:true a.(0) in
  let body = unhex a.(1) in
  (* the label table is asked with the NORMALISED label (Model/Coding.v label_norm): if encoding_rs normalised
     differently, model and crate would disagree here *)
  let canon = match decode_text (for_label_of for_label) enc_decode hs body with
    | Some t -> "some;" ^ hex_of_codepoints t
    | None -> "none" in
  (canon, "")

(* how generated bytes are presented when parsed back: whole, cut at the CR|LF of the start line
   ("cr"), or cut at byte k (modulo the length) *)
let split_for (g : bytes) (spec : string option) : bytes list =
  let cut p =
    let rec take n l = if n = 0 then [] else (match l with [] -> [] | x :: t -> x :: take (n - 1) t) in
    let rec drop n l = if n = 0 then l else (match l with [] -> [] | _ :: t -> drop (n - 1) t) in
    [take p g; drop p g] in
  match spec with
  | None | Some "-" | Some "" -> [g]
  | Some "cr" ->
    let rec pos i = function [] -> None | x :: t -> if int_of_n x = 13 then Some i else pos (i + 1) t in
    (match pos 0 g with Some i -> cut (i + 1) | None -> [g])
  | Some k -> cut ((try int_of_string k with _ -> 0) mod (List.length g + 1))

let arg_opt (a : string array) i = if Array.length a > i then Some a.(i) else None

let feed_back_req cfg g spec =
  let (_, r) = feed_trace (req_parse uri_parse cfg) req_init [] (split_for g spec) O in
  match r with
  | Done (st, tot, _) -> Stdlib.Ok ("C", int_of_nat tot, st)
  | NeedMore (st, tot, _) -> Stdlib.Ok ("I", int_of_nat tot, st)
  | Rejected e -> Stdlib.Error ("R:" ^ err_cat e)
let feed_back_resp g spec =
  let (_, r) = feed_trace resp_parse resp_init [] (split_for g spec) O in
  match r with
  | Done (st, tot, _) -> Stdlib.Ok ("C", int_of_nat tot, st)
  | NeedMore (st, tot, _) -> Stdlib.Ok ("I", int_of_nat tot, st)
  | Rejected e -> Stdlib.Error ("R:" ^ err_cat e)

let parse_back_req cfg (g : bytes) spec : string =
  match feed_back_req cfg g spec with
  | Stdlib.Ok (tag, c, st) -> Printf.sprintf "%s%d;%s" tag c (req_fields st)
  | Stdlib.Error v -> v
let parse_back_resp (g : bytes) spec : string =
  match feed_back_resp g spec with
  | Stdlib.Ok (tag, c, st) -> Printf.sprintf "%s%d;%s" tag c (resp_fields st)
  | Stdlib.Error v -> v

(* Request::generate, folding included (Model/Headers.v fold_header); a line limit below 2 makes
   rhymessage compute `limit - 2` (known finding K4): not compared *)
type genres = G of bytes | GErr of string
let gen_of_state cfg (st : uri req_state) : genres =
  let t = match st.r_target with Some u -> u | None -> Lazy.force uri_default in
  match req_generate_full cfg st.r_method (bytes_of_string (fst t)) st.r_headers st.r_body with
  | GOk b -> G b
  | GCannotFold -> GErr "Headers.CouldNotBeFolded"
  | GLimitUnderflow -> GErr "needs-fold"

let run_genreq (a : string array) : string * string =
  let cfg = cfg_of a.(0) a.(1) a.(2) in
  match uri_parse (unhex a.(4)) with
  | None -> ("skip:target", "")
  | Some u ->
    let st0 = { r_phase = PRequestLine; r_method = unhex a.(3); r_target = Some u;
                r_headers = parse_headers ~cp:false a.(5); r_body = unhex a.(6); r_total = N0 } in
    (match gen_of_state cfg st0 with
     | GErr e -> ("generr:" ^ e, "")
     | G g ->
       let back = match feed_back_req cfg g (arg_opt a 7) with
         | Stdlib.Ok (tag, c, st) ->
           let regen = match gen_of_state cfg st with G g2 -> hex g2 | GErr "needs-fold" -> "generr:needs-fold" | GErr e -> "err:" ^ e in
           Printf.sprintf "%s%d;%s;regen=%s" tag c (req_fields st) regen
         | Stdlib.Error v -> v in
       (Printf.sprintf "gen=%s;orig=%s;back=%s" (hex g) (req_fields st0) back, ""))

let run_genresp (a : string array) : string * string =
  let code = n_of_decimal a.(0) in
  let st0 = { s_phase = SStatusLine; s_code = code; s_reason = unhex a.(1);
              s_headers = parse_headers ~cp:false a.(2); s_body = unhex a.(3); s_trailer = [] } in
  let g = resp_generate st0.s_code st0.s_reason st0.s_headers st0.s_body in
  let back = match feed_back_resp g (arg_opt a 4) with
    | Stdlib.Ok (tag, c, st) ->
      Printf.sprintf "%s%d;%s;regen=%s" tag c (resp_fields st)
        (hex (resp_generate st.s_code st.s_reason st.s_headers st.s_body))
    | Stdlib.Error v -> v in
  (Printf.sprintf "gen=%s;orig=%s;back=%s" (hex g) (resp_fields st0) back, "")

let run_rtreq (a : string array) : string * string =
  let cfg = cfg_of a.(0) a.(1) a.(2) in
  let first = match arg_opt a 5 with
    | Some spec when spec <> "-" ->
      (match snd (feed_trace (req_parse uri_parse cfg) req_init [] (deliveries spec) O) with
       | Done (st, _, _) -> (st, Complete O)
       | NeedMore (st, _, _) -> (st, Incomplete O)
       | Rejected e -> (req_init, Reject e))
    | _ -> req_parse uri_parse cfg req_init (unhex a.(3)) in
  match first with
  | (st, Complete _) ->
    (match gen_of_state cfg st with
     | G g -> (Printf.sprintf "first=%s;gen=%s;back=%s" (req_fields st) (hex g) (parse_back_req cfg g (arg_opt a 4)), "")
     | GErr e -> (Printf.sprintf "first=%s;generr:%s" (req_fields st) e, ""))
  | (_, Incomplete _) -> ("notcomplete:I", "")
  | (_, Reject e) -> ("notcomplete:R:" ^ err_cat e, "")

let run_rtresp (a : string array) : string * string =
  let first = match arg_opt a 2 with
    | Some spec when spec <> "-" ->
      (match snd (feed_trace resp_parse resp_init [] (deliveries spec) O) with
       | Done (st, _, _) -> (st, Complete O)
       | NeedMore (st, _, _) -> (st, Incomplete O)
       | Rejected e -> (resp_init, Reject e))
    | _ -> resp_parse resp_init (unhex a.(0)) in
  match first with
  | (st, Complete _) ->
    let g = resp_generate st.s_code st.s_reason st.s_headers st.s_body in
    (Printf.sprintf "first=%s;gen=%s;back=%s" (resp_fields st) (hex g) (parse_back_resp g (arg_opt a 1)), "")
  | (_, Incomplete _) -> ("notcomplete:I", "")
  | (_, Reject e) -> ("notcomplete:R:" ^ err_cat e, "")

let run_pipereq (a : string array) : string * string =
  let cfg = cfg_of a.(0) a.(1) a.(2) in
  let rec go rest k acc =
    if k = 0 then List.rev acc else
    match rest with
    | [] -> List.rev ("end" :: acc)
    | _ ->
      (match req_parse uri_parse cfg req_init rest with
       | (st, Complete c) ->
         go (skipn c rest) (k - 1) (Printf.sprintf "C%d:%s" (int_of_nat c) (req_fields st) :: acc)
       | (_, Incomplete _) -> List.rev ("I" :: acc)
       | (_, Reject e) -> List.rev (("R:" ^ err_cat e) :: acc)) in
  (String.concat "|" (go (unhex a.(3)) 8 []), "")

let run_piperesp (a : string array) : string * string =
  let rec go rest k acc =
    if k = 0 then List.rev acc else
    match rest with
    | [] -> List.rev ("end" :: acc)
    | _ ->
      (match resp_parse resp_init rest with
       | (st, Complete c) ->
         let boundary = int_of_nat c - List.length st.s_trailer in
         let st' = { st with s_trailer = [] } in
         go (skipn (nat_of_int boundary) rest) (k - 1)
           (Printf.sprintf "C%d:%s" boundary (resp_fields st') :: acc)
       | (_, Incomplete _) -> List.rev ("I" :: acc)
       | (_, Reject e) -> List.rev (("R:" ^ err_cat e) :: acc)) in
  (String.concat "|" (go (unhex a.(0)) 8 []), "")

(* one parser value fed two messages in succession (the second only if the first completed) *)
let run_reuse_resp (a : string array) : string * string =
  let rec go st k args acc =
    match args with
    | [] -> List.rev acc
    | arg :: rest ->
      let (tr, r) = feed_trace resp_parse st [] (deliveries arg) O in
      (match r with
       | Rejected e -> List.rev (Printf.sprintf "m%d:tr=%s;v=R:%s" k (show_trace tr) (err_cat e) :: acc)
       | NeedMore (st', tot, _) ->
         List.rev (Printf.sprintf "m%d:tr=%s;v=N;tot=%d;%s" k (show_trace tr) (int_of_nat tot) (resp_fields st') :: acc)
       | Done (st', tot, _) ->
         go st' (k + 1) rest (Printf.sprintf "m%d:tr=%s;v=C;tot=%d;%s" k (show_trace tr) (int_of_nat tot) (resp_fields st') :: acc)) in
  (String.concat "|" (go resp_init 0 [a.(0); a.(1)] []), "")

let run_reuse_req (a : string array) : string * string =
  let cfg = cfg_of a.(0) a.(1) a.(2) in
  let rec go st k args acc =
    match args with
    | [] -> List.rev acc
    | arg :: rest ->
      let (tr, r) = feed_trace (req_parse uri_parse cfg) st [] (deliveries arg) O in
      (match r with
       | Rejected e -> List.rev (Printf.sprintf "m%d:tr=%s;v=R:%s" k (show_trace tr) (err_cat e) :: acc)
       | NeedMore (st', tot, _) ->
         List.rev (Printf.sprintf "m%d:tr=%s;v=N;tot=%d;%s" k (show_trace tr) (int_of_nat tot) (req_fields st') :: acc)
       | Done (st', tot, _) ->
         go st' (k + 1) rest (Printf.sprintf "m%d:tr=%s;v=C;tot=%d;%s" k (show_trace tr) (int_of_nat tot) (req_fields st') :: acc)) in
  (String.concat "|" (go req_init 0 [a.(3); a.(4)] []), "")

let show_opt_n = function None -> "None" | Some x -> "Some(" ^ decimal_of_n x ^ ")"
let run_defaults () =
  (Printf.sprintf "rl=%s;hl=%s;mm=%s" (show_opt_n default_cfg.rl) (show_opt_n default_cfg.hl)
     (show_opt_n default_cfg.mm), "")

let run_case kind (a : string array) =
  match kind with
  | "req" | "reqd" -> run_req a | "resp" | "respd" -> run_resp a | "dec" -> run_dec a | "txt" -> run_txt a
  | "decchain" -> run_decchain a
  | "resppre" -> run_resppre a
  | "genreq" -> run_genreq a | "genresp" -> run_genresp a
  | "rtreq" -> run_rtreq a | "rtresp" -> run_rtresp a
  | "pipereq" -> run_pipereq a | "piperesp" -> run_piperesp a
  | "reuseresp" -> run_reuse_resp a | "reusereq" -> run_reuse_req a
  | "inf" -> run_inf a
  | "decseq" -> run_decseq a
  | "defaults" -> run_defaults ()
  | _ -> ("unknown-kind", "")

let () =
  let harness = Sys.argv.(1) and cases = Sys.argv.(2) and out = Sys.argv.(3) in
  let (ic, oc) = Unix.open_process (Filename.quote harness ^ " oracle") in
  oracle_in := ic; oracle_out := oc;
  let inp = open_in cases and outp = open_out out in
  (try
     while true do
       let line = input_line inp in
       if line <> "" then begin
         match split_on_char_n '\t' line with
         | id :: kind :: args ->
           let (canon, diag) =
             try run_case kind (Array.of_list args)
             with Failure m -> ("MODEL-ERROR:" ^ m, "")
                | Stack_overflow -> ("MODEL-ERROR:stack", "") in
           Printf.fprintf outp "%s\t%s\t%s\n" id canon diag
         | _ -> ()
       end
     done
   with End_of_file -> ());
  close_out outp;
  ignore (Unix.close_process (ic, oc))
