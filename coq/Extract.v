(* Extract.v -- extraction of the executable model for the correspondence driver.
   Only ExtrOcamlBasic's directives (bool, option, unit, prod, list, sumbool ->
   OCaml's own types); nat, positive, N stay the extracted inductive types; no
   Extract Constant of our own: oracles are ordinary function arguments. *)
From Coq Require Extraction ExtrOcamlBasic.
From Http Require Import Model.Bytes Model.Utf8 Model.Num Model.Headers Model.Request
     Model.Chunked Model.Response Model.Coding Model.Inflate Spec.Delivery.

Extraction Language OCaml.
Extraction "../ocaml/model.ml"
  find_crlf utf8_valid utf8_decode utf8_encode parse_dec parse_hex parse_dec_rust
  parse_hex_rust show_dec hdr_parse header_value header_tokens has_header_token
  set_header remove_header hdr_generate
  default_cfg req_init req_parse req_reserve req_generate req_generate_full hdr_generate_full
  chunk_init chunk_decode chunk_reserves
  resp_init resp_parse resp_generate dechunk_headers
  decode_body decode_text for_label_of label_norm w1252_decode content_type_charset zlib_header
  inflate_raw_model inflate_zlib_model gunzip_model crc32 adler32
  feed feed_trace trim lower.
