#!/bin/sh
# Build everything the checks need from files on disk only (offline): the Coq development (full .vo
# build, which also extracts the model), the OCaml driver, the Rust harness in both profiles.
set -e
cd "$(dirname "$0")"
export CARGO_NET_OFFLINE=true RUST_BACKTRACE=0
( cd coq && coq_makefile -f _CoqProject -o Makefile >/dev/null && timeout 3000 make -j16 )
( cd ocaml && ocamlfind ocamlopt -O3 -package unix -linkpkg -w -a model.mli model.ml driver.ml -o driver )
cp /repo/Cargo.lock harness/Cargo.lock
cp /repo/Cargo.lock harness/Cargo.lock.base
( cd harness && cargo build --offline && cargo build --offline --release )
echo setup-ok
