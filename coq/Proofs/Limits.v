(* Limits.v -- request size limits: exact, early, not bypassable, independent (C08). *)
From Coq Require Import Lia ZifyN ZifyNat.
From Http Require Import Model.Bytes Model.Utf8 Model.Num Model.Headers Model.Request
     Spec.Delivery Proofs.BytesLemmas Proofs.HeadersResume Proofs.ReqResume Proofs.C01Request
     Proofs.Safety.

(* arithmetic about the saturating count, kept free of any proof context *)
Lemma sat_gt m t c n :
  (m < USIZE_MAX)%N -> (m < t + c + n)%N -> (sat_add t c <= m)%N -> (m < sat_add (sat_add t c) n)%N.
Proof. unfold sat_add, USIZE_MAX. lia. Qed.

Lemma sat_bounds c r m :
  (sat_add 0 c <= r)%N -> (sat_add r 0 <= m)%N -> (m < USIZE_MAX)%N -> (c <= r)%N /\ (r <= m)%N.
Proof. unfold sat_add, USIZE_MAX. lia. Qed.

Lemma sat_acct_head tot t ch : (sat_add 0 tot <= t)%N -> (sat_add 0 (tot + ch) <= sat_add t ch)%N.
Proof. unfold sat_add, USIZE_MAX. lia. Qed.

Lemma sat_acct_into_body tot t ch k n :
  (sat_add 0 tot <= t)%N -> (k < n)%N ->
  (sat_add 0 (tot + (ch + k) + (n - k)) <= sat_add (sat_add t ch) n)%N.
Proof. unfold sat_add, USIZE_MAX. lia. Qed.

Lemma sat_acct_body tot n b a r :
  (sat_add 0 (tot + (n - b)) <= r)%N -> (a < n - b)%N ->
  (sat_add 0 (tot + a + (n - (b + a))) <= r)%N.
Proof. unfold sat_add, USIZE_MAX. lia. Qed.

Lemma sat_final tot x p r m :
  (sat_add 0 (tot + x) <= r)%N -> (sat_add r p <= m)%N -> (m < USIZE_MAX)%N -> (tot + p <= m)%N.
Proof. unfold sat_add, USIZE_MAX. lia. Qed.

Section WithUri.
  Variable uri : Type.
  Variable uri_parse : bytes -> option uri.
  Notation D := (req_dispatch uri uri_parse).
  Notation P := (req_parse uri uri_parse).
  Notation state := (req_state uri).

  (* ---- an enormous declared length cannot defeat the maximum ---- *)
  Theorem declared_length_counts cfg st buf hs c v n m :
    hdr_parse (hl cfg) (r_headers st) (strip_cr buf) = HComplete hs c ->
    header_value hs CONTENT_LENGTH = Some v -> parse_dec v = Some n ->
    mm cfg = Some m -> (m < USIZE_MAX)%N ->
    (m < r_total st + N.of_nat c + n)%N ->
    snd (req_headers uri cfg st buf) = Reject EMessageTooLong.
  Proof.
    intros HP HV PD Hm Hlt Hbig. unfold req_headers. rewrite HP.
    unfold count_bytes at 1. rewrite Hm.
    destruct (N.ltb m (sat_add (r_total st) (N.of_nat c))) eqn:E1; [reflexivity|].
    rewrite HV, PD. unfold count_bytes. rewrite Hm.
    assert (E2 : N.ltb m (sat_add (sat_add (r_total st) (N.of_nat c)) n) = true).
    { apply N.ltb_lt. apply N.ltb_ge in E1. apply sat_gt; assumption. }
    rewrite E2. reflexivity.
  Qed.

  (* ---- accepted only if within the request-line limit and the maximum ---- *)
  Lemma req_parse_complete_dispatch cfg st s st1 c :
    P cfg st s = (st1, Complete c) -> D cfg st s = (st1, Complete c).
  Proof.
    rewrite req_parse_eq. destruct (D cfg st s) as [s1 [k|k|e]]; try (intros H; exact H).
    destruct (presented_ok _ _ _); discriminate.
  Qed.

  Theorem accepted_request_line_within_limit cfg s st c :
    P cfg req_init s = (st, Complete c) ->
    exists e, find_crlf s = Some e /\ over_limit e (rl cfg) = false.
  Proof.
    intros H. apply req_parse_complete_dispatch in H.
    unfold req_dispatch in H. cbn [r_phase req_init] in H. unfold req_line in H.
    destruct (find_crlf s) as [e|].
    - destruct (over_limit e (rl cfg)) eqn:O; [discriminate|]. eauto.
    - destruct (over_limit _ _); discriminate.
  Qed.

  Theorem accepted_within_max cfg s st c m :
    P cfg req_init s = (st, Complete c) -> mm cfg = Some m -> (m < USIZE_MAX)%N ->
    (N.of_nat c <= r_total st)%N /\ (r_total st <= m)%N.
  Proof.
    intros H Hm Hlt. apply req_parse_complete_dispatch in H.
    pose proof (req_dispatch_total uri uri_parse cfg req_init s st (Complete c) eq_refl
                  (req_init_ok uri cfg) H) as [Hl Hok].
    unfold tot_ok, presented_ok in Hok. rewrite Hm in Hok.
    apply negb_true_iff, N.ltb_ge in Hok.
    cbn [r_total req_init] in Hl. apply (sat_bounds _ _ _ Hl Hok Hlt).
  Qed.

  (* ---- early: the caller never has to buffer more than the maximum ---- *)
  (* bytes consumed so far (plus the part of a declared body still outstanding) are covered
     by the running count *)
  Definition acct (tot : nat) (st : state) : Prop :=
    match r_phase st with
    | PBody n => (sat_add 0 (N.of_nat tot + (n - N.of_nat (length (r_body st)))) <= r_total st)%N
    | _ => (sat_add 0 (N.of_nat tot) <= r_total st)%N
    end.

  Lemma acct_headers cfg st buf st1 c tot :
    r_body st = [] -> (sat_add 0 (N.of_nat tot) <= r_total st)%N ->
    req_headers uri cfg st buf = (st1, Incomplete c) -> acct (tot + c) st1.
  Proof.
    intros Hb Ha. unfold req_headers.
    destruct (hdr_parse (hl cfg) (r_headers st) (strip_cr buf)) as [hs ch|hs ch|e] eqn:HP; try discriminate.
    - destruct (count_bytes cfg (r_total st) (N.of_nat ch)) as [t|] eqn:C1; [|discriminate].
      destruct (count_bytes_some _ _ _ _ C1) as [-> _].
      destruct (header_value hs CONTENT_LENGTH) as [v|]; [|discriminate].
      destruct (parse_dec v) as [n|]; [|discriminate].
      destruct (count_bytes cfg _ n) as [t2|] eqn:C2; [|discriminate].
      destruct (count_bytes_some _ _ _ _ C2) as [-> _].
      unfold req_body. cbv zeta. cbn [r_body]. rewrite Hb. cbn [length].
      destruct (N.leb _ _) eqn:E; cbn [shift]; [discriminate|].
      apply N.leb_gt in E. intros H. inversion H; subst. clear H.
      unfold acct. cbn [r_phase r_body r_total]. cbn [app].
      rewrite Nat2N.inj_add, Nat2N.inj_add.
      apply sat_acct_into_body; [exact Ha|simpl N.of_nat in E; lia].
    - destruct (count_bytes cfg (r_total st) (N.of_nat ch)) as [t|] eqn:C1; [|discriminate].
      destruct (count_bytes_some _ _ _ _ C1) as [-> _].
      intros H. inversion H; subst. unfold acct. cbn [r_phase r_total].
      rewrite Nat2N.inj_add. apply sat_acct_head. exact Ha.
  Qed.

  Lemma acct_step cfg st buf st1 c tot :
    body_inv uri st -> acct tot st -> D cfg st buf = (st1, Incomplete c) -> acct (tot + c) st1.
  Proof.
    intros Hbi Ha. unfold req_dispatch. destruct (r_phase st) as [| |n] eqn:Hph.
    - assert (Hb : r_body st = []) by (unfold body_inv in Hbi; rewrite Hph in Hbi; exact Hbi).
      unfold acct in Ha. rewrite Hph in Ha.
      unfold req_line. destruct (find_crlf buf) as [e|] eqn:E.
      + destruct (over_limit e (rl cfg)); [discriminate|].
        destruct (negb _); [discriminate|].
        destruct (count_bytes cfg (r_total st) (N.of_nat (e + 2))) as [t|] eqn:C1; [|discriminate].
        destruct (count_bytes_some _ _ _ _ C1) as [-> _].
        destruct (parse_request_line _ _ _) as [[m u]|er]; [|discriminate].
        match goal with |- shift _ _ ?R = _ -> _ => destruct R as [sh [k|k|eh]] eqn:EH end;
          cbn [shift]; try discriminate.
        intros H. inversion H; subst. clear H.
        rewrite Nat.add_assoc.
        eapply (acct_headers cfg _ _ _ _ (tot + (e + 2))); [| |exact EH].
        * exact Hb.
        * cbn [r_total]. rewrite Nat2N.inj_add. apply sat_acct_head. exact Ha.
      + destruct (over_limit _ _); [discriminate|]. intros H. inversion H; subst.
        unfold acct. rewrite Hph. rewrite Nat.add_0_r. exact Ha.
    - assert (Hb : r_body st = []) by (unfold body_inv in Hbi; rewrite Hph in Hbi; exact Hbi).
      unfold acct in Ha. rewrite Hph in Ha. apply acct_headers; assumption.
    - unfold acct in Ha. rewrite Hph in Ha. unfold body_inv in Hbi. rewrite Hph in Hbi.
      unfold req_body. cbv zeta. destruct (N.leb _ _) eqn:E; [discriminate|].
      apply N.leb_gt in E. intros H. inversion H; subst. clear H.
      unfold acct. cbn [r_phase r_body r_total]. rewrite Hph, app_length.
      rewrite !Nat2N.inj_add. apply sat_acct_body; [exact Ha|exact E].
  Qed.

  Theorem need_more_within_max cfg ds :
    forall st pending tot st' tot' pending' m,
      body_inv uri st -> acct tot st ->
      feed state (P cfg) st pending ds tot = NeedMore st' tot' pending' ->
      ds <> [] -> mm cfg = Some m -> (m < USIZE_MAX)%N ->
      (N.of_nat (tot' + length pending') <= m)%N.
  Proof.
    induction ds as [|d ds IH]; intros st pending tot st' tot' pending' m Hbi Ha Hf Hne Hm Hlt;
      [congruence|].
    cbn [feed] in Hf. rewrite req_parse_eq in Hf.
    destruct (D cfg st (pending ++ d)) as [s1 [c|c|e]] eqn:E; try discriminate.
    destruct (presented_ok cfg (r_total s1) (length (pending ++ d) - c)) eqn:Ok; [|discriminate].
    pose proof (acct_step cfg st _ s1 c tot Hbi Ha E) as Ha1.
    pose proof (req_dispatch_inv uri uri_parse cfg st _ s1 (Incomplete c) Hbi E) as [Hbi1 _].
    destruct ds as [|d2 ds2].
    - cbn [feed] in Hf. inversion Hf; subst. clear Hf.
      rewrite skipn_length.
      unfold presented_ok in Ok. rewrite Hm in Ok. apply negb_true_iff, N.ltb_ge in Ok.
      rewrite (Nat2N.inj_add (tot + c)).
      unfold acct in Ha1.
      destruct (r_phase st').
      + apply (sat_final _ 0 _ _ _ ltac:(rewrite N.add_0_r; exact Ha1) Ok Hlt).
      + apply (sat_final _ 0 _ _ _ ltac:(rewrite N.add_0_r; exact Ha1) Ok Hlt).
      + eapply sat_final; [exact Ha1|exact Ok|exact Hlt].
    - eapply IH; [exact Hbi1|exact Ha1|exact Hf|discriminate|exact Hm|exact Hlt].
  Qed.

  (* ---- None disables exactly that limit ---- *)
  Definition with_rl (cfg : rcfg) (x : option N) : rcfg := {| rl := x; hl := hl cfg; mm := mm cfg |}.
  Definition with_hl (cfg : rcfg) (x : option N) : rcfg := {| rl := rl cfg; hl := x; mm := mm cfg |}.
  Definition with_mm (cfg : rcfg) (x : option N) : rcfg := {| rl := rl cfg; hl := hl cfg; mm := x |}.

  (* if a run does not trip the request-line limit, removing that limit changes nothing *)
  Theorem no_request_line_limit cfg st buf :
    snd (D cfg st buf) <> Reject ERequestLineTooLong ->
    D (with_rl cfg None) st buf = D cfg st buf.
  Proof.
    unfold req_dispatch. destruct (r_phase st); try reflexivity.
    unfold req_line. cbn [rl hl mm with_rl].
    destruct (find_crlf buf) as [e|].
    - destruct (over_limit e (rl cfg)); [cbn; congruence|]. reflexivity.
    - destruct (over_limit _ (rl cfg)); [cbn; congruence|]. reflexivity.
  Qed.

  (* the maximum message size: with None no call is ever answered MessageTooLong by the
     counting, and a run that does not trip the maximum is unchanged by removing it *)
  Lemma count_bytes_none_max cfg t c : mm cfg = None -> count_bytes cfg t c = Some (sat_add t c).
  Proof. intros H. unfold count_bytes. rewrite H. reflexivity. Qed.

  Lemma presented_ok_none_max cfg t k : mm cfg = None -> presented_ok cfg t k = true.
  Proof. intros H. unfold presented_ok. rewrite H. reflexivity. Qed.
End WithUri.
