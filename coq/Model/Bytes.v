(* Bytes.v -- bytes, searching, classification, trimming, ASCII case.
   Executable definitions only; lemmas live under Proofs/. *)
From Coq Require Export List NArith Arith Bool.
Export ListNotations.

Definition byte := N.
Definition bytes := list N.

Definition CR : N := 13%N.
Definition LF : N := 10%N.
Definition SP : N := 32%N.
Definition HT : N := 9%N.
Definition COLON : N := 58%N.
Definition SEMI : N := 59%N.
Definition COMMA : N := 44%N.
Definition PLUS : N := 43%N.
Definition SLASH : N := 47%N.
Definition EQUALS : N := 61%N.
Definition CRLF : bytes := [CR; LF].

(* rhymuweb::find_crlf / rhymessage::find_crlf: index of the first CR LF pair *)
Fixpoint find_crlf (s : bytes) : option nat :=
  match s with
  | a :: ((b :: _) as t) =>
      if (N.eqb a CR && N.eqb b LF)%bool then Some 0
      else option_map S (find_crlf t)
  | _ => None
  end.

(* str::find(c) for an ASCII delimiter, on bytes *)
Fixpoint find_byte (c : N) (s : bytes) : option nat :=
  match s with
  | [] => None
  | a :: t => if N.eqb a c then Some 0 else option_map S (find_byte c t)
  end.

Fixpoint bytes_eqb (a b : bytes) : bool :=
  match a, b with
  | [], [] => true
  | x :: a', y :: b' => N.eqb x y && bytes_eqb a' b'
  | _, _ => false
  end.

Definition between (lo hi b : N) : bool := (N.leb lo b && N.leb b hi)%bool.

(* char::is_ascii_graphic *)
Definition is_graphic (b : N) : bool := between 33 126 b.
(* rhymessage validate_header_value: HT, SP or graphic *)
Definition is_vchar (b : N) : bool := (N.eqb b HT || N.eqb b SP || is_graphic b)%bool.
(* rhymessage WSP *)
Definition is_wsp (b : N) : bool := (N.eqb b SP || N.eqb b HT)%bool.

(* char::is_whitespace (Unicode White_Space), on code points *)
Definition is_ws (c : N) : bool :=
  (between 9 13 c || N.eqb c 32 || N.eqb c 133 || N.eqb c 160 || N.eqb c 5760
   || between 8192 8202 c || N.eqb c 8232 || N.eqb c 8233 || N.eqb c 8239
   || N.eqb c 8287 || N.eqb c 12288)%bool.

Fixpoint drop_while (p : N -> bool) (s : bytes) : bytes :=
  match s with
  | [] => []
  | a :: t => if p a then drop_while p t else s
  end.

Definition trim_start (s : bytes) : bytes := drop_while is_ws s.
Definition trim_end (s : bytes) : bytes := rev (drop_while is_ws (rev s)).
(* str::trim *)
Definition trim (s : bytes) : bytes := trim_end (trim_start s).

(* u8/char::to_ascii_lowercase *)
Definition to_lower (b : N) : N := if between 65 90 b then (b + 32)%N else b.
Definition lower (s : bytes) : bytes := map to_lower s.
(* str::eq_ignore_ascii_case *)
Definition eq_ignore_case (a b : bytes) : bool := bytes_eqb (lower a) (lower b).

(* split on a delimiter: always at least one piece *)
Fixpoint split_on (c : N) (s : bytes) : list bytes :=
  match s with
  | [] => [[]]
  | a :: t =>
      if N.eqb a c then [] :: split_on c t
      else match split_on c t with
           | p :: ps => (a :: p) :: ps
           | [] => [[a]]            (* unreachable *)
           end
  end.

Fixpoint drop_last_empty (l : list bytes) : list bytes :=
  match l with
  | [] => []
  | [[]] => []
  | p :: ps => p :: drop_last_empty ps
  end.

(* str::split_terminator(c) *)
Definition split_terminator (c : N) (s : bytes) : list bytes :=
  drop_last_empty (split_on c s).

Fixpoint join (sep : bytes) (l : list bytes) : bytes :=
  match l with
  | [] => []
  | [p] => p
  | p :: ps => p ++ sep ++ join sep ps
  end.

(* ASCII string literal helper: list of character codes *)
Require Import Ascii String.
Fixpoint str (s : string) : bytes :=
  match s with
  | EmptyString => []
  | String a t => N_of_ascii a :: str t
  end.
