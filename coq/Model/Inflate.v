(* Inflate.v -- executable model of what rhymuweb::coding hands to flate2 1.1.10 /
   miniz_oxide 0.9.1: the raw DEFLATE decoder (RFC 1951), the zlib container (RFC 1950,
   Adler-32) and the gzip container (RFC 1952, CRC-32, ISIZE), as `read_to_end` over a
   byte slice sees them: the whole input is available, output is unbounded, the decoder
   stops at the end of the first stream/member and ignores what follows.

   The input state is (cur, rest): the bits of the current byte not yet used (LSB first)
   and the bytes not yet fetched.  A byte is fetched only when one of its bits is needed,
   so "the bytes the decoder needed" is exactly the fetched prefix of `rest`.

   Acceptance rules follow miniz_oxide (inflate/core.rs):
   - Huffman tables: over-subscribed lengths are rejected; an incomplete set is rejected
     for the code-length code always and for the other two tables unless the longest
     code has at most one bit; an unassigned bit pattern met while decoding is an error;
   - a match distance may reach back before the start of the output (the 32 KiB window
     is zero-filled): it reads zeros  [streaming mode; zlib proper rejects this];
   - HLIT <= 286, HDIST <= 30; repeat-previous as the first length code is an error;
     a repeat running past HLIT+HDIST is an error; stored LEN must equal ~NLEN.
   Executable definitions only; lemmas live under Proofs/. *)
From Coq Require Import List NArith Arith Bool.
From Http Require Import Model.Bytes.
Import ListNotations.

(* ---------------------------------------------------------------- input state *)

Definition istate : Type := (list bool * bytes)%type.

Inductive res (A : Type) : Type :=
| Ok (a : A) (s : istate)
| Eof                        (* input ended where more was needed (or fuel ran out) *)
| Bad.                       (* the stream is malformed *)
Arguments Ok {A} a s.
Arguments Eof {A}.
Arguments Bad {A}.

Fixpoint byte_bits_aux (n : nat) (b : N) : list bool :=
  match n with
  | 0 => []
  | S n' => N.odd b :: byte_bits_aux n' (N.div2 b)
  end.
Definition byte_bits (b : N) : list bool := byte_bits_aux 8 b.

Definition getbit (s : istate) : res bool :=
  match s with
  | (b :: cur, rest) => Ok b (cur, rest)
  | ([], []) => Eof
  | ([], byte :: rest) =>
      match byte_bits byte with
      | b :: cur => Ok b (cur, rest)
      | [] => Bad
      end
  end.

Definition bit_val (b : bool) : N := if b then 1%N else 0%N.

(* n bits, least significant first *)
Fixpoint getbits (n : nat) (s : istate) : res N :=
  match n with
  | 0 => Ok 0%N s
  | S n' =>
      match getbit s with
      | Ok b s1 =>
          match getbits n' s1 with
          | Ok v s2 => Ok (bit_val b + 2 * v)%N s2
          | Eof => Eof
          | Bad => Bad
          end
      | Eof => Eof
      | Bad => Bad
      end
  end.

(* pad_to_bytes: forget the rest of the current byte *)
Definition align (s : istate) : istate := ([], snd s).

(* one whole byte; only used on an aligned state *)
Definition getbyte (s : istate) : res N :=
  match s with
  | ([], b :: rest) => Ok b ([], rest)
  | ([], []) => Eof
  | (_ :: _, _) => getbits 8 s
  end.

(* n whole bytes pushed (most recent first) onto out; aligned state *)
Fixpoint take_bytes (n : nat) (out : bytes) (s : istate) : res bytes :=
  match n with
  | 0 => Ok out s
  | S n' =>
      match getbyte s with
      | Ok b s1 => take_bytes n' (b :: out) s1
      | Eof => Eof
      | Bad => Bad
      end
  end.

(* ---------------------------------------------------------------- Huffman tables *)

(* a table: for each code length 1..15 the number of symbols of that length, and the
   symbols ordered by (length, symbol value): the canonical code of RFC 1951 3.2.2 *)
Record htable : Type := { h_counts : list N; h_syms : list nat }.

Fixpoint count_len (l : N) (lens : list N) : N :=
  match lens with
  | [] => 0%N
  | x :: t => ((if N.eqb x l then 1 else 0) + count_len l t)%N
  end.

Fixpoint syms_with (l : N) (i : nat) (lens : list N) : list nat :=
  match lens with
  | [] => []
  | x :: t => if N.eqb x l then i :: syms_with l (S i) t else syms_with l (S i) t
  end.

Definition LENGTHS : list N := [1; 2; 3; 4; 5; 6; 7; 8; 9; 10; 11; 12; 13; 14; 15]%N.

Definition mk_table (lens : list N) : htable :=
  {| h_counts := map (fun l => count_len l lens) LENGTHS;
     h_syms := flat_map (fun l => syms_with l 0 lens) LENGTHS |}.

(* init_tree's checks.  `left` is the number of unassigned codes at the current length
   (zlib's inftrees.c); None = over-subscribed; Some 0 = complete *)
Fixpoint kraft_left (lft : N) (counts : list N) : option N :=
  match counts with
  | [] => Some lft
  | c :: cs =>
      if N.ltb (2 * lft) c then None else kraft_left (2 * lft - c)%N cs
  end.

Fixpoint max_len_aux (i : N) (counts : list N) (acc : N) : N :=
  match counts with
  | [] => acc
  | c :: cs => max_len_aux (i + 1)%N cs (if N.eqb c 0 then acc else i)
  end.
Definition max_code_len (counts : list N) : N := max_len_aux 1%N counts 0%N.

(* is_hufflen: the code-length code must be complete *)
Definition table_ok (is_hufflen : bool) (t : htable) : bool :=
  match kraft_left 1%N (h_counts t) with
  | None => false
  | Some lft =>
      N.eqb lft 0 || (negb is_hufflen && N.leb (max_code_len (h_counts t)) 1)
  end.

(* canonical decoding, one bit at a time: `code` is the value read so far, `first` the
   first code of the current length, `index` the number of symbols of shorter lengths *)
Fixpoint dec_sym_loop (counts : list N) (syms : list nat) (code first index : N)
         (s : istate) : res nat :=
  match counts with
  | [] => Bad
  | c :: cs =>
      match getbit s with
      | Ok b s1 =>
          let code := (2 * code + bit_val b)%N in
          if (N.leb first code && N.ltb code (first + c))%bool
          then match nth_error syms (N.to_nat (index + (code - first))) with
               | Some sym => Ok sym s1
               | None => Bad
               end
          else dec_sym_loop cs syms code (2 * (first + c))%N (index + c)%N s1
      | Eof => Eof
      | Bad => Bad
      end
  end.

Definition dec_sym (t : htable) (s : istate) : res nat :=
  dec_sym_loop (h_counts t) (h_syms t) 0%N 0%N 0%N s.

(* ---------------------------------------------------------------- constants *)

Definition LENGTH_BASE : list N :=
  [3; 4; 5; 6; 7; 8; 9; 10; 11; 13; 15; 17; 19; 23; 27; 31; 35; 43; 51; 59; 67; 83; 99;
   115; 131; 163; 195; 227; 258]%N.
Definition LENGTH_EXTRA : list nat :=
  [0; 0; 0; 0; 0; 0; 0; 0; 1; 1; 1; 1; 2; 2; 2; 2; 3; 3; 3; 3; 4; 4; 4; 4; 5; 5; 5; 5; 0].
Definition DIST_BASE : list N :=
  [1; 2; 3; 4; 5; 7; 9; 13; 17; 25; 33; 49; 65; 97; 129; 193; 257; 385; 513; 769; 1025;
   1537; 2049; 3073; 4097; 6145; 8193; 12289; 16385; 24577]%N.
Definition DIST_EXTRA : list nat :=
  [0; 0; 0; 0; 1; 1; 2; 2; 3; 3; 4; 4; 5; 5; 6; 6; 7; 7; 8; 8; 9; 9; 10; 10; 11; 11; 12;
   12; 13; 13].
Definition HUFFLEN_ORDER : list nat :=
  [16; 17; 18; 0; 8; 7; 9; 6; 10; 5; 11; 4; 12; 3; 13; 2; 14; 1; 15].

Definition fixed_lit_lens : list N :=
  repeat 8%N 144 ++ repeat 9%N 112 ++ repeat 7%N 24 ++ repeat 8%N 8.
Definition fixed_dist_lens : list N := repeat 5%N 32.
Definition fixed_lit : htable := mk_table fixed_lit_lens.
Definition fixed_dist : htable := mk_table fixed_dist_lens.

(* ---------------------------------------------------------------- LZ77 output *)

(* out is the output so far, most recent byte first; before its start lie zeros *)
Fixpoint copy_match (len : nat) (d : nat) (out : bytes) : bytes :=
  match len with
  | 0 => out
  | S len' => copy_match len' d (nth (pred d) out 0%N :: out)
  end.

(* the same, one traversal per match when the match does not overlap itself *)
Definition copy_match_fast (len d : nat) (out : bytes) : bytes :=
  if Nat.leb len d
  then
    let older := skipn (d - len) out in
    let got := firstn len older in
    (* positions before the start of the output read as zero; they are the *oldest*,
       i.e. they come last in most-recent-first order *)
    got ++ repeat 0%N (len - length got) ++ out
  else copy_match len d out.

(* the symbols of one compressed block *)
Fixpoint codes (fuel : nat) (lit dist : htable) (out : bytes) (s : istate) : res bytes :=
  match fuel with
  | 0 => Eof
  | S f =>
      match dec_sym lit s with
      | Ok sym s1 =>
          if Nat.ltb sym 256 then codes f lit dist (N.of_nat sym :: out) s1
          else if Nat.eqb sym 256 then Ok out s1
          else if Nat.ltb 285 sym then Bad
          else
            match getbits (nth (sym - 257) LENGTH_EXTRA 0) s1 with
            | Ok e s2 =>
                let len := (nth (sym - 257) LENGTH_BASE 0 + e)%N in
                match dec_sym dist s2 with
                | Ok dsym s3 =>
                    if Nat.ltb 29 dsym then Bad
                    else
                      match getbits (nth dsym DIST_EXTRA 0) s3 with
                      | Ok e2 s4 =>
                          let d := (nth dsym DIST_BASE 0 + e2)%N in
                          codes f lit dist
                                (copy_match_fast (N.to_nat len) (N.to_nat d) out) s4
                      | Eof => Eof
                      | Bad => Bad
                      end
                | Eof => Eof
                | Bad => Bad
                end
            | Eof => Eof
            | Bad => Bad
            end
      | Eof => Eof
      | Bad => Bad
      end
  end.

(* ---------------------------------------------------------------- dynamic header *)

(* HCLEN 3-bit lengths, in HUFFLEN_ORDER; result: 19 lengths indexed by symbol *)
Fixpoint set_nth {A} (i : nat) (v : A) (l : list A) : list A :=
  match l, i with
  | [], _ => []
  | _ :: t, 0 => v :: t
  | x :: t, S i' => x :: set_nth i' v t
  end.

Fixpoint read_hufflens (order : list nat) (n : nat) (acc : list N) (s : istate)
  : res (list N) :=
  match n with
  | 0 => Ok acc s
  | S n' =>
      match order with
      | [] => Bad
      | o :: order' =>
          match getbits 3 s with
          | Ok v s1 => read_hufflens order' n' (set_nth o v acc) s1
          | Eof => Eof
          | Bad => Bad
          end
      end
  end.

(* the HLIT+HDIST code lengths, most recent first in acc; total = how many are wanted *)
Fixpoint read_lens (fuel : nat) (hl : htable) (total : nat) (acc : list N) (s : istate)
  : res (list N) :=
  match fuel with
  | 0 => Eof
  | S f =>
      if Nat.ltb (length acc) total then
        match dec_sym hl s with
        | Ok sym s1 =>
            if Nat.ltb sym 16 then read_lens f hl total (N.of_nat sym :: acc) s1
            else if Nat.eqb sym 16 then
              match acc with
              | [] => Bad
              | prev :: _ =>
                  match getbits 2 s1 with
                  | Ok e s2 => read_lens f hl total (repeat prev (3 + N.to_nat e) ++ acc) s2
                  | Eof => Eof
                  | Bad => Bad
                  end
              end
            else if Nat.eqb sym 17 then
              match getbits 3 s1 with
              | Ok e s2 => read_lens f hl total (repeat 0%N (3 + N.to_nat e) ++ acc) s2
              | Eof => Eof
              | Bad => Bad
              end
            else if Nat.eqb sym 18 then
              match getbits 7 s1 with
              | Ok e s2 => read_lens f hl total (repeat 0%N (11 + N.to_nat e) ++ acc) s2
              | Eof => Eof
              | Bad => Bad
              end
            else Bad
        | Eof => Eof
        | Bad => Bad
        end
      else if Nat.eqb (length acc) total then Ok (rev acc) s
      else Bad
  end.

Definition dynamic_tables (s : istate) : res (htable * htable) :=
  match getbits 5 s with
  | Ok hlit s1 =>
    match getbits 5 s1 with
    | Ok hdist s2 =>
      match getbits 4 s2 with
      | Ok hclen s3 =>
          let nlit := (N.to_nat hlit + 257) in
          let ndist := (N.to_nat hdist + 1) in
          if (Nat.ltb 286 nlit || Nat.ltb 30 ndist)%bool then Bad
          else
            match read_hufflens HUFFLEN_ORDER (N.to_nat hclen + 4) (repeat 0%N 19) s3 with
            | Ok hlens s4 =>
                let hl := mk_table hlens in
                if negb (table_ok true hl) then Bad
                else
                  match read_lens (nlit + ndist + 1) hl (nlit + ndist) [] s4 with
                  | Ok lens s5 =>
                      let dist := mk_table (skipn nlit lens) in
                      let lit := mk_table (firstn nlit lens) in
                      (* miniz builds the distance table first *)
                      if negb (table_ok false dist) then Bad
                      else if negb (table_ok false lit) then Bad
                      else Ok (lit, dist) s5
                  | Eof => Eof
                  | Bad => Bad
                  end
            | Eof => Eof
            | Bad => Bad
            end
      | Eof => Eof
      | Bad => Bad
      end
    | Eof => Eof
    | Bad => Bad
    end
  | Eof => Eof
  | Bad => Bad
  end.

(* ---------------------------------------------------------------- blocks *)

Definition stored_block (out : bytes) (s : istate) : res bytes :=
  let s0 := align s in
  match getbyte s0 with
  | Ok l0 s1 =>
    match getbyte s1 with
    | Ok l1 s2 =>
      match getbyte s2 with
      | Ok n0 s3 =>
        match getbyte s3 with
        | Ok n1 s4 =>
            let len := (l0 + 256 * l1)%N in
            let nlen := (n0 + 256 * n1)%N in
            if N.eqb (len + nlen) 65535 then take_bytes (N.to_nat len) out s4 else Bad
        | Eof => Eof
        | Bad => Bad
        end
      | Eof => Eof
      | Bad => Bad
      end
    | Eof => Eof
    | Bad => Bad
    end
  | Eof => Eof
  | Bad => Bad
  end.

(* fuel bounds the number of blocks and, within a block, the number of symbols *)
Fixpoint blocks (fuel : nat) (out : bytes) (s : istate) : res bytes :=
  match fuel with
  | 0 => Eof
  | S f =>
      match getbits 3 s with
      | Ok hdr s1 =>
          let final := N.odd hdr in
          let r :=
            match N.div2 hdr with
            | 0%N => stored_block out s1
            | 1%N => codes fuel fixed_lit fixed_dist out s1
            | 2%N =>
                match dynamic_tables s1 with
                | Ok (lit, dist) s2 => codes fuel lit dist out s2
                | Eof => Eof
                | Bad => Bad
                end
            | _ => Bad
            end in
          match r with
          | Ok out' s' => if final then Ok out' (align s') else blocks f out' s'
          | Eof => Eof
          | Bad => Bad
          end
      | Eof => Eof
      | Bad => Bad
      end
  end.

(* raw DEFLATE: the output and the bytes that follow the stream *)
Definition inflate_fuel (fuel : nat) (b : bytes) : res bytes :=
  match blocks fuel [] ([], b) with
  | Ok out s => Ok (rev_append out []) s
  | Eof => Eof
  | Bad => Bad
  end.

(* every symbol and every block uses at least one bit *)
Definition fuel_for (b : bytes) : nat := 8 * length b + 8.

Definition to_option {A} (r : res A) : option A :=
  match r with Ok a _ => Some a | _ => None end.

(* flate2::bufread::DeflateDecoder::read_to_end *)
Definition inflate_raw_model (b : bytes) : option bytes := to_option (inflate_fuel (fuel_for b) b).

(* ---------------------------------------------------------------- checksums *)

Definition be32 (b : bytes) : N :=
  match b with
  | [a; b; c; d] => (((a * 256 + b) * 256 + c) * 256 + d)%N
  | _ => 0%N
  end.
Definition le32 (b : bytes) : N :=
  match b with
  | [a; b; c; d] => (a + 256 * (b + 256 * (c + 256 * d)))%N
  | _ => 0%N
  end.
Definition le16 (b : bytes) : N :=
  match b with
  | [a; b] => (a + 256 * b)%N
  | _ => 0%N
  end.

(* Adler-32 (RFC 1950): two sums modulo 65521 *)
Fixpoint adler_loop (a b : N) (d : bytes) : N :=
  match d with
  | [] => (b * 65536 + a)%N
  | x :: t => let a' := ((a + x) mod 65521)%N in adler_loop a' ((b + a') mod 65521)%N t
  end.
Definition adler32 (d : bytes) : N := adler_loop 1%N 0%N d.

(* CRC-32 (RFC 1952), bit by bit, reflected polynomial EDB88320 *)
Definition CRC_POLY : N := 3988292384%N.
Fixpoint crc_shift (n : nat) (c : N) : N :=
  match n with
  | 0 => c
  | S n' => crc_shift n' (if N.odd c then N.lxor (N.div2 c) CRC_POLY else N.div2 c)
  end.
Fixpoint crc_loop (c : N) (d : bytes) : N :=
  match d with
  | [] => c
  | x :: t => crc_loop (crc_shift 8 (N.lxor c x)) t
  end.
Definition MASK32 : N := 4294967295%N.
Definition crc32 (d : bytes) : N := N.lxor (crc_loop MASK32 d) MASK32.

(* ---------------------------------------------------------------- zlib *)

Definition has_prefix_len (n : nat) (b : bytes) : bool := Nat.leb n (length b).

(* flate2::bufread::ZlibDecoder::read_to_end.  miniz_oxide re-validates the two header
   bytes (same test as Model.Coding.zlib_header, which the crate applied first) *)
Definition zlib_header_ok (cmf flg : N) : bool :=
  (N.eqb ((cmf * 256 + flg) mod 31) 0 && N.eqb ((flg / 32) mod 2) 0
   && N.eqb (cmf mod 16) 8 && N.leb (cmf / 16) 7)%bool.

Definition inflate_zlib_fuel (fuel : nat) (b : bytes) : res bytes :=
  match b with
  | cmf :: flg :: body =>
      if zlib_header_ok cmf flg then
        match inflate_fuel fuel body with
        | Ok out (cur, rest) =>
            if has_prefix_len 4 rest then
              if N.eqb (be32 (firstn 4 rest)) (adler32 out) then Ok out (cur, skipn 4 rest)
              else Bad
            else Eof
        | Eof => Eof
        | Bad => Bad
        end
      else Bad
  | _ => Eof
  end.
Definition inflate_zlib_model (b : bytes) : option bytes :=
  to_option (inflate_zlib_fuel (fuel_for b) b).

(* ---------------------------------------------------------------- gzip *)

(* header parsing works on whole bytes: Ok tt ([], rest) *)
Definition hok (rest : bytes) : res unit := Ok tt ([], rest).

(* read_to_nul: skip to just after the first NUL; flate2 limits the field to 65535 bytes *)
Fixpoint skip_to_nul (n : nat) (b : bytes) : res unit :=
  match b with
  | [] => Eof
  | x :: t =>
      if N.eqb x 0 then hok t
      else match n with
           | 0 => Bad
           | S n' => skip_to_nul n' t
           end
  end.

Definition FHCRC : N := 2%N.
Definition FEXTRA : N := 4%N.
Definition FNAME : N := 8%N.
Definition FCOMMENT : N := 16%N.

Definition flag_set (flags bit : N) : bool := negb (N.eqb (N.land flags bit) 0).

Definition gz_extra (flags : N) (r : bytes) : res unit :=
  if flag_set flags FEXTRA then
    if negb (has_prefix_len 2 r) then Eof
    else let xlen := N.to_nat (le16 (firstn 2 r)) in
         if negb (has_prefix_len xlen (skipn 2 r)) then Eof
         else hok (skipn xlen (skipn 2 r))
  else hok r.

Definition gz_string (flags bit : N) (r : bytes) : res unit :=
  if flag_set flags bit then skip_to_nul (N.to_nat 65535) r else hok r.

Definition gz_hcrc (flags : N) (b r : bytes) : res unit :=
  if flag_set flags FHCRC then
    if negb (has_prefix_len 2 r) then Eof
    else
      let hdr := firstn (length b - length r) b in
      if N.eqb (le16 (firstn 2 r)) (crc32 hdr mod 65536) then hok (skipn 2 r) else Bad
  else hok r.

(* GzHeaderParser::parse: leaves the bytes after the member header *)
Definition gzip_header (b : bytes) : res unit :=
  if negb (has_prefix_len 10 b) then Eof
  else
    let flags := nth 3 b 0%N in
    if negb (N.eqb (nth 0 b 0%N) 31 && N.eqb (nth 1 b 0%N) 139 && N.eqb (nth 2 b 0%N) 8
             && N.ltb flags 32)%bool then Bad
    else
      match gz_extra flags (skipn 10 b) with
      | Ok _ (_, r1) =>
        match gz_string flags FNAME r1 with
        | Ok _ (_, r2) =>
          match gz_string flags FCOMMENT r2 with
          | Ok _ (_, r3) => gz_hcrc flags b r3
          | Eof => Eof
          | Bad => Bad
          end
        | Eof => Eof
        | Bad => Bad
        end
      | Eof => Eof
      | Bad => Bad
      end.

(* flate2::bufread::GzDecoder::read_to_end (single member) *)
Definition gunzip_fuel (fuel : nat) (b : bytes) : res bytes :=
  match gzip_header b with
  | Ok _ (_, body) =>
      match inflate_fuel fuel body with
      | Ok out (cur, rest) =>
          if has_prefix_len 8 rest then
            if (N.eqb (le32 (firstn 4 rest)) (crc32 out)
                && N.eqb (le32 (firstn 4 (skipn 4 rest))) (N.of_nat (length out) mod 4294967296))%bool
            then Ok out (cur, skipn 8 rest)
            else Bad
          else Eof
      | Eof => Eof
      | Bad => Bad
      end
  | Eof => Eof
  | Bad => Bad
  end.
Definition gunzip_model (b : bytes) : option bytes := to_option (gunzip_fuel (fuel_for b) b).
