(* RespGrammar.v -- Response::parse reports Complete exactly on the response grammar, with
   the framing order Content-Length, chunked, none, and keeps trailing data verbatim (C04). *)
From Coq Require Import Lia ZifyN ZifyNat String.
From Http Require Import Model.Bytes Model.Utf8 Model.Num Model.Headers Model.Request
     Model.Chunked Model.Response Spec.HeaderGrammar Spec.ChunkedGrammar Spec.ResponseGrammar
     Proofs.BytesLemmas Proofs.HeadersResume Proofs.HeaderAlgebra Proofs.HeaderGrammarProofs
     Proofs.ChunkResume Proofs.ChunkGrammar Proofs.RespResume Proofs.Numeric Proofs.Safety.

(* ---- the status-line splitter inverts the formatting ---- *)
Lemma digits_no_sp t : forallb is_digit t = true -> find_byte SP t = None.
Proof.
  induction t as [|a t IH]; [reflexivity|]. simpl. intros H. apply andb_prop in H as [Ha Ht].
  destruct (N.eqb a SP) eqn:E; [apply N.eqb_eq in E; subst; discriminate|].
  rewrite (IH Ht). reflexivity.
Qed.

Lemma parse_status_line_complete codetext reason code :
  status_line_ok codetext reason code ->
  parse_status_line (status_line codetext reason) = inl (code, reason).
Proof.
  intros [PD [Hlt _]]. unfold parse_status_line, status_line.
  assert (Hh : find_byte SP (HTTP11 ++ SP :: (codetext ++ [SP] ++ reason)) = Some (length HTTP11))
    by (apply find_byte_app_none; reflexivity).
  cbn [app] in *. rewrite Hh.
  change (firstn (length HTTP11) (HTTP11 ++ SP :: codetext ++ SP :: reason)) with HTTP11.
  cbn [bytes_eqb N.eqb andb negb].
  change (skipn (S (length HTTP11)) (HTTP11 ++ SP :: codetext ++ SP :: reason)) with (codetext ++ SP :: reason).
  destruct (parse_dec_digits _ _ PD) as [[_ Hd] _].
  rewrite (find_byte_app_none SP codetext reason (digits_no_sp _ Hd)).
  rewrite firstn_app_exact, PD.
  apply N.ltb_lt in Hlt. rewrite Hlt. rewrite skipn_app_cons. reflexivity.
Qed.

Lemma parse_status_line_sound line code reason :
  parse_status_line line = inl (code, reason) ->
  exists codetext, line = status_line codetext reason /\ parse_dec codetext = Some code /\ (code < 1000)%N.
Proof.
  unfold parse_status_line.
  destruct (find_byte SP line) as [pd|] eqn:F1; [|discriminate].
  destruct (negb (bytes_eqb (firstn pd line) HTTP11)) eqn:B; [discriminate|].
  apply negb_false_iff, bytes_eqb_eq in B. cbv zeta.
  destruct (find_byte SP (skipn (S pd) line)) as [cd|] eqn:F2; [|discriminate].
  destruct (parse_dec (firstn cd (skipn (S pd) line))) as [c|] eqn:PD; [|discriminate].
  destruct (N.ltb c 1000) eqn:L; [|discriminate].
  intros H. inversion H; subst code reason. clear H.
  exists (firstn cd (skipn (S pd) line)). split; [|split; [exact PD|apply N.ltb_lt; exact L]].
  unfold status_line. rewrite (find_byte_split SP line pd F1) at 1. rewrite B. f_equal. cbn [app]. f_equal.
  apply find_byte_split. exact F2.
Qed.

(* ---- completeness ---- *)
Theorem resp_parse_complete m v rest :
  IsResponse m v ->
  exists st c,
    resp_parse resp_init (m ++ rest) = (st, Complete c) /\ resp_value_of st = v /\
    c = length m + length (s_trailer st) /\
    (s_trailer st = rest \/ s_trailer st = []).
Proof.
  intros [codetext [fs [wire [Hm [Hline [Hblock Hfr]]]]]].
  destruct v as [code reason hs body]. cbn [w_code w_reason w_headers w_body] in *.
  pose proof Hline as [_ [_ [Hil Hutf]]].
  pose proof (parse_status_line_complete _ _ _ Hline) as Hpsl.
  set (line := status_line codetext reason) in *.
  set (block := header_block fs) in *.
  assert (Hfind : find_crlf (m ++ rest) = Some (length line)).
  { rewrite Hm. rewrite <- !app_assoc. apply is_line_find. exact Hil. }
  assert (Hrest : skipn (length line + 2) (m ++ rest) = block ++ wire ++ rest).
  { rewrite Hm. rewrite <- !app_assoc. rewrite (app_assoc line CRLF).
    replace (length line + 2) with (length (line ++ CRLF)) by (rewrite app_length; reflexivity).
    apply skipn_app_exact. }
  assert (Hfirst : firstn (length line) (m ++ rest) = line).
  { rewrite Hm. rewrite <- !app_assoc. apply firstn_app_exact. }
  pose proof (hdr_parse_complete None [] fs (wire ++ rest) Hblock) as HP. fold block in HP. cbn [app] in HP.
  assert (Hskip : skipn (length block) (block ++ wire ++ rest) = wire ++ rest) by apply skipn_app_exact.
  unfold resp_parse. cbn [s_phase resp_init]. unfold resp_line.
  rewrite Hfind. cbv beta iota zeta. rewrite Hfirst, Hutf. cbn [negb]. rewrite Hpsl. cbv beta iota.
  rewrite Hrest. unfold resp_headers. cbn [s_headers resp_init s_body s_trailer s_code s_reason].
  rewrite HP. cbv beta iota zeta. rewrite Hskip.
  set (hs0 := map field_header fs) in *.
  inversion Hfr as [t n body' HV PD Hlen|c payload tfields HV HT HC|HV HT]; subst.
  - (* Content-Length *)
    rewrite HV, PD. unfold resp_fixed. cbv zeta. cbn [s_body length s_trailer].
    assert (E : N.leb (n - N.of_nat 0) (N.of_nat (length (body ++ rest))) = true)
      by (apply N.leb_le; rewrite app_length; lia).
    rewrite E. cbn [rshift].
    replace (N.to_nat (n - N.of_nat 0)) with (length body) by lia.
    rewrite firstn_app_exact, skipn_app_exact. cbn [app].
    eexists. eexists. split; [reflexivity|]. cbn [s_trailer]. split; [reflexivity|]. split; [|left; reflexivity].
    rewrite !app_length. cbn [length CRLF]. lia.
  - (* chunked *)
    rewrite HV, HT. unfold resp_chunked.
    rewrite (chunk_decode_complete _ _ _ rest HC). cbn [rshift c_buffer c_trailer s_headers s_trailer].
    eexists. eexists. split; [reflexivity|]. cbn [s_trailer]. split; [reflexivity|]. split; [|right; reflexivity].
    rewrite !app_length. cbn [length CRLF]. lia.
  - (* no body *)
    rewrite HV, HT. cbn [rshift].
    eexists. eexists. split; [reflexivity|]. cbn [s_trailer]. split; [reflexivity|]. split; [|right; reflexivity].
    rewrite !app_length. cbn [length CRLF app]. lia.
Qed.

(* ---- soundness ---- *)
Lemma is_line_of_find' s e : find_crlf s = Some e -> is_line (firstn e s).
Proof.
  intros E. unfold is_line. pose proof (find_crlf_bound _ _ E) as B.
  assert (Hl : length (firstn e s) = e) by (rewrite firstn_length; lia).
  rewrite Hl.
  assert (Hb : firstn e s ++ CRLF = firstn (e + 2) s).
  { rewrite firstn_plus, (find_crlf_at _ _ E). reflexivity. }
  rewrite Hb. apply find_crlf_firstn; [exact E|lia].
Qed.

Theorem resp_parse_sound s st c :
  resp_parse resp_init s = (st, Complete c) ->
  let bd := c - length (s_trailer st) in
  c <= length s /\ length (s_trailer st) <= c /\
  IsResponse (firstn bd s) (resp_value_of st) /\
  s_trailer st = skipn bd (firstn c s).
Proof.
  intros H. cbv zeta.
  unfold resp_parse in H. cbn [s_phase resp_init] in H. unfold resp_line in H.
  destruct (find_crlf s) as [e|] eqn:E; [|discriminate]. cbv zeta in H.
  pose proof (find_crlf_bound _ _ E) as B.
  destruct (negb (utf8_valid (firstn e s))) eqn:U; [discriminate|]. apply negb_false_iff in U.
  destruct (parse_status_line (firstn e s)) as [[code reason]|er] eqn:PS; [|discriminate].
  destruct (parse_status_line_sound _ _ _ PS) as [codetext [Hline [PD Hlt]]].
  set (x := skipn (e + 2) s) in *.
  cbn [s_headers s_body s_trailer resp_init] in H.
  match type of H with rshift _ ?R = _ => destruct R as [sh [k|k|eh]] eqn:EH end;
    cbn [rshift] in H; try discriminate.
  inversion H; subst sh c. clear H.
  unfold resp_headers in EH. cbn [s_headers s_body s_trailer s_code s_reason] in EH.
  destruct (hdr_parse None [] x) as [hs ch|hs ch|eh] eqn:HP; try discriminate.
  destruct (hdr_parse_sound _ _ _ _ _ HP) as [fs [Hblock [Hfx Hhs]]]. cbn [app] in Hhs.
  pose proof (hdr_parse_complete_tail _ _ _ _ _ HP) as [_ [Hch _]].
  assert (Hlx : length x = length s - (e + 2)) by (unfold x; apply skipn_length).
  assert (Hlenb : length (header_block fs) = ch) by (rewrite <- Hfx, firstn_length; lia).
  assert (Hll : length (firstn e s) = e) by (rewrite firstn_length; lia).
  assert (Hsl : status_line_ok codetext reason code).
  { unfold status_line_ok. rewrite <- Hline. repeat split; try assumption. apply is_line_of_find'. exact E. }
  assert (Hsplit : forall j, firstn (e + 2 + j) s = firstn e s ++ CRLF ++ firstn j x).
  { intros j. rewrite firstn_plus. fold x. rewrite firstn_plus.
    rewrite (find_crlf_at _ _ E). cbn [firstn]. rewrite <- app_assoc. reflexivity. }
  cbv zeta in EH.
  set (y := skipn ch x) in *.
  assert (Hly : length y = length x - ch) by (unfold y; apply skipn_length).
  destruct (header_value hs CONTENT_LENGTH) as [v|] eqn:HV.
  - (* fixed *)
    destruct (parse_dec v) as [n|] eqn:PDv; [|discriminate].
    unfold resp_fixed in EH. cbv zeta in EH. cbn [s_body length s_trailer s_code s_reason s_headers] in EH.
    change (N.of_nat 0) with 0%N in EH.
    destruct (N.leb (n - 0) (N.of_nat (length y))) eqn:E4; cbn [rshift] in EH; [|discriminate].
    apply N.leb_le in E4. inversion EH; subst st k. clear EH. cbn [s_trailer app].
    set (nn := N.to_nat (n - 0)) in *.
    assert (Hnn : nn <= length y) by (unfold nn; lia).
    rewrite skipn_length.
    replace (e + 2 + (ch + length y) - (length y - nn)) with (e + 2 + (ch + nn)) by lia.
    split; [lia|]. split; [lia|]. split.
    + unfold IsResponse, resp_value_of. cbn [w_code w_reason w_headers w_body s_code s_reason s_headers s_body app].
      exists codetext, fs, (firstn nn y). rewrite <- Hline.
      split; [|split; [exact Hsl|split; [exact Hblock|]]].
      * rewrite Hsplit. rewrite firstn_plus. rewrite Hfx. reflexivity.
      * rewrite <- Hhs. apply (Fr_fixed hs v n); [exact HV|exact PDv|].
        rewrite firstn_length. unfold nn. lia.
    + replace (e + 2 + (ch + length y)) with (length s) by lia. rewrite firstn_all.
      replace (e + 2 + (ch + nn)) with (nn + (ch + (e + 2))) by lia.
      unfold y, x. rewrite !skipn_skipn'. f_equal. lia.
  - destruct (has_header_token hs TRANSFER_ENCODING CHUNKED) eqn:HT.
    + (* chunked *)
      unfold resp_chunked in EH.
      destruct (chunk_decode chunk_init y) as [cs' [k2|k2|e2]] eqn:CD; cbn [rshift] in EH; try discriminate.
      inversion EH; subst st k. clear EH. cbn [s_trailer length].
      pose proof (chunk_decode_sound _ _ _ CD) as HC.
      pose proof (chunk_decode_consumed chunk_init y cs' k2 cwf_init (or_introl CD)) as Hk2.
      rewrite Nat.sub_0_r. split; [lia|]. split; [lia|]. split.
      * unfold IsResponse, resp_value_of. cbn [w_code w_reason w_headers w_body s_code s_reason s_headers s_body].
        exists codetext, fs, (firstn k2 y). rewrite <- Hline.
        split; [|split; [exact Hsl|split; [exact Hblock|]]].
        -- rewrite Hsplit. rewrite firstn_plus. rewrite Hfx. reflexivity.
        -- rewrite <- Hhs. apply Fr_chunked; assumption.
      * rewrite skipn_all2; [reflexivity|]. rewrite firstn_length. lia.
    + (* none *)
      inversion EH; subst st k. clear EH. cbn [s_trailer length].
      rewrite Nat.sub_0_r. split; [lia|]. split; [lia|]. split.
      * unfold IsResponse, resp_value_of. cbn [w_code w_reason w_headers w_body s_code s_reason s_headers s_body].
        exists codetext, fs, []. rewrite <- Hline.
        split; [|split; [exact Hsl|split; [exact Hblock|]]].
        -- rewrite Hsplit, Hfx, app_nil_r. reflexivity.
        -- rewrite <- Hhs. apply Fr_none; assumption.
      * rewrite skipn_all2; [reflexivity|]. rewrite firstn_length. lia.
Qed.
