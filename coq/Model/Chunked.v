(* Chunked.v -- model of rhymuweb::chunked_body::ChunkedBody (src/chunked_body.rs). *)
From Coq Require Import String.
From Http Require Import Model.Bytes Model.Utf8 Model.Num Model.Headers Model.Request.

Inductive cphase := CSize | CData (needed : N) | CTerminator | CTrailer.

Record chunk_state := {
  c_phase : cphase;
  c_buffer : bytes;
  c_trailer : list header
}.

Definition chunk_init : chunk_state :=
  {| c_phase := CSize; c_buffer := []; c_trailer := [] |}.

(* parse_chunk_size after F5/F6: text up to ';' must be 1*HEXDIG *)
Definition parse_chunk_size (line : bytes) : option N :=
  match find_byte SEMI line with
  | Some d => parse_hex (firstn d line)
  | None => parse_hex line
  end.

(* result of one sub-state function *)
Inductive cstep :=
| CPart (st : chunk_state) (c : nat)      (* CompletePart *)
| CWhole (st : chunk_state) (c : nat)     (* CompleteWhole *)
| CInc (st : chunk_state) (c : nat)       (* Incomplete *)
| CErr (e : err).

Definition set_cphase (st : chunk_state) (p : cphase) : chunk_state :=
  {| c_phase := p; c_buffer := c_buffer st; c_trailer := c_trailer st |}.

Definition decode_size (st : chunk_state) (buf : bytes) : cstep :=
  match find_crlf buf with
  | None => CInc st 0
  | Some e =>
    let line := firstn e buf in
    if negb (utf8_valid line) then CErr EChunkSizeLineNotValidText else
    match parse_chunk_size line with
    | None => CErr EInvalidChunkSize
    | Some n =>
      CPart (set_cphase st (if N.eqb n 0 then CTrailer else CData n)) (e + 2)
    end
  end.

Definition decode_data (st : chunk_state) (needed : N) (buf : bytes) : cstep :=
  let k := if N.leb needed (N.of_nat (length buf)) then N.to_nat needed else length buf in
  let left := (needed - N.of_nat k)%N in
  let st' := {| c_phase := if N.eqb left 0 then CTerminator else CData left;
                c_buffer := c_buffer st ++ firstn k buf;
                c_trailer := c_trailer st |} in
  if N.eqb left 0 then CPart st' k else CInc st' k.

Definition decode_terminator (st : chunk_state) (buf : bytes) : cstep :=
  match buf with
  | [] => CInc st 0
  | [a] => if N.eqb a CR then CInc st 0 else CErr EInvalidChunkTerminator
  | a :: b :: _ =>
    if (N.eqb a CR && N.eqb b LF)%bool then CPart (set_cphase st CSize) 2
    else CErr EInvalidChunkTerminator
  end.

Definition decode_trailer (st : chunk_state) (buf : bytes) : cstep :=
  match hdr_parse None (c_trailer st) buf with
  | HError e => CErr (ETrailer e)
  | HComplete hs c =>
    CWhole {| c_phase := CTrailer; c_buffer := c_buffer st; c_trailer := hs |} c
  | HIncomplete hs c =>
    CInc {| c_phase := CTrailer; c_buffer := c_buffer st; c_trailer := hs |} c
  end.

Definition chunk_step (st : chunk_state) (buf : bytes) : cstep :=
  match c_phase st with
  | CSize => decode_size st buf
  | CData n => decode_data st n buf
  | CTerminator => decode_terminator st buf
  | CTrailer => decode_trailer st buf
  end.

(* ChunkedBody::decode: iterate the sub-state functions over the rest of the input.
   Every CompletePart consumes at least one byte, so fuel S (length buf) * 1 is
   never exhausted (lemma chunk_fuel_enough). *)
Fixpoint chunk_loop (fuel : nat) (st : chunk_state) (buf : bytes) (off : nat)
  : chunk_state * outcome :=
  match fuel with
  | O => (st, Incomplete off)
  | S f =>
    match chunk_step st buf with
    | CErr e => (st, Reject e)
    | CWhole st' c => (st', Complete (off + c))
    | CInc st' c => (st', Incomplete (off + c))
    | CPart st' c => chunk_loop f st' (skipn c buf) (off + c)
    end
  end.

Definition chunk_decode (st : chunk_state) (buf : bytes) : chunk_state * outcome :=
  chunk_loop (S (length buf)) st buf 0.

(* reserve requests made by decode_size (F4): min(chunk size, bytes presented to it) *)
Fixpoint chunk_reserves (fuel : nat) (st : chunk_state) (buf : bytes) : list N :=
  match fuel with
  | O => []
  | S f =>
    match chunk_step st buf with
    | CPart st' c =>
      match c_phase st, c_phase st' with
      | CSize, CData n => N.min n (N.of_nat (length buf)) :: chunk_reserves f st' (skipn c buf)
      | CSize, _ => 0%N :: chunk_reserves f st' (skipn c buf)
      | _, _ => chunk_reserves f st' (skipn c buf)
      end
    | _ => []
    end
  end.
