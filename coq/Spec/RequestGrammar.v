(* RequestGrammar.v -- what a complete request is, stated without reference to the parser:

     request = method SP target SP "HTTP/1.1" CRLF  header-block  body
   method: non-empty, no SP; target: non-empty, no SP, a valid URI reference (rhymuri);
   the request line is valid UTF-8, contains no CRLF, and fits the request-line limit;
   header-block as in Spec/HeaderGrammar.v under the header line limit;
   body: exactly Content-Length bytes when that header is present (value 1*DIGIT fitting
   usize), otherwise empty; the total (head + declared body) fits the maximum size. *)
From Coq Require Import String.
From Http Require Import Model.Bytes Model.Utf8 Model.Num Model.Headers Model.Request
     Spec.HeaderGrammar Spec.ChunkedGrammar.

Section WithUri.
  Variable uri : Type.
  Variable uri_parse : bytes -> option uri.

  Record req_value := { v_method : bytes; v_target : uri; v_headers : list header; v_body : bytes }.

  Definition request_line (meth tstr : bytes) : bytes := meth ++ [SP] ++ tstr ++ [SP] ++ HTTP11.

  Definition request_line_ok (lim : option N) (meth tstr : bytes) (u : uri) : Prop :=
    meth <> [] /\ find_byte SP meth = None /\
    tstr <> [] /\ find_byte SP tstr = None /\ uri_parse tstr = Some u /\
    is_line (request_line meth tstr) /\ utf8_valid (request_line meth tstr) = true /\
    over_limit (length (request_line meth tstr)) lim = false.

  (* the running count of the crate: saturating at usize::MAX *)
  Definition within_max (cfg : rcfg) (total : N) : Prop :=
    match mm cfg with None => True | Some m => (N.min total USIZE_MAX <= m)%N end.

  Definition IsRequest (cfg : rcfg) (m : bytes) (v : req_value) : Prop :=
    exists tstr fs,
      m = request_line (v_method v) tstr ++ CRLF ++ header_block fs ++ v_body v /\
      request_line_ok (rl cfg) (v_method v) tstr (v_target v) /\
      block_ok (hl cfg) fs /\ v_headers v = map field_header fs /\
      let head := N.of_nat (length (request_line (v_method v) tstr) + 2 + length (header_block fs)) in
      match header_value (v_headers v) CONTENT_LENGTH with
      | None => v_body v = [] /\ within_max cfg head
      | Some t => exists n, parse_dec t = Some n /\ length (v_body v) = N.to_nat n /\
                            within_max cfg (head + n)
      end.

  Definition value_of (st : req_state uri) (u : uri) : req_value :=
    {| v_method := r_method st; v_target := u; v_headers := r_headers st; v_body := r_body st |}.
End WithUri.

Arguments v_method {uri}. Arguments v_target {uri}. Arguments v_headers {uri}. Arguments v_body {uri}.
