(* ReqResume.v -- Request::parse is resumable (the engine of C01, C08-early, C09). *)
From Coq Require Import Lia ZifyN ZifyNat.
From Http Require Import Model.Bytes Model.Utf8 Model.Num Model.Headers Model.Request
     Proofs.BytesLemmas Proofs.HeadersResume.

(* ---- strip_cr ---- *)
Lemma strip_cr_snoc x y : strip_cr (x ++ [y]) = if N.eqb y CR then x else x ++ [y].
Proof.
  induction x as [|a x IH]; [reflexivity|].
  change ((a :: x) ++ [y]) with (a :: (x ++ [y])).
  assert (E : strip_cr (a :: (x ++ [y])) = a :: strip_cr (x ++ [y])).
  { destruct x; reflexivity. }
  rewrite E, IH. destruct (N.eqb y CR); reflexivity.
Qed.

Lemma strip_cr_nil : strip_cr [] = [].
Proof. reflexivity. Qed.

Lemma ends_cr_snoc x y : ends_cr (x ++ [y]) = N.eqb y CR.
Proof. apply ends_cr_app_single. Qed.

Lemma strip_cr_length s : length (strip_cr s) <= length s.
Proof.
  destruct s as [|a s'] using rev_ind; [simpl; lia|].
  rewrite strip_cr_snoc. destruct (N.eqb a CR); rewrite ?app_length; simpl; lia.
Qed.

Lemma strip_cr_app_ne a b : b <> [] -> strip_cr (a ++ b) = a ++ strip_cr b.
Proof.
  intros H. destruct b as [|y b'] using rev_ind; [congruence|].
  rewrite app_assoc, !strip_cr_snoc. destruct (N.eqb y CR); [reflexivity|].
  rewrite app_assoc. reflexivity.
Qed.

Lemma strip_cr_decomp a :
  exists t, a = strip_cr a ++ t /\ (t = [] \/ t = [CR]) /\ (t = [] -> ends_cr a = false).
Proof.
  destruct a as [|y a'] using rev_ind.
  - exists []. repeat split; auto.
  - rewrite strip_cr_snoc, ends_cr_snoc. destruct (N.eqb y CR) eqn:E.
    + apply N.eqb_eq in E. subst. exists [CR]. repeat split; auto. discriminate.
    + exists []. rewrite app_nil_r. repeat split; auto.
Qed.

Lemma strip_cr_skipn c a : c <= length (strip_cr a) -> strip_cr (skipn c a) = skipn c (strip_cr a).
Proof.
  destruct a as [|y a'] using rev_ind; intros H.
  - rewrite strip_cr_nil, !skipn_nil. reflexivity.
  - rewrite strip_cr_snoc in *. destruct (N.eqb y CR) eqn:E.
    + rewrite skipn_app_le by lia. rewrite strip_cr_snoc, E. reflexivity.
    + rewrite app_length in H. simpl in H.
      destruct (Nat.eq_dec c (length a' + 1)) as [->|Hne].
      * rewrite !skipn_all2 by (rewrite app_length; simpl; lia). reflexivity.
      * rewrite skipn_app_le by lia. rewrite strip_cr_snoc, E. reflexivity.
Qed.

(* how the stripped buffer grows when bytes are appended *)
Lemma strip_cr_extend a b :
  exists u, strip_cr (a ++ b) = strip_cr a ++ u
            /\ (ends_cr (strip_cr a) && starts_lf u)%bool = false
            /\ forall c, c <= length (strip_cr a) ->
                 strip_cr (skipn c a ++ b) = skipn c (strip_cr a) ++ u.
Proof.
  destruct b as [|b0 b'].
  - exists []. rewrite !app_nil_r. split; [reflexivity|]. split.
    + unfold starts_lf. apply andb_false_r.
    + intros c Hc. rewrite !app_nil_r. apply strip_cr_skipn. exact Hc.
  - remember (b0 :: b') as b eqn:Hb. assert (Hne : b <> []) by (subst; discriminate).
    destruct (strip_cr_decomp a) as [t [Ha [Ht Hends]]].
    exists (t ++ strip_cr b). split; [|split].
    + rewrite strip_cr_app_ne by exact Hne. rewrite Ha at 1. rewrite <- app_assoc. reflexivity.
    + destruct Ht as [->| ->].
      * (* a does not end with CR: strip_cr a = a *)
        rewrite app_nil_r in Ha. rewrite <- Ha. rewrite (Hends eq_refl). reflexivity.
      * simpl. apply andb_false_r.
    + intros c Hc. rewrite strip_cr_app_ne by exact Hne.
      rewrite Ha at 1. rewrite skipn_app_le by exact Hc. rewrite <- app_assoc. reflexivity.
Qed.

Section WithUri.
  Variable uri : Type.
  Variable uri_parse : bytes -> option uri.

  Notation state := (req_state uri).
  Notation D := (req_dispatch uri uri_parse).
  Notation P := (req_parse uri uri_parse).

  (* equal answers; for rejections only the category matters (the state that comes
     with a rejection is never used) *)
  Definition oeq (r1 r2 : state * outcome) : Prop :=
    match r1, r2 with
    | (_, Reject e1), (_, Reject e2) => e1 = e2
    | _, _ => r1 = r2
    end.

  Lemma oeq_refl r : oeq r r.
  Proof. destruct r as [s [c|c|e]]; reflexivity. Qed.

  Lemma oeq_shift k r1 r2 : oeq r1 r2 -> oeq (shift uri k r1) (shift uri k r2).
  Proof.
    destruct r1 as [s1 [c1|c1|e1]], r2 as [s2 [c2|c2|e2]]; simpl; intros H;
      try (inversion H; subst; reflexivity); try discriminate; exact H.
  Qed.

  Lemma shift_shift k1 k2 r : shift uri k1 (shift uri k2 r) = shift uri (k1 + k2) r.
  Proof. destruct r as [s [c|c|e]]; simpl; try reflexivity; f_equal; f_equal; lia. Qed.

  Lemma shift_0 r : shift uri 0 r = r.
  Proof. destruct r as [s [c|c|e]]; reflexivity. Qed.

  (* what appending bytes to the buffer of one call may do to the answer *)
  Definition res_spec (cfg : rcfg) (r_a r_ab : state * outcome) (a b : bytes) : Prop :=
    match r_a with
    | (st1, Complete c) => c <= length a /\ r_ab = (st1, Complete c)
    | (st1, Incomplete c) =>
        c <= length a /\ oeq r_ab (shift uri c (D cfg st1 (skipn c a ++ b)))
    | (_, Reject e) => exists st' e', r_ab = (st', Reject e')
    end.

  Lemma res_spec_shift cfg k a b r_a r_ab :
    k <= length a ->
    res_spec cfg r_a r_ab (skipn k a) b ->
    res_spec cfg (shift uri k r_a) (shift uri k r_ab) a b.
  Proof.
    intros Hk. destruct r_a as [s1 [c|c|e]]; simpl; rewrite ?skipn_length.
    - intros [Hc ->]. split; [lia|reflexivity].
    - intros [Hc H]. split; [lia|].
      rewrite skipn_skipn' in H. rewrite (Nat.add_comm c k) in H.
      rewrite <- shift_shift. apply oeq_shift. exact H.
    - intros [st' [e' ->]]. exists st', e'. reflexivity.
  Qed.

  (* ---- body phase ---- *)
  Lemma req_body_spec cfg st n a b :
    r_phase st = PBody n ->
    res_spec cfg (req_body uri st n a) (req_body uri st n (a ++ b)) a b.
  Proof.
    intros Hph. unfold req_body. cbv zeta.
    set (needed_n := (n - N.of_nat (length (r_body st)))%N).
    destruct (N.leb needed_n (N.of_nat (length a))) eqn:E1.
    - apply N.leb_le in E1. cbn [res_spec]. split; [lia|].
      assert (E2 : N.leb needed_n (N.of_nat (length (a ++ b))) = true)
        by (apply N.leb_le; rewrite app_length; lia).
      rewrite E2. rewrite firstn_app_le by lia. reflexivity.
    - apply N.leb_gt in E1. cbn [res_spec]. split; [lia|].
      rewrite skipn_all. cbn [app].
      unfold req_dispatch. cbn [r_phase]. rewrite Hph. unfold req_body. cbv zeta.
      cbn [r_phase r_method r_target r_headers r_body r_total].
      assert (Hn : (n - N.of_nat (length (r_body st ++ a)) = needed_n - N.of_nat (length a))%N)
        by (rewrite app_length; lia).
      rewrite Hn.
      destruct (N.leb needed_n (N.of_nat (length (a ++ b)))) eqn:E2.
      + apply N.leb_le in E2. rewrite app_length in E2.
        assert (E3 : N.leb (needed_n - N.of_nat (length a)) (N.of_nat (length b)) = true)
          by (apply N.leb_le; lia).
        rewrite E3. cbn [shift oeq].
        replace (N.to_nat needed_n) with (length a + N.to_nat (needed_n - N.of_nat (length a))) by lia.
        rewrite firstn_app_2. rewrite <- app_assoc. reflexivity.
      + apply N.leb_gt in E2. rewrite app_length in E2.
        assert (E3 : N.leb (needed_n - N.of_nat (length a)) (N.of_nat (length b)) = false)
          by (apply N.leb_gt; lia).
        rewrite E3. cbn [shift oeq]. rewrite <- app_assoc, app_length. reflexivity.
  Qed.

  (* ---- byte counting ---- *)
  Lemma count_bytes_assoc cfg t c1 c2 t1 :
    count_bytes cfg t c1 = Some t1 ->
    count_bytes cfg t (c1 + c2) = count_bytes cfg t1 c2.
  Proof.
    unfold count_bytes, sat_add, USIZE_MAX. destruct (mm cfg) as [m|].
    - destruct (N.ltb m (N.min (t + c1) 18446744073709551615)) eqn:E; [discriminate|].
      intros H. inversion H; subst t1. clear H.
      replace (N.min (N.min (t + c1) 18446744073709551615 + c2) 18446744073709551615)
        with (N.min (t + (c1 + c2)) 18446744073709551615) by lia.
      reflexivity.
    - intros H. inversion H; subst t1. f_equal. lia.
  Qed.

  Lemma count_bytes_fail_mono cfg t c1 c2 :
    count_bytes cfg t c1 = None -> count_bytes cfg t (c1 + c2) = None.
  Proof.
    unfold count_bytes, sat_add, USIZE_MAX. destruct (mm cfg) as [m|]; [|discriminate].
    destruct (N.ltb m (N.min (t + c1) 18446744073709551615)) eqn:E; [|discriminate].
    intros _. apply N.ltb_lt in E.
    assert (E2 : N.ltb m (N.min (t + (c1 + c2)) 18446744073709551615) = true) by (apply N.ltb_lt; lia).
    rewrite E2. reflexivity.
  Qed.

  (* ---- header phase ---- *)
  Lemma req_headers_spec cfg st a b :
    res_spec cfg (req_headers uri cfg st a) (req_headers uri cfg st (a ++ b)) a b.
  Proof.
    destruct (strip_cr_extend a b) as [u [Hab [Hside Hskip]]].
    pose proof (strip_cr_length a) as Hlen.
    pose proof (hdr_parse_app (hl cfg) (r_headers st) (strip_cr a) u (or_intror Hside)) as HP.
    unfold req_headers at 1.
    destruct (hdr_parse (hl cfg) (r_headers st) (strip_cr a)) as [hs1 c|hs1 c|e] eqn:E1.
    - (* HComplete *)
      destruct HP as [Hc HP]. unfold req_headers at 1. rewrite Hab, HP.
      destruct (count_bytes cfg (r_total st) (N.of_nat c)) as [t|]; [|simpl; eauto].
      destruct (header_value hs1 CONTENT_LENGTH) as [v|].
      + destruct (parse_dec v) as [n|]; [|simpl; eauto].
        destruct (count_bytes cfg t n) as [t2|]; [|simpl; eauto].
        rewrite skipn_app_le by lia.
        apply res_spec_shift; [lia|]. apply req_body_spec. reflexivity.
      + simpl. split; [lia|reflexivity].
    - (* HIncomplete *)
      destruct HP as [Hc HP].
      assert (Hrest : strip_cr (skipn c a ++ b) = skipn c (strip_cr a) ++ u) by (apply Hskip; exact Hc).
      destruct (count_bytes cfg (r_total st) (N.of_nat c)) as [t1|] eqn:C1.
      + simpl. split; [lia|].
        unfold req_headers at 1. rewrite Hab, HP.
        unfold req_dispatch. simpl r_phase. cbv iota.
        unfold req_headers at 1. simpl r_headers. simpl r_total. rewrite Hrest.
        destruct (hdr_parse (hl cfg) hs1 (skipn c (strip_cr a) ++ u)) as [hs2 c2|hs2 c2|e2]; cbn [hshift]; cbv beta iota;
          cbn [r_phase r_method r_target r_headers r_body r_total].
        * rewrite Nat2N.inj_add. rewrite (count_bytes_assoc _ _ _ _ _ C1).
          destruct (count_bytes cfg t1 (N.of_nat c2)) as [t2|]; [|simpl; reflexivity].
          simpl r_method. simpl r_target. simpl r_body.
          destruct (header_value hs2 CONTENT_LENGTH) as [v|].
          -- destruct (parse_dec v) as [n|]; [|simpl; reflexivity].
             destruct (count_bytes cfg t2 n) as [t3|]; [|simpl; reflexivity].
             rewrite shift_shift.
             replace (skipn (c + c2) (a ++ b)) with (skipn c2 (skipn c a ++ b)).
             ++ apply oeq_refl.
             ++ rewrite <- (skipn_app_le c a b) by lia. rewrite skipn_skipn'. f_equal. lia.
          -- simpl. reflexivity.
        * rewrite Nat2N.inj_add. rewrite (count_bytes_assoc _ _ _ _ _ C1).
          destruct (count_bytes cfg t1 (N.of_nat c2)) as [t2|]; simpl; reflexivity.
        * simpl. reflexivity.
      + simpl. unfold req_headers at 1. rewrite Hab, HP.
        destruct (hdr_parse (hl cfg) hs1 (skipn c (strip_cr a) ++ u)) as [hs2 c2|hs2 c2|e2]; cbn [hshift]; cbv beta iota;
          cbn [r_phase r_method r_target r_headers r_body r_total].
        * rewrite Nat2N.inj_add, (count_bytes_fail_mono _ _ _ _ C1). eauto.
        * rewrite Nat2N.inj_add, (count_bytes_fail_mono _ _ _ _ C1). eauto.
        * eauto.
    - (* HError *)
      destruct HP as [e' HP]. simpl. unfold req_headers at 1. rewrite Hab, HP. eauto.
  Qed.

  (* ---- request line phase ---- *)
  Lemma req_line_spec cfg st a b :
    r_phase st = PRequestLine ->
    res_spec cfg (req_line uri uri_parse cfg st a) (req_line uri uri_parse cfg st (a ++ b)) a b.
  Proof.
    intros Hph. unfold req_line at 1.
    destruct (find_crlf a) as [e|] eqn:E.
    - pose proof (find_crlf_bound _ _ E) as B.
      unfold req_line at 1. rewrite (find_crlf_app _ b _ E).
      destruct (over_limit e (rl cfg)); [simpl; eauto|].
      rewrite firstn_app_le by lia.
      destruct (negb (utf8_valid (firstn e a))); [simpl; eauto|].
      destruct (count_bytes cfg (r_total st) (N.of_nat (e + 2))) as [t|]; [|simpl; eauto].
      destruct (parse_request_line uri uri_parse (firstn e a)) as [[meth u]|er]; [|simpl; eauto].
      rewrite skipn_app_le by lia.
      apply res_spec_shift; [lia|]. apply req_headers_spec.
    - destruct (over_limit (length (strip_cr a)) (rl cfg)) eqn:O.
      + simpl. unfold req_line at 1.
        destruct (find_crlf (a ++ b)) as [e2|] eqn:E2.
        * assert (length (strip_cr a) <= e2).
          { pose proof (find_crlf_app_none _ _ _ E E2) as H1.
            destruct (strip_cr_decomp a) as [t [Ha [[->| ->] Hends]]].
            - rewrite app_nil_r in Ha. rewrite <- Ha.
              eapply find_crlf_app_none_strict; [exact E| |exact E2].
              rewrite (Hends eq_refl). reflexivity.
            - apply (f_equal (@length N)) in Ha. rewrite app_length in Ha. simpl in Ha. lia. }
          rewrite (over_limit_mono _ _ _ H O). eauto.
        * assert (length (strip_cr a) <= length (strip_cr (a ++ b))).
          { destruct (strip_cr_extend a b) as [u [Hab _]]. rewrite Hab, app_length. lia. }
          rewrite (over_limit_mono _ _ _ H O). eauto.
      + simpl. split; [lia|]. rewrite shift_0.
        unfold req_dispatch. rewrite Hph. apply oeq_refl.
  Qed.

  Lemma req_dispatch_spec cfg st a b :
    res_spec cfg (D cfg st a) (D cfg st (a ++ b)) a b.
  Proof.
    unfold req_dispatch at 1 2. destruct (r_phase st) as [| |n] eqn:Hph.
    - apply req_line_spec. exact Hph.
    - apply req_headers_spec.
    - apply req_body_spec. exact Hph.
  Qed.

  (* ------------------------------------------------------------ locality of Complete *)
  Lemma firstn_add {A} (n m : nat) (l : list A) :
    firstn (n + m) l = firstn n l ++ firstn m (skipn n l).
  Proof.
    revert l. induction n as [|n IH]; intros l; [reflexivity|].
    destruct l as [|x l]; [simpl; rewrite firstn_nil; reflexivity|].
    simpl. f_equal. apply IH.
  Qed.

  Lemma tail_crlf_no_cr p k :
    2 <= k -> k = length p -> skipn (k - 2) p = [CR; LF] -> ends_cr p = false /\ strip_cr p = p.
  Proof.
    intros Hk Hl H. rewrite <- (firstn_skipn (k - 2) p). rewrite H.
    change [CR; LF] with ([CR] ++ [LF]). rewrite app_assoc.
    rewrite ends_cr_snoc, strip_cr_snoc. split; reflexivity.
  Qed.

  Lemma req_body_firstn st n x st2 c :
    req_body uri st n x = (st2, Complete c) -> req_body uri st n (firstn c x) = (st2, Complete c).
  Proof.
    unfold req_body. cbv zeta.
    set (needed_n := (n - N.of_nat (length (r_body st)))%N).
    destruct (N.leb needed_n (N.of_nat (length x))) eqn:E; [|discriminate].
    apply N.leb_le in E. intros H. inversion H; subst c. clear H.
    rewrite firstn_length.
    assert (E2 : N.leb needed_n (N.of_nat (Nat.min (N.to_nat needed_n) (length x))) = true)
      by (apply N.leb_le; lia).
    rewrite E2. rewrite firstn_firstn. rewrite Nat.min_id. reflexivity.
  Qed.

  Lemma req_headers_firstn cfg st x st2 c :
    req_headers uri cfg st x = (st2, Complete c) ->
    req_headers uri cfg st (firstn c x) = (st2, Complete c).
  Proof.
    unfold req_headers at 1.
    destruct (hdr_parse (hl cfg) (r_headers st) (strip_cr x)) as [hs1 ch|hs1 ch|e] eqn:E1.
    2:{ destruct (count_bytes _ _ _); discriminate. }
    2:{ discriminate. }
    pose proof (hdr_parse_complete_tail _ _ _ _ _ E1) as [T1 [T2 T3]].
    pose proof (hdr_parse_complete_firstn _ _ _ _ _ E1) as Loc.
    destruct (strip_cr_decomp x) as [t [Hx _]].
    assert (Hp : firstn ch (strip_cr x) = firstn ch x).
    { rewrite Hx at 2. rewrite firstn_app_le by lia. reflexivity. }
    rewrite Hp in Loc, T3.
    assert (Hpl : length (firstn ch x) = ch).
    { rewrite firstn_length. pose proof (strip_cr_length x). lia. }
    destruct (tail_crlf_no_cr (firstn ch x) ch T1 (eq_sym Hpl) T3) as [Hends Hstrip].
    (* whatever follows the block inside firstn c x, the block is found again *)
    assert (Hfwd : forall w, hdr_parse (hl cfg) (r_headers st) (strip_cr (firstn ch x ++ w))
                             = HComplete hs1 ch).
    { intros w. destruct w as [|w0 w'].
      - rewrite app_nil_r, Hstrip. exact Loc.
      - rewrite strip_cr_app_ne by discriminate.
        pose proof (hdr_parse_app (hl cfg) (r_headers st) (firstn ch x) (strip_cr (w0 :: w'))) as HA.
        rewrite Loc in HA. apply HA. right. rewrite Hends. reflexivity. }
    destruct (count_bytes cfg (r_total st) (N.of_nat ch)) as [t1|] eqn:C1; [|discriminate].
    destruct (header_value hs1 CONTENT_LENGTH) as [v|] eqn:HV.
    - destruct (parse_dec v) as [n|] eqn:PD; [|discriminate].
      destruct (count_bytes cfg t1 n) as [t2|] eqn:C2; [|discriminate].
      set (st' := {| r_phase := PBody n; r_method := r_method st; r_target := r_target st;
                     r_headers := hs1; r_body := r_body st; r_total := t2 |}).
      destruct (req_body uri st' n (skipn ch x)) as [stb [k|k|eb]] eqn:EB; cbn [shift]; try discriminate.
      intros H. inversion H; subst st2 c. clear H.
      rewrite firstn_add. unfold req_headers. rewrite Hfwd, C1, HV, PD, C2.
      rewrite skipn_app. rewrite Hpl. replace (ch - ch) with 0 by lia.
      rewrite skipn_all2 by lia. cbn [skipn app].
      fold st'. rewrite (req_body_firstn _ _ _ _ _ EB). reflexivity.
    - intros H. inversion H; subst st2 c. clear H.
      unfold req_headers. specialize (Hfwd []). rewrite app_nil_r in Hfwd.
      rewrite Hfwd, C1, HV. reflexivity.
  Qed.

  Lemma req_line_firstn cfg st x st2 c :
    req_line uri uri_parse cfg st x = (st2, Complete c) ->
    req_line uri uri_parse cfg st (firstn c x) = (st2, Complete c).
  Proof.
    unfold req_line at 1.
    destruct (find_crlf x) as [e|] eqn:E.
    2:{ destruct (over_limit _ _); discriminate. }
    pose proof (find_crlf_bound _ _ E) as B.
    destruct (over_limit e (rl cfg)) eqn:O; [discriminate|].
    destruct (negb (utf8_valid (firstn e x))) eqn:U; [discriminate|].
    destruct (count_bytes cfg (r_total st) (N.of_nat (e + 2))) as [t|] eqn:C; [|discriminate].
    destruct (parse_request_line uri uri_parse (firstn e x)) as [[meth u]|er] eqn:PL; [|discriminate].
    match goal with |- shift _ _ ?R = _ -> _ => destruct R as [sth [k|k|eh]] eqn:EH end;
      cbn [shift]; try discriminate.
    intros H. inversion H; subst st2 c. clear H.
    unfold req_line. rewrite (find_crlf_firstn _ _ _ E) by lia. rewrite O.
    rewrite firstn_firstn_le by lia. rewrite U, C, PL.
    rewrite skipn_firstn_comm'. replace (e + 2 + k - (e + 2)) with k by lia.
    rewrite (req_headers_firstn _ _ _ _ _ EH). reflexivity.
  Qed.

  Lemma req_dispatch_firstn cfg st x st2 c :
    D cfg st x = (st2, Complete c) -> D cfg st (firstn c x) = (st2, Complete c).
  Proof.
    unfold req_dispatch. destruct (r_phase st).
    - apply req_line_firstn.
    - apply req_headers_firstn.
    - apply req_body_firstn.
  Qed.

  (* ------------------------------------------------------------ byte accounting *)
  Definition tot_ok (cfg : rcfg) (st : state) : Prop := presented_ok cfg (r_total st) 0 = true.

  Definition is_body (p : rphase) : bool := match p with PBody _ => true | _ => false end.

  Lemma count_bytes_some cfg t c t1 :
    count_bytes cfg t c = Some t1 -> t1 = sat_add t c /\ presented_ok cfg t1 0 = true.
  Proof.
    unfold count_bytes, presented_ok, sat_add, USIZE_MAX. destruct (mm cfg) as [m|].
    - destruct (N.ltb m (N.min (t + c) 18446744073709551615)) eqn:E; [discriminate|].
      intros H. inversion H; subst t1. split; [reflexivity|].
      apply N.ltb_ge in E. apply negb_true_iff. apply N.ltb_ge. simpl N.of_nat. lia.
    - intros H. inversion H. split; reflexivity.
  Qed.

  Lemma presented_ok_mono cfg t1 t2 k1 k2 :
    (t1 <= t2)%N -> k1 <= k2 -> presented_ok cfg t2 k2 = true -> presented_ok cfg t1 k1 = true.
  Proof.
    unfold presented_ok, sat_add, USIZE_MAX. destruct (mm cfg) as [m|]; [|reflexivity].
    intros H1 H2. rewrite !negb_true_iff, !N.ltb_ge. lia.
  Qed.

  (* the body phase consumes everything it is given, and keeps the count *)
  Lemma req_body_incomplete st n a st1 c :
    req_body uri st n a = (st1, Incomplete c) ->
    c = length a /\ r_total st1 = r_total st /\ r_phase st1 = r_phase st.
  Proof.
    unfold req_body. cbv zeta. destruct (N.leb _ _); [discriminate|].
    intros H. inversion H. repeat split.
  Qed.

  Lemma req_body_complete_le st n a st1 c :
    req_body uri st n a = (st1, Complete c) -> (N.of_nat c <= n)%N /\ r_total st1 = r_total st.
  Proof.
    unfold req_body. cbv zeta. destruct (N.leb _ _) eqn:E; [|discriminate].
    intros H. inversion H. split; [lia|reflexivity].
  Qed.

  Lemma req_body_incomplete_lt st n a st1 c :
    req_body uri st n a = (st1, Incomplete c) -> (N.of_nat c <= n)%N.
  Proof.
    unfold req_body. cbv zeta. destruct (N.leb _ _) eqn:E; [discriminate|].
    apply N.leb_gt in E. intros H. inversion H. lia.
  Qed.

  (* from the request-line or header phase: the count grows by at least what is consumed,
     a completed message passed the size test, and so did any state handed back *)
  Lemma req_headers_total cfg st x st2 r :
    req_headers uri cfg st x = (st2, r) ->
    match r with
    | Complete c2 => (sat_add (r_total st) (N.of_nat c2) <= r_total st2)%N /\ tot_ok cfg st2
    | Incomplete c2 => (sat_add (r_total st) (N.of_nat c2) <= r_total st2)%N /\ tot_ok cfg st2
                       /\ (is_body (r_phase st2) = true -> c2 = length x)
    | Reject _ => True
    end.
  Proof.
    unfold req_headers.
    destruct (hdr_parse (hl cfg) (r_headers st) (strip_cr x)) as [hs1 ch|hs1 ch|e] eqn:E1.
    - pose proof (hdr_parse_complete_tail _ _ _ _ _ E1) as [_ [Hch _]].
      pose proof (strip_cr_length x) as Hsl.
      destruct (count_bytes cfg (r_total st) (N.of_nat ch)) as [t1|] eqn:C1.
      2:{ intros H; inversion H; exact I. }
      destruct (count_bytes_some _ _ _ _ C1) as [-> Ok1].
      destruct (header_value hs1 CONTENT_LENGTH) as [v|].
      + destruct (parse_dec v) as [n|]; [|intros H; inversion H; exact I].
        destruct (count_bytes cfg _ n) as [t2|] eqn:C2; [|intros H; inversion H; exact I].
        destruct (count_bytes_some _ _ _ _ C2) as [-> Ok2].
        match goal with |- shift _ _ ?R = _ -> _ => destruct R as [stb [k|k|eb]] eqn:EB end;
          cbn [shift]; intros H; inversion H; subst; clear H.
        * destruct (req_body_complete_le _ _ _ _ _ EB) as [Hk Ht]. cbn [r_total] in Ht.
          unfold tot_ok. rewrite Ht. split; [|exact Ok2].
          unfold sat_add, USIZE_MAX. lia.
        * destruct (req_body_incomplete _ _ _ _ _ EB) as [Hk [Ht Hph]]. cbn [r_total r_phase] in Ht, Hph.
          pose proof (req_body_incomplete_lt _ _ _ _ _ EB) as Hlt.
          unfold tot_ok. rewrite Ht. split; [|split; [exact Ok2|]].
          -- unfold sat_add, USIZE_MAX. lia.
          -- intros _. rewrite Hk, skipn_length. lia.
        * exact I.
      + intros H; inversion H; subst. cbn [r_total]. split; [lia|exact Ok1].
    - destruct (count_bytes cfg (r_total st) (N.of_nat ch)) as [t1|] eqn:C1.
      2:{ intros H; inversion H; exact I. }
      destruct (count_bytes_some _ _ _ _ C1) as [-> Ok1].
      intros H; inversion H; subst. cbn [r_total r_phase is_body].
      split; [lia|]. split; [exact Ok1|discriminate].
    - intros H; inversion H; exact I.
  Qed.

  Lemma sat_add_assoc t a b : sat_add (sat_add t a) b = sat_add t (a + b).
  Proof. unfold sat_add, USIZE_MAX. lia. Qed.

  Lemma req_line_total cfg st x st2 r :
    r_phase st = PRequestLine ->
    tot_ok cfg st ->
    req_line uri uri_parse cfg st x = (st2, r) ->
    match r with
    | Complete c2 => (sat_add (r_total st) (N.of_nat c2) <= r_total st2)%N /\ tot_ok cfg st2
    | Incomplete c2 => (sat_add (r_total st) (N.of_nat c2) <= r_total st2)%N /\ tot_ok cfg st2
                       /\ (is_body (r_phase st2) = true -> c2 = length x)
    | Reject _ => True
    end.
  Proof.
    intros Hph Hok. unfold req_line.
    destruct (find_crlf x) as [e|] eqn:E.
    - pose proof (find_crlf_bound _ _ E) as B.
      destruct (over_limit e (rl cfg)); [intros H; inversion H; exact I|].
      destruct (negb (utf8_valid (firstn e x))); [intros H; inversion H; exact I|].
      destruct (count_bytes cfg (r_total st) (N.of_nat (e + 2))) as [t|] eqn:C; [|intros H; inversion H; exact I].
      destruct (count_bytes_some _ _ _ _ C) as [-> Ok1].
      destruct (parse_request_line uri uri_parse (firstn e x)) as [[meth u]|er]; [|intros H; inversion H; exact I].
      match goal with |- shift _ _ ?R = _ -> _ => destruct R as [sth [k|k|eh]] eqn:EH end;
        cbn [shift]; intros H; inversion H; subst; clear H.
      + apply req_headers_total in EH. cbn [r_total] in EH. destruct EH as [H1 H2].
        split; [|exact H2]. rewrite sat_add_assoc in H1. rewrite Nat2N.inj_add. exact H1.
      + apply req_headers_total in EH. cbn [r_total] in EH. destruct EH as [H1 [H2 H3]].
        split; [|split; [exact H2|]].
        * rewrite sat_add_assoc in H1. rewrite Nat2N.inj_add. exact H1.
        * intros Hb. specialize (H3 Hb). rewrite skipn_length in H3. lia.
      + exact I.
    - destruct (over_limit _ _); intros H; inversion H; subst; [exact I|].
      split; [unfold sat_add, USIZE_MAX; lia|]. split; [exact Hok|].
      rewrite Hph. discriminate.
  Qed.

  Lemma req_dispatch_total cfg st x st2 r :
    is_body (r_phase st) = false -> tot_ok cfg st ->
    D cfg st x = (st2, r) ->
    match r with
    | Complete c2 => (sat_add (r_total st) (N.of_nat c2) <= r_total st2)%N /\ tot_ok cfg st2
    | Incomplete c2 => (sat_add (r_total st) (N.of_nat c2) <= r_total st2)%N /\ tot_ok cfg st2
                       /\ (is_body (r_phase st2) = true -> c2 = length x)
    | Reject _ => True
    end.
  Proof.
    intros Hnb Hok. unfold req_dispatch. destruct (r_phase st) eqn:Hph; try discriminate.
    - apply req_line_total; assumption.
    - apply req_headers_total.
  Qed.

  (* ------------------------------------------------------------ Request::parse itself *)
  Lemma req_parse_eq cfg st buf :
    P cfg st buf =
    match D cfg st buf with
    | (st', Incomplete c) =>
        if presented_ok cfg (r_total st') (length buf - c)
        then (st', Incomplete c) else (st, Reject EMessageTooLong)
    | r => r
    end.
  Proof. reflexivity. Qed.

  (* states handed back by parse keep the byte count within the maximum *)
  Lemma req_parse_tot_ok cfg st buf st1 c :
    P cfg st buf = (st1, Incomplete c) -> tot_ok cfg st1.
  Proof.
    rewrite req_parse_eq. destruct (D cfg st buf) as [st' [k|k|e]]; try discriminate.
    destruct (presented_ok cfg (r_total st') (length buf - k)) eqn:E; [|discriminate].
    intros H. inversion H; subst. unfold tot_ok.
    eapply presented_ok_mono; [| |exact E]; lia.
  Qed.

  Theorem req_parse_spec cfg st a b :
    tot_ok cfg st ->
    match P cfg st a with
    | (st1, Complete c) => c <= length a /\ P cfg st (a ++ b) = (st1, Complete c)
    | (st1, Incomplete c) =>
        c <= length a /\ oeq (P cfg st (a ++ b)) (shift uri c (P cfg st1 (skipn c a ++ b)))
    | (_, Reject e) => exists st' e', P cfg st (a ++ b) = (st', Reject e')
    end.
  Proof.
    intros Hok.
    pose proof (req_dispatch_spec cfg st a b) as HS. unfold res_spec in HS.
    rewrite (req_parse_eq cfg st a).
    destruct (D cfg st a) as [st1 [c|c|e]] eqn:Da.
    - destruct HS as [Hc HS]. split; [exact Hc|]. rewrite req_parse_eq, HS. reflexivity.
    - destruct HS as [Hc HS].
      assert (Hlen : length (a ++ b) - c = length (skipn c a ++ b)).
      { rewrite !app_length, skipn_length. lia. }
      destruct (presented_ok cfg (r_total st1) (length a - c)) eqn:Pa.
      + split; [exact Hc|].
        rewrite (req_parse_eq cfg st (a ++ b)), (req_parse_eq cfg st1 (skipn c a ++ b)).
        destruct (D cfg st1 (skipn c a ++ b)) as [st2 [c2|c2|e2]] eqn:Dr; cbn [shift] in HS.
        * destruct (D cfg st (a ++ b)) as [s' [k|k|e']]; cbn [oeq] in HS; try discriminate.
          inversion HS; subst. cbn [shift oeq]. reflexivity.
        * destruct (D cfg st (a ++ b)) as [s' [k|k|e']]; cbn [oeq] in HS; try discriminate.
          inversion HS; subst.
          replace (length (a ++ b) - (c + c2)) with (length (skipn c a ++ b) - c2) by lia.
          destruct (presented_ok cfg (r_total st2) (length (skipn c a ++ b) - c2));
            cbn [shift oeq]; reflexivity.
        * destruct (D cfg st (a ++ b)) as [s' [k|k|e']]; cbn [oeq] in HS; try discriminate.
          subst. cbn [shift oeq]. reflexivity.
      + (* rejected because too many bytes were presented: more bytes do not help *)
        (* idempotence: the rest alone yields nothing more *)
        pose proof (req_dispatch_spec cfg st a []) as HI. unfold res_spec in HI.
        rewrite Da in HI. rewrite !app_nil_r in HI. destruct HI as [_ HI]. rewrite Da in HI.
        destruct (D cfg st1 (skipn c a)) as [si [ki|ki|ei]] eqn:Di; cbn [shift oeq] in HI; try discriminate.
        inversion HI; subst si. assert (ki = 0) by lia. subst ki. clear HI.
        (* the phase of st1 *)
        destruct (is_body (r_phase st)) eqn:Hb.
        { (* body phase: everything was consumed and the count is the old one *)
          unfold req_dispatch in Da. destruct (r_phase st) eqn:Hph; try discriminate.
          destruct (req_body_incomplete _ _ _ _ _ Da) as [-> [Ht _]].
          exfalso. unfold tot_ok in Hok. rewrite Nat.sub_diag, Ht, Hok in Pa. discriminate. }
        pose proof (req_dispatch_total cfg st a st1 (Incomplete c) Hb Hok Da) as [Hlow [Hok1 Hbody]].
        destruct (is_body (r_phase st1)) eqn:Hb1.
        { exfalso. rewrite (Hbody eq_refl), Nat.sub_diag in Pa. unfold tot_ok in Hok1.
          rewrite Hok1 in Pa. discriminate. }
        rewrite (req_parse_eq cfg st (a ++ b)).
        destruct (D cfg st1 (skipn c a ++ b)) as [st2 [c2|c2|e2]] eqn:Dr; cbn [shift] in HS.
        * (* Complete: impossible, the message would have ended inside the rest *)
          exfalso.
          pose proof (req_dispatch_total cfg st1 _ st2 (Complete c2) Hb1 Hok1 Dr) as [Hl2 Hok2].
          destruct (Nat.lt_ge_cases c2 (length (skipn c a))) as [Hlt|Hge].
          -- pose proof (req_dispatch_firstn _ _ _ _ _ Dr) as Loc.
             rewrite firstn_app_le in Loc by lia.
             pose proof (req_dispatch_spec cfg st1 (firstn c2 (skipn c a)) (skipn c2 (skipn c a))) as HF.
             unfold res_spec in HF. rewrite Loc in HF. destruct HF as [_ HF].
             rewrite firstn_skipn in HF. rewrite Di in HF. discriminate.
          -- rewrite skipn_length in Hge. unfold tot_ok in Hok2.
             assert (Hbad : presented_ok cfg (r_total st1) (length a - c) = true).
             { revert Hok2 Hl2. unfold presented_ok, sat_add, USIZE_MAX.
               destruct (mm cfg) as [m|]; [|reflexivity].
               rewrite !negb_true_iff, !N.ltb_ge. lia. }
             rewrite Hbad in Pa. discriminate.
        * destruct (D cfg st (a ++ b)) as [s' [k|k|e']]; cbn [oeq] in HS; try discriminate.
          inversion HS; subst.
          pose proof (req_dispatch_total cfg st1 _ st2 (Incomplete c2) Hb1 Hok1 Dr) as [Hl2 _].
          assert (Hf : presented_ok cfg (r_total st2) (length (a ++ b) - (c + c2)) = false).
          { destruct (presented_ok cfg (r_total st2) (length (a ++ b) - (c + c2))) eqn:E; [|reflexivity].
            exfalso.
            assert (Hbad : presented_ok cfg (r_total st1) (length a - c) = true).
            { pose proof (req_dispatch_spec cfg st1 (skipn c a) b) as HB. unfold res_spec in HB.
              rewrite Di in HB. destruct HB as [_ HB]. clear HB.
              revert E Hl2. unfold presented_ok, sat_add, USIZE_MAX.
              destruct (mm cfg) as [m|]; [|reflexivity].
              rewrite !negb_true_iff, !N.ltb_ge.
              assert (c2 <= length (skipn c a ++ b)).
              { pose proof (req_dispatch_spec cfg st1 (skipn c a ++ b) []) as HB2.
                unfold res_spec in HB2. rewrite Dr in HB2. tauto. }
              rewrite app_length, skipn_length in *. lia. }
            rewrite Hbad in Pa. discriminate. }
          rewrite Hf. eauto.
        * destruct (D cfg st (a ++ b)) as [s' [k|k|e']]; cbn [oeq] in HS; try discriminate.
          subst. eauto.
    - destruct HS as [st' [e' HS]]. rewrite req_parse_eq, HS. eauto.
  Qed.
End WithUri.
