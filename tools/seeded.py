#!/usr/bin/env python3
"""seeded.py import            copy validated changes from /tmp/mut/*-out into /verif/seeded/<id>-<k>/
   seeded.py run [ids...]      apply each seeded change to /repo, run the quick check of its property
                               (and any extra properties given as PROPS=C01,C08), undo, record the outcome"""
import json, os, shutil, subprocess, sys, time
ROOT = os.path.dirname(os.path.dirname(os.path.abspath(__file__)))
SEEDED = os.path.join(ROOT, "seeded")


def do_import():
    for d in sorted(os.listdir("/tmp/mut")):
        if not (d.endswith("-out") or d.endswith("-out2") or d.endswith("-out3") or d.endswith("-out4") or d.endswith("-out5") or d.endswith("-out66") or d.endswith("-out7") or d.endswith("-out8") or d.endswith("-out9")):
            continue
        off = 16 if d.endswith("-out9") else 14 if d.endswith("-out8") else 12 if d.endswith("-out7") else 10 if d.endswith("-out66") else 8 if d.endswith("-out5") else 6 if d.endswith("-out4") else 4 if d.endswith("-out3") else 2 if d.endswith("-out2") else 0
        pid = d.split("-out")[0]
        for k in (1, 2):
            src = f"/tmp/mut/{d}"
            if not os.path.exists(f"{src}/patch{k}.diff"):
                continue
            dst = os.path.join(SEEDED, f"{pid}-{k + off}")
            os.makedirs(dst, exist_ok=True)
            shutil.copy(f"{src}/patch{k}.diff", f"{dst}/patch.diff")
            if os.path.isdir(f"{dst}/demo"):
                shutil.rmtree(f"{dst}/demo")
            shutil.copytree(f"{src}/demo{k}", f"{dst}/demo", ignore=shutil.ignore_patterns("target", "Cargo.lock"))
            meta = json.load(open(f"{src}/meta{k}.json"))
            meta.update({"property": pid, "origin": "independent sub-agent given only the property text and a scratch worktree",
                         "confirmed": "tools/validate_seeded.sh: patch applies to /repo HEAD; cargo test --offline: 75 unit + 4 doc tests pass with it; "
                                      "demo (cargo run --offline) fails with the change and passes without it",
                         "demo_note": "demo/Cargo.toml refers to the crate by a relative path (../../<id>); point it at a worktree of /repo to re-run"})
            json.dump(meta, open(f"{dst}/meta.json", "w"), indent=1)
            print("imported", dst)


def do_run(ids):
    props_extra = [p for p in os.environ.get("PROPS", "").split(",") if p]
    results = {}
    resfile = os.path.join(SEEDED, "RESULTS.json")
    if os.path.exists(resfile):
        results = json.load(open(resfile))
    for sid in ids:
        d = os.path.join(SEEDED, sid)
        pid = sid.split("-")[0]
        assert subprocess.run(["git", "-C", "/repo", "status", "--porcelain"], capture_output=True, text=True).stdout.strip() == "", "/repo not clean"
        subprocess.run(["git", "-C", "/repo", "apply", f"{d}/patch.diff"], check=True)
        try:
            for prop in [pid] + props_extra:
                t0 = time.time()
                env = dict(os.environ)
                env["VERIF_EVIDENCE_DIR"] = os.path.join(ROOT, "work", "seeded-evidence")
                r = subprocess.run(["./check", prop, "--quick"], cwd=ROOT, capture_output=True, text=True, env=env)
                vio = [l for l in r.stdout.split("\n") if l.startswith("VIOLATION")]
                detail = [l for l in r.stdout.split("\n") if "]: " in l or "] property" in l or "correspondence" in l][-2:]
                results.setdefault(sid, {})[prop] = {"exit": r.returncode, "violation": vio[0] if vio else None,
                                                     "detail": [x[:300] for x in detail], "wall_s": round(time.time() - t0, 1)}
                print(sid, prop, "exit", r.returncode, vio[0] if vio else "-", flush=True)
                # keep the failing cases of the property's own check next to the change: they feed the corpus
                if prop == pid and vio and "replay=" in vio[0]:
                    rp = vio[0].split("replay=")[1].split()[0]
                    try:
                        v = json.load(open(rp))
                        keep = [{"kind": c["kind"], "args": c["args"]} for c in v.get("cases", [])[:3]]
                        if v.get("minimized"):
                            keep.append({"kind": v["minimized"]["kind"], "args": v["minimized"]["args"]})
                        json.dump({"kind": v.get("kind"), "message": v.get("message", "")[:300], "cases": keep},
                                  open(os.path.join(d, "failing_cases.json"), "w"), indent=1)
                    except (OSError, ValueError, KeyError):
                        pass
        finally:
            subprocess.run(["git", "-C", "/repo", "checkout", "--", "."], check=True)
        json.dump(results, open(resfile, "w"), indent=1)


def do_corpus():
    """corpus/<prop>/seeded.txt from the failing cases recorded for each seeded change: inputs that once told
    a broken tree from the real one run first on every check (model vs implementation only)"""
    by_prop = {}
    for sid in sorted(os.listdir(SEEDED)):
        fp = os.path.join(SEEDED, sid, "failing_cases.json")
        if not os.path.exists(fp):
            continue
        pid = sid.split("-")[0]
        for c in json.load(open(fp))["cases"]:
            if sum(len(a) for a in c["args"]) > 20000:
                continue
            line = "\t".join([c["kind"]] + c["args"])
            by_prop.setdefault(pid, [])
            if line not in by_prop[pid]:
                by_prop[pid].append(line)
    for pid, lines in by_prop.items():
        os.makedirs(os.path.join(ROOT, "corpus", pid), exist_ok=True)
        with open(os.path.join(ROOT, "corpus", pid, "seeded.txt"), "w") as f:
            f.write("\n".join(lines) + "\n")
        print(pid, len(lines), "corpus cases")


if __name__ == "__main__":
    if sys.argv[1] == "import":
        do_import()
    elif sys.argv[1] == "corpus":
        do_corpus()
    else:
        ids = sys.argv[2:] or sorted(d for d in os.listdir(SEEDED) if os.path.isdir(os.path.join(SEEDED, d)))
        do_run(ids)
