(* ChunkedGrammar.v -- what a well-formed chunked body is (RFC 7230 section 4.1), stated
   without reference to the decoder's loop: a sequence of chunks "size [;ext] CRLF data CRLF"
   with size = 1*HEXDIG > 0 and exactly size data bytes, then a last chunk "0.. [;ext] CRLF",
   then the trailer section (a header block ending with an empty line). *)
From Http Require Import Model.Bytes Model.Utf8 Model.Num Model.Headers Model.Chunked.

(* [line] is a line: the first CRLF of line ++ CRLF is the appended one *)
Definition is_line (line : bytes) : Prop := find_crlf (line ++ CRLF) = Some (length line).

(* the size field: the text before the first ';' (extensions follow it) *)
Definition size_field (line : bytes) : bytes :=
  match find_byte SEMI line with Some d => firstn d line | None => line end.

(* a chunk-size line announcing n: valid text (extensions may hold any UTF-8), size field
   made of hex digits only, value n representable *)
Definition size_line (line : bytes) (n : N) : Prop :=
  is_line line /\ utf8_valid line = true /\ parse_hex (size_field line) = Some n.

(* the trailer section is rhymessage's header-block grammar (specified for requests in
   Spec/HeaderGrammar.v); here by reference to the block parser on the whole section *)
Definition is_trailer (block : bytes) (fields : list header) : Prop :=
  hdr_parse None [] block = HComplete fields (length block).

Inductive IsChunked : bytes -> bytes -> list header -> Prop :=
| IC_last line block fields :
    size_line line 0 -> is_trailer block fields ->
    IsChunked (line ++ CRLF ++ block) [] fields
| IC_chunk line n data rest payload fields :
    size_line line n -> n <> 0%N -> length data = N.to_nat n ->
    IsChunked rest payload fields ->
    IsChunked (line ++ CRLF ++ data ++ CRLF ++ rest) (data ++ payload) fields.
