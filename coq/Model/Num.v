(* Num.v -- the numeric field parsers and the decimal printer. *)
From Http Require Import Model.Bytes.

Definition is_digit (b : N) : bool := between 48 57 b.
Definition is_hexdigit (b : N) : bool :=
  (between 48 57 b || between 65 70 b || between 97 102 b)%bool.

Definition digit_val (b : N) : N := (b - 48)%N.
Definition hex_val (b : N) : N :=
  if between 48 57 b then (b - 48)%N
  else if between 65 70 b then (b - 55)%N
  else (b - 87)%N.

Definition USIZE_MAX : N := 18446744073709551615%N.

(* value of a digit string, most significant first (no validation) *)
Definition dec_value (s : bytes) : N :=
  fold_left (fun acc b => (acc * 10 + digit_val b)%N) s 0%N.
Definition hex_value (s : bytes) : N :=
  fold_left (fun acc b => (acc * 16 + hex_val b)%N) s 0%N.

(* crate::parse_unsigned(text, 10) after the F5 fix: 1*DIGIT, value <= usize::MAX *)
Definition parse_dec (s : bytes) : option N :=
  match s with
  | [] => None
  | _ => if forallb is_digit s
         then let v := dec_value s in if N.leb v USIZE_MAX then Some v else None
         else None
  end.

(* crate::parse_unsigned(text, 16): 1*HEXDIG, value <= usize::MAX *)
Definition parse_hex (s : bytes) : option N :=
  match s with
  | [] => None
  | _ => if forallb is_hexdigit s
         then let v := hex_value s in if N.leb v USIZE_MAX then Some v else None
         else None
  end.

(* the standard library parsers (str::parse::<usize>, usize::from_str_radix):
   one optional leading '+' is accepted -- what the unfixed code used *)
Definition parse_dec_rust (s : bytes) : option N :=
  match s with
  | b :: ((_ :: _) as t) => if N.eqb b PLUS then parse_dec t else parse_dec s
  | _ => parse_dec s
  end.
Definition parse_hex_rust (s : bytes) : option N :=
  match s with
  | b :: ((_ :: _) as t) => if N.eqb b PLUS then parse_hex t else parse_hex s
  | _ => parse_hex s
  end.

(* usize::to_string : decimal, no leading zeros, "0" for zero *)
Fixpoint show_dec_aux (fuel : nat) (n : N) (acc : bytes) : bytes :=
  match fuel with
  | O => acc
  | S f =>
      let acc' := (48 + n mod 10)%N :: acc in
      if N.ltb n 10 then acc' else show_dec_aux f (n / 10)%N acc'
  end.
Definition show_dec (n : N) : bytes := show_dec_aux (S (N.to_nat (N.log2 n))) n [].
