(* CaseTrailer.v -- C18 for chunked responses at the level of bytes, letter case changed both in
   the header block and in the trailer section: same verdict, boundary, body; stored headers
   equal up to letter case. *)
From Coq Require Import ZArith Lia ZifyN ZifyBool.
From Http Require Import Model.Bytes Model.Utf8 Model.Num Model.Headers Model.Request Model.Chunked
     Model.Response Spec.ChunkedGrammar
     Proofs.BytesLemmas Proofs.HeadersResume Proofs.HeaderAlgebra Proofs.Utf8Lemmas
     Proofs.CaseLemmas Proofs.CaseBytes Proofs.ChunkGrammar Proofs.HeaderRejects Proofs.ReqRejects
     Proofs.RespRejects Proofs.CaseEndToEnd.

(* a well-formed chunked body, and the same body with the letter case of its trailer section
   changed *)
Inductive chunked_variant : bytes -> bytes -> Prop :=
| CV_last line block block' fields :
    size_line line 0 -> is_trailer block fields -> ci_eq block block' ->
    chunked_variant (line ++ CRLF ++ block) (line ++ CRLF ++ block')
| CV_chunk line n data rest rest' :
    size_line line n -> n <> 0%N -> length data = N.to_nat n -> chunked_variant rest rest' ->
    chunked_variant (line ++ CRLF ++ data ++ CRLF ++ rest) (line ++ CRLF ++ data ++ CRLF ++ rest').

Theorem chunked_variant_decodes c c' :
  chunked_variant c c' ->
  exists p tf tf', IsChunked c p tf /\ IsChunked c' p tf' /\ hdrs_ci tf tf' /\ length c = length c'.
Proof.
  induction 1 as [line block block' fields Hs Ht Hc|line n data rest rest' Hs Hn Hd _ IH].
  - unfold is_trailer in Ht.
    destruct (block_case_variant None block block' fields Hc Ht) as [fields' [Ht' Hci]].
    exists [], fields, fields'. split; [apply IC_last; assumption|].
    split; [apply IC_last; assumption|]. split; [exact Hci|].
    rewrite !app_length. rewrite (ci_eq_length _ _ Hc). reflexivity.
  - destruct IH as [p [tf [tf' [H1 [H2 [H3 H4]]]]]].
    exists (data ++ p), tf, tf'. split; [apply (IC_chunk line n); assumption|].
    split; [apply (IC_chunk line n); assumption|]. split; [exact H3|].
    rewrite !app_length. rewrite H4. reflexivity.
Qed.

(* the de-chunking rewrite with both lists varying *)
Lemma filter_framing_ci tr tr' :
  hdrs_ci tr tr' ->
  hdrs_ci (filter (fun h => negb (is_framing_name (fst h))) tr)
          (filter (fun h => negb (is_framing_name (fst h))) tr').
Proof.
  induction 1 as [|h h' t t' [H1 H2] _ IH]; [constructor|].
  cbn [filter]. unfold is_framing_name at 1 3.
  rewrite !(name_eq_ci _ _ _ _ H1 eq_refl).
  destruct (negb _); [constructor; [split; assumption|exact IH]|exact IH].
Qed.

Theorem dechunk_headers_ci2 hs hs' tr tr' body :
  hdrs_ci hs hs' -> hdrs_ci tr tr' ->
  hdrs_ci (dechunk_headers hs tr body) (dechunk_headers hs' tr' body).
Proof.
  intros H Ht. unfold dechunk_headers. cbv zeta.
  pose proof (filter_framing_ci tr tr' Ht) as Hf.
  set (t := filter (fun h => negb (is_framing_name (fst h))) tr) in *.
  set (t' := filter (fun h => negb (is_framing_name (fst h))) tr') in *.
  assert (H1 : hdrs_ci (hs ++ t) (hs' ++ t')) by (apply hdrs_ci_app; assumption).
  rewrite (header_tokens_ci (hs ++ t) (hs' ++ t') TRANSFER_ENCODING TRANSFER_ENCODING H1 eq_refl).
  apply remove_header_ci. unfold add_header. apply hdrs_ci_app; [|apply hdrs_ci_refl].
  destruct (removelast _); [apply remove_header_ci; exact H1|apply set_header_ci; exact H1].
Qed.

(* a chunked response and its case variant (header block and trailer section) *)
Theorem chunked_response_case_insensitive l block block' wire wire' rest hs code reason :
  is_line l -> utf8_valid l = true -> parse_status_line l = inl (code, reason) ->
  ci_eq block block' -> hdr_parse None [] block = HComplete hs (length block) ->
  header_value hs CONTENT_LENGTH = None -> has_header_token hs TRANSFER_ENCODING CHUNKED = true ->
  chunked_variant wire wire' ->
  exists st st' c,
    resp_parse resp_init (l ++ CRLF ++ block ++ wire ++ rest) = (st, Complete c) /\
    resp_parse resp_init (l ++ CRLF ++ block' ++ wire' ++ rest) = (st', Complete c) /\
    c = length (l ++ CRLF ++ block ++ wire) /\
    s_code st = s_code st' /\ s_reason st = s_reason st' /\ s_body st = s_body st' /\
    s_trailer st = s_trailer st' /\ hdrs_ci (s_headers st) (s_headers st').
Proof.
  intros Hl U PL Hc HP HV HT HW.
  destruct (chunked_variant_decodes _ _ HW) as [p [tf [tf' [I1 [I2 [Htf Hlen]]]]]].
  destruct (block_case_variant None block block' hs Hc HP) as [hs' [HP' Hci]].
  pose proof (header_value_ci hs hs' CONTENT_LENGTH CONTENT_LENGTH Hci eq_refl) as HVci.
  rewrite HV in HVci. destruct (header_value hs' CONTENT_LENGTH) eqn:HV'; [contradiction|].
  pose proof (has_header_token_ci hs hs' TRANSFER_ENCODING TRANSFER_ENCODING CHUNKED CHUNKED Hci eq_refl eq_refl) as HTci.
  rewrite HT in HTci.
  rewrite !(resp_parse_line_form l _ Hl). rewrite U, PL. cbn [negb].
  unfold resp_headers. cbn [s_headers sst].
  rewrite (block_then_rest None [] block hs (wire ++ rest) HP).
  rewrite (block_then_rest None [] block' hs' (wire' ++ rest) HP').
  cbv zeta. rewrite HV, HV', HT, <- HTci.
  rewrite !skipn_app_exact. unfold resp_chunked.
  rewrite (chunk_decode_complete wire p tf rest I1), (chunk_decode_complete wire' p tf' rest I2).
  cbn [rshift c_buffer c_trailer s_code s_reason s_body s_trailer s_headers sst].
  eexists _, _, _. split; [reflexivity|]. split.
  - rewrite <- Hlen. rewrite <- (ci_eq_length _ _ Hc). reflexivity.
  - cbn [s_code s_reason s_body s_trailer s_headers].
    split; [rewrite !app_length; simpl; lia|]. repeat split.
    apply dechunk_headers_ci2; assumption.
Qed.
