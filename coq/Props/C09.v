(* C09 -- a completed parse consumes exactly one message: trailing bytes never leak in. *)
From Coq Require Import String.
From Http Require Import Model.Bytes Model.Request Model.Chunked Model.Response Spec.Delivery
     Proofs.RespResume Proofs.C09Boundary.

(* requests: appending arbitrary bytes after a complete request changes neither the parsed
   value nor the boundary *)
Theorem C09_request_suffix :
  forall (uri : Type) (uri_parse : bytes -> option uri) (cfg : rcfg)
         (m : bytes) (st : req_state uri) (c : nat) (sfx : bytes),
    req_parse uri uri_parse cfg req_init m = (st, Complete c) ->
    c <= length m /\ req_parse uri uri_parse cfg req_init (m ++ sfx) = (st, Complete c).
Proof. exact request_suffix_irrelevant. Qed.
Print Assumptions C09_request_suffix.

(* ... and a completed parse is a function of the consumed bytes only *)
Theorem C09_request_local :
  forall (uri : Type) (uri_parse : bytes -> option uri) (cfg : rcfg)
         (x : bytes) (st : req_state uri) (c : nat),
    req_parse uri uri_parse cfg req_init x = (st, Complete c) ->
    req_parse uri uri_parse cfg req_init (firstn c x) = (st, Complete c).
Proof. exact request_complete_local. Qed.
Print Assumptions C09_request_local.

(* responses: same message (code, reason, headers, body) and same boundary; only the
   trailing data grows *)
Theorem C09_response_suffix :
  forall (m : bytes) (st : resp_state) (c : nat) (sfx : bytes),
    resp_parse resp_init m = (st, Complete c) ->
    c <= length m /\
    exists st' c', resp_parse resp_init (m ++ sfx) = (st', Complete c') /\ same_response st c st' c'.
Proof. exact response_suffix_irrelevant. Qed.
Print Assumptions C09_response_suffix.

(* any sequence of messages concatenated on one buffer is split into the same messages at
   the same offsets as parsing each alone (fresh parser per message) *)
Theorem C09_request_pipeline :
  forall (uri : Type) (uri_parse : bytes -> option uri) (cfg : rcfg) (ms : list bytes),
    Forall (parses_alone uri uri_parse cfg) ms ->
    req_split uri uri_parse cfg (length ms) (concat ms) =
    map (fun m => (fst (req_parse uri uri_parse cfg req_init m), length m)) ms.
Proof. exact request_pipeline. Qed.
Print Assumptions C09_request_pipeline.

Theorem C09_response_pipeline :
  forall ms : list bytes,
    Forall resp_parses_alone ms ->
    Forall2 same_message (resp_split (length ms) (concat ms))
            (map (fun m => (fst (resp_parse resp_init m), length m)) ms).
Proof. exact response_pipeline. Qed.
Print Assumptions C09_response_pipeline.

(* non-vacuity: three framings on one buffer *)
Definition m_cl : bytes := str "HTTP/1.1 200 OK"%string ++ CRLF ++ str "Content-Length: 2"%string ++ CRLF ++ CRLF ++ str "ab"%string.
Definition m_ch : bytes := str "HTTP/1.1 200 OK"%string ++ CRLF ++ str "Transfer-Encoding: chunked"%string ++ CRLF ++ CRLF
  ++ str "1"%string ++ CRLF ++ str "x"%string ++ CRLF ++ str "0"%string ++ CRLF ++ CRLF.
Definition m_no : bytes := str "HTTP/1.1 204 "%string ++ CRLF ++ CRLF.
Example C09_example :
  map snd (resp_split 3 (m_cl ++ m_ch ++ m_no)) = [length m_cl; length m_ch; length m_no]
  /\ snd (resp_parse resp_init m_cl) = Complete (length m_cl)
  /\ s_trailer (fst (resp_parse resp_init m_cl)) = [].
Proof. vm_compute. repeat split. Qed.
