#!/bin/bash
# harmless.sh <dir-with-H*-out> : quietness test.  Applies each behaviour-preserving patch
# (<dir>/H*-out/patch<k>.diff, written by independent sub-agents) to /repo, runs all 18 quick checks
# (5 at a time; evidence redirected so that the real tree's evidence is not overwritten), undoes the patch.
# Prints one line per patch; an ALARM line for every check that reports a violation.
cd "$(dirname "$0")/.." || exit 2
ROOT=$(pwd)
one() { i=$1; tag=$2
  out=$(VERIF_EVIDENCE_DIR=$ROOT/work/harmless-evidence ./check C$i --quick 2>&1)
  if echo "$out" | grep -q "^VIOLATION"; then
    echo "ALARM $tag C$i"
    echo "$out" | grep -E "VIOLATION|differ|relation|\]: " | head -4 | cut -c1-400 | sed "s/^/    $tag C$i /"
    cp $ROOT/replays/C$i-quick-1.json $ROOT/work/harmless-$tag-C$i.json 2>/dev/null
  fi
}
export -f one
export ROOT
for d in "$1"/H*-out; do
  h=$(basename "$d" | sed 's/-out//')
  for k in 1 2; do
    p=$d/patch$k.diff
    [ -f "$p" ] || continue
    if [ -n "$(git -C /repo status --porcelain)" ]; then echo "$h-$k /repo not clean"; exit 1; fi
    if ! git -C /repo apply --check "$p" 2>/dev/null; then echo "$h-$k does-not-apply"; continue; fi
    git -C /repo apply "$p"
    ( cd harness && CARGO_NET_OFFLINE=true cargo build --offline >/dev/null 2>&1; CARGO_NET_OFFLINE=true cargo build --offline --release >/dev/null 2>&1 )
    res=$(printf "%s\n" 01 02 03 04 05 06 07 08 09 10 11 12 13 14 15 16 17 18 | xargs -P 5 -I{} bash -c "one {} $h-$k")
    git -C /repo checkout -- .
    if [ -z "$res" ]; then echo "$h-$k checked: quiet on all 18"; else echo "$h-$k checked:"; echo "$res"; fi
  done
done
