(* Numeric.v -- the length-determining numeric fields are accepted only in RFC form. *)
From Coq Require Import Lia.
From Http Require Import Model.Bytes Model.Utf8 Model.Num Model.Headers Model.Request
     Model.Chunked Model.Response Spec.Delivery Proofs.BytesLemmas.

Definition all_digits (s : bytes) : Prop := s <> [] /\ forallb is_digit s = true.
Definition all_hexdigits (s : bytes) : Prop := s <> [] /\ forallb is_hexdigit s = true.

Lemma parse_dec_digits s n : parse_dec s = Some n -> all_digits s /\ n = dec_value s /\ (n <= USIZE_MAX)%N.
Proof.
  unfold parse_dec. destruct s as [|a s']; [discriminate|].
  destruct (forallb is_digit (a :: s')) eqn:F; [|discriminate].
  destruct (N.leb (dec_value (a :: s')) USIZE_MAX) eqn:L; [|discriminate].
  intros H. inversion H. split; [split; [discriminate|exact F]|]. split; [reflexivity|].
  apply N.leb_le. exact L.
Qed.

Lemma parse_hex_digits s n : parse_hex s = Some n -> all_hexdigits s /\ n = hex_value s /\ (n <= USIZE_MAX)%N.
Proof.
  unfold parse_hex. destruct s as [|a s']; [discriminate|].
  destruct (forallb is_hexdigit (a :: s')) eqn:F; [|discriminate].
  destruct (N.leb (hex_value (a :: s')) USIZE_MAX) eqn:L; [|discriminate].
  intros H. inversion H. split; [split; [discriminate|exact F]|]. split; [reflexivity|].
  apply N.leb_le. exact L.
Qed.

(* the converse: every digit string whose value fits is accepted, so the accepted set is
   exactly 1*DIGIT (resp. 1*HEXDIG) with value <= usize::MAX *)
Lemma parse_dec_complete s : all_digits s -> (dec_value s <= USIZE_MAX)%N -> parse_dec s = Some (dec_value s).
Proof.
  intros [Hne F] L. unfold parse_dec. destruct s; [congruence|]. rewrite F.
  apply N.leb_le in L. rewrite L. reflexivity.
Qed.

Lemma parse_hex_complete s : all_hexdigits s -> (hex_value s <= USIZE_MAX)%N -> parse_hex s = Some (hex_value s).
Proof.
  intros [Hne F] L. unfold parse_hex. destruct s; [congruence|]. rewrite F.
  apply N.leb_le in L. rewrite L. reflexivity.
Qed.

(* what the standard-library parsers (used before the fix) accept in addition: exactly a
   leading '+' -- the difference the fix removes *)
Lemma parse_dec_rust_extra s n :
  parse_dec_rust s = Some n -> ~ all_digits s ->
  exists t, s = PLUS :: t /\ all_digits t /\ parse_dec t = Some n.
Proof.
  unfold parse_dec_rust. destruct s as [|b [|c t]].
  - discriminate.
  - intros H Hn. apply parse_dec_digits in H. tauto.
  - destruct (N.eqb b PLUS) eqn:E.
    + apply N.eqb_eq in E. subst. intros H _. exists (c :: t). split; [reflexivity|].
      split; [apply (parse_dec_digits _ _ H)|exact H].
    + intros H Hn. apply parse_dec_digits in H. tauto.
Qed.

(* ---- status line ---- *)
(* the status-code field: the text between the first and the second space *)
Definition status_code_field (line : bytes) : option bytes :=
  match find_byte SP line with
  | None => None
  | Some pd =>
    let rest := skipn (S pd) line in
    match find_byte SP rest with
    | None => None
    | Some cd => Some (firstn cd rest)
    end
  end.

Lemma status_line_code_digits line code reason :
  parse_status_line line = inl (code, reason) ->
  exists f, status_code_field line = Some f /\ all_digits f /\ code = dec_value f /\ (code < 1000)%N.
Proof.
  unfold parse_status_line, status_code_field.
  destruct (find_byte SP line) as [pd|]; [|discriminate].
  destruct (negb (bytes_eqb (firstn pd line) HTTP11)); [discriminate|]. cbv zeta.
  destruct (find_byte SP (skipn (S pd) line)) as [cd|]; [|discriminate].
  destruct (parse_dec (firstn cd (skipn (S pd) line))) as [c|] eqn:PD; [|discriminate].
  destruct (N.ltb c 1000) eqn:L; [|discriminate].
  intros H. inversion H; subst. eexists. split; [reflexivity|].
  destruct (parse_dec_digits _ _ PD) as [D [V _]]. split; [exact D|]. split; [exact V|].
  apply N.ltb_lt. exact L.
Qed.

(* ---- chunk size ---- *)
Definition chunk_size_field (line : bytes) : bytes :=
  match find_byte SEMI line with Some d => firstn d line | None => line end.

Lemma chunk_size_hexdigits line n :
  parse_chunk_size line = Some n ->
  all_hexdigits (chunk_size_field line) /\ n = hex_value (chunk_size_field line).
Proof.
  unfold parse_chunk_size, chunk_size_field.
  destruct (find_byte SEMI line) as [d|]; intros H; apply parse_hex_digits in H; tauto.
Qed.

Lemma decode_size_hexdigits st buf st' c :
  decode_size st buf = CPart st' c ->
  exists e, find_crlf buf = Some e /\ c = e + 2 /\ all_hexdigits (chunk_size_field (firstn e buf)).
Proof.
  unfold decode_size. destruct (find_crlf buf) as [e|]; [|discriminate]. cbv zeta.
  destruct (negb (utf8_valid (firstn e buf))); [discriminate|].
  destruct (parse_chunk_size (firstn e buf)) as [n|] eqn:PC; [|discriminate].
  intros H. inversion H; subst. exists e. split; [reflexivity|]. split; [reflexivity|].
  apply (chunk_size_hexdigits _ _ PC).
Qed.

(* ---- Content-Length, requests ---- *)
Section WithUri.
  Variable uri : Type.
  Variable uri_parse : bytes -> option uri.
  Notation P := (req_parse uri uri_parse).

  (* states in the body phase got there through a digits-only Content-Length *)
  Definition cl_inv (st : req_state uri) : Prop :=
    match r_phase st with
    | PBody n => exists t, header_value (r_headers st) CONTENT_LENGTH = Some t /\ parse_dec t = Some n
    | _ => True
    end.

  Definition cl_ok (st : req_state uri) : Prop :=
    forall t, header_value (r_headers st) CONTENT_LENGTH = Some t -> all_digits t.

  Lemma req_body_cl st n buf st1 o :
    req_body uri st n buf = (st1, o) -> r_headers st1 = r_headers st /\ r_phase st1 = r_phase st.
  Proof.
    unfold req_body. cbv zeta. destruct (N.leb _ _); intros H; inversion H; split; reflexivity.
  Qed.

  Lemma req_headers_cl cfg st buf st1 o :
    req_headers uri cfg st buf = (st1, o) ->
    match o with
    | Complete _ => cl_ok st1
    | Incomplete _ => cl_inv st1
    | Reject _ => True
    end.
  Proof.
    unfold req_headers.
    destruct (hdr_parse (hl cfg) (r_headers st) (strip_cr buf)) as [hs c|hs c|e].
    - destruct (count_bytes cfg (r_total st) (N.of_nat c)) as [t|]; [|intros H; inversion H; exact I].
      destruct (header_value hs CONTENT_LENGTH) as [v|] eqn:HV.
      + destruct (parse_dec v) as [n|] eqn:PD; [|intros H; inversion H; exact I].
        destruct (count_bytes cfg t n) as [t2|]; [|intros H; inversion H; exact I].
        match goal with |- shift _ _ ?R = _ -> _ => destruct R as [sb [k|k|eb]] eqn:EB end;
          cbn [shift]; intros H; inversion H; subst; clear H;
          destruct (req_body_cl _ _ _ _ _ EB) as [Hh Hp]; cbn [r_headers r_phase] in Hh, Hp.
        * intros t' Ht'. rewrite Hh, HV in Ht'. inversion Ht'; subst.
          apply (parse_dec_digits _ _ PD).
        * unfold cl_inv. rewrite Hp, Hh. exists v. split; [exact HV|exact PD].
        * exact I.
      + intros H; inversion H; subst. intros t' Ht'. cbn [r_headers] in Ht'. congruence.
    - destruct (count_bytes cfg (r_total st) (N.of_nat c)); intros H; inversion H; exact I.
    - intros H; inversion H; exact I.
  Qed.

  Lemma req_dispatch_cl cfg st buf st1 o :
    cl_inv st -> req_dispatch uri uri_parse cfg st buf = (st1, o) ->
    match o with
    | Complete _ => cl_ok st1
    | Incomplete _ => cl_inv st1
    | Reject _ => True
    end.
  Proof.
    intros Hinv. unfold req_dispatch. destruct (r_phase st) as [| |n] eqn:Hph.
    - unfold req_line. destruct (find_crlf buf) as [e|].
      + destruct (over_limit e (rl cfg)); [intros H; inversion H; exact I|].
        destruct (negb _); [intros H; inversion H; exact I|].
        destruct (count_bytes _ _ _); [|intros H; inversion H; exact I].
        destruct (parse_request_line _ _ _) as [[m u]|er]; [|intros H; inversion H; exact I].
        match goal with |- shift _ _ ?R = _ -> _ => destruct R as [sh [k|k|eh]] eqn:EH end;
          cbn [shift]; intros H; inversion H; subst; clear H;
          apply req_headers_cl in EH; exact EH.
      + destruct (over_limit _ _); intros H; inversion H; subst; [exact I|].
        unfold cl_inv. rewrite Hph. exact I.
    - apply req_headers_cl.
    - intros H. destruct (req_body_cl _ _ _ _ _ H) as [Hh Hp].
      unfold cl_inv in Hinv. rewrite Hph in Hinv. destruct Hinv as [t [Ht PD]].
      destruct o.
      + intros t' Ht'. rewrite Hh, Ht in Ht'. inversion Ht'; subst. apply (parse_dec_digits _ _ PD).
      + unfold cl_inv. rewrite Hp, Hph, Hh. eauto.
      + exact I.
  Qed.

  Lemma req_parse_cl cfg st buf st1 o :
    cl_inv st -> P cfg st buf = (st1, o) ->
    match o with
    | Complete _ => cl_ok st1
    | Incomplete _ => cl_inv st1
    | Reject _ => True
    end.
  Proof.
    intros Hinv. unfold req_parse.
    destruct (req_dispatch uri uri_parse cfg st buf) as [s [k|k|e]] eqn:E.
    - intros H. inversion H; subst. apply (req_dispatch_cl _ _ _ _ _ Hinv E).
    - destruct (presented_ok _ _ _); intros H; inversion H; subst; [|exact I].
      apply (req_dispatch_cl _ _ _ _ _ Hinv E).
    - intros H. inversion H; subst. exact I.
  Qed.

  (* over any delivery schedule *)
  Theorem request_cl_digits cfg ds st pending tot st' tot' rest :
    cl_inv st ->
    feed _ (P cfg) st pending ds tot = Done st' tot' rest ->
    cl_ok st'.
  Proof.
    revert st pending tot. induction ds as [|d ds IH]; intros st pending tot Hinv; [discriminate|].
    cbn [feed].
    destruct (P cfg st (pending ++ d)) as [s1 [c|c|e]] eqn:E.
    - intros H. inversion H; subst. apply (req_parse_cl _ _ _ _ _ Hinv E).
    - apply IH. apply (req_parse_cl _ _ _ _ _ Hinv E).
    - discriminate.
  Qed.
End WithUri.

(* ---- Content-Length, responses ---- *)
Definition rcl_inv (st : resp_state) : Prop :=
  match s_phase st with
  | SFixedBody n => exists t, header_value (s_headers st) CONTENT_LENGTH = Some t /\ parse_dec t = Some n
  | _ => True
  end.

(* a response framed by Content-Length (the only use of the field): the value is digits *)
Lemma resp_headers_cl st buf st1 o :
  resp_headers st buf = (st1, o) ->
  match o with
  | Incomplete _ => rcl_inv st1
  | _ => True
  end
  /\ forall hs c, hdr_parse None (s_headers st) buf = HComplete hs c ->
       match header_value hs CONTENT_LENGTH with
       | Some v => (exists k, o = Reject k) \/ all_digits v
       | None => True
       end.
Proof.
  unfold resp_headers.
  destruct (hdr_parse None (s_headers st) buf) as [hs c|hs c|e] eqn:HP.
  - cbv zeta. destruct (header_value hs CONTENT_LENGTH) as [v|] eqn:HV.
    + destruct (parse_dec v) as [n|] eqn:PD.
      * unfold resp_fixed. cbv zeta. destruct (N.leb _ _); cbn [rshift]; intros H; inversion H; subst.
        -- split; [exact I|]. intros hs' c' Hq. inversion Hq; subst. rewrite HV. right.
           apply (parse_dec_digits _ _ PD).
        -- split.
           ++ unfold rcl_inv. cbn [s_phase s_headers]. exists v. split; [exact HV|exact PD].
           ++ intros hs' c' Hq. inversion Hq; subst. rewrite HV. right. apply (parse_dec_digits _ _ PD).
      * intros H; inversion H; subst. split; [exact I|].
        intros hs' c' Hq. inversion Hq; subst. rewrite HV. left. eauto.
    + intros H. split.
      * destruct (has_header_token hs TRANSFER_ENCODING CHUNKED).
        -- unfold resp_chunked in H. destruct (chunk_decode chunk_init _) as [cs [k|k|e]];
             cbn [rshift] in H; inversion H; subst; exact I.
        -- inversion H; subst. exact I.
      * intros hs' c' Hq. inversion Hq; subst. rewrite HV. exact I.
  - intros H; inversion H; subst. split; [unfold rcl_inv; cbn [s_phase]; exact I|]. discriminate.
  - intros H; inversion H; subst. split; [exact I|]. discriminate.
Qed.
