(* RespResume.v -- Response::parse is resumable for every framing. *)
From Coq Require Import Lia ZifyN ZifyNat.
From Http Require Import Model.Bytes Model.Utf8 Model.Num Model.Headers Model.Request
     Model.Chunked Model.Response Proofs.BytesLemmas Proofs.HeadersResume Proofs.ChunkResume.

Definition rwf (st : resp_state) : Prop :=
  match s_phase st with SChunkedBody cs => cwf cs | _ => True end.

Lemma rwf_init : rwf resp_init.
Proof. exact I. Qed.

Definition roeq (r1 r2 : resp_state * outcome) : Prop :=
  match r1, r2 with
  | (_, Reject e1), (_, Reject e2) => e1 = e2
  | _, _ => r1 = r2
  end.

Lemma roeq_refl r : roeq r r.
Proof. destruct r as [s [c|c|e]]; reflexivity. Qed.

Lemma roeq_rshift k r1 r2 : roeq r1 r2 -> roeq (rshift k r1) (rshift k r2).
Proof.
  destruct r1 as [s1 [c1|c1|e1]], r2 as [s2 [c2|c2|e2]]; simpl; intros H;
    try (inversion H; subst; reflexivity); try discriminate; exact H.
Qed.

Lemma rshift_rshift k1 k2 r : rshift k1 (rshift k2 r) = rshift (k1 + k2) r.
Proof. destruct r as [s [c|c|e]]; simpl; try reflexivity; f_equal; f_equal; lia. Qed.

Lemma rshift_0 r : rshift 0 r = r.
Proof. destruct r as [s [c|c|e]]; reflexivity. Qed.

(* two completed response parses describe the same message: same status code, reason,
   final header list and body, and the same boundary (bytes consumed minus trailing data) *)
Definition same_response (s1 : resp_state) (t1 : nat) (s2 : resp_state) (t2 : nat) : Prop :=
  s_code s1 = s_code s2 /\ s_reason s1 = s_reason s2 /\ s_headers s1 = s_headers s2 /\
  s_body s1 = s_body s2 /\ t1 + length (s_trailer s2) = t2 + length (s_trailer s1).

Lemma same_response_refl s t : same_response s t s t.
Proof. repeat split. Qed.

Lemma same_response_trans s1 t1 s2 t2 s3 t3 :
  same_response s1 t1 s2 t2 -> same_response s2 t2 s3 t3 -> same_response s1 t1 s3 t3.
Proof.
  intros [A1 [A2 [A3 [A4 A5]]]] [B1 [B2 [B3 [B4 B5]]]].
  repeat split; try congruence. lia.
Qed.

Lemma same_response_shift k s1 t1 s2 t2 :
  same_response s1 t1 s2 t2 -> same_response s1 (k + t1) s2 (k + t2).
Proof. intros [A1 [A2 [A3 [A4 A5]]]]. repeat split; try assumption. lia. Qed.

Definition rspec (r_a r_ab : resp_state * outcome) (a b : bytes) : Prop :=
  match r_a with
  | (st1, Complete c) =>
      c <= length a /\ exists st1' c', r_ab = (st1', Complete c') /\ same_response st1 c st1' c'
  | (st1, Incomplete c) =>
      c <= length a /\ rwf st1 /\ roeq r_ab (rshift c (resp_parse st1 (skipn c a ++ b)))
  | (_, Reject e) => exists st' e', r_ab = (st', Reject e')
  end.

Lemma rspec_rshift k a b r_a r_ab :
  k <= length a -> rspec r_a r_ab (skipn k a) b -> rspec (rshift k r_a) (rshift k r_ab) a b.
Proof.
  intros Hk. destruct r_a as [s1 [c|c|e]]; simpl; rewrite ?skipn_length.
  - intros [Hc [st1' [c' [-> Hs]]]]. split; [lia|]. exists st1', (k + c').
    split; [reflexivity|]. apply same_response_shift. exact Hs.
  - intros [Hc [Hw H]]. split; [lia|]. split; [exact Hw|].
    rewrite skipn_skipn' in H. rewrite (Nat.add_comm c k) in H.
    rewrite <- rshift_rshift. apply roeq_rshift. exact H.
  - intros [st' [e' ->]]. exists st', e'. reflexivity.
Qed.

(* ---- fixed-length body ---- *)
Lemma resp_fixed_spec st n a b :
  rspec (resp_fixed st n a) (resp_fixed st n (a ++ b)) a b.
Proof.
  unfold resp_fixed. cbv zeta.
  set (needed_n := (n - N.of_nat (length (s_body st)))%N).
  destruct (N.leb needed_n (N.of_nat (length a))) eqn:E1.
  - apply N.leb_le in E1. cbn [rspec]. split; [lia|].
    assert (E2 : N.leb needed_n (N.of_nat (length (a ++ b))) = true)
      by (apply N.leb_le; rewrite app_length; lia).
    rewrite E2. eexists. eexists. split; [reflexivity|].
    unfold same_response. cbn [s_code s_reason s_headers s_body s_trailer].
    rewrite firstn_app_le by lia. repeat split.
    rewrite skipn_app_le by lia. rewrite !app_length. lia.
  - apply N.leb_gt in E1. cbn [rspec]. split; [lia|]. split; [exact I|].
    rewrite skipn_all. cbn [app].
    unfold resp_parse. cbn [s_phase]. unfold resp_fixed. cbv zeta.
    cbn [s_phase s_code s_reason s_headers s_body s_trailer].
    assert (Hn : (n - N.of_nat (length (s_body st ++ a)) = needed_n - N.of_nat (length a))%N)
      by (rewrite app_length; lia).
    rewrite Hn.
    destruct (N.leb needed_n (N.of_nat (length (a ++ b)))) eqn:E2.
    + apply N.leb_le in E2. rewrite app_length in E2.
      assert (E3 : N.leb (needed_n - N.of_nat (length a)) (N.of_nat (length b)) = true)
        by (apply N.leb_le; lia).
      rewrite E3. cbn [rshift roeq].
      replace (N.to_nat needed_n) with (length a + N.to_nat (needed_n - N.of_nat (length a))) by lia.
      rewrite firstn_app_2. rewrite <- app_assoc.
      rewrite skipn_app. rewrite skipn_all2 by lia. cbn [app].
      replace (length a + N.to_nat (needed_n - N.of_nat (length a)) - length a)
        with (N.to_nat (needed_n - N.of_nat (length a))) by lia.
      rewrite app_length. reflexivity.
    + apply N.leb_gt in E2. rewrite app_length in E2.
      assert (E3 : N.leb (needed_n - N.of_nat (length a)) (N.of_nat (length b)) = false)
        by (apply N.leb_gt; lia).
      rewrite E3. cbn [rshift roeq]. rewrite <- app_assoc, app_length. reflexivity.
Qed.

(* ---- chunked body ---- *)
Lemma resp_chunked_spec st cs a b :
  cwf cs ->
  rspec (resp_chunked st cs a) (resp_chunked st cs (a ++ b)) a b.
Proof.
  intros Hwf. unfold resp_chunked at 1.
  pose proof (chunk_decode_app cs a b Hwf) as HC.
  destruct (chunk_decode cs a) as [cs1 [c|c|e]] eqn:E1.
  - destruct HC as [Hc HC]. cbn [rspec]. split; [exact Hc|].
    unfold resp_chunked. rewrite HC. eexists. eexists. split; [reflexivity|]. apply same_response_refl.
  - destruct HC as [Hc [Hwf1 HC]]. cbn [rspec]. split; [exact Hc|]. split; [exact Hwf1|].
    unfold resp_parse. cbn [s_phase]. unfold resp_chunked.
    cbn [s_phase s_code s_reason s_headers s_body s_trailer].
    destruct (chunk_decode cs1 (skipn c a ++ b)) as [cs2 [c2|c2|e2]]; cbn [cshift] in HC;
      destruct (chunk_decode cs (a ++ b)) as [cs' [k|k|e']]; cbn [coeq] in HC;
      try discriminate; try (inversion HC; subst); cbn [rshift roeq]; reflexivity.
  - destruct HC as [st' [e' HC]]. cbn [rspec]. unfold resp_chunked. rewrite HC. eauto.
Qed.

(* ---- headers ---- *)
Lemma resp_headers_spec st a b :
  rspec (resp_headers st a) (resp_headers st (a ++ b)) a b.
Proof.
  pose proof (hdr_parse_app None (s_headers st) a b (or_introl eq_refl)) as HP.
  unfold resp_headers at 1.
  destruct (hdr_parse None (s_headers st) a) as [hs1 c|hs1 c|e] eqn:E1.
  - destruct HP as [Hc HP]. unfold resp_headers at 1. rewrite HP. cbv zeta.
    destruct (header_value hs1 CONTENT_LENGTH) as [v|].
    + destruct (parse_dec v) as [n|]; [|cbn [rspec]; eauto].
      rewrite skipn_app_le by lia.
      apply rspec_rshift; [lia|].
      apply resp_fixed_spec.
    + destruct (has_header_token hs1 TRANSFER_ENCODING CHUNKED).
      * rewrite skipn_app_le by lia.
        apply rspec_rshift; [lia|].
        apply resp_chunked_spec. exact cwf_init.
      * cbn [rspec]. split; [exact Hc|]. eexists. eexists. split; [reflexivity|apply same_response_refl].
  - destruct HP as [Hc HP]. cbn [rspec]. split; [exact Hc|]. split; [exact I|].
    unfold resp_headers at 1. rewrite HP.
    unfold resp_parse. cbn [s_phase]. unfold resp_headers.
    cbn [s_phase s_code s_reason s_headers s_body s_trailer].
    destruct (hdr_parse None hs1 (skipn c a ++ b)) as [hs2 c2|hs2 c2|e2]; cbn [hshift]; cbv beta iota zeta.
    + destruct (header_value hs2 CONTENT_LENGTH) as [v|].
      * destruct (parse_dec v) as [n|]; [|cbn [rshift roeq]; reflexivity].
        rewrite rshift_rshift.
        replace (skipn (c + c2) (a ++ b)) with (skipn c2 (skipn c a ++ b)).
        -- apply roeq_refl.
        -- rewrite <- (skipn_app_le c a b) by lia. rewrite skipn_skipn'. f_equal. lia.
      * destruct (has_header_token hs2 TRANSFER_ENCODING CHUNKED).
        -- rewrite rshift_rshift.
           replace (skipn (c + c2) (a ++ b)) with (skipn c2 (skipn c a ++ b)).
           ++ apply roeq_refl.
           ++ rewrite <- (skipn_app_le c a b) by lia. rewrite skipn_skipn'. f_equal. lia.
        -- cbn [rshift roeq]. reflexivity.
    + cbn [rshift roeq]. reflexivity.
    + cbn [rshift roeq]. reflexivity.
  - destruct HP as [e' HP]. cbn [rspec]. unfold resp_headers. rewrite HP. eauto.
Qed.

(* ---- status line ---- *)
Lemma resp_line_spec st a b :
  s_phase st = SStatusLine ->
  rspec (resp_line st a) (resp_line st (a ++ b)) a b.
Proof.
  intros Hph. unfold resp_line at 1.
  destruct (find_crlf a) as [e|] eqn:E.
  - pose proof (find_crlf_bound _ _ E) as B.
    unfold resp_line at 1. rewrite (find_crlf_app _ b _ E). cbv zeta.
    rewrite firstn_app_le by lia.
    destruct (negb (utf8_valid (firstn e a))); [cbn [rspec]; eauto|].
    destruct (parse_status_line (firstn e a)) as [[code reason]|er]; [|cbn [rspec]; eauto].
    rewrite skipn_app_le by lia.
    apply rspec_rshift; [lia|]. apply resp_headers_spec.
  - cbn [rspec]. split; [lia|]. split; [unfold rwf; rewrite Hph; exact I|].
    rewrite rshift_0. unfold resp_parse. rewrite Hph. apply roeq_refl.
Qed.

Theorem resp_parse_spec st a b :
  rwf st -> rspec (resp_parse st a) (resp_parse st (a ++ b)) a b.
Proof.
  intros Hwf. unfold resp_parse at 1 2. destruct (s_phase st) as [| |n|cs] eqn:Hph.
  - apply resp_line_spec. exact Hph.
  - apply resp_headers_spec.
  - apply resp_fixed_spec.
  - apply resp_chunked_spec. unfold rwf in Hwf. rewrite Hph in Hwf. exact Hwf.
Qed.
