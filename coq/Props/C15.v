(* C15 -- a damaged compressed body is never passed off as content.
   Two layers.  (1) For ANY stream decoders (function parameters): the crate's glue cannot bypass
   them: any error of the outermost decoder is an error of decode_body, a truncated body fails
   given that the decoder rejects truncations, a success is always the complete output of each
   decoder in the chain.  (2) For the model of flate2/miniz_oxide (Model/Inflate.v, tied to the
   real library on every run by the correspondence check): the decoders read strictly left to
   right, so every strict truncation of a complete gzip / zlib / bare deflate stream is refused,
   a success pins the stored CRC-32 and length (Adler-32) to the returned content, altering those
   fields alone always fails, and any other gzip signature is refused -- no hypothesis left. *)
From Coq Require Import String List NArith.
From Http Require Import Model.Bytes Model.Headers Model.Coding Model.Inflate Proofs.Rewrite Proofs.CodingGlue
     Proofs.InflateLocal Proofs.InflateTop Proofs.InflateC15.
Import ListNotations.

Theorem C15_outer_decoder_error_is_failure :
  forall (gunzip inflate_raw inflate_zlib : bytes -> option bytes)
         (hs : list header) (toks : list bytes) (last body : bytes),
    header_tokens hs CONTENT_ENCODING = toks ++ [last] ->
    (bytes_eqb last GZIP = true /\ gunzip body = None) \/
    (bytes_eqb last GZIP = false /\ bytes_eqb last DEFLATE = true /\
     deflate_decode inflate_raw inflate_zlib body = None) ->
    decode_body gunzip inflate_raw inflate_zlib hs body = None.
Proof. exact outer_failure_fails. Qed.
Print Assumptions C15_outer_decoder_error_is_failure.

Theorem C15_truncation_fails :
  forall (gunzip inflate_raw inflate_zlib : bytes -> option bytes)
         (enc : format -> bytes -> bytes -> Prop),
    (forall d e p, enc Gz d e -> strict_prefix p e -> gunzip p = None) ->
    (forall d e p, enc Zl d e -> strict_prefix p e -> deflate_decode inflate_raw inflate_zlib p = None) ->
    (forall d e p, enc Raw d e -> strict_prefix p e -> deflate_decode inflate_raw inflate_zlib p = None) ->
    forall (hs : list header) (f : format) (d e p : bytes),
      enc f d e -> strict_prefix p e ->
      header_tokens hs CONTENT_ENCODING = [coding_token f] ->
      decode_body gunzip inflate_raw inflate_zlib hs p = None.
Proof. exact truncated_body_fails. Qed.
Print Assumptions C15_truncation_fails.

Theorem C15_success_is_full_decoder_output :
  forall (gunzip inflate_raw inflate_zlib : bytes -> option bytes)
         (hs : list header) (body : bytes) (hs' : list header) (b : bytes),
    decode_body gunzip inflate_raw inflate_zlib hs body = Some (hs', b) ->
    exists undone, forallb recognised undone = true /\
                   undo gunzip inflate_raw inflate_zlib (rev undone) body = Some b.
Proof. exact success_is_full_decoder_output. Qed.
Print Assumptions C15_success_is_full_decoder_output.

(* a zlib-wrapped stream is never "rescued" by the bare-deflate decoder: the format is chosen
   by the header alone, before any decoding *)
Theorem C15_zlib_never_falls_back :
  forall (inflate_raw inflate_zlib : bytes -> option bytes) (b : bytes),
    zlib_header b = true -> deflate_decode inflate_raw inflate_zlib b = inflate_zlib b.
Proof. intros ir iz b H. unfold deflate_decode. rewrite H. reflexivity. Qed.
Print Assumptions C15_zlib_never_falls_back.

(* ---- with the model of flate2 in place of the parameters: no hypothesis about the decoders ---- *)

(* every strict truncation of a body that is exactly one gzip member / zlib stream / bare deflate
   stream makes decode_body fail *)
Theorem C15_truncation_fails_flate2_model :
  forall (hs : list header) (f : format) (d e p : bytes),
    exact_stream f d e -> strict_prefix p e ->
    header_tokens hs CONTENT_ENCODING = [coding_token f] ->
    decode_body gunzip_model inflate_raw_model inflate_zlib_model hs p = None.
Proof. exact truncated_body_fails_m. Qed.
Print Assumptions C15_truncation_fails_flate2_model.

(* gzip: success means the 8 bytes after the deflate data are the CRC-32 and the length (mod 2^32)
   of the returned content, and replacing them by any 8 bytes that encode another CRC or another
   length makes the decoder fail, whatever follows *)
Theorem C15_gzip_checks_applied :
  forall b out, gunzip_model b = Some out ->
  exists pre foot rest, b = pre ++ foot ++ rest /\ length foot = 8 /\
    le32 (firstn 4 foot) = crc32 out /\ le32 (skipn 4 foot) = (N.of_nat (length out) mod M32)%N /\
    forall foot' y, length foot' = 8 ->
      le32 (firstn 4 foot') <> le32 (firstn 4 foot) \/ le32 (skipn 4 foot') <> le32 (skipn 4 foot) ->
      gunzip_fuel (fuel_for b) (pre ++ foot' ++ y) = Bad.
Proof. exact gunzip_model_checks. Qed.
Print Assumptions C15_gzip_checks_applied.

(* zlib: the same for the Adler-32 *)
Theorem C15_zlib_checks_applied :
  forall b out, inflate_zlib_model b = Some out ->
  exists pre a4 rest, b = pre ++ a4 ++ rest /\ length a4 = 4 /\ be32 a4 = adler32 out /\
    forall a4' y, length a4' = 4 -> be32 a4' <> be32 a4 ->
      inflate_zlib_fuel (fuel_for b) (pre ++ a4' ++ y) = Bad.
Proof. exact zlib_model_checks. Qed.
Print Assumptions C15_zlib_checks_applied.

(* any alteration of the gzip signature fails *)
Theorem C15_gzip_signature :
  forall b, nth 0 b 0%N <> 31%N \/ nth 1 b 0%N <> 139%N -> gunzip_model b = None.
Proof. exact gunzip_bad_signature. Qed.
Print Assumptions C15_gzip_signature.

(* the decoders never look behind the stream they decode: same answer whatever follows *)
Theorem C15_decoding_ignores_what_follows :
  forall f b out rest, inflate_fuel f b = Ok out ([], rest) ->
  exists c, b = c ++ rest /\ forall y, inflate_fuel f (c ++ y) = Ok out ([], y).
Proof. exact inflate_raw_ignores_tail. Qed.
Print Assumptions C15_decoding_ignores_what_follows.

(* non-vacuity: a gzip member, a zlib stream and a bare stream of "hello hello hello hello" are exact
   streams; the checks hold on them *)
Example C15_exact_streams :
  exact_stream Raw [104;101;108;108;111;32;104;101;108;108;111;32;104;101;108;108;111;32;104;101;108;108;111]%N
               [203;72;205;201;201;87;200;64;39;1]%N /\
  exact_stream Zl [104;105]%N [120;156;203;200;4;0;1;59;0;210]%N /\
  exact_stream Gz [104;105]%N [31;139;8;0;0;0;0;0;0;3;203;200;4;0;172;42;147;216;2;0;0;0]%N.
Proof. unfold exact_stream. vm_compute. repeat split. Qed.

(* the model of CRC-32 and Adler-32 on the standard check values ("123456789") *)
Example C15_checksums :
  crc32 [49;50;51;52;53;54;55;56;57]%N = 3421780262%N /\ adler32 [49;50;51;52;53;54;55;56;57]%N = 152961502%N.
Proof. vm_compute. split; reflexivity. Qed.
