(* Timely.v -- "more input" is answered only while the element being read is unfinished: once
   the request line and the header block are complete the parser has either rejected, or
   accepted, or is only waiting for declared body bytes (C03 / C04, timeliness). *)
From Coq Require Import Lia ZifyN ZifyNat.
From Http Require Import Model.Bytes Model.Utf8 Model.Num Model.Headers Model.Request
     Model.Chunked Model.Response Proofs.BytesLemmas Proofs.HeadersResume Proofs.ReqResume Proofs.Limits.

Section Req.
  Variable uri : Type.
  Variable uri_parse : bytes -> option uri.
  Notation P := (req_parse uri uri_parse).

  Theorem request_incomplete_means_unfinished cfg s st c :
    P cfg req_init s = (st, Incomplete c) ->
    match r_phase st with
    | PRequestLine => find_crlf s = None /\ c = 0
    | PHeaders =>
        exists e hs k, find_crlf s = Some e /\ c = e + 2 + k /\
                       hdr_parse (hl cfg) [] (strip_cr (skipn (e + 2) s)) = HIncomplete hs k
    | PBody n => c = length s /\ (N.of_nat (length (r_body st)) < n)%N
    end.
  Proof.
    rewrite req_parse_eq.
    destruct (req_dispatch uri uri_parse cfg req_init s) as [s1 [k|k|e]] eqn:E; try discriminate.
    destruct (presented_ok _ _ _); [|discriminate].
    intros H. inversion H; subst s1 k. clear H.
    unfold req_dispatch in E. cbn [r_phase req_init] in E. unfold req_line in E.
    destruct (find_crlf s) as [e|] eqn:F.
    - pose proof (find_crlf_bound _ _ F) as B.
      destruct (over_limit e (rl cfg)); [discriminate|].
      destruct (negb _); [discriminate|].
      destruct (count_bytes _ _ _) as [t1|]; [|discriminate].
      destruct (parse_request_line _ _ _) as [[meth u]|er]; [|discriminate].
      match type of E with shift _ _ ?R = _ => destruct R as [sh [k|k|eh]] eqn:EH end;
        cbn [shift] in E; try discriminate.
      inversion E; subst sh c. clear E.
      unfold req_headers in EH. cbn [r_headers r_total r_body r_method r_target req_init] in EH.
      destruct (hdr_parse (hl cfg) [] (strip_cr (skipn (e + 2) s))) as [hs ch|hs ch|eh] eqn:HP; try discriminate.
      + destruct (count_bytes _ _ _) as [t2|]; [|discriminate].
        destruct (header_value hs CONTENT_LENGTH) as [v|]; [|discriminate].
        destruct (parse_dec v) as [n|]; [|discriminate].
        destruct (count_bytes cfg t2 n) as [t3|]; [|discriminate].
        unfold req_body in EH. cbv zeta in EH. cbn [r_body length] in EH.
        destruct (N.leb _ _) eqn:L; cbn [shift] in EH; [discriminate|].
        apply N.leb_gt in L. inversion EH; subst st k. clear EH. cbn [r_phase r_body app].
        pose proof (hdr_parse_complete_tail _ _ _ _ _ HP) as [_ [Hch _]].
        pose proof (strip_cr_length (skipn (e + 2) s)) as Hsl. rewrite skipn_length in Hsl.
        rewrite !skipn_length in *. change (N.of_nat 0) with 0%N in L. split; lia.
      + destruct (count_bytes _ _ _) as [t2|]; [|discriminate].
        inversion EH; subst st k. clear EH. cbn [r_phase].
        exists e, hs, ch. repeat split. exact HP.
    - destruct (over_limit _ _); [discriminate|]. inversion E; subst. cbn [r_phase req_init].
      split; reflexivity.
  Qed.
End Req.

Theorem response_incomplete_means_unfinished s st c :
  resp_parse resp_init s = (st, Incomplete c) ->
  match s_phase st with
  | SStatusLine => find_crlf s = None /\ c = 0
  | SHeaders =>
      exists e hs k, find_crlf s = Some e /\ c = e + 2 + k /\
                     hdr_parse None [] (skipn (e + 2) s) = HIncomplete hs k
  | SFixedBody n => c = length s /\ (N.of_nat (length (s_body st)) < n)%N
  | SChunkedBody cs => exists e hs ch k, find_crlf s = Some e /\
                     hdr_parse None [] (skipn (e + 2) s) = HComplete hs ch /\
                     chunk_decode chunk_init (skipn ch (skipn (e + 2) s)) = (cs, Incomplete k) /\
                     c = e + 2 + ch + k
  end.
Proof.
  unfold resp_parse. cbn [s_phase resp_init]. unfold resp_line.
  destruct (find_crlf s) as [e|] eqn:F.
  2:{ intros H. inversion H; subst. cbn [s_phase resp_init]. split; reflexivity. }
  pose proof (find_crlf_bound _ _ F) as B. cbv zeta.
  destruct (negb _); [discriminate|].
  destruct (parse_status_line _) as [[code reason]|er]; [|discriminate].
  match goal with |- rshift _ ?R = _ -> _ => destruct R as [sh [k|k|eh]] eqn:EH end;
    cbn [rshift]; try discriminate.
  intros H. inversion H; subst sh c. clear H.
  unfold resp_headers in EH. cbn [s_headers s_body s_trailer s_code s_reason resp_init] in EH.
  destruct (hdr_parse None [] (skipn (e + 2) s)) as [hs ch|hs ch|eh] eqn:HP; try discriminate.
  - cbv zeta in EH. pose proof (hdr_parse_complete_tail _ _ _ _ _ HP) as [_ [Hch _]].
    rewrite skipn_length in Hch.
    destruct (header_value hs CONTENT_LENGTH) as [v|].
    + destruct (parse_dec v) as [n|]; [|discriminate].
      unfold resp_fixed in EH. cbv zeta in EH. cbn [s_body length s_trailer] in EH.
      destruct (N.leb _ _) eqn:L; cbn [rshift] in EH; [discriminate|].
      apply N.leb_gt in L. inversion EH; subst st k. clear EH. cbn [s_phase s_body app].
      rewrite !skipn_length in *. change (N.of_nat 0) with 0%N in L. split; lia.
    + destruct (has_header_token hs TRANSFER_ENCODING CHUNKED); [|discriminate].
      unfold resp_chunked in EH.
      destruct (chunk_decode chunk_init (skipn ch (skipn (e + 2) s))) as [cs' [k2|k2|e2]] eqn:CD;
        cbn [rshift] in EH; try discriminate.
      inversion EH; subst st k. clear EH. cbn [s_phase].
      exists e, hs, ch, k2. repeat split; try assumption. lia.
  - inversion EH; subst st k. clear EH. cbn [s_phase]. exists e, hs, ch. repeat split. exact HP.
Qed.
