(* HuffmanCanon.v -- the canonical Huffman decoder of Model/Inflate.v (one bit at a time, count
   per length) inverts the canonical code of RFC 1951 3.2.2, for EVERY table of counts: the k-th
   code of length L is the L-bit number first(L)+k written most significant bit first, where
   first(1) = 0 and first(l+1) = 2*(first(l)+count(l)).  No completeness or prefix-freeness of the
   code is needed for this direction: codes of a longer length always lie above the range of every
   shorter length. *)
From Coq Require Import List NArith ZArith Arith Bool Lia ZifyBool ZifyN.
From Http Require Import Model.Bytes Model.Inflate Proofs.InflateLocal.
Import ListNotations.

(* ---- the bit view of an input state ---- *)
Definition bits_of (s : istate) : list bool := fst s ++ flat_map byte_bits (snd s).

Lemma getbit_view s b t : bits_of s = b :: t -> exists s', getbit s = Ok b s' /\ bits_of s' = t.
Proof.
  destruct s as [cur rest]. unfold bits_of. cbn [fst snd]. intros H.
  destruct cur as [|c cur'].
  - destruct rest as [|byte rest']; [discriminate|].
    cbn [app flat_map] in H. destruct (byte_bits_cons byte) as [x [l E]]. rewrite E in H.
    cbn [app] in H. inversion H; subst.
    exists (l, rest'). split; [cbn [getbit]; rewrite E; reflexivity|]. reflexivity.
  - cbn [app] in H. inversion H; subst. exists (cur', rest). split; reflexivity.
Qed.

(* n bits, most significant first *)
Fixpoint msb_bits (n : nat) (v : N) : list bool :=
  match n with
  | 0 => []
  | S n' => N.testbit v (N.of_nat n') :: msb_bits n' v
  end.

(* ---- one run of the decoding loop, over a list of bits ---- *)
Fixpoint hit (counts : list N) (code first index : N) (bs : list bool) : option N :=
  match counts, bs with
  | c :: cs, b :: bs' =>
      let code := (2 * code + bit_val b)%N in
      if (N.leb first code && N.ltb code (first + c))%bool
      then match bs' with [] => Some (index + (code - first))%N | _ => None end
      else hit cs code (2 * (first + c))%N (index + c)%N bs'
  | _, _ => None
  end.

Lemma dec_loop_hit counts syms : forall code first index bs r s t,
    hit counts code first index bs = Some r ->
    bits_of s = bs ++ t ->
    exists s', bits_of s' = t /\
      dec_sym_loop counts syms code first index s
      = match nth_error syms (N.to_nat r) with Some sym => Ok sym s' | None => Bad end.
Proof.
  induction counts as [|c cs IH]; intros code first index bs r s t H Hb; [discriminate|].
  destruct bs as [|b bs']; [discriminate|]. cbn [hit] in H. cbn [app] in Hb.
  destruct (getbit_view _ _ _ Hb) as [s1 [G B1]].
  rewrite dec_sym_loop_cons. unfold dec_step, bind. rewrite G.
  destruct (N.leb first (2 * code + bit_val b) && N.ltb (2 * code + bit_val b) (first + c))%bool.
  - destruct bs'; [|discriminate]. inversion H; subst r. exists s1. split; [exact B1|]. reflexivity.
  - exact (IH _ _ _ _ _ _ _ H B1).
Qed.

(* ---- arithmetic of the canonical code ---- *)

(* first code and symbol index at position n (1-based) of a table, from given starting values *)
Fixpoint first_at (n : nat) (counts : list N) (first : N) : N :=
  match n, counts with
  | S (S _ as n'), c :: cs => first_at n' cs (2 * (first + c))%N
  | _, _ => first
  end.
Fixpoint index_at (n : nat) (counts : list N) (index : N) : N :=
  match n, counts with
  | S (S _ as n'), c :: cs => index_at n' cs (index + c)%N
  | _, _ => index
  end.

Lemma first_at_lower n : forall counts first,
    n <= length counts -> 1 <= n -> (first * 2 ^ N.of_nat (n - 1) <= first_at n counts first)%N.
Proof.
  induction n as [|n IH]; intros counts first Hl Hn; [lia|].
  destruct n as [|n'].
  - change (N.of_nat (1 - 1)) with 0%N. rewrite N.pow_0_r, N.mul_1_r. destruct counts; apply N.le_refl.
  - destruct counts as [|c cs]; [simpl in Hl; lia|].
    change (first_at (S (S n')) (c :: cs) first) with (first_at (S n') cs (2 * (first + c))%N).
    assert (H := IH cs (2 * (first + c))%N ltac:(simpl in Hl; lia) ltac:(lia)).
    replace (S (S n') - 1) with (S (S n' - 1)) by lia.
    rewrite Nat2N.inj_succ, N.pow_succ_r'. nia.
Qed.

Lemma msb_bits_S n v : msb_bits (S n) v = N.testbit v (N.of_nat n) :: msb_bits n v.
Proof. reflexivity. Qed.

Lemma testbit_top n w : (w < 2 ^ N.of_nat (S n))%N ->
  (w = bit_val (N.testbit w (N.of_nat n)) * 2 ^ N.of_nat n + w mod 2 ^ N.of_nat n)%N.
Proof.
  intros H. rewrite N.testbit_eqb.
  remember (2 ^ N.of_nat n)%N as p eqn:Ep.
  assert (Hp : (0 < p)%N) by (subst p; apply N.neq_0_lt_0, N.pow_nonzero; lia).
  assert (H2 : (w < 2 * p)%N) by (subst p; rewrite Nat2N.inj_succ, N.pow_succ_r' in H; exact H).
  pose proof (N.div_mod w p ltac:(lia)) as D.
  assert (Hq : (w / p < 2)%N) by (apply N.div_lt_upper_bound; lia).
  remember (w / p)%N as q eqn:Eq. remember (w mod p)%N as r eqn:Er.
  assert (Hm : (q mod 2 = q)%N) by (apply N.mod_small; exact Hq).
  rewrite Hm. destruct (N.eqb_spec q 1) as [E|E]; unfold bit_val.
  - subst q. rewrite E in D. rewrite N.mul_1_l. lia.
  - assert (H0 : q = 0%N) by lia. rewrite H0 in D. rewrite N.mul_0_l. lia.
Qed.

Lemma msb_bits_mod n : forall w m, n <= m -> msb_bits n (w mod 2 ^ N.of_nat m) = msb_bits n w.
Proof.
  induction n as [|n IH]; intros w m H; [reflexivity|].
  cbn [msb_bits]. rewrite (IH w m) by lia. f_equal.
  apply N.mod_pow2_bits_low. lia.
Qed.

(* the loop hits exactly at position n, with the k-th code of that length *)
Lemma hit_canonical n : forall counts code first index w k,
    1 <= n -> n <= length counts ->
    (w < 2 ^ N.of_nat n)%N ->
    (code * 2 ^ N.of_nat n + w = first_at n counts first + k)%N ->
    (k < nth (n - 1) counts 0)%N ->
    hit counts code first index (msb_bits n w) = Some (index_at n counts index + k)%N.
Proof.
  induction n as [|n IH]; intros counts code first index w k Hn Hl Hw Hv Hk; [lia|].
  destruct counts as [|c cs]; [simpl in Hl; lia|].
  destruct n as [|n'].
  - (* the last bit *)
    cbn [msb_bits hit first_at index_at nth Nat.sub] in *.
    assert (Hw2 : (w < 2)%N) by (simpl in Hw; lia).
    assert (Hb : bit_val (N.testbit w 0) = w).
    { rewrite N.bit0_eqb. rewrite N.mod_small by lia. destruct (N.eqb_spec w 1); unfold bit_val; lia. }
    change (N.of_nat 0) with 0%N. rewrite Hb.
    replace (2 ^ N.of_nat 1)%N with 2%N in Hv by reflexivity.
    replace (N.leb first (2 * code + w) && N.ltb (2 * code + w) (first + c))%bool with true
      by (symmetry; apply andb_true_iff; split; [apply N.leb_le | apply N.ltb_lt]; lia).
    f_equal. lia.
  - (* one more level to go *)
    rewrite msb_bits_S. cbn [hit].
    change (first_at (S (S n')) (c :: cs) first) with (first_at (S n') cs (2 * (first + c))%N) in Hv.
    change (index_at (S (S n')) (c :: cs) index) with (index_at (S n') cs (index + c)%N).
    replace (nth (S (S n') - 1) (c :: cs) 0%N) with (nth (S n' - 1) cs 0%N) in Hk
      by (replace (S (S n') - 1) with (S (S n' - 1)) by lia; reflexivity).
    set (b := bit_val (N.testbit w (N.of_nat (S n')))).
    pose proof (testbit_top (S n') w Hw) as Hsplit. fold b in Hsplit.
    set (w' := (w mod 2 ^ N.of_nat (S n'))%N) in *.
    assert (Hw' : (w' < 2 ^ N.of_nat (S n'))%N) by (apply N.mod_lt, N.pow_nonzero; lia).
    assert (Hlow := first_at_lower (S n') cs (2 * (first + c))%N ltac:(simpl in Hl; lia) ltac:(lia)).
    replace (S n' - 1) with n' in Hlow by lia.
    assert (P2 : (2 ^ N.of_nat (S (S n')) = 2 * 2 ^ N.of_nat (S n'))%N) by (rewrite (Nat2N.inj_succ (S n')), N.pow_succ_r'; reflexivity).
    assert (P1 : (2 ^ N.of_nat (S n') = 2 * 2 ^ N.of_nat n')%N) by (rewrite (Nat2N.inj_succ n'), N.pow_succ_r'; reflexivity).
    assert (Hpos : (0 < 2 ^ N.of_nat n')%N) by (apply N.neq_0_lt_0, N.pow_nonzero; lia).
    assert (Hrange : (first + c <= 2 * code + b)%N) by nia.
    replace (N.leb first (2 * code + b) && N.ltb (2 * code + b) (first + c))%bool with false
      by (symmetry; apply andb_false_iff; right; apply N.ltb_ge; exact Hrange).
    rewrite <- (msb_bits_mod (S n') w (S n')) by lia. fold w'.
    apply IH; first [lia | simpl in Hl; lia | nia].
Qed.

(* ---------------------------------------------------------------- tables built from code lengths *)

Lemma syms_with_length l lens : forall i, N.of_nat (length (syms_with l i lens)) = count_len l lens.
Proof.
  induction lens as [|x t IH]; intros i; [reflexivity|].
  cbn [syms_with count_len]. destruct (N.eqb x l).
  - cbn [length]. rewrite Nat2N.inj_succ, IH. lia.
  - rewrite IH. lia.
Qed.

(* the symbols of length l, in increasing order: the one at position (number of earlier symbols of
   that length) is the symbol itself *)
Lemma syms_with_nth l lens : forall i j,
    nth_error lens j = Some l ->
    nth_error (syms_with l i lens) (N.to_nat (count_len l (firstn j lens))) = Some (i + j).
Proof.
  induction lens as [|x t IH]; intros i j H; [destruct j; discriminate|].
  destruct j as [|j'].
  - cbn in H. inversion H; subst x. cbn [firstn count_len syms_with]. rewrite N.eqb_refl.
    cbn. f_equal. lia.
  - cbn [nth_error] in H. cbn [firstn count_len syms_with]. destruct (N.eqb x l) eqn:E.
    + replace (N.to_nat (1 + count_len l (firstn j' t))) with (S (N.to_nat (count_len l (firstn j' t)))) by lia.
      cbn [nth_error]. rewrite (IH (S i) j' H). f_equal. lia.
    + replace (N.to_nat (0 + count_len l (firstn j' t))) with (N.to_nat (count_len l (firstn j' t))) by lia.
      rewrite (IH (S i) j' H). f_equal. lia.
Qed.

(* counts and symbols of a table whose lengths are listed for an arbitrary list of candidate lengths *)
Definition counts_for (ls : list N) (lens : list N) : list N := map (fun l => count_len l lens) ls.
Definition syms_for (ls : list N) (lens : list N) : list nat := flat_map (fun l => syms_with l 0 lens) ls.

Lemma index_at_counts n : forall ls lens index,
    1 <= n -> n <= length ls ->
    index_at n (counts_for ls lens) index
    = (index + N.of_nat (length (syms_for (firstn (n - 1) ls) lens)))%N.
Proof.
  induction n as [|n IH]; intros ls lens index Hn Hl; [lia|].
  destruct n as [|n'].
  - cbn. destruct ls; cbn; lia.
  - destruct ls as [|l ls']; [simpl in Hl; lia|].
    change (counts_for (l :: ls') lens) with (count_len l lens :: counts_for ls' lens).
    change (index_at (S (S n')) (count_len l lens :: counts_for ls' lens) index)
      with (index_at (S n') (counts_for ls' lens) (index + count_len l lens)%N).
    rewrite IH by (simpl in Hl; lia).
    replace (S (S n') - 1) with (S (S n' - 1)) by lia. cbn [firstn].
    unfold syms_for at 2. cbn [flat_map]. rewrite app_length, Nat2N.inj_add, syms_with_length.
    fold (syms_for (firstn (S n' - 1) ls') lens). lia.
Qed.

Lemma syms_for_nth ls lens : forall n l sym,
    nth_error ls (n - 1) = Some l -> 1 <= n ->
    nth_error lens sym = Some l ->
    nth_error (syms_for ls lens)
              (length (syms_for (firstn (n - 1) ls) lens) + N.to_nat (count_len l (firstn sym lens)))
    = Some sym.
Proof.
  induction ls as [|l0 ls' IH]; intros n l sym Hn H1 Hs.
  - destruct (n - 1); discriminate.
  - destruct n as [|[|n']]; [lia| |].
    + cbn in Hn. inversion Hn; subst l0. cbn [Nat.sub firstn syms_for flat_map length Nat.add].
      unfold syms_for. cbn [flat_map]. rewrite nth_error_app1.
      * exact (syms_with_nth l lens 0 sym Hs).
      * pose proof (syms_with_length l lens 0) as HL.
        assert (count_len l (firstn sym lens) < count_len l lens)%N.
        { clear -Hs. revert sym Hs. induction lens as [|x t IHl]; intros sym Hs; [destruct sym; discriminate|].
          destruct sym as [|s'].
          - cbn in Hs. inversion Hs; subst. cbn [firstn count_len]. rewrite N.eqb_refl. lia.
          - cbn [nth_error] in Hs. cbn [firstn count_len]. specialize (IHl _ Hs). lia. }
        lia.
    + replace (S (S n') - 1) with (S (S n' - 1)) in * by lia. cbn [nth_error] in Hn.
      cbn [firstn]. unfold syms_for. cbn [flat_map]. rewrite app_length, <- Nat.add_assoc.
      rewrite nth_error_app2 by lia.
      replace (length (syms_with l0 0 lens) + _ - length (syms_with l0 0 lens))
        with (length (flat_map (fun l1 => syms_with l1 0 lens) (firstn (S n' - 1) ls')) + N.to_nat (count_len l (firstn sym lens))) by lia.
      exact (IH (S n') l sym Hn ltac:(lia) Hs).
Qed.

(* the canonical code of a symbol: its length and the bits, most significant first *)
Definition code_value (lens : list N) (sym : nat) (L : nat) : N :=
  (first_at L (counts_for LENGTHS lens) 0 + count_len (N.of_nat L) (firstn sym lens))%N.
Definition code_bits (lens : list N) (sym : nat) (L : nat) : list bool := msb_bits L (code_value lens sym L).

Lemma LENGTHS_nth L : 1 <= L -> L <= 15 -> nth_error LENGTHS (L - 1) = Some (N.of_nat L).
Proof.
  intros H1 H2. do 16 (destruct L as [|L]; [try lia; reflexivity|]). lia.
Qed.

(* THE decoding theorem: whatever the code lengths are, a symbol's canonical code decodes to it
   (given only that the code fits its length, which "not over-subscribed" guarantees) *)
Theorem dec_sym_canonical lens sym L s t :
  1 <= L -> L <= 15 ->
  nth_error lens sym = Some (N.of_nat L) ->
  (code_value lens sym L < 2 ^ N.of_nat L)%N ->
  bits_of s = code_bits lens sym L ++ t ->
  exists s', dec_sym (mk_table lens) s = Ok sym s' /\ bits_of s' = t.
Proof.
  intros H1 H2 Hs Hfit Hb.
  set (counts := counts_for LENGTHS lens).
  set (k := count_len (N.of_nat L) (firstn sym lens)).
  assert (Hk : (k < nth (L - 1) counts 0)%N).
  { unfold counts, counts_for. 
    assert (Hn : nth (L - 1) (map (fun l => count_len l lens) LENGTHS) 0%N = count_len (N.of_nat L) lens).
    { pose proof (LENGTHS_nth L H1 H2) as E. apply nth_error_nth.
      rewrite nth_error_map, E. reflexivity. }
    rewrite Hn. unfold k. clear -Hs. revert sym Hs.
    induction lens as [|x tl IHl]; intros sym Hs; [destruct sym; discriminate|].
    destruct sym as [|s'].
    - cbn in Hs. inversion Hs; subst. cbn [firstn count_len]. rewrite N.eqb_refl. lia.
    - cbn [nth_error] in Hs. cbn [firstn count_len]. specialize (IHl _ Hs). lia. }
  assert (Hhit : hit counts 0 0 0 (msb_bits L (code_value lens sym L))
                 = Some (index_at L counts 0 + k)%N).
  { apply hit_canonical; try assumption.
    unfold code_value. fold counts. fold k. lia. }
  destruct (dec_loop_hit counts (h_syms (mk_table lens)) _ _ _ _ _ s t Hhit Hb) as [s' [Bs' Hd]].
  exists s'. split; [|exact Bs'].
  unfold dec_sym. change (h_counts (mk_table lens)) with counts. rewrite Hd.
  unfold counts. rewrite index_at_counts by (simpl; lia).
  change (h_syms (mk_table lens)) with (syms_for LENGTHS lens).
  replace (N.to_nat (0 + N.of_nat (length (syms_for (firstn (L - 1) LENGTHS) lens)) + k))
    with (length (syms_for (firstn (L - 1) LENGTHS) lens) + N.to_nat k) by lia.
  unfold k. rewrite (syms_for_nth LENGTHS lens L (N.of_nat L) sym (LENGTHS_nth L H1 H2) H1 Hs). reflexivity.
Qed.
