(* Rewrite.v -- what the headers say after de-chunking (C12) and after decode_body (C14). *)
From Coq Require Import Lia String.
From Http Require Import Model.Bytes Model.Num Model.Headers Model.Request Model.Chunked
     Model.Response Model.Coding Proofs.HeaderAlgebra.

Definition FRAMING : list bytes := [CONTENT_LENGTH; TRANSFER_ENCODING; TRAILER].

Lemma framing_outside h : negb (is_framing_name (fst h)) = outside FRAMING h.
Proof.
  unfold is_framing_name, outside, FRAMING. simpl. rewrite orb_false_r, orb_assoc. reflexivity.
Qed.

Lemma cl_te : name_eq CONTENT_LENGTH TRANSFER_ENCODING = false. Proof. reflexivity. Qed.
Lemma cl_tr : name_eq CONTENT_LENGTH TRAILER = false. Proof. reflexivity. Qed.
Lemma te_cl : name_eq TRANSFER_ENCODING CONTENT_LENGTH = false. Proof. reflexivity. Qed.
Lemma te_tr : name_eq TRANSFER_ENCODING TRAILER = false. Proof. reflexivity. Qed.
Lemma tr_cl : name_eq TRAILER CONTENT_LENGTH = false. Proof. reflexivity. Qed.
Lemma tr_te : name_eq TRAILER TRANSFER_ENCODING = false. Proof. reflexivity. Qed.

(* trailer fields that survive the filter carry none of the framing names *)
Lemma filtered_trailer_none T n :
  existsb (name_eq n) FRAMING = true ->
  header_multi_value (filter (fun h => negb (is_framing_name (fst h))) T) n = [].
Proof.
  intros Hn. apply hmv_filter_none. intros h Hh.
  rewrite framing_outside. unfold outside. apply negb_false_iff.
  unfold FRAMING in *. simpl in *. rewrite !orb_false_r in *.
  destruct (name_eq n CONTENT_LENGTH) eqn:E1.
  { rewrite (name_eq_trans _ _ _ Hh E1). reflexivity. }
  destruct (name_eq n TRANSFER_ENCODING) eqn:E2.
  { rewrite (name_eq_trans _ _ _ Hh E2). rewrite orb_true_r. reflexivity. }
  simpl in Hn. rewrite (name_eq_trans _ _ _ Hh Hn). rewrite !orb_true_r. reflexivity.
Qed.

Section Dechunk.
  Variables (H T : list header) (body : bytes).

  Let T' := filter (fun h => negb (is_framing_name (fst h))) T.
  Let toks := removelast (filter nonempty (header_tokens H TRANSFER_ENCODING)).
  Let final := dechunk_headers H T body.

  Lemma dechunk_tokens_source :
    header_tokens (H ++ T') TRANSFER_ENCODING = header_tokens H TRANSFER_ENCODING.
  Proof.
    rewrite !header_tokens_hmv, hmv_app. unfold T'.
    rewrite (filtered_trailer_none T TRANSFER_ENCODING eq_refl). rewrite app_nil_r. reflexivity.
  Qed.

  (* Content-Length: exactly one value, the decoded body length -- given that the original
     headers had none (the chunked framing is only chosen then) *)
  Theorem dechunk_content_length :
    header_value H CONTENT_LENGTH = None ->
    header_multi_value final CONTENT_LENGTH = [show_dec (N.of_nat (length body))].
  Proof.
    intros Hcl. rewrite header_value_hmv in Hcl.
    assert (Hn : header_multi_value H CONTENT_LENGTH = []).
    { destruct (header_multi_value H CONTENT_LENGTH); [reflexivity|discriminate]. }
    unfold final, dechunk_headers. fold T'. rewrite dechunk_tokens_source. fold toks.
    rewrite hmv_remove_other by exact cl_tr. unfold add_header. rewrite hmv_app, hmv_single.
    cbn [fst snd]. rewrite name_eq_refl.
    assert (Hbase : header_multi_value (H ++ T') CONTENT_LENGTH = []).
    { rewrite hmv_app, Hn. unfold T'. apply (filtered_trailer_none T CONTENT_LENGTH eq_refl). }
    destruct toks.
    - rewrite hmv_remove_other by exact cl_te. rewrite Hbase. reflexivity.
    - rewrite hmv_set_other by exact cl_te. rewrite Hbase. reflexivity.
  Qed.

  (* Transfer-Encoding: one header holding the remaining codings joined with ", ", or no
     header at all when none remain *)
  Theorem dechunk_transfer_encoding :
    header_multi_value final TRANSFER_ENCODING =
    match toks with [] => [] | _ => [join [COMMA; SP] toks] end.
  Proof.
    unfold final, dechunk_headers. fold T'. rewrite dechunk_tokens_source. fold toks.
    rewrite hmv_remove_other by exact te_tr. unfold add_header. rewrite hmv_app, hmv_single.
    cbn [fst snd]. rewrite name_eq_sym, te_cl. rewrite app_nil_r.
    destruct toks.
    - apply hmv_remove_same.
    - apply hmv_set_same.
  Qed.

  Theorem dechunk_no_trailer : has_header final TRAILER = false.
  Proof. apply has_header_hmv. unfold final, dechunk_headers. apply hmv_remove_same. Qed.

  (* every other header: the original ones, then the non-framing trailer fields, in order,
     names and values untouched *)
  Theorem dechunk_others :
    filter (outside FRAMING) final = filter (outside FRAMING) H ++ filter (outside FRAMING) T.
  Proof.
    unfold final, dechunk_headers. fold T'. rewrite dechunk_tokens_source. fold toks.
    rewrite others_remove by reflexivity. rewrite others_add_inside by reflexivity.
    assert (Hbase : filter (outside FRAMING) (H ++ T') =
                    filter (outside FRAMING) H ++ filter (outside FRAMING) T).
    { rewrite filter_app. f_equal. unfold T'.
      induction T as [|h t IH]; [reflexivity|]. simpl. rewrite framing_outside.
      destruct (outside FRAMING h) eqn:E; simpl; rewrite ?E, IH; reflexivity. }
    destruct toks.
    - rewrite others_remove by reflexivity. exact Hbase.
    - rewrite others_set by reflexivity. exact Hbase.
  Qed.
End Dechunk.

(* framing fields carried in the trailer cannot alter anything *)
Theorem dechunk_trailer_framing_ignored H T body :
  dechunk_headers H T body =
  dechunk_headers H (filter (fun h => negb (is_framing_name (fst h))) T) body.
Proof.
  unfold dechunk_headers.
  assert (Hf : forall l : list header,
             filter (fun h => negb (is_framing_name (fst h))) (filter (fun h => negb (is_framing_name (fst h))) l)
             = filter (fun h => negb (is_framing_name (fst h))) l).
  { induction l as [|h l IH]; [reflexivity|]. simpl.
    destruct (negb (is_framing_name (fst h))) eqn:E; simpl; rewrite ?E, IH; reflexivity. }
  rewrite Hf. reflexivity.
Qed.

(* the parser stores exactly this rewriting when a chunked body completes *)
Lemma resp_chunked_headers st cs buf st1 c :
  resp_chunked st cs buf = (st1, Complete c) ->
  exists cs', chunk_decode cs buf = (cs', Complete c) /\
              s_headers st1 = dechunk_headers (s_headers st) (c_trailer cs') (c_buffer cs') /\
              s_body st1 = c_buffer cs'.
Proof.
  unfold resp_chunked. destruct (chunk_decode cs buf) as [cs' [k|k|e]]; try discriminate.
  intros H. inversion H; subst. exists cs'. repeat split.
Qed.

(* ------------------------------------------------------------------ decode_body (C14) *)
Definition CODING_NAMES : list bytes := [CONTENT_ENCODING; CONTENT_LENGTH'].

Lemma ce_cl : name_eq CONTENT_ENCODING CONTENT_LENGTH' = false. Proof. reflexivity. Qed.
Lemma cl_ce : name_eq CONTENT_LENGTH' CONTENT_ENCODING = false. Proof. reflexivity. Qed.

Section Decode.
  Variables gunzip inflate_raw inflate_zlib : bytes -> option bytes.
  Notation decode_body := (decode_body gunzip inflate_raw inflate_zlib).
  Notation decode_loop := (decode_loop gunzip inflate_raw inflate_zlib).

  Definition recognised (c : bytes) : bool := (bytes_eqb c GZIP || bytes_eqb c DEFLATE)%bool.

  (* the loop undoes a maximal run of recognised codings from the end and hands back the
     rest untouched *)
  Lemma decode_loop_kept rc body rrem b :
    decode_loop rc body = Some (rrem, b) ->
    exists undone, rc = undone ++ rrem /\ forallb recognised undone = true /\
                   match rrem with [] => True | c :: _ => recognised c = false end.
  Proof.
    revert body. induction rc as [|c rc IH]; intros body H.
    - inversion H; subst. exists []. repeat split.
    - simpl in H. destruct (bytes_eqb c GZIP) eqn:G.
      + destruct (gunzip body) as [b1|]; [|discriminate].
        destruct (IH _ H) as [u [-> [Hu Hr]]]. exists (c :: u). repeat split; try assumption.
        simpl. unfold recognised at 1. rewrite G. exact Hu.
      + destruct (bytes_eqb c DEFLATE) eqn:D.
        * destruct (deflate_decode inflate_raw inflate_zlib body) as [b1|]; [|discriminate].
          destruct (IH _ H) as [u [-> [Hu Hr]]]. exists (c :: u). repeat split; try assumption.
          simpl. unfold recognised at 1. rewrite G, D. exact Hu.
        * inversion H; subst. exists []. repeat split. unfold recognised. rewrite G, D. reflexivity.
  Qed.

  (* undoing a list of recognised codings, outermost (last listed) first *)
  Fixpoint undo (rcs : list bytes) (body : bytes) : option bytes :=
    match rcs with
    | [] => Some body
    | c :: rest =>
      match (if bytes_eqb c GZIP then gunzip body
             else deflate_decode inflate_raw inflate_zlib body) with
      | Some b => undo rest b
      | None => None
      end
    end.

  Lemma decode_loop_undo u rrem body :
    forallb recognised u = true ->
    match rrem with [] => True | c :: _ => recognised c = false end ->
    decode_loop (u ++ rrem) body =
    match undo u body with Some b => Some (rrem, b) | None => None end.
  Proof.
    revert body. induction u as [|c u IH]; intros body Hu Hr.
    - simpl. destruct rrem as [|c r]; [reflexivity|]. simpl.
      unfold recognised in Hr. apply orb_false_iff in Hr as [G D]. rewrite G, D. reflexivity.
    - simpl in Hu. apply andb_prop in Hu as [Hc Hu]. simpl.
      unfold recognised in Hc. destruct (bytes_eqb c GZIP) eqn:G.
      + destruct (gunzip body); [apply IH; assumption|reflexivity].
      + simpl in Hc. rewrite Hc.
        destruct (deflate_decode inflate_raw inflate_zlib body); [apply IH; assumption|reflexivity].
  Qed.

  (* C14, success: Content-Encoding lists exactly the kept tokens (one header, joined with
     ", "; absent when nothing is kept), Content-Length is the length of the returned body,
     every other header is unchanged and in order *)
  Theorem decode_body_success hs body hs' b :
    decode_body hs body = Some (hs', b) ->
    exists kept undone,
      header_tokens hs CONTENT_ENCODING = kept ++ undone /\
      forallb recognised undone = true /\
      match rev kept with [] => True | c :: _ => recognised c = false end /\
      header_multi_value hs' CONTENT_ENCODING =
        match kept with [] => [] | _ => [join [COMMA; SP] kept] end /\
      header_multi_value hs' CONTENT_LENGTH' = [show_dec (N.of_nat (length b))] /\
      filter (outside CODING_NAMES) hs' = filter (outside CODING_NAMES) hs /\
      undo (rev undone) body = Some b.
  Proof.
    unfold decode_body.
    destruct (decode_loop (rev (header_tokens hs CONTENT_ENCODING)) body) as [[rrem b1]|] eqn:E;
      [|discriminate].
    intros H. inversion H; subst hs' b. clear H.
    destruct (decode_loop_kept _ _ _ _ E) as [u [Hrev [Hu Hr]]].
    exists (rev rrem), (rev u). split; [|split; [|split; [|split; [|split; [|split]]]]].
    - rewrite <- rev_app_distr, <- Hrev, rev_involutive. reflexivity.
    - rewrite forallb_forall in *. intros x Hx. apply Hu. apply in_rev. exact Hx.
    - rewrite rev_involutive. exact Hr.
    - rewrite hmv_set_other by exact ce_cl.
      destruct (rev rrem); [apply hmv_remove_same|apply hmv_set_same].
    - apply hmv_set_same.
    - rewrite others_set by reflexivity.
      destruct (rev rrem); [apply others_remove|apply others_set]; reflexivity.
    - rewrite rev_involutive. rewrite Hrev in E. rewrite (decode_loop_undo u rrem body Hu Hr) in E.
      destruct (undo u body); inversion E; reflexivity.
  Qed.

  (* and conversely: when the maximal recognised suffix can be undone, decode_body succeeds *)
  Theorem decode_body_complete hs body kept undone b :
    header_tokens hs CONTENT_ENCODING = kept ++ undone ->
    forallb recognised undone = true ->
    match rev kept with [] => True | c :: _ => recognised c = false end ->
    undo (rev undone) body = Some b ->
    exists hs', decode_body hs body = Some (hs', b).
  Proof.
    intros Ht Hu Hk Hun. unfold decode_body. rewrite Ht, rev_app_distr.
    rewrite (decode_loop_undo (rev undone) (rev kept) body).
    - rewrite Hun. eauto.
    - rewrite forallb_forall in *. intros x Hx. apply Hu. apply in_rev. exact Hx.
    - exact Hk.
  Qed.

  (* C14, failure: an error leaves the headers exactly as they were -- the model returns no
     header list at all in that case: the caller's list is the input list *)
  Theorem decode_body_failure_atomic hs body :
    decode_body hs body = None ->
    decode_loop (rev (header_tokens hs CONTENT_ENCODING)) body = None.
  Proof.
    unfold decode_body. destruct (decode_loop _ body) as [[r b]|]; [discriminate|reflexivity].
  Qed.
End Decode.
