(* C03 -- the request parser accepts exactly the request grammar and extracts it faithfully.
   Acceptance (sound, complete, unique), "proper prefixes need more input", timeliness and the
   rejection categories (first offending element, Spec/Rejections.v) are proved. *)
From Coq Require Import String.
From Http Require Import Model.Bytes Model.Utf8 Model.Num Model.Headers Model.Request
     Spec.HeaderGrammar Spec.ChunkedGrammar Spec.RequestGrammar
     Spec.Rejections Proofs.ReqGrammar Proofs.HeaderGrammarProofs Proofs.PrefixNeedsMore Proofs.Timely
     Proofs.HeaderRejects Proofs.ReqRejects.

(* the grammar, pinned (Spec/RequestGrammar.v, Spec/HeaderGrammar.v) *)
Check (eq_refl : @request_line = fun meth tstr => meth ++ [SP] ++ tstr ++ [SP] ++ HTTP11).
Check (eq_refl : header_block = fun fs => flat_map field_bytes fs ++ CRLF).
Check (eq_refl : field_bytes = fun f => first_line f ++ CRLF ++ conts_bytes (f_conts f)).
Check (eq_refl : field_header = fun f => (f_name f, trim (unfolded (f_seg0 f) (f_conts f)))).

(* sound: whatever is reported complete is a request of the grammar, and the stored method,
   target, header list and body are exactly its elements; the boundary is right after them *)
Theorem C03_accept_sound :
  forall (uri : Type) (uri_parse : bytes -> option uri) cfg s (st : req_state uri) c,
    req_parse uri uri_parse cfg req_init s = (st, Complete c) ->
    exists u, r_target st = Some u /\
              IsRequest uri uri_parse cfg (firstn c s) (value_of uri st u).
Proof. exact req_parse_sound. Qed.
Print Assumptions C03_accept_sound.

(* complete: every request of the grammar is accepted, whatever follows it, with exactly its
   elements and the boundary at its end *)
Theorem C03_accept_complete :
  forall (uri : Type) (uri_parse : bytes -> option uri) cfg m (v : req_value uri) rest,
    IsRequest uri uri_parse cfg m v ->
    exists st, req_parse uri uri_parse cfg req_init (m ++ rest) = (st, Complete (length m)) /\
               value_of uri st (v_target v) = v /\ r_target st = Some (v_target v).
Proof. exact req_parse_complete. Qed.
Print Assumptions C03_accept_complete.

Theorem C03_grammar_unambiguous :
  forall (uri : Type) (uri_parse : bytes -> option uri) cfg m (v v' : req_value uri),
    IsRequest uri uri_parse cfg m v -> IsRequest uri uri_parse cfg m v' ->
    v_method v = v_method v' /\ v_headers v = v_headers v' /\ v_body v = v_body v'.
Proof. exact IsRequest_functional. Qed.
Print Assumptions C03_grammar_unambiguous.

(* a proper prefix of an acceptable request: more input, never a rejection *)
Theorem C03_prefix_needs_more :
  forall (uri : Type) (uri_parse : bytes -> option uri) cfg m (v : req_value uri) p t,
    IsRequest uri uri_parse cfg m v -> m = p ++ t -> t <> [] ->
    exists st c, req_parse uri uri_parse cfg req_init p = (st, Incomplete c).
Proof. exact request_prefix_needs_more. Qed.
Print Assumptions C03_prefix_needs_more.

(* timeliness: "more input" is only answered while the element being read is unfinished --
   no CRLF yet for the request line; the header block not yet complete; or declared body bytes
   still missing (then everything presented was consumed).  So once request line and header
   block are complete the answer is Complete, a rejection, or a wait for body bytes only. *)
Theorem C03_more_input_only_while_unfinished :
  forall (uri : Type) (uri_parse : bytes -> option uri) cfg s (st : req_state uri) c,
    req_parse uri uri_parse cfg req_init s = (st, Incomplete c) ->
    match r_phase st with
    | PRequestLine => find_crlf s = None /\ c = 0
    | PHeaders =>
        exists e hs k, find_crlf s = Some e /\ c = e + 2 + k /\
                       hdr_parse (hl cfg) [] (strip_cr (skipn (e + 2) s)) = HIncomplete hs k
    | PBody n => c = length s /\ (N.of_nat (length (r_body st)) < n)%N
    end.
Proof. exact request_incomplete_means_unfinished. Qed.
Print Assumptions C03_more_input_only_while_unfinished.

(* rejections: a fresh parser rejects an input with category e exactly when the input has a first
   offending element of that category (Spec/Rejections.v: request_defect -- unterminated or
   terminated request line too long; line not text; size exceeded; no method delimiter; empty
   method; no target delimiter; empty target; invalid URI; wrong protocol; then the first
   defective header line with its category; bad Content-Length; total or declared size over the
   maximum).  Every constructor of request_defect needs only the request line and header block
   (or less) to be present, so the rejection comes at the latest when they are complete. *)
Theorem C03_rejection_names_first_defect :
  forall (uri : Type) (uri_parse : bytes -> option uri) cfg s e,
    (exists st, req_parse uri uri_parse cfg req_init s = (st, Reject e)) <->
    request_defect uri uri_parse cfg s e.
Proof. exact request_reject_iff. Qed.
Print Assumptions C03_rejection_names_first_defect.

(* the same for the header block on its own: well-formed fields, then the first defective line *)
Theorem C03_header_rejection_names_first_defect :
  forall lim hs0 s e, hdr_parse lim hs0 s = HError e <-> block_defect lim s e.
Proof. exact hdr_parse_reject_iff. Qed.
Print Assumptions C03_header_rejection_names_first_defect.

(* the shape categories of the request line are exhaustive and exclusive with acceptance *)
Theorem C03_request_line_shape :
  forall (uri : Type) (uri_parse : bytes -> option uri) line e,
    parse_request_line uri uri_parse line = inr e <-> rshape_defect uri uri_parse line e.
Proof. exact parse_request_line_reject. Qed.
Print Assumptions C03_request_line_shape.

(* the header block alone: exactly the field grammar, with unfolding and trimming *)
Theorem C03_header_block_exact :
  forall lim hs0 s hs c,
    hdr_parse lim hs0 s = HComplete hs c <->
    exists fs, block_ok lim fs /\ firstn c s = header_block fs /\ hs = hs0 ++ map field_header fs
               /\ c = length (header_block fs).
Proof.
  intros lim hs0 s hs c. split.
  - intros H. destruct (hdr_parse_sound _ _ _ _ _ H) as [fs [H1 [H2 H3]]].
    exists fs. split; [exact H1|]. split; [exact H2|]. split; [exact H3|].
    pose proof (HeadersResume.hdr_parse_complete_tail _ _ _ _ _ H) as [_ [Hc _]].
    rewrite <- H2. rewrite firstn_length. symmetry. apply Nat.min_l. exact Hc.
  - intros [fs [H1 [H2 [H3 H4]]]].
    assert (Hs : s = header_block fs ++ skipn c s) by (rewrite <- H2; symmetry; apply firstn_skipn).
    rewrite Hs. subst hs c. apply hdr_parse_complete. exact H1.
Qed.
Print Assumptions C03_header_block_exact.

(* non-vacuity: a request with a folded header, a body and trailing bytes *)
Definition idp (b : bytes) : option bytes := Some b.
Example C03_example :
  let m := str "POST /x HTTP/1.1"%string ++ CRLF ++ str "A: b"%string ++ CRLF ++ str "  c "%string ++ CRLF
           ++ str "Content-Length: 2"%string ++ CRLF ++ CRLF ++ str "hi"%string in
  match req_parse bytes idp default_cfg req_init (m ++ str "GET"%string) with
  | (st, Complete c) => c = length m /\ r_headers st =
       [(str "A"%string, str "b c"%string); (str "Content-Length"%string, str "2"%string)]
       /\ r_body st = str "hi"%string
  | _ => False
  end.
Proof. vm_compute. repeat split. Qed.

(* non-vacuity of the rejection theorem: one defect per category, each derived from the declarative
   side through the theorem *)
Example C03_rejection_examples :
  let D := request_defect bytes idp default_cfg in
  D (str "GET  / HTTP/1.1"%string ++ CRLF) ERequestLineNoTargetOrExtraWhitespace /\
  D (str "GET / HTTP/1.0"%string ++ CRLF) ERequestLineProtocol /\
  D (str "GET / HTTP/1.1"%string ++ CRLF ++ str "A: b"%string ++ CRLF ++ str "Bad Name: x"%string ++ CRLF)
    (EHeaders HBadName) /\
  D (str "GET / HTTP/1.1"%string ++ CRLF ++ str "Content-Length: +5"%string ++ CRLF ++ CRLF) EInvalidContentLength /\
  D (str "GET / HTTP/1.1"%string ++ CRLF ++ str "Content-Length: 99999999"%string ++ CRLF ++ CRLF) EMessageTooLong.
Proof.
  cbv zeta. repeat split; apply C03_rejection_names_first_defect; eexists; vm_compute; reflexivity.
Qed.
