(* FeedGeneric.v -- from "one call is resumable" to "every way of cutting the stream into
   deliveries gives the answer of the single call" (used for C01, C02, C05). *)
From Coq Require Import Lia.
From Http Require Import Model.Bytes Model.Request Spec.Delivery Proofs.BytesLemmas.

Section Generic.
  Variable state : Type.
  Variable P : state -> bytes -> state * outcome.
  Variable Inv : state -> Prop.
  (* when are two completed parses "the same message"?  (state, bytes consumed so far) *)
  Variable msg_eq : state -> nat -> state -> nat -> Prop.
  Hypothesis msg_eq_refl : forall s c, msg_eq s c s c.
  Hypothesis msg_eq_trans : forall s1 c1 s2 c2 s3 c3,
      msg_eq s1 c1 s2 c2 -> msg_eq s2 c2 s3 c3 -> msg_eq s1 c1 s3 c3.
  Hypothesis msg_eq_shift : forall k s1 c1 s2 c2,
      msg_eq s1 c1 s2 c2 -> msg_eq s1 (k + c1) s2 (k + c2).

  Definition gshift (k : nat) (r : state * outcome) : state * outcome :=
    match r with
    | (st, Complete c) => (st, Complete (k + c))
    | (st, Incomplete c) => (st, Incomplete (k + c))
    | (st, Reject e) => (st, Reject e)
    end.

  Definition goeq (r1 r2 : state * outcome) : Prop :=
    match r1, r2 with
    | (_, Reject e1), (_, Reject e2) => e1 = e2
    | _, _ => r1 = r2
    end.

  (* the resumption property of one call *)
  Definition resumable : Prop :=
    forall st a b, Inv st ->
      match P st a with
      | (st1, Complete c) =>
          c <= length a /\ exists st1' c', P st (a ++ b) = (st1', Complete c') /\ msg_eq st1 c st1' c'
      | (st1, Incomplete c) =>
          c <= length a /\ Inv st1 /\ goeq (P st (a ++ b)) (gshift c (P st1 (skipn c a ++ b)))
      | (_, Reject e) => exists st' e', P st (a ++ b) = (st', Reject e')
      end.

  Hypothesis Hres : resumable.

  (* same verdict; same message and boundary when accepted; same state, count and pending
     bytes when more input is needed; categories of rejections are not compared *)
  Definition feq (r1 r2 : fres state) : Prop :=
    match r1, r2 with
    | Done s1 t1 _, Done s2 t2 _ => msg_eq s1 t1 s2 t2
    | NeedMore s1 t1 p1, NeedMore s2 t2 p2 => s1 = s2 /\ t1 = t2 /\ p1 = p2
    | Rejected _, Rejected _ => True
    | _, _ => False
    end.

  Lemma feq_refl r : feq r r.
  Proof. destruct r; simpl; auto. Qed.

  Lemma feq_trans r1 r2 r3 : feq r1 r2 -> feq r2 r3 -> feq r1 r3.
  Proof.
    destruct r1, r2, r3; simpl; try tauto.
    - apply msg_eq_trans.
    - intros [-> [-> ->]] [-> [-> ->]]. auto.
  Qed.

  Lemma feed_one st pending x tot :
    feed state P st pending [x] tot =
    match P st (pending ++ x) with
    | (st', Complete c) => Done st' (tot + c) (skipn c (pending ++ x))
    | (st', Incomplete c) => NeedMore st' (tot + c) (skipn c (pending ++ x))
    | (_, Reject e) => Rejected e
    end.
  Proof. simpl. destruct (P st (pending ++ x)) as [st' [c|c|e]]; reflexivity. Qed.

  Theorem feed_concat ds :
    ds <> [] -> forall st pending tot, Inv st ->
    feq (feed state P st pending ds tot) (feed state P st pending [concat ds] tot).
  Proof.
    induction ds as [|d ds' IH]; intros Hne st pending tot Hinv; [congruence|].
    rewrite feed_one. cbn [concat]. rewrite app_assoc.
    cbn [feed].
    pose proof (Hres st (pending ++ d) (concat ds') Hinv) as HS.
    destruct (P st (pending ++ d)) as [st1 [c|c|e]] eqn:E1.
    - destruct HS as [Hc [st1' [c' [HS Hm]]]]. rewrite HS. simpl.
      rewrite (Nat.add_comm tot c), (Nat.add_comm tot c'). apply msg_eq_shift with (k := 0) in Hm.
      simpl in Hm. rewrite !(Nat.add_comm _ tot). apply msg_eq_shift. exact Hm.
    - destruct HS as [Hc [Hinv1 HS]].
      destruct ds' as [|d2 ds2].
      + (* that was the last delivery *)
        cbn [concat] in *. rewrite app_nil_r in *. rewrite E1. simpl. auto.
      + assert (Hne' : d2 :: ds2 <> []) by discriminate.
        specialize (IH Hne' st1 (skipn c (pending ++ d)) (tot + c) Hinv1).
        eapply feq_trans; [exact IH|]. clear IH.
        rewrite feed_one.
        set (X := concat (d2 :: ds2)) in *.
        destruct (P st1 (skipn c (pending ++ d) ++ X)) as [st2 [c2|c2|e2]] eqn:E2;
          cbn [gshift] in HS;
          destruct (P st ((pending ++ d) ++ X)) as [s' [k|k|e']]; cbn [goeq] in HS;
          try discriminate; try (inversion HS; subst).
        * simpl. rewrite Nat.add_assoc. apply msg_eq_refl.
        * simpl. rewrite Nat.add_assoc. split; [reflexivity|]. split; [reflexivity|].
          rewrite <- (skipn_app_le c (pending ++ d) X) by exact Hc.
          rewrite skipn_skipn'. f_equal. lia.
        * simpl. exact I.
    - destruct HS as [st' [e' HS]]. rewrite HS. simpl. exact I.
  Qed.
End Generic.
