(* C08 -- request size limits are enforced exactly, early, and cannot be bypassed. *)
From Coq Require Import String.
From Http Require Import Model.Bytes Model.Num Model.Headers Model.Request Spec.Delivery
     Proofs.ReqResume Proofs.Safety Proofs.Limits Proofs.LimitsNone Spec.ChunkedGrammar Spec.HeaderGrammar Proofs.LimitsExact.

(* defaults (compared with Request::new() on every run) *)
Example C08_defaults :
  default_cfg = {| rl := Some 1000%N; hl := Some 1000%N; mm := Some 10000000%N |}.
Proof. reflexivity. Qed.

(* accepted only if the request line is within its limit ... *)
Theorem C08_accepted_request_line_within_limit :
  forall (uri : Type) (uri_parse : bytes -> option uri) cfg s (st : req_state uri) c,
    req_parse uri uri_parse cfg req_init s = (st, Complete c) ->
    exists e, find_crlf s = Some e /\ over_limit e (rl cfg) = false.
Proof. exact accepted_request_line_within_limit. Qed.
Print Assumptions C08_accepted_request_line_within_limit.

(* ... and the total (consumed bytes, with the declared body) is within the maximum; the
   running count is computed without wrap-around *)
Theorem C08_accepted_within_max :
  forall (uri : Type) (uri_parse : bytes -> option uri) cfg s (st : req_state uri) c m,
    req_parse uri uri_parse cfg req_init s = (st, Complete c) ->
    mm cfg = Some m -> (m < USIZE_MAX)%N ->
    (N.of_nat c <= r_total st)%N /\ (r_total st <= m)%N.
Proof. exact accepted_within_max. Qed.
Print Assumptions C08_accepted_within_max.

(* no bypass: whatever the declared length (up to 2^64-1), head + declared > max is rejected
   as MessageTooLong, never wrapped below the maximum *)
Theorem C08_declared_length_cannot_bypass :
  forall (uri : Type) cfg (st : req_state uri) buf hs c v n m,
    hdr_parse (hl cfg) (r_headers st) (strip_cr buf) = HComplete hs c ->
    header_value hs CONTENT_LENGTH = Some v -> parse_dec v = Some n ->
    mm cfg = Some m -> (m < USIZE_MAX)%N ->
    (m < r_total st + N.of_nat c + n)%N ->
    snd (req_headers uri cfg st buf) = Reject EMessageTooLong.
Proof. intros uri. exact (declared_length_counts uri). Qed.
Print Assumptions C08_declared_length_cannot_bypass.

(* early: under any delivery schedule, whenever the parser asks for more input, the bytes
   presented so far for the message (consumed + pending) are within the maximum *)
Theorem C08_need_more_only_within_max :
  forall (uri : Type) (uri_parse : bytes -> option uri) cfg (ds : list bytes)
         (st' : req_state uri) tot' pending' m,
    feed _ (req_parse uri uri_parse cfg) req_init [] ds 0 = NeedMore st' tot' pending' ->
    ds <> [] -> mm cfg = Some m -> (m < USIZE_MAX)%N ->
    (N.of_nat (tot' + length pending') <= m)%N.
Proof.
  intros uri uri_parse cfg ds st' tot' pending' m H.
  refine (need_more_within_max uri uri_parse cfg ds req_init [] 0 st' tot' pending' m _ _ H).
  - reflexivity.
  - unfold acct, sat_add. simpl. apply N.le_0_l.
Qed.
Print Assumptions C08_need_more_only_within_max.

(* None disables exactly that limit: a run that does not trip the request-line limit is
   unchanged by removing it (the other two limits keep acting) *)
Theorem C08_none_disables_only_request_line_limit :
  forall (uri : Type) (uri_parse : bytes -> option uri) cfg (st : req_state uri) buf,
    snd (req_dispatch uri uri_parse cfg st buf) <> Reject ERequestLineTooLong ->
    req_dispatch uri uri_parse (with_rl cfg None) st buf = req_dispatch uri uri_parse cfg st buf.
Proof. exact no_request_line_limit. Qed.
Print Assumptions C08_none_disables_only_request_line_limit.

(* the same at the level of Request::parse, for each of the three limits: a call that is not
   answered with that limit's rejection gives the same answer and the same state without it.
   With None the limit can never be the reason of a rejection (over_limit _ None = false,
   count_bytes / presented_ok with no maximum always pass), so together: None disables exactly
   that limit and no other. *)
Theorem C08_none_request_line_limit :
  forall (uri : Type) (uri_parse : bytes -> option uri) cfg (st : req_state uri) buf,
    snd (req_parse uri uri_parse cfg st buf) <> Reject ERequestLineTooLong ->
    req_parse uri uri_parse (with_rl cfg None) st buf = req_parse uri uri_parse cfg st buf.
Proof. exact no_request_line_limit_parse. Qed.
Print Assumptions C08_none_request_line_limit.

Theorem C08_none_header_line_limit :
  forall (uri : Type) (uri_parse : bytes -> option uri) cfg (st : req_state uri) buf,
    snd (req_parse uri uri_parse cfg st buf) <> Reject (EHeaders HTooLong) ->
    req_parse uri uri_parse (with_hl cfg None) st buf = req_parse uri uri_parse cfg st buf.
Proof. exact no_header_line_limit. Qed.
Print Assumptions C08_none_header_line_limit.

Theorem C08_none_max_message_size :
  forall (uri : Type) (uri_parse : bytes -> option uri) cfg (st : req_state uri) buf,
    snd (req_parse uri uri_parse cfg st buf) <> Reject EMessageTooLong ->
    req_parse uri uri_parse (with_mm cfg None) st buf = req_parse uri uri_parse cfg st buf.
Proof. exact no_max_message_size. Qed.
Print Assumptions C08_none_max_message_size.

(* exact in the other direction: a size rejection is issued only when that limit is really
   exceeded (corollaries of C03_rejection_names_first_defect) *)
Theorem C08_request_line_rejection_exact :
  forall (uri : Type) (uri_parse : bytes -> option uri) cfg s (st : req_state uri),
    req_parse uri uri_parse cfg req_init s = (st, Reject ERequestLineTooLong) ->
    exists n, rl cfg = Some n /\
      ((exists l rest, s = l ++ CRLF ++ rest /\ is_line l /\ (n < N.of_nat (length l))%N) \/
       (find_crlf s = None /\ (n < N.of_nat (length (strip_cr s)))%N)).
Proof. exact request_line_too_long_only_if_exceeded. Qed.
Print Assumptions C08_request_line_rejection_exact.

Theorem C08_header_line_rejection_exact :
  forall (uri : Type) (uri_parse : bytes -> option uri) cfg s (st : req_state uri),
    req_parse uri uri_parse cfg req_init s = (st, Reject (EHeaders HTooLong)) ->
    exists n k, hl cfg = Some n /\ (n < N.of_nat k)%N /\ k <= length s + 2.
Proof. exact header_line_too_long_only_if_exceeded. Qed.
Print Assumptions C08_header_line_rejection_exact.

Theorem C08_message_size_rejection_exact :
  forall (uri : Type) (uri_parse : bytes -> option uri) cfg s (st : req_state uri),
    req_parse uri uri_parse cfg req_init s = (st, Reject EMessageTooLong) ->
    exists m x, mm cfg = Some m /\ (m < x)%N /\
      ((x <= N.of_nat (length s))%N \/
       (exists l rest fs v n, s = l ++ CRLF ++ rest /\
          header_value (map field_header fs) CONTENT_LENGTH = Some v /\ parse_dec v = Some n /\
          x = N.min (N.of_nat (length l + 2 + length (header_block fs)) + n) USIZE_MAX)).
Proof. exact message_too_long_only_if_exceeded. Qed.
Print Assumptions C08_message_size_rejection_exact.

(* exactness at the boundary values, each limit at "exact" and "exact - 1" *)
Definition idp (b : bytes) : option bytes := Some b.
Definition reqx : bytes :=
  str "GET / HTTP/1.1"%string ++ CRLF ++ str "Host: abc"%string ++ CRLF ++ str "Content-Length: 3"%string ++ CRLF
  ++ CRLF ++ str "xyz"%string.            (* line 14; header lines 11 and 19 (with CRLF); head 48; total 51 *)
Definition verdict (cfg : rcfg) : outcome := snd (req_parse bytes idp cfg req_init reqx).
Example C08_exact_boundaries :
  verdict {| rl := Some 14; hl := Some 19; mm := Some 51 |}%N = Complete 51
  /\ verdict {| rl := Some 13; hl := Some 19; mm := Some 51 |}%N = Reject ERequestLineTooLong
  /\ verdict {| rl := Some 14; hl := Some 18; mm := Some 51 |}%N = Reject (EHeaders HTooLong)
  /\ verdict {| rl := Some 14; hl := Some 19; mm := Some 50 |}%N = Reject EMessageTooLong
  /\ verdict {| rl := None; hl := None; mm := None |} = Complete 51.
Proof. vm_compute. repeat split. Qed.

(* KNOWN FINDING K1 (rhymessage): a folded continuation line is not limited *)
Example C08_K1_continuation_line_not_limited :
  snd (req_parse bytes idp {| rl := Some 1000; hl := Some 11; mm := Some 10000000 |}%N req_init
         (str "GET / HTTP/1.1"%string ++ CRLF ++ str "A: b"%string ++ CRLF
          ++ str " ccccccccccccccccccc"%string ++ CRLF ++ CRLF)) = Complete 46.
Proof. vm_compute. reflexivity. Qed.
