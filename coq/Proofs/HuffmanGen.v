(* HuffmanGen.v -- the symbols of a compressed block under ANY pair of tables the decoder accepts:
   literals and matches in the canonical codes of the two tables decode to RFC 1951's copy semantics. *)
From Coq Require Import List NArith ZArith Arith Bool Lia ZifyBool ZifyN.
From Http Require Import Model.Bytes Model.Inflate Proofs.InflateLocal Proofs.HuffmanCanon Proofs.HuffmanKraft
     Proofs.HuffmanFixed Proofs.CopyMatch Proofs.HuffmanFixedLZ.
Import ListNotations.

Definition clen (lens : list N) (sym : nat) : nat := N.to_nat (nth sym lens 0%N).
Definition has_code (lens : list N) (sym : nat) : Prop :=
  sym < length lens /\ 1 <= clen lens sym /\ clen lens sym <= 15.
Definition gcode (lens : list N) (sym : nat) : list bool := code_bits lens sym (clen lens sym).

Lemma dec_g b lens sym s t :
  table_ok b (mk_table lens) = true -> has_code lens sym ->
  bits_of s = gcode lens sym ++ t ->
  exists s', dec_sym (mk_table lens) s = Ok sym s' /\ bits_of s' = t.
Proof.
  intros Hok [Hl [H1 H2]] Hb.
  apply (dec_sym_accepted_table b lens sym (clen lens sym) s t Hok H1 H2); [|exact Hb].
  unfold clen. rewrite N2Nat.id. apply nth_error_nth'. exact Hl.
Qed.

Section Tables.
  Variables litlens distlens : list N.
  Hypothesis lit_ok : table_ok false (mk_table litlens) = true.
  Hypothesis dist_ok : table_ok false (mk_table distlens) = true.

  Definition gsym_ok (x : fsym) : Prop :=
    match x with
    | FLit b => (b < 256)%N /\ has_code litlens (N.to_nat b)
    | FMatch lsym e dsym e2 =>
        257 <= lsym /\ lsym <= 285 /\ has_code litlens lsym /\
        (e < 2 ^ N.of_nat (nth (lsym - 257)%nat LENGTH_EXTRA 0%nat))%N /\
        dsym <= 29 /\ has_code distlens dsym /\
        (e2 < 2 ^ N.of_nat (nth dsym DIST_EXTRA 0%nat))%N
    end.

  Definition gsym_bits (x : fsym) : list bool :=
    match x with
    | FLit b => gcode litlens (N.to_nat b)
    | FMatch lsym e dsym e2 =>
        gcode litlens lsym ++ lsb_bits (nth (lsym - 257) LENGTH_EXTRA 0) e
        ++ gcode distlens dsym ++ lsb_bits (nth dsym DIST_EXTRA 0) e2
    end.

  Fixpoint gblock_bits (xs : list fsym) : list bool :=
    match xs with
    | [] => gcode litlens 256
    | x :: t => gsym_bits x ++ gblock_bits t
    end.

  Lemma codes_gsymbols xs : forall f out s t,
      Forall gsym_ok xs -> has_code litlens 256 -> length xs < f ->
      bits_of s = gblock_bits xs ++ t ->
      exists s', codes f (mk_table litlens) (mk_table distlens) out s = Ok (fold_left fsym_apply xs out) s'
                 /\ bits_of s' = t.
  Proof.
    induction xs as [|x xs IH]; intros f out s t Hx Heob Hf Hb.
    - destruct f as [|f]; [simpl in Hf; lia|]. cbn [gblock_bits] in Hb.
      destruct (dec_g false litlens 256 s t lit_ok Heob Hb) as [s' [D B]].
      exists s'. split; [|exact B]. rewrite codes_S. unfold codes_body, bind. rewrite D. reflexivity.
    - destruct f as [|f]; [simpl in Hf; lia|]. inversion Hx as [|? ? Hx1 Hx']; subst.
      cbn [gblock_bits] in Hb. cbn [fold_left]. destruct x as [b | lsym e dsym e2].
      + cbn [gsym_bits] in Hb. rewrite <- app_assoc in Hb. destruct Hx1 as [Hb256 Hc].
        destruct (dec_g false litlens (N.to_nat b) s _ lit_ok Hc Hb) as [s1 [D B1]].
        destruct (IH f (b :: out) s1 t Hx' Heob ltac:(simpl in Hf; lia) B1) as [s' [C B']].
        exists s'. split; [|exact B']. rewrite codes_S. unfold codes_body, bind. rewrite D.
        replace (Nat.ltb (N.to_nat b) 256) with true by (symmetry; apply Nat.ltb_lt; lia).
        rewrite N2Nat.id. exact C.
      + cbn [gsym_bits] in Hb. repeat rewrite <- app_assoc in Hb.
        destruct Hx1 as [L1 [L2 [Hc [He [D1 [Hd He2]]]]]].
        destruct (dec_g false litlens lsym s _ lit_ok Hc Hb) as [s1 [D B1]].
        destruct (getbits_view _ _ _ _ B1) as [s2 [G B2]].
        destruct (dec_g false distlens dsym s2 _ dist_ok Hd B2) as [s3 [Dd B3]].
        destruct (getbits_view _ _ _ _ B3) as [s4 [G2 B4]].
        rewrite N.mod_small in G by exact He. rewrite N.mod_small in G2 by exact He2.
        destruct (IH f (fsym_apply out (FMatch lsym e dsym e2)) s4 t Hx' Heob ltac:(simpl in Hf; lia) B4) as [s' [C B']].
        exists s'. split; [|exact B']. rewrite codes_S. unfold codes_body, bind. rewrite D.
        replace (Nat.ltb lsym 256) with false by (symmetry; apply Nat.ltb_ge; lia).
        replace (Nat.eqb lsym 256) with false by (symmetry; apply Nat.eqb_neq; lia).
        replace (Nat.ltb 285 lsym) with false by (symmetry; apply Nat.ltb_ge; lia).
        rewrite G, Dd.
        replace (Nat.ltb 29 dsym) with false by (symmetry; apply Nat.ltb_ge; lia).
        rewrite G2. rewrite copy_match_fast_is_rfc_copy. exact C.
  Qed.

  Lemma gcode_length lens sym : length (gcode lens sym) = clen lens sym.
  Proof. unfold gcode, code_bits. apply msb_bits_length. Qed.

  Lemma gsym_bits_nonempty x : gsym_ok x -> 1 <= length (gsym_bits x).
  Proof.
    destruct x as [b | lsym e dsym e2]; cbn [gsym_ok gsym_bits].
    - intros [_ [_ [H _]]]. rewrite gcode_length. exact H.
    - intros [_ [_ [[_ [H _]] _]]]. rewrite !app_length, gcode_length. lia.
  Qed.

  Lemma gblock_bits_length xs : Forall gsym_ok xs -> length xs <= length (gblock_bits xs).
  Proof.
    induction xs as [|x xs IH]; intros H; [cbn; lia|]. inversion H; subst.
    cbn [gblock_bits length]. rewrite app_length. pose proof (gsym_bits_nonempty x H2). specialize (IH H3). lia.
  Qed.
End Tables.
