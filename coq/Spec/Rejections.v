(* Rejections.v -- which category a rejection names: the first offending element of a header
   block, of a request, of a response.  Declarative: stated by decomposition of the byte
   string into well-formed elements followed by the defective one, without reference to the
   parsers' loops. *)
From Http Require Import Model.Bytes Model.Utf8 Model.Num Model.Headers Model.Request
     Spec.ChunkedGrammar Spec.HeaderGrammar.

Definition starts_wsp (l : bytes) : bool := match l with b :: _ => is_wsp b | [] => false end.

(* ---- header block ---- *)

(* a defective line where the first line of a field is expected; the checks come in the order
   length, text, colon, name, value *)
Inductive line_defect (lim : option N) : bytes -> herr -> Prop :=
| LD_long l :
    over_limit (length l + 2) lim = true -> line_defect lim l HTooLong
| LD_text l :
    over_limit (length l + 2) lim = false -> utf8_valid l = false -> line_defect lim l HNotText
| LD_colon l :
    over_limit (length l + 2) lim = false -> utf8_valid l = true -> l <> [] ->
    find_byte COLON l = None -> line_defect lim l HNoColon
| LD_name n v :
    over_limit (length (n ++ COLON :: v) + 2) lim = false -> utf8_valid (n ++ COLON :: v) = true ->
    find_byte COLON n = None -> forallb is_graphic n = false ->
    line_defect lim (n ++ COLON :: v) HBadName
| LD_value n v :
    over_limit (length (n ++ COLON :: v) + 2) lim = false -> utf8_valid (n ++ COLON :: v) = true ->
    name_ok n -> forallb is_vchar v = false ->
    line_defect lim (n ++ COLON :: v) HBadValue.

(* a defective line right after a field (where a continuation line or the next field is
   expected): it is looked at as text first, then as a continuation if it starts with SP/HT;
   continuation lines are not subject to the line limit (known finding K1) *)
Inductive cont_defect : bytes -> herr -> Prop :=
| CD_text l : utf8_valid l = false -> cont_defect l HNotText
| CD_value l : utf8_valid l = true -> starts_wsp l = true -> forallb is_vchar l = false ->
               cont_defect l HBadValue.

(* a terminated line that does not continue the field before it *)
Definition starts_field (r : bytes) : Prop :=
  exists lt, find_crlf r = Some lt /\ utf8_valid (firstn lt r) = true /\
             match firstn lt r with b :: _ => is_wsp b = false | [] => True end.

Inductive field_defect (lim : option N) : bytes -> herr -> Prop :=
| FD_line l rest e :
    is_line l -> line_defect lim l e -> field_defect lim (l ++ CRLF ++ rest) e
| FD_cont f l rest e :
    field_ok lim f -> is_line l -> cont_defect l e ->
    field_defect lim (field_bytes f ++ l ++ CRLF ++ rest) e
| FD_unterminated s :
    s <> [] -> find_crlf s = None -> over_limit (length s + 2) lim = true ->
    field_defect lim s HTooLong.

(* well-formed fields, then the first defective element *)
Definition block_defect (lim : option N) (s : bytes) (e : herr) : Prop :=
  exists fs r, Forall (field_ok lim) fs /\ s = flat_map field_bytes fs ++ r /\
               field_defect lim r e /\ (fs = [] \/ starts_field r).

(* the block parser's three answers, declaratively *)
Definition block_complete (lim : option N) (r : bytes) (fs : list field) : Prop :=
  block_ok lim fs /\ exists rest, r = header_block fs ++ rest.

Definition block_pending (lim : option N) (r : bytes) : Prop :=
  (forall e, ~ block_defect lim r e) /\ (forall fs, ~ block_complete lim r fs).

(* ---- requests ---- *)
From Http Require Import Spec.RequestGrammar.

Section Req.
  Variable uri : Type.
  Variable uri_parse : bytes -> option uri.

  (* the shape of a request line that is not `method SP target SP HTTP/1.1` *)
  Inductive rshape_defect : bytes -> err -> Prop :=
  | RS_no_method_delimiter l :
      find_byte SP l = None -> rshape_defect l ERequestLineNoMethodDelimiter
  | RS_no_method r :
      rshape_defect (SP :: r) ERequestLineNoMethodOrExtraWhitespace
  | RS_no_target_delimiter m r :
      m <> [] -> find_byte SP m = None -> find_byte SP r = None ->
      rshape_defect (m ++ SP :: r) ERequestLineNoTargetDelimiter
  | RS_no_target m r :
      m <> [] -> find_byte SP m = None ->
      rshape_defect (m ++ SP :: SP :: r) ERequestLineNoTargetOrExtraWhitespace
  | RS_uri m t p :
      m <> [] -> find_byte SP m = None -> t <> [] -> find_byte SP t = None ->
      uri_parse t = None ->
      rshape_defect (m ++ SP :: t ++ SP :: p) ERequestTargetUriInvalid
  | RS_protocol m t p u :
      m <> [] -> find_byte SP m = None -> t <> [] -> find_byte SP t = None ->
      uri_parse t = Some u -> p <> HTTP11 ->
      rshape_defect (m ++ SP :: t ++ SP :: p) ERequestLineProtocol.

  (* a terminated request line [l]: checks in the order length, text, running size, shape *)
  Inductive rline_defect (cfg : rcfg) : bytes -> err -> Prop :=
  | RLD_long l :
      over_limit (length l) (rl cfg) = true -> rline_defect cfg l ERequestLineTooLong
  | RLD_text l :
      over_limit (length l) (rl cfg) = false -> utf8_valid l = false ->
      rline_defect cfg l ERequestLineNotValidText
  | RLD_max l :
      over_limit (length l) (rl cfg) = false -> utf8_valid l = true ->
      ~ within_max cfg (N.of_nat (length l + 2)) -> rline_defect cfg l EMessageTooLong
  | RLD_shape l e :
      over_limit (length l) (rl cfg) = false -> utf8_valid l = true ->
      within_max cfg (N.of_nat (length l + 2)) -> rshape_defect l e -> rline_defect cfg l e.

  Definition line_good (cfg : rcfg) (l meth : bytes) (u : uri) : Prop :=
    exists tstr, l = request_line meth tstr /\
                 request_line_ok uri uri_parse (rl cfg) meth tstr u /\
                 within_max cfg (N.of_nat (length l + 2)).

  (* the first offending element of a request, and the category it is rejected with.  The
     header block is examined without one final CR (which may be half of a CRLF). *)
  Inductive request_defect (cfg : rcfg) : bytes -> err -> Prop :=
  | RD_unterminated_long s :
      find_crlf s = None -> over_limit (length (strip_cr s)) (rl cfg) = true ->
      request_defect cfg s ERequestLineTooLong
  | RD_unterminated_max s :
      find_crlf s = None -> over_limit (length (strip_cr s)) (rl cfg) = false ->
      ~ within_max cfg (N.of_nat (length s)) ->
      request_defect cfg s EMessageTooLong
  | RD_line l rest e :
      is_line l -> rline_defect cfg l e -> request_defect cfg (l ++ CRLF ++ rest) e
  | RD_headers l rest meth u e :
      line_good cfg l meth u -> block_defect (hl cfg) (strip_cr rest) e ->
      request_defect cfg (l ++ CRLF ++ rest) (EHeaders e)
  | RD_pending_max l rest meth u :
      line_good cfg l meth u -> block_pending (hl cfg) (strip_cr rest) ->
      ~ within_max cfg (N.of_nat (length (l ++ CRLF ++ rest))) ->
      request_defect cfg (l ++ CRLF ++ rest) EMessageTooLong
  | RD_block_max l rest meth u fs :
      line_good cfg l meth u -> block_complete (hl cfg) (strip_cr rest) fs ->
      ~ within_max cfg (N.of_nat (length l + 2 + length (header_block fs))) ->
      request_defect cfg (l ++ CRLF ++ rest) EMessageTooLong
  | RD_content_length l rest meth u fs v :
      line_good cfg l meth u -> block_complete (hl cfg) (strip_cr rest) fs ->
      within_max cfg (N.of_nat (length l + 2 + length (header_block fs))) ->
      header_value (map field_header fs) CONTENT_LENGTH = Some v -> parse_dec v = None ->
      request_defect cfg (l ++ CRLF ++ rest) EInvalidContentLength
  | RD_declared_max l rest meth u fs v n :
      line_good cfg l meth u -> block_complete (hl cfg) (strip_cr rest) fs ->
      within_max cfg (N.of_nat (length l + 2 + length (header_block fs))) ->
      header_value (map field_header fs) CONTENT_LENGTH = Some v -> parse_dec v = Some n ->
      ~ within_max cfg (N.of_nat (length l + 2 + length (header_block fs)) + n) ->
      request_defect cfg (l ++ CRLF ++ rest) EMessageTooLong.
End Req.

(* ---- chunked bodies ---- *)
From Http Require Import Model.Chunked Model.Response Spec.ResponseGrammar.

(* well-formed chunks, then the first offending element: a chunk-size line that is not text or
   has no valid size, a chunk not followed by CRLF, a defective trailer block *)
Inductive chunked_defect : bytes -> err -> Prop :=
| KD_size_text l rest :
    is_line l -> utf8_valid l = false ->
    chunked_defect (l ++ CRLF ++ rest) EChunkSizeLineNotValidText
| KD_size l rest :
    is_line l -> utf8_valid l = true -> parse_hex (size_field l) = None ->
    chunked_defect (l ++ CRLF ++ rest) EInvalidChunkSize
| KD_terminator1 l n data a :
    size_line l n -> n <> 0%N -> length data = N.to_nat n -> a <> CR ->
    chunked_defect (l ++ CRLF ++ data ++ [a]) EInvalidChunkTerminator
| KD_terminator2 l n data a b rest :
    size_line l n -> n <> 0%N -> length data = N.to_nat n -> ~ (a = CR /\ b = LF) ->
    chunked_defect (l ++ CRLF ++ data ++ a :: b :: rest) EInvalidChunkTerminator
| KD_trailer l block e :
    size_line l 0 -> block_defect None block e ->
    chunked_defect (l ++ CRLF ++ block) (ETrailer e)
| KD_later l n data rest e :
    size_line l n -> n <> 0%N -> length data = N.to_nat n -> chunked_defect rest e ->
    chunked_defect (l ++ CRLF ++ data ++ CRLF ++ rest) e.

(* ---- responses ---- *)
Inductive sshape_defect : bytes -> err -> Prop :=
| SS_no_protocol_delimiter l :
    find_byte SP l = None -> sshape_defect l EStatusLineNoProtocolDelimiter
| SS_protocol p r :
    find_byte SP p = None -> p <> HTTP11 -> sshape_defect (p ++ SP :: r) EStatusLineProtocol
| SS_no_code_delimiter r :
    find_byte SP r = None -> sshape_defect (HTTP11 ++ SP :: r) EStatusLineNoStatusCodeDelimiter
| SS_invalid_code c r :
    find_byte SP c = None -> parse_dec c = None ->
    sshape_defect (HTTP11 ++ SP :: c ++ SP :: r) EInvalidStatusCode
| SS_code_range c r n :
    find_byte SP c = None -> parse_dec c = Some n -> (1000 <= n)%N ->
    sshape_defect (HTTP11 ++ SP :: c ++ SP :: r) EStatusCodeOutOfRange.

Definition sline_good (l : bytes) (code : N) (reason : bytes) : Prop :=
  exists codetext, l = status_line codetext reason /\ status_line_ok codetext reason code.

Inductive response_defect : bytes -> err -> Prop :=
| SD_line_text l rest :
    is_line l -> utf8_valid l = false ->
    response_defect (l ++ CRLF ++ rest) EStatusLineNotValidText
| SD_line_shape l rest e :
    is_line l -> utf8_valid l = true -> sshape_defect l e ->
    response_defect (l ++ CRLF ++ rest) e
| SD_headers l rest code reason e :
    sline_good l code reason -> block_defect None rest e ->
    response_defect (l ++ CRLF ++ rest) (EHeaders e)
| SD_content_length l rest code reason fs v :
    sline_good l code reason -> block_complete None rest fs ->
    header_value (map field_header fs) CONTENT_LENGTH = Some v -> parse_dec v = None ->
    response_defect (l ++ CRLF ++ rest) EInvalidContentLength
| SD_chunked l code reason fs wire e :
    sline_good l code reason -> block_ok None fs ->
    header_value (map field_header fs) CONTENT_LENGTH = None ->
    has_header_token (map field_header fs) TRANSFER_ENCODING CHUNKED = true ->
    chunked_defect wire e ->
    response_defect (l ++ CRLF ++ header_block fs ++ wire) e.
