(* TrimLemmas.v -- str::trim is idempotent and only removes bytes. *)
From Coq Require Import Lia.
From Http Require Import Model.Bytes.

Lemma drop_while_idem p s : drop_while p (drop_while p s) = drop_while p s.
Proof.
  induction s as [|a s IH]; [reflexivity|]. simpl. destruct (p a) eqn:E; [exact IH|].
  simpl. rewrite E. reflexivity.
Qed.

Lemma drop_while_head p s a t : drop_while p s = a :: t -> p a = false.
Proof.
  induction s as [|b s IH]; [discriminate|]. simpl. destruct (p b) eqn:E; [exact IH|].
  intros H. inversion H; subst. exact E.
Qed.

Lemma drop_while_suffix p s : exists pre, s = pre ++ drop_while p s.
Proof.
  induction s as [|a s [pre IH]]; [exists []; reflexivity|].
  simpl. destruct (p a); [exists (a :: pre); simpl; f_equal; exact IH|exists []; reflexivity].
Qed.

Lemma drop_while_noop p s : match s with a :: _ => p a = false | [] => True end -> drop_while p s = s.
Proof. destruct s as [|a s]; [reflexivity|]. simpl. intros H. rewrite H. reflexivity. Qed.

Lemma forallb_drop_while (q p : N -> bool) s : forallb q s = true -> forallb q (drop_while p s) = true.
Proof.
  induction s as [|a s IH]; [reflexivity|]. simpl. intros H. apply andb_prop in H as [Ha Hs].
  destruct (p a); [apply IH; exact Hs|]. simpl. rewrite Ha, Hs. reflexivity.
Qed.

Lemma forallb_rev (q : N -> bool) s : forallb q (rev s) = forallb q s.
Proof.
  induction s as [|a s IH]; [reflexivity|]. simpl. rewrite forallb_app, IH. simpl.
  rewrite andb_true_r. apply andb_comm.
Qed.

Lemma forallb_trim (q : N -> bool) s : forallb q s = true -> forallb q (trim s) = true.
Proof.
  intros H. unfold trim, trim_end, trim_start.
  rewrite forallb_rev. apply forallb_drop_while. rewrite forallb_rev.
  apply forallb_drop_while. exact H.
Qed.

(* trim_end y is a prefix of y *)
Lemma trim_end_prefix y : exists w, y = trim_end y ++ w.
Proof.
  unfold trim_end. destruct (drop_while_suffix is_ws (rev y)) as [pre H].
  exists (rev pre). apply (f_equal (@rev N)) in H. rewrite rev_involutive, rev_app_distr in H. exact H.
Qed.

Lemma trim_end_idem y : trim_end (trim_end y) = trim_end y.
Proof. unfold trim_end. rewrite rev_involutive, drop_while_idem. reflexivity. Qed.

Lemma trim_start_trim_end y :
  match y with a :: _ => is_ws a = false | [] => True end ->
  trim_start (trim_end y) = trim_end y.
Proof.
  intros Hy. unfold trim_start. apply drop_while_noop.
  destruct (trim_end_prefix y) as [w Hw].
  destruct (trim_end y) as [|a z] eqn:E; [exact I|].
  rewrite Hw in Hy. simpl in Hy. exact Hy.
Qed.

Theorem trim_idem s : trim (trim s) = trim s.
Proof.
  unfold trim.
  assert (Hy : match trim_start s with a :: _ => is_ws a = false | [] => True end).
  { unfold trim_start. destruct (drop_while is_ws s) as [|a t] eqn:E; [exact I|].
    apply (drop_while_head _ _ _ _ E). }
  rewrite (trim_start_trim_end _ Hy). apply trim_end_idem.
Qed.
