(* DeflateStream.v -- every DEFLATE stream: any sequence of stored, fixed-code and dynamic-header blocks
   (RFC 1951), with any symbols and any tables the decoder accepts, specified by its bits with stored
   blocks starting at byte boundaries, is decoded by the model of inflate to RFC 1951's meaning of the
   blocks.  Then the zlib and gzip containers around it, and every stack of them (C13). *)
From Coq Require Import List NArith ZArith Arith Bool Lia ZifyBool ZifyN.
From Http Require Import Model.Bytes Model.Headers Model.Coding Model.Inflate Spec.DeflateStored
     Proofs.Rewrite Proofs.CodingGlue Proofs.InflateLocal Proofs.InflateTop Proofs.InflateC15 Proofs.InflateStored
     Proofs.HuffmanCanon Proofs.HuffmanKraft Proofs.HuffmanFixed Proofs.CopyMatch Proofs.HuffmanFixedLZ
     Proofs.HuffmanGen Proofs.HuffmanDyn Proofs.InflateWf.
Import ListNotations.

Inductive block :=
| BStored (data : bytes)
| BFixed (xs : list fsym)
| BDynamic (h : dyn_header) (lens : list N) (xs : list fsym).

Definition block_ok (b : block) : Prop :=
  match b with
  | BStored data => (N.of_nat (length data) <= 65535)%N /\ bytes_ok data
  | BFixed xs => Forall fsym_ok xs
  | BDynamic h lens xs =>
      header_ok h lens /\
      Forall (gsym_ok (firstn (d_hlit h) lens) (skipn (d_hlit h) lens)) xs /\
      has_code (firstn (d_hlit h) lens) 256
  end.

(* RFC 1951 meaning of a block over the output so far (most recent byte first) *)
Definition block_apply (out : bytes) (b : block) : bytes :=
  match b with
  | BStored data => rev data ++ out
  | BFixed xs => fold_left fsym_apply xs out
  | BDynamic _ _ xs => fold_left fsym_apply xs out
  end.

Definition is_huff (b : block) : bool := match b with BStored _ => false | _ => true end.

(* a compressed block after its first header bit: the two type bits and the body *)
Definition huff_bits (b : block) : list bool :=
  match b with
  | BStored _ => []
  | BFixed xs => [true; false] ++ block_bits xs
  | BDynamic h lens xs =>
      [false; true] ++ header_bits h ++ gblock_bits (firstn (d_hlit h) lens) (skipn (d_hlit h) lens) xs
  end.

Definition stored_bytes (data : bytes) : bytes :=
  let len := N.of_nat (length data) in
  [(len mod 256)%N; (len / 256)%N; ((65535 - len) mod 256)%N; ((65535 - len) / 256)%N] ++ data.

(* the bits of a stream of blocks, up to and including the padding of the last byte; the bits skipped
   before a stored block's LEN are arbitrary, and what follows them is whole bytes *)
Inductive Ser : list block -> list bool -> Prop :=
| Ser_last_stored data pad :
    length pad < 8 ->
    Ser [BStored data] ([true; false; false] ++ pad ++ flat_map byte_bits (stored_bytes data))
| Ser_last_huff b pad :
    is_huff b = true -> length pad < 8 ->
    Ser [b] ([true] ++ huff_bits b ++ pad)
| Ser_stored data pad bs rest :
    length pad < 8 -> length rest mod 8 = 0 -> Ser bs rest ->
    Ser (BStored data :: bs) ([false; false; false] ++ pad ++ flat_map byte_bits (stored_bytes data) ++ rest)
| Ser_huff b bs rest :
    is_huff b = true -> Ser bs rest ->
    Ser (b :: bs) ([false] ++ huff_bits b ++ rest).

(* ---- helpers ---- *)
Lemma state_of_bits' s pad z :
  wf s -> length pad < 8 -> length z mod 8 = 0 -> bits_of s = pad ++ z ->
  fst s = pad /\ flat_map byte_bits (snd s) = z.
Proof.
  intros [Hl Hb] Hp Hz H. unfold bits_of in H.
  pose proof (f_equal (@length bool) H) as HL. rewrite !app_length, flat_bits_length in HL.
  pose proof (Nat.div_mod (length z) 8 ltac:(lia)) as D. rewrite Hz in D.
  apply app_same_length in H; [exact H | lia].
Qed.

Lemma stored_bytes_ok data : (N.of_nat (length data) <= 65535)%N -> bytes_ok data -> bytes_ok (stored_bytes data).
Proof.
  intros Hl Hd. unfold stored_bytes, bytes_ok. cbn [app].
  assert (forall x, (x <= 65535 -> x mod 256 < 256 /\ x / 256 < 256)%N).
  { intros x Hx. split; [apply N.mod_lt; lia | apply N.div_lt_upper_bound; lia]. }
  destruct (H _ Hl) as [A1 A2]. destruct (H (65535 - N.of_nat (length data))%N ltac:(lia)) as [A3 A4].
  repeat constructor; assumption.
Qed.

Lemma flat_bits_nil (r : bytes) : flat_map byte_bits r = [] -> r = [].
Proof.
  destruct r as [|b r]; [reflexivity|]. cbn [flat_map]. destruct (byte_bits_cons b) as [x [l E]]. rewrite E. discriminate.
Qed.

Lemma wf_three s b1 b2 b3 t :
  wf s -> bits_of s = b1 :: b2 :: b3 :: t ->
  exists s3, getbits 3 s = Ok (bit_val b1 + 2 * (bit_val b2 + 2 * (bit_val b3 + 2 * 0)))%N s3
             /\ bits_of s3 = t /\ wf s3.
Proof.
  intros Hw Hb.
  destruct (getbit_view _ _ _ Hb) as [s1 [G1 B1]].
  destruct (getbit_view _ _ _ B1) as [s2 [G2 B2]].
  destruct (getbit_view _ _ _ B2) as [s3 [G3 B3]].
  exists s3. split; [cbn [getbits]; rewrite G1, G2, G3; reflexivity|]. split; [exact B3|].
  exact (wfp_getbit _ _ _ G3 (wfp_getbit _ _ _ G2 (wfp_getbit _ _ _ G1 Hw))).
Qed.

(* the content of one compressed block, from the state just behind its three header bits *)
Lemma huff_content b f out s3 t ty :
  is_huff b = true -> block_ok b -> wf s3 ->
  huff_bits b = ty ++ skipn 2 (huff_bits b) -> length ty = 2 ->
  bits_of s3 = skipn 2 (huff_bits b) ++ t ->
  length (huff_bits b) < f ->
  exists s', block_content f out (match b with BFixed _ => 2 | _ => 4 end)%N s3 = Ok (block_apply out b) s'
             /\ bits_of s' = t /\ wf s'.
Proof.
  intros Hh Hok Hw _ _ Hb Hf. destruct b as [data | xs | h lens xs]; [discriminate| |].
  - (* fixed *)
    cbn [huff_bits app skipn] in Hb. cbn [block_ok] in Hok.
    assert (Hlen : length xs < f).
    { cbn [huff_bits app length] in Hf. pose proof (block_bits_length xs). lia. }
    destruct (codes_symbols xs f out s3 t Hok Hlen Hb) as [s' [C B']].
    exists s'. split; [|split; [exact B'|]].
    + unfold block_content. change (N.div2 2) with 1%N. cbv iota. exact C.
    + exact (wfp_codes _ _ _ _ _ _ _ C Hw).
  - (* dynamic *)
    cbn [huff_bits app skipn] in Hb. cbn [block_ok] in Hok. destruct Hok as [Hh' [Hx Heob]]. rewrite <- app_assoc in Hb.
    destruct (dynamic_tables_correct h lens s3 _ Hh' Hb) as [s4 [DT B4]].
    pose proof Hh' as [_ [_ [_ [_ [_ [_ [_ [_ [_ [_ [Hdok Hlok]]]]]]]]]]].
    assert (Hlen : length xs < f).
    { cbn [huff_bits app length] in Hf. rewrite app_length in Hf.
      pose proof (gblock_bits_length _ _ Hlok Hdok xs Hx). lia. }
    destruct (codes_gsymbols _ _ Hlok Hdok xs f out s4 t Hx Heob Hlen B4) as [s' [C B']].
    exists s'. split; [|split; [exact B'|]].
    + unfold block_content. change (N.div2 4) with 2%N. cbv iota. unfold bind. rewrite DT. cbn [fst snd]. exact C.
    + exact (wfp_codes _ _ _ _ _ _ _ C (wfp_dynamic_tables _ _ _ DT Hw)).
Qed.

Lemma huff_bits_shape b : is_huff b = true ->
  exists t0 t1, huff_bits b = t0 :: t1 :: skipn 2 (huff_bits b) /\
    (bit_val t0 + 2 * (bit_val t1 + 2 * 0) = match b with BFixed _ => 1 | _ => 2 end)%N.
Proof.
  destruct b as [d | xs | h lens xs]; intros H; [discriminate| |].
  - exists true, false. split; reflexivity.
  - exists false, true. split; reflexivity.
Qed.

(* ---- the chain over blocks ---- *)
Lemma blocks_ser : forall bs bits, Ser bs bits -> Forall block_ok bs ->
  forall f out s, wf s -> bits_of s = bits -> length bits < f ->
    blocks f out s = Ok (fold_left block_apply bs out) ([], []).
Proof.
  intros bs bits HS. induction HS as [data pad Hp | b pad Hh Hp | data pad bs rest Hp Hr HS IH | b bs rest Hh HS IH];
    intros Hok f out s Hw Hb Hf.
  - (* last block, stored *)
    inversion Hok as [|? ? Hb0 _]; subst. cbn [block_ok] in Hb0. destruct Hb0 as [Hl Hd].
    destruct f as [|f]; [simpl in Hf; lia|]. cbn [app] in Hb.
    destruct (wf_three _ _ _ _ _ Hw Hb) as [s3 [G [B3 W3]]].
    rewrite blocks_S. unfold blocks_body, bind. rewrite G. cbn [bit_val].
    change (1 + 2 * (0 + 2 * (0 + 2 * 0)))%N with 1%N. unfold block_content. change (N.div2 1) with 0%N. cbv iota.
    destruct (state_of_bits' s3 pad _ W3 Hp ltac:(rewrite flat_bits_length; rewrite Nat.mul_comm; apply Nat.mod_mul; lia) B3) as [F3 S3].
    destruct W3 as [_ Wb].
    destruct (bytes_of_bits (stored_bytes data) (snd s3) [] ltac:(rewrite app_nil_r; exact S3) Wb (stored_bytes_ok _ Hl Hd)) as [r [Er Ez]].
    apply flat_bits_nil in Ez. subst r. rewrite app_nil_r in Er.
    destruct s3 as [c3 r3]. cbn [snd] in Er. subst r3.
    pose proof (stored_block_decodes c3 data out [] Hl) as SB. cbv zeta in SB. rewrite app_nil_r in SB.
    unfold stored_bytes. cbv zeta. cbn [app].
    match goal with |- context [stored_block out ?st] =>
      assert (SB' : stored_block out st = Ok (rev data ++ out) ([], [])) by exact SB; rewrite SB' end.
    change (N.odd 1) with true. cbv iota. reflexivity.
  - (* last block, compressed *)
    inversion Hok as [|? ? Hb1 _]; subst.
    destruct f as [|f]; [simpl in Hf; lia|].
    destruct (huff_bits_shape b Hh) as [t0 [t1 [Esh Ev]]].
    cbn [app] in Hb. rewrite Esh in Hb. cbn [app] in Hb.
    destruct (wf_three _ _ _ _ _ Hw Hb) as [s3 [G [B3 W3]]].
    rewrite blocks_S. unfold blocks_body, bind. rewrite G.
    assert (Hf' : length (huff_bits b) < S f) by (cbn [app length] in Hf; rewrite app_length in Hf; lia).
    destruct (huff_content b (S f) out s3 pad [t0; t1] Hh Hb1 W3 Esh eq_refl B3 Hf') as [s' [C [B' W']]].
    replace (bit_val true + 2 * (bit_val t0 + 2 * (bit_val t1 + 2 * 0)))%N
      with (match b with BFixed _ => 3 | _ => 5 end)%N by (destruct b; [discriminate| |]; cbn [bit_val] in *; lia).
    assert (Hbc : forall hv hv', N.div2 hv = N.div2 hv' -> block_content (S f) out hv s3 = block_content (S f) out hv' s3).
    { intros hv hv' E. unfold block_content. rewrite E. reflexivity. }
    assert (Hs' : snd s' = []) by (apply bits_short_no_bytes; rewrite B'; exact Hp).
    destruct b as [d | xs | h lens xs]; [discriminate| |].
    + rewrite (Hbc 3 2 eq_refl)%N, C. change (N.odd 3) with true. cbv iota.
      destruct s' as [c' r']. cbn [snd] in Hs'. subst r'. reflexivity.
    + rewrite (Hbc 5 4 eq_refl)%N, C. change (N.odd 5) with true. cbv iota.
      destruct s' as [c' r']. cbn [snd] in Hs'. subst r'. reflexivity.
  - (* a stored block, more to come *)
    inversion Hok as [|? ? Hb0 Hok']; subst. cbn [block_ok] in Hb0. destruct Hb0 as [Hl Hd].
    destruct f as [|f]; [simpl in Hf; lia|]. cbn [app] in Hb.
    destruct (wf_three _ _ _ _ _ Hw Hb) as [s3 [G [B3 W3]]].
    rewrite blocks_S. unfold blocks_body, bind. rewrite G. cbn [bit_val].
    change (0 + 2 * (0 + 2 * (0 + 2 * 0)))%N with 0%N. unfold block_content. change (N.div2 0) with 0%N. cbv iota.
    assert (Hz : length (flat_map byte_bits (stored_bytes data) ++ rest) mod 8 = 0).
    { rewrite app_length, flat_bits_length. rewrite Nat.add_comm, Nat.mul_comm, Nat.mod_add by lia. exact Hr. }
    destruct (state_of_bits' s3 pad _ W3 Hp Hz B3) as [F3 S3].
    destruct W3 as [_ Wb].
    destruct (bytes_of_bits (stored_bytes data) (snd s3) rest S3 Wb (stored_bytes_ok _ Hl Hd)) as [r [Er Ez]].
    destruct s3 as [c3 r3]. cbn [snd] in Er. subst r3.
    pose proof (stored_block_decodes c3 data out r Hl) as SB. cbv zeta in SB.
    unfold stored_bytes. cbv zeta. rewrite <- app_assoc. cbn [app]. cbn [app] in SB.
    match goal with |- context [stored_block out ?st] =>
      assert (SB' : stored_block out st = Ok (rev data ++ out) ([], r)) by exact SB; rewrite SB' end.
    change (N.odd 0) with false. cbv iota.
    apply (IH Hok' f (rev data ++ out) ([], r)).
    + split; cbn [fst snd]; [simpl; lia|]. cbn [snd] in Wb. unfold bytes_ok in *. apply Forall_app in Wb. tauto.
    + unfold bits_of. cbn [fst snd app]. exact Ez.
    + cbn [app length] in Hf. rewrite !app_length in Hf. lia.
  - (* a compressed block, more to come *)
    inversion Hok as [|? ? Hb1 Hok']; subst.
    destruct f as [|f]; [simpl in Hf; lia|].
    destruct (huff_bits_shape b Hh) as [t0 [t1 [Esh Ev]]].
    cbn [app] in Hb. rewrite Esh in Hb. cbn [app] in Hb.
    destruct (wf_three _ _ _ _ _ Hw Hb) as [s3 [G [B3 W3]]].
    rewrite blocks_S. unfold blocks_body, bind. rewrite G.
    assert (Hf' : length (huff_bits b) < S f) by (cbn [app length] in Hf; rewrite app_length in Hf; lia).
    destruct (huff_content b (S f) out s3 rest [t0; t1] Hh Hb1 W3 Esh eq_refl B3 Hf') as [s' [C [B' W']]].
    replace (bit_val false + 2 * (bit_val t0 + 2 * (bit_val t1 + 2 * 0)))%N
      with (match b with BFixed _ => 2 | _ => 4 end)%N by (destruct b; [discriminate| |]; cbn [bit_val] in *; lia).
    rewrite C.
    replace (N.odd (match b with BFixed _ => 2 | _ => 4 end)%N) with false by (destruct b; reflexivity).
    apply (IH Hok' f _ s' W' B').
    cbn [app length] in Hf. rewrite app_length in Hf. lia.
Qed.

(* every DEFLATE stream is decoded to the meaning of its blocks *)
Theorem deflate_stream_inverts e bs :
  bytes_ok e -> Ser bs (flat_map byte_bits e) -> Forall block_ok bs ->
  inflate_fuel (fuel_for e) e = Ok (rev (fold_left block_apply bs [])) ([], []).
Proof.
  intros He HS Hok. unfold inflate_fuel.
  rewrite (blocks_ser bs _ HS Hok (fuel_for e) [] ([], e)).
  - rewrite rev_append_rev, app_nil_r. reflexivity.
  - split; cbn [fst snd]; [simpl; lia | exact He].
  - reflexivity.
  - rewrite flat_bits_length. unfold fuel_for. lia.
Qed.

(* ---------------------------------------------------------------- containers and stacks *)

(* an exact raw stream decodes the same way whatever follows it, with any larger fuel *)
Lemma raw_exact_extends e d f y :
  inflate_fuel (fuel_for e) e = Ok d ([], []) -> fuel_for e <= f ->
  inflate_fuel f (e ++ y) = Ok d ([], y).
Proof.
  intros H Hf. destruct (inflate_fuel_local _ _ _ _ _ H) as [_ [c [R [X _]]]].
  rewrite app_nil_r in R. subst c. exact (inflate_fuel_mono _ _ _ _ _ Hf (X y)).
Qed.

Lemma fuel_for_app_le (a b c : bytes) : fuel_for b <= fuel_for (a ++ b ++ c).
Proof. unfold fuel_for. rewrite !app_length. lia. Qed.

Lemma gzip_wraps h e foot d :
  gz_header_ok h -> inflate_fuel (fuel_for e) e = Ok d ([], []) ->
  length foot = 8 -> le32 (firstn 4 foot) = crc32 d ->
  le32 (skipn 4 foot) = (N.of_nat (length d) mod 4294967296)%N ->
  gunzip_model (h ++ e ++ foot) = Some d.
Proof.
  intros Hh He L8 C1 C2. unfold gunzip_model, gunzip_fuel. rewrite Hh.
  rewrite (raw_exact_extends e d _ foot He (fuel_for_app_le h e foot)).
  unfold has_prefix_len. rewrite L8. cbn [Nat.leb].
  assert (S4 : firstn 4 (skipn 4 foot) = skipn 4 foot) by (apply firstn_all2; rewrite skipn_length; lia).
  rewrite S4, C1, C2, !N.eqb_refl. reflexivity.
Qed.

Lemma zlib_wraps cmf flg e a4 d :
  zlib_header_ok cmf flg = true -> inflate_fuel (fuel_for e) e = Ok d ([], []) ->
  length a4 = 4 -> be32 a4 = adler32 d ->
  inflate_zlib_model (cmf :: flg :: e ++ a4) = Some d /\ zlib_header (cmf :: flg :: e ++ a4) = true.
Proof.
  intros Hh He L4 Ha. split; [|rewrite zlib_header_ok_eq; exact Hh].
  unfold inflate_zlib_model, inflate_zlib_fuel. rewrite Hh.
  change (fuel_for (cmf :: flg :: e ++ a4)) with (fuel_for ([cmf; flg] ++ e ++ a4)).
  rewrite (raw_exact_extends e d _ a4 He (fuel_for_app_le [cmf; flg] e a4)).
  unfold has_prefix_len. rewrite L4. cbn [Nat.leb]. rewrite firstn_all2 by lia. rewrite Ha, N.eqb_refl. reflexivity.
Qed.

(* e is a DEFLATE stream (RFC 1951) whose meaning is d *)
Definition deflate_of (d e : bytes) : Prop :=
  bytes_ok e /\ exists bs, Ser bs (flat_map byte_bits e) /\ Forall block_ok bs /\
                           d = rev (fold_left block_apply bs []).

Lemma deflate_of_exact d e : deflate_of d e -> inflate_fuel (fuel_for e) e = Ok d ([], []).
Proof. intros [He [bs [HS [Hok Ed]]]]. subst d. exact (deflate_stream_inverts e bs He HS Hok). Qed.

(* the three content codings as RFC 1951 / 1950 / 1952 define them, for ANY conforming encoder *)
Definition rfc_enc (f : format) (d e : bytes) : Prop :=
  match f with
  | Raw => deflate_of d e /\ zlib_header e = false
  | Zl => exists cmf flg body a4,
      zlib_header_ok cmf flg = true /\ deflate_of d body /\ length a4 = 4 /\ be32 a4 = adler32 d /\
      e = cmf :: flg :: body ++ a4
  | Gz => exists h body foot,
      gz_header_ok h /\ deflate_of d body /\ length foot = 8 /\ le32 (firstn 4 foot) = crc32 d /\
      le32 (skipn 4 foot) = (N.of_nat (length d) mod 4294967296)%N /\
      e = h ++ body ++ foot
  end.

Theorem decode_inverts_every_rfc_stack hs fs d e :
  Enc rfc_enc fs d e ->
  header_tokens hs CONTENT_ENCODING = map coding_token fs ->
  exists hs', decode_body_m hs e = Some (hs', d).
Proof.
  apply (decode_inverts_stack gunzip_model inflate_raw_model inflate_zlib_model rfc_enc).
  - intros d0 e0 [h [body [foot [Hh [Hd [L8 [C1 [C2 Ee]]]]]]]]. subst e0.
    exact (gzip_wraps h body foot d0 Hh (deflate_of_exact _ _ Hd) L8 C1 C2).
  - intros d0 e0 [cmf [flg [body [a4 [Hh [Hd [L4 [Ha Ee]]]]]]]]. subst e0.
    exact (zlib_wraps cmf flg body a4 d0 Hh (deflate_of_exact _ _ Hd) L4 Ha).
  - intros d0 e0 [Hd Hz]. split; [|exact Hz].
    unfold inflate_raw_model. rewrite (deflate_of_exact _ _ Hd). reflexivity.
Qed.
