(* RespRejects.v -- Response::parse on a fresh parser rejects exactly the inputs with a first
   offending element (Spec/Rejections.v: response_defect), naming its category (C04). *)
From Coq Require Import Lia ZifyN ZifyNat.
From Http Require Import Model.Bytes Model.Utf8 Model.Num Model.Headers Model.Request Model.Chunked
     Model.Response Spec.ChunkedGrammar Spec.HeaderGrammar Spec.ResponseGrammar Spec.Rejections
     Proofs.BytesLemmas Proofs.HeadersResume Proofs.HeaderAlgebra Proofs.HeaderGrammarProofs
     Proofs.ChunkResume Proofs.ChunkGrammar Proofs.HeaderRejects Proofs.ReqRejects
     Proofs.ChunkRejects Proofs.RespGrammar.

Lemma bytes_eqb_false' a b : bytes_eqb a b = false <-> a <> b.
Proof.
  split.
  - intros H E. subst. rewrite bytes_eqb_refl in H. discriminate.
  - intros H. destruct (bytes_eqb a b) eqn:E; [|reflexivity]. apply bytes_eqb_eq in E. contradiction.
Qed.

Lemma http11_no_sp : find_byte SP HTTP11 = None.
Proof. reflexivity. Qed.

(* ---- the status-line splitter names the shape defect ---- *)
Lemma parse_status_line_reject line e :
  parse_status_line line = inr e <-> sshape_defect line e.
Proof.
  split.
  - unfold parse_status_line.
    destruct (find_byte SP line) as [pd|] eqn:F1.
    2:{ intros H; inversion H; subst. constructor. exact F1. }
    pose proof (find_byte_split _ _ _ F1) as S1.
    pose proof (find_byte_firstn_none _ _ _ F1) as N1.
    destruct (bytes_eqb (firstn pd line) HTTP11) eqn:B; cbn [negb].
    2:{ intros H; inversion H; subst e. rewrite S1. apply SS_protocol; [exact N1|].
        apply bytes_eqb_false'. exact B. }
    apply bytes_eqb_eq in B. cbv zeta. rewrite B in S1.
    destruct (find_byte SP (skipn (S pd) line)) as [cd|] eqn:F2.
    2:{ intros H; inversion H; subst e. rewrite S1. apply SS_no_code_delimiter. exact F2. }
    pose proof (find_byte_split _ _ _ F2) as S2.
    pose proof (find_byte_firstn_none _ _ _ F2) as N2.
    destruct (parse_dec (firstn cd (skipn (S pd) line))) as [n|] eqn:PD.
    2:{ intros H; inversion H; subst e. rewrite S1. rewrite S2. apply SS_invalid_code; assumption. }
    destruct (N.ltb n 1000) eqn:L; [discriminate|].
    intros H; inversion H; subst e. rewrite S1. rewrite S2.
    apply (SS_code_range _ _ n); try assumption. apply N.ltb_ge. exact L.
  - intros H. unfold parse_status_line.
    destruct H as [l F|p r Fp Hp|r Fr|c r Fc PD|c r n Fc PD Hn].
    + rewrite F. reflexivity.
    + rewrite (find_byte_app_none SP p r Fp). rewrite firstn_app_exact.
      apply bytes_eqb_false' in Hp. rewrite Hp. reflexivity.
    + rewrite (find_byte_app_none SP HTTP11 r http11_no_sp). rewrite firstn_app_exact.
      rewrite bytes_eqb_refl. cbn [negb]. cbv zeta. rewrite skipn_app_cons. rewrite Fr. reflexivity.
    + rewrite (find_byte_app_none SP HTTP11 _ http11_no_sp). rewrite firstn_app_exact.
      rewrite bytes_eqb_refl. cbn [negb]. cbv zeta. rewrite skipn_app_cons.
      rewrite (find_byte_app_none SP c r Fc). rewrite firstn_app_exact. rewrite PD. reflexivity.
    + rewrite (find_byte_app_none SP HTTP11 _ http11_no_sp). rewrite firstn_app_exact.
      rewrite bytes_eqb_refl. cbn [negb]. cbv zeta. rewrite skipn_app_cons.
      rewrite (find_byte_app_none SP c r Fc). rewrite firstn_app_exact. rewrite PD.
      assert (L : N.ltb n 1000 = false) by (apply N.ltb_ge; exact Hn). rewrite L. reflexivity.
Qed.

(* ---- Response::parse on a buffer whose first line is terminated ---- *)
Definition sst (code : N) (reason : bytes) : resp_state :=
  {| s_phase := SHeaders; s_code := code; s_reason := reason;
     s_headers := []; s_body := []; s_trailer := [] |}.

Lemma resp_parse_line_form l rest :
  is_line l ->
  resp_parse resp_init (l ++ CRLF ++ rest) =
  if negb (utf8_valid l) then (resp_init, Reject EStatusLineNotValidText) else
  match parse_status_line l with
  | inr er => (resp_init, Reject er)
  | inl (code, reason) => rshift (length l + 2) (resp_headers (sst code reason) rest)
  end.
Proof.
  intros Hl. unfold resp_parse. cbn [s_phase resp_init]. unfold resp_line.
  rewrite (is_line_find l rest Hl). cbv zeta. rewrite firstn_line, skipn_line. reflexivity.
Qed.

Lemma resp_fixed_never_rejects st n buf k st1 e : rshift k (resp_fixed st n buf) <> (st1, Reject e).
Proof. unfold resp_fixed. cbv zeta. destruct (N.leb _ _); cbn [rshift]; discriminate. Qed.

Lemma sline_good_facts l code reason :
  sline_good l code reason ->
  is_line l /\ utf8_valid l = true /\ parse_status_line l = inl (code, reason).
Proof.
  intros [ct [-> Hok]]. pose proof (parse_status_line_complete _ _ _ Hok) as PL.
  destruct Hok as [_ [_ [Hl Hu]]]. repeat split; assumption.
Qed.

Lemma sline_good_intro l code reason :
  is_line l -> utf8_valid l = true -> parse_status_line l = inl (code, reason) ->
  sline_good l code reason.
Proof.
  intros Hl U PL. destruct (parse_status_line_sound _ _ _ PL) as [ct [-> [PD Hlt]]].
  exists ct. split; [reflexivity|]. repeat split; assumption.
Qed.

Theorem response_reject_sound s st e :
  resp_parse resp_init s = (st, Reject e) -> response_defect s e.
Proof.
  destruct (find_crlf s) as [e0|] eqn:F.
  2:{ unfold resp_parse. cbn [s_phase resp_init]. unfold resp_line. rewrite F. discriminate. }
  pose proof (line_split _ _ F) as Hs. pose proof (is_line_firstn _ _ F) as Hl.
  revert Hs Hl. generalize (firstn e0 s) as l. generalize (skipn (e0 + 2) s) as rest.
  intros rest l -> Hl. clear F e0.
  rewrite (resp_parse_line_form l rest Hl).
  destruct (utf8_valid l) eqn:U; cbn [negb].
  2:{ intros H; injection H as _ <-. apply SD_line_text; assumption. }
  destruct (parse_status_line l) as [[code reason]|er] eqn:PL.
  2:{ intros H; injection H as _ <-. apply SD_line_shape; try assumption.
      apply parse_status_line_reject. exact PL. }
  pose proof (sline_good_intro l code reason Hl U PL) as LG.
  unfold resp_headers. cbn [s_headers sst].
  destruct (hdr_parse None [] rest) as [hs c|hs k|eh] eqn:HP.
  - apply hdr_complete_iff in HP. destruct HP as [fs [BC [-> ->]]].
    destruct (header_value (map field_header fs) CONTENT_LENGTH) as [v|] eqn:HV.
    + destruct (parse_dec v) as [n|] eqn:PD.
      * unfold resp_fixed. cbv zeta. destruct (N.leb _ _); cbn [rshift]; discriminate.
      * cbn [rshift]. intros H; injection H as _ <-. eapply SD_content_length; eassumption.
    + destruct (has_header_token (map field_header fs) TRANSFER_ENCODING CHUNKED) eqn:HT.
      2:{ cbn [rshift]. discriminate. }
      destruct BC as [Hok [wire ->]]. rewrite skipn_app_exact.
      unfold resp_chunked.
      destruct (chunk_decode chunk_init wire) as [cs [k|k|ec]] eqn:CD; cbn [rshift]; try discriminate.
      intros H; injection H as _ <-.
      eapply SD_chunked; try eassumption. apply chunk_reject_iff. eauto.
  - cbn [rshift]. discriminate.
  - cbn [rshift]. intros H; injection H as _ <-. eapply SD_headers; [exact LG|].
    apply (hdr_parse_reject_iff None [] rest eh). exact HP.
Qed.

Theorem response_defect_rejected s e :
  response_defect s e -> exists st, resp_parse resp_init s = (st, Reject e).
Proof.
  intros H.
  destruct H as [l rest Hl U|l rest e Hl U Hs|l rest code reason e LG BD|l rest code reason fs v LG BC HV PD
                 |l code reason fs wire e LG Hok HV HT KD].
  - rewrite (resp_parse_line_form l rest Hl). rewrite U. cbn [negb]. eauto.
  - rewrite (resp_parse_line_form l rest Hl). rewrite U. cbn [negb].
    apply parse_status_line_reject in Hs. rewrite Hs. eauto.
  - destruct (sline_good_facts _ _ _ LG) as [Hl [U PL]].
    rewrite (resp_parse_line_form l rest Hl). rewrite U, PL. cbn [negb].
    unfold resp_headers. cbn [s_headers sst].
    apply (hdr_parse_reject_iff None [] rest e) in BD. rewrite BD. cbn [rshift]. eauto.
  - destruct (sline_good_facts _ _ _ LG) as [Hl [U PL]].
    rewrite (resp_parse_line_form l rest Hl). rewrite U, PL. cbn [negb].
    unfold resp_headers. cbn [s_headers sst].
    assert (HP : hdr_parse None [] rest = HComplete (map field_header fs) (length (header_block fs)))
      by (apply hdr_complete_iff; eauto).
    rewrite HP. rewrite HV, PD. cbn [rshift]. eauto.
  - destruct (sline_good_facts _ _ _ LG) as [Hl [U PL]].
    rewrite (resp_parse_line_form l _ Hl). rewrite U, PL. cbn [negb].
    unfold resp_headers. cbn [s_headers sst].
    rewrite (hdr_parse_complete None [] fs wire Hok). cbn [app].
    rewrite HV, HT. rewrite skipn_app_exact. unfold resp_chunked.
    apply chunk_reject_iff in KD. destruct KD as [cs CD]. rewrite CD. cbn [rshift]. eauto.
Qed.

Theorem response_reject_iff s e :
  (exists st, resp_parse resp_init s = (st, Reject e)) <-> response_defect s e.
Proof.
  split; [intros [st H]; eapply response_reject_sound; exact H|apply response_defect_rejected].
Qed.
