(* ChunkRejects.v -- the chunked decoder rejects exactly the inputs with a first offending
   element (Spec/Rejections.v: chunked_defect), naming its category (C04 / C05). *)
From Coq Require Import Lia ZifyN ZifyNat.
From Http Require Import Model.Bytes Model.Utf8 Model.Num Model.Headers Model.Request Model.Chunked
     Spec.ChunkedGrammar Spec.HeaderGrammar Spec.Rejections
     Proofs.BytesLemmas Proofs.HeadersResume Proofs.ChunkResume Proofs.ChunkGrammar
     Proofs.HeaderGrammarProofs Proofs.HeaderRejects.

Definition cst (b0 : bytes) : chunk_state := {| c_phase := CSize; c_buffer := b0; c_trailer := [] |}.

Lemma decode_size_line_reject st l rest e :
  is_line l ->
  (utf8_valid l = false /\ e = EChunkSizeLineNotValidText) \/
  (utf8_valid l = true /\ parse_hex (size_field l) = None /\ e = EInvalidChunkSize) ->
  decode_size st (l ++ CRLF ++ rest) = CErr e.
Proof.
  intros Hl H. unfold decode_size. rewrite (is_line_find _ rest Hl). cbv zeta.
  rewrite firstn_app_le by lia. rewrite firstn_all.
  destruct H as [[U ->]|[U [PH ->]]]; rewrite U; cbn [negb]; [reflexivity|].
  rewrite parse_chunk_size_field, PH. reflexivity.
Qed.

(* a complete data chunk: the loop passes over size line and data and stands at the terminator *)
Lemma chunk_loop_data l n data tail b0 off f :
  size_line l n -> n <> 0%N -> length data = N.to_nat n ->
  length (l ++ CRLF ++ data ++ tail) + 2 < f ->
  exists f', length tail < f' /\
    chunk_loop f (cst b0) (l ++ CRLF ++ data ++ tail) off =
    chunk_loop f' {| c_phase := CTerminator; c_buffer := b0 ++ data; c_trailer := [] |} tail
               (off + (length l + 2) + length data).
Proof.
  intros Hs Hn Hd Hf.
  assert (Hlen : length (l ++ CRLF ++ data ++ tail) = length l + 2 + length data + length tail)
    by (rewrite !app_length; simpl; lia).
  rewrite Hlen in Hf.
  destruct f as [|f]; [lia|]. rewrite chunk_loop_step. unfold chunk_step, cst. cbn [c_phase].
  rewrite (decode_size_line _ l n _ Hs).
  destruct (N.eqb n 0) eqn:Z; [apply N.eqb_eq in Z; congruence|].
  rewrite skipn_line.
  destruct f as [|f]; [lia|].
  rewrite chunk_loop_step. unfold chunk_step, set_cphase. cbn [c_phase c_buffer c_trailer].
  unfold decode_data. cbv zeta. cbn [c_buffer c_trailer].
  assert (E1 : N.leb n (N.of_nat (length (data ++ tail))) = true)
    by (apply N.leb_le; rewrite app_length; lia).
  rewrite E1.
  replace (n - N.of_nat (N.to_nat n))%N with 0%N by lia. cbn [N.eqb].
  rewrite <- Hd. rewrite firstn_app_le by lia. rewrite firstn_all.
  rewrite skipn_app_le by lia. rewrite skipn_all. cbn [app].
  exists f. split; [lia|reflexivity].
Qed.

Theorem chunked_defect_rejected s e :
  chunked_defect s e ->
  forall f b0 off, length s + 3 < f -> exists st, chunk_loop f (cst b0) s off = (st, Reject e).
Proof.
  induction 1 as [l rest Hl U|l rest Hl U PH|l n data a Hs Hn Hd Ha|l n data a b rest Hs Hn Hd Hab
                  |l block e Hs BD|l n data rest e Hs Hn Hd Hc IH]; intros f b0 off Hf.
  - destruct f as [|f]; [lia|]. rewrite chunk_loop_step. unfold chunk_step, cst. cbn [c_phase].
    rewrite (decode_size_line_reject _ l rest EChunkSizeLineNotValidText Hl) by (left; auto). eauto.
  - destruct f as [|f]; [lia|]. rewrite chunk_loop_step. unfold chunk_step, cst. cbn [c_phase].
    rewrite (decode_size_line_reject _ l rest EInvalidChunkSize Hl) by (right; auto). eauto.
  - destruct (chunk_loop_data l n data [a] b0 off f Hs Hn Hd) as [f' [Hf' ->]]; [lia|].
    destruct f' as [|f']; [simpl in Hf'; lia|]. rewrite chunk_loop_step. unfold chunk_step. cbn [c_phase].
    unfold decode_terminator.
    destruct (N.eqb a CR) eqn:E; [apply N.eqb_eq in E; contradiction|]. eauto.
  - destruct (chunk_loop_data l n data (a :: b :: rest) b0 off f Hs Hn Hd) as [f' [Hf' ->]]; [lia|].
    destruct f' as [|f']; [simpl in Hf'; lia|]. rewrite chunk_loop_step. unfold chunk_step. cbn [c_phase].
    unfold decode_terminator.
    destruct (N.eqb a CR && N.eqb b LF)%bool eqn:E; [|eauto].
    apply andb_prop in E as [E1 E2]. apply N.eqb_eq in E1, E2. exfalso. apply Hab. split; assumption.
  - assert (Hlen : length (l ++ CRLF ++ block) = length l + 2 + length block)
      by (rewrite !app_length; simpl; lia).
    rewrite Hlen in Hf.
    destruct f as [|f]; [lia|]. rewrite chunk_loop_step. unfold chunk_step, cst. cbn [c_phase].
    rewrite (decode_size_line _ l 0 block Hs). cbn [N.eqb]. rewrite skipn_line.
    destruct f as [|f]; [lia|].
    rewrite chunk_loop_step. unfold chunk_step, set_cphase. cbn [c_phase c_buffer c_trailer].
    unfold decode_trailer. cbn [c_trailer c_buffer].
    apply (hdr_parse_reject_iff None [] block e) in BD. rewrite BD. eauto.
  - assert (Hlen : length (l ++ CRLF ++ data ++ CRLF ++ rest) = length l + 2 + length data + 2 + length rest)
      by (rewrite !app_length; simpl; lia).
    rewrite Hlen in Hf.
    destruct (chunk_loop_data l n data (CRLF ++ rest) b0 off f Hs Hn Hd) as [f' [Hf' ->]].
    { rewrite !app_length in *. simpl in *. lia. }
    destruct f' as [|f']; [simpl in Hf'; lia|]. rewrite chunk_loop_step. unfold chunk_step. cbn [c_phase].
    unfold decode_terminator. cbn [app CRLF]. rewrite !N.eqb_refl. cbn [andb skipn].
    unfold set_cphase. cbn [c_buffer c_trailer].
    assert (Hwf : cwf (cst (b0 ++ data))) by exact I.
    rewrite (chunk_loop_fuel f' (length rest + 4) (cst (b0 ++ data)) rest _ Hwf).
    + apply IH. lia.
    + simpl in Hf'. lia.
    + lia.
Qed.

(* ------------------------------------------------------------------ rejection => defect *)
Lemma decode_size_err st buf e :
  decode_size st buf = CErr e ->
  exists l rest, buf = l ++ CRLF ++ rest /\ is_line l /\
    ((utf8_valid l = false /\ e = EChunkSizeLineNotValidText) \/
     (utf8_valid l = true /\ parse_hex (size_field l) = None /\ e = EInvalidChunkSize)).
Proof.
  unfold decode_size. destruct (find_crlf buf) as [e0|] eqn:E; [|discriminate]. cbv zeta.
  intros H. exists (firstn e0 buf), (skipn (e0 + 2) buf).
  split; [apply line_split; exact E|]. split; [apply is_line_firstn; exact E|].
  destruct (utf8_valid (firstn e0 buf)) eqn:U; cbn [negb] in H.
  - destruct (parse_chunk_size (firstn e0 buf)) as [n|] eqn:PC; [discriminate|].
    inversion H; subst. right. split; [reflexivity|]. split; [|reflexivity].
    rewrite <- parse_chunk_size_field. exact PC.
  - inversion H; subst. left. split; reflexivity.
Qed.

Theorem chunk_loop_reject_inv f : forall st s off st1 e,
  c_phase st = CSize -> c_trailer st = [] -> length s < f ->
  chunk_loop f st s off = (st1, Reject e) -> chunked_defect s e.
Proof.
  induction f as [|f IH]; intros st s off st1 e Hph Ht Hf H; [lia|].
  rewrite chunk_loop_step in H. unfold chunk_step in H. rewrite Hph in H.
  destruct (decode_size st s) as [st' c1|st' c1|st' c1|e1] eqn:DS; try discriminate.
  2:{ inversion H; subst e1. destruct (decode_size_err _ _ _ DS) as [l [rest [-> [Hl Hc]]]].
      destruct Hc as [[U ->]|[U [PH ->]]]; [apply KD_size_text|apply KD_size]; assumption. }
  destruct (decode_size_inv _ _ _ _ DS) as [line [n [rest [Hs [Hc1 [Hsl Hst']]]]]].
  subst s c1. rewrite skipn_line in H.
  assert (Hlen : length (line ++ CRLF ++ rest) = length line + 2 + length rest)
    by (rewrite !app_length; simpl; lia).
  rewrite Hlen in Hf.
  destruct (N.eqb n 0) eqn:Z.
  - apply N.eqb_eq in Z. subst n.
    destruct f as [|f1]; [lia|]. rewrite chunk_loop_step in H. unfold chunk_step in H.
    subst st'. unfold set_cphase in H. cbn [c_phase c_buffer c_trailer] in H.
    unfold decode_trailer in H. cbn [c_buffer c_trailer] in H. rewrite Ht in H.
    destruct (hdr_parse None [] rest) as [hs c2|hs c2|e2] eqn:HP; try discriminate.
    inversion H; subst. apply KD_trailer; [exact Hsl|].
    apply (hdr_parse_reject_iff None [] rest e2). exact HP.
  - apply N.eqb_neq in Z.
    destruct f as [|f1]; [lia|]. rewrite chunk_loop_step in H. unfold chunk_step in H.
    subst st'. unfold set_cphase in H. cbn [c_phase c_buffer c_trailer] in H.
    unfold decode_data in H. cbv zeta in H. cbn [c_buffer c_trailer] in H.
    destruct (N.leb n (N.of_nat (length rest))) eqn:E1.
    2:{ apply N.leb_gt in E1.
        destruct (N.eqb (n - N.of_nat (length rest)) 0) eqn:Z2; [apply N.eqb_eq in Z2; lia|discriminate]. }
    apply N.leb_le in E1.
    replace (n - N.of_nat (N.to_nat n))%N with 0%N in H by lia. cbn [N.eqb] in H.
    destruct f1 as [|f2]; [lia|]. rewrite chunk_loop_step in H. unfold chunk_step in H.
    cbn [c_phase] in H. unfold decode_terminator in H.
    set (k := N.to_nat n) in *.
    assert (Hk : k <= length rest) by lia.
    assert (Hdl : length (firstn k rest) = N.to_nat n) by (rewrite firstn_length; lia).
    pose proof (firstn_skipn k rest) as Hsplit.
    destruct (skipn k rest) as [|x [|y tl]] eqn:Sk; try discriminate.
    + destruct (N.eqb x CR) eqn:X; [discriminate|]. inversion H; subst e.
      rewrite <- Hsplit. apply (KD_terminator1 line n); try assumption.
      intros ->. discriminate.
    + destruct (N.eqb x CR && N.eqb y LF)%bool eqn:XY.
      2:{ inversion H; subst e. rewrite <- Hsplit. apply (KD_terminator2 line n); try assumption.
          intros [-> ->]. discriminate. }
      apply andb_prop in XY as [X Y]. apply N.eqb_eq in X, Y. subst x y.
      unfold set_cphase in H. cbn [c_buffer c_trailer skipn] in H.
      assert (Htl : length rest = k + 2 + length tl).
      { rewrite <- Hsplit. rewrite !app_length, firstn_length. simpl. lia. }
      rewrite <- Hsplit. change (CR :: LF :: tl) with (CRLF ++ tl).
      apply (KD_later line n); try assumption.
      set (stn := {| c_phase := CSize; c_buffer := c_buffer st ++ firstn k rest;
                     c_trailer := c_trailer st |}) in *.
      rewrite (chunk_loop_fuel f2 (S (S f2)) stn tl _ I) in H by lia.
      eapply (IH stn tl _ st1 e); [reflexivity|exact Ht|lia|exact H].
Qed.

Theorem chunk_reject_iff s e :
  (exists st, chunk_decode chunk_init s = (st, Reject e)) <-> chunked_defect s e.
Proof.
  split.
  - intros [st H]. unfold chunk_decode in H.
    eapply (chunk_loop_reject_inv _ chunk_init s 0 st e); [reflexivity|reflexivity| |exact H]. lia.
  - intros H. unfold chunk_decode.
    destruct (chunked_defect_rejected s e H (length s + 4) [] 0) as [st Hst]; [lia|].
    exists st. rewrite <- Hst. apply chunk_loop_fuel; [exact I|lia|lia].
Qed.
