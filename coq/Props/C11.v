(* C11 -- whatever the parsers accept can be re-serialised to an equivalent message.
   Responses: proved for every accepted response, all three framings
   (C11_every_accepted_response_reserialises; for a chunked response the regenerated message is
   the Content-Length-framed equivalent carrying the de-chunked body).
   Requests: proved for every accepted request (any method the parser stores), relative to the
   per-target premise [uri_ok] about rhymuri (known findings K2, K3) and to the re-serialised
   lines fitting the limits (the property's own quantifier). *)
From Coq Require Import String.
From Http Require Import Proofs.FoldRoundTrip.
From Http Require Import Model.Bytes Model.Num Model.Headers Model.Request Model.Response
     Spec.HeaderGrammar Spec.RequestGrammar Spec.ResponseGrammar Proofs.RoundTrip Proofs.Reserialise Proofs.DechunkWf.

Theorem C11_request_reserialise :
  forall (uri : Type) (uri_parse : bytes -> option uri) (uri_show : uri -> bytes)
         cfg x (st : req_state uri) c u,
    req_parse uri uri_parse cfg req_init x = (st, Complete c) -> r_target st = Some u ->
    uri_ok uri uri_parse uri_show u ->
    refits uri uri_show cfg (value_of uri st u) ->
    exists g st2,
      generate_request uri uri_show cfg (value_of uri st u) = Some g /\
      req_parse uri uri_parse cfg req_init g = (st2, Complete (length g)) /\
      value_of uri st2 u = value_of uri st u /\ r_target st2 = Some u.
Proof. exact request_reserialise. Qed.
Print Assumptions C11_request_reserialise.

(* every accepted request yields well-formed header values: legal names, legal values, trimmed *)
Theorem C11_parsed_headers_wellformed :
  forall lim fs, Forall (field_ok lim) fs -> Forall hdr_wf0 (map field_header fs).
Proof. exact parsed_fields_wf. Qed.
Print Assumptions C11_parsed_headers_wellformed.

(* responses: the parsed value of a Content-Length-framed or body-less response is well-formed
   (so it round-trips, next theorem); for a chunked response it is the rewritten header list *)
Theorem C11_accepted_response_value :
  forall x st c,
    resp_parse resp_init x = (st, Complete c) ->
    header_value (s_headers st) CONTENT_LENGTH <> None \/
    has_header_token (s_headers st) TRANSFER_ENCODING CHUNKED = false ->
    (exists hs0 tf pl, s_headers st = dechunk_headers hs0 tf pl /\ header_value hs0 CONTENT_LENGTH = None
                       /\ has_header_token hs0 TRANSFER_ENCODING CHUNKED = true) \/
    WfResponse (resp_value_of st).
Proof. exact accepted_response_is_wf. Qed.
Print Assumptions C11_accepted_response_value.

Theorem C11_response_reserialise :
  forall x st c,
    resp_parse resp_init x = (st, Complete c) ->
    WfResponse (resp_value_of st) ->
    exists st2,
      resp_parse resp_init (generate_response (resp_value_of st)) =
        (st2, Complete (length (generate_response (resp_value_of st)))) /\
      resp_value_of st2 = resp_value_of st.
Proof. exact response_reserialise. Qed.
Print Assumptions C11_response_reserialise.

(* every accepted response -- Content-Length, chunked or body-less -- is a well-formed value
   (legal names; printable, trimmed values; a single Content-Length equal to the body length
   when there is a body) and therefore re-serialises to a message that parses to the same value,
   the whole output consumed.  The size premise only excludes bodies longer than usize::MAX. *)
Theorem C11_accepted_response_wellformed :
  forall x st c,
    resp_parse resp_init x = (st, Complete c) ->
    (N.of_nat (length (s_body st)) <= USIZE_MAX)%N ->
    WfResponse (resp_value_of st).
Proof. exact accepted_response_value_wf. Qed.
Print Assumptions C11_accepted_response_wellformed.

Theorem C11_every_accepted_response_reserialises :
  forall x st c,
    resp_parse resp_init x = (st, Complete c) ->
    (N.of_nat (length (s_body st)) <= USIZE_MAX)%N ->
    exists st2,
      resp_parse resp_init (generate_response (resp_value_of st)) =
        (st2, Complete (length (generate_response (resp_value_of st)))) /\
      resp_value_of st2 = resp_value_of st.
Proof. exact every_accepted_response_reserialises. Qed.
Print Assumptions C11_every_accepted_response_reserialises.

(* the rewritten header list of a chunked response keeps well-formedness *)
Theorem C11_dechunked_headers_wellformed :
  forall hs tr body, Forall hdr_wf0 hs -> Forall hdr_wf0 tr -> Forall hdr_wf0 (dechunk_headers hs tr body).
Proof. exact dechunk_headers_wf. Qed.
Print Assumptions C11_dechunked_headers_wellformed.

(* non-vacuity: a chunked response re-serialises to the Content-Length-framed equivalent *)
Example C11_chunked_example :
  let x := str "HTTP/1.1 200 OK"%string ++ CRLF ++ str "Transfer-Encoding: gzip, chunked"%string ++ CRLF
           ++ str "Trailer: X"%string ++ CRLF ++ CRLF ++ str "3"%string ++ CRLF ++ str "abc"%string ++ CRLF
           ++ str "0"%string ++ CRLF ++ str "X: y"%string ++ CRLF ++ CRLF in
  match resp_parse resp_init x with
  | (st, Complete _) =>
      let g := generate_response (resp_value_of st) in
      match resp_parse resp_init g with
      | (st2, Complete c2) => c2 = length g /\ resp_value_of st2 = resp_value_of st
                              /\ s_body st2 = str "abc"%string
                              /\ s_headers st2 = [(str "Transfer-Encoding"%string, str "gzip"%string);
                                                  (str "X"%string, str "y"%string);
                                                  (str "Content-Length"%string, str "3"%string)]
      | _ => False
      end
  | _ => False
  end.
Proof. vm_compute. repeat split. Qed.

(* ---- known finding K6: the premise "every re-serialised header line fits the line limit" of
   C11_request_reserialise cannot be dropped.  The request below is accepted (its header line is exactly
   1000 bytes with its CRLF), yet Request::generate -- rhymessage's fold_header included, Model/Headers.v
   hdr_generate_full -- fails on the parsed value: written back as `X: vvv...` the line is one byte too long
   and has no place to split.  The same input replayed on the crate is the finding's witness. ---- *)
Definition k6_witness : bytes :=
  str "GET / HTTP/1.1"%string ++ CRLF ++ str "X:"%string ++ repeat 118%N 996 ++ CRLF ++ CRLF.

Theorem C11_unrestricted_request_reserialise_refuted :
  exists st c,
    req_parse bytes (fun b => Some b) default_cfg req_init k6_witness = (st, Complete c)
    /\ c = length k6_witness
    /\ req_generate_full default_cfg (r_method st) [47%N] (r_headers st) (r_body st) = GCannotFold.
Proof.
  eexists. eexists. split; [vm_compute; reflexivity|]. split; vm_compute; reflexivity.
Qed.
Print Assumptions C11_unrestricted_request_reserialise_refuted.

(* what the folding generator does when the lines fit: exactly the unfolded generator's output *)
Example C11_generate_full_agrees_when_lines_fit :
  req_generate_full default_cfg (str "GET"%string) [47%N] [(str "Host"%string, str "a b"%string)] []
  = match req_generate default_cfg (str "GET"%string) [47%N] [(str "Host"%string, str "a b"%string)] [] with
    | Some b => GOk b | None => GCannotFold end.
Proof. vm_compute. reflexivity. Qed.

(* a fold at a tab: the piece after the split starts with the tab, which unfolding reads as a space *)
Example C11_fold_at_tab :
  hdr_generate_full (Some 12%N) [(str "A"%string, str "bcdef"%string ++ [HT] ++ str "ghij"%string)]
  = GOk (str "A: bcdef"%string ++ CRLF ++ [HT] ++ str "ghij"%string ++ CRLF ++ CRLF).
Proof. vm_compute. reflexivity. Qed.

(* ---- what does survive folding: headers whose values are graphic characters separated by single
   spaces ([tight]) are re-serialised by the folding generator -- whatever their length, however many
   continuation lines it takes -- into a header block of the grammar that parses back to exactly the
   same header list.  Together with the refutation above this pins known finding K6 down to values
   that cannot be split and to tabs / runs of white space at a split point. ---- *)
Theorem C11_folded_headers_parse_back :
  forall l hs b rest,
    (2 <= l)%N -> Forall tight_header hs -> hdr_generate_full (Some l) hs = GOk b ->
    hdr_parse (Some l) [] (b ++ rest) = HComplete hs (length b).
Proof. exact folded_block_parses_back. Qed.
Print Assumptions C11_folded_headers_parse_back.

Theorem C11_folded_block_is_grammatical :
  forall l hs b,
    (2 <= l)%N -> Forall tight_header hs -> hdr_generate_full (Some l) hs = GOk b ->
    exists fs, b = header_block fs /\ block_ok (Some l) fs /\ map field_header fs = hs.
Proof. exact folded_block_is_grammatical. Qed.
Print Assumptions C11_folded_block_is_grammatical.

(* non-vacuity: a value of three words under a limit that forces two folds *)
Example C11_folding_example :
  let h := (str "X"%string, str "aaaa bbbb cccc"%string) in
  tight_header h
  /\ hdr_generate_full (Some 11%N) [h]
     = GOk (str "X: aaaa"%string ++ CRLF ++ str " bbbb"%string ++ CRLF ++ str " cccc"%string ++ CRLF ++ CRLF)
  /\ hdr_parse (Some 11%N) [] (str "X: aaaa"%string ++ CRLF ++ str " bbbb"%string ++ CRLF ++ str " cccc"%string ++ CRLF ++ CRLF)
     = HComplete [h] 25.
Proof.
  split; [|split; vm_compute; reflexivity].
  split; [split; reflexivity|].
  vm_compute. repeat first [apply tight_one; reflexivity | apply tight_sp; [reflexivity|] | apply tight_cons; [reflexivity|]].
Qed.
