(* InflateStored.v -- decoding inverts the stored-block encoders of Spec/DeflateStored.v, for every
   body, every partition into blocks and every nesting of the three containers (C13). *)
From Coq Require Import List NArith ZArith Arith Bool Lia ZifyBool ZifyN.
From Http Require Import Model.Bytes Model.Headers Model.Coding Model.Inflate Spec.DeflateStored
     Proofs.Rewrite Proofs.CodingGlue Proofs.InflateLocal Proofs.InflateTop Proofs.InflateC15.
Import ListNotations.
Ltac Zify.zify_post_hook ::= Z.div_mod_to_equations.

Lemma take_bytes_all c : forall out rest,
    take_bytes (length c) out ([], c ++ rest) = Ok (rev c ++ out) ([], rest).
Proof.
  induction c as [|x c IH]; intros out rest.
  - reflexivity.
  - cbn [length app take_bytes getbyte]. rewrite IH. cbn [rev]. rewrite <- app_assoc. reflexivity.
Qed.

Lemma getbits3_0 tail : getbits 3 ([], 0%N :: tail) = Ok 0%N ([false; false; false; false; false], tail).
Proof. reflexivity. Qed.
Lemma getbits3_1 tail : getbits 3 ([], 1%N :: tail) = Ok 1%N ([false; false; false; false; false], tail).
Proof. reflexivity. Qed.

Lemma stored_block_decodes cur chunk out rest :
  (N.of_nat (length chunk) <= 65535)%N ->
  let len := N.of_nat (length chunk) in
  stored_block out (cur, (len mod 256)%N :: (len / 256)%N :: ((65535 - len) mod 256)%N
                         :: ((65535 - len) / 256)%N :: chunk ++ rest)
  = Ok (rev chunk ++ out) ([], rest).
Proof.
  intros L len. unfold stored_block, align. cbn [snd getbyte].
  replace (len mod 256 + 256 * (len / 256) + ((65535 - len) mod 256 + 256 * ((65535 - len) / 256)) =? 65535)%N
    with true by (symmetry; apply N.eqb_eq; lia).
  replace (N.to_nat (len mod 256 + 256 * (len / 256))) with (length chunk) by lia.
  apply take_bytes_all.
Qed.

Lemma blocks_stored_step f final chunk out rest :
  (N.of_nat (length chunk) <= 65535)%N ->
  blocks (S f) out ([], stored_blk final chunk ++ rest)
  = if final then Ok (rev chunk ++ out) ([], rest) else blocks f (rev chunk ++ out) ([], rest).
Proof.
  intros L. unfold stored_blk. cbn [app blocks]. destruct final.
  - rewrite getbits3_1. cbn [N.odd N.div2]. rewrite (stored_block_decodes _ _ _ _ L). reflexivity.
  - rewrite getbits3_0. cbn [N.odd N.div2]. rewrite (stored_block_decodes _ _ _ _ L). reflexivity.
Qed.

Lemma chunks_ok_cons c cs : chunks_ok (c :: cs) -> (N.of_nat (length c) <= 65535)%N /\ chunks_ok cs.
Proof. intros H. inversion H; subst. split; assumption. Qed.

Lemma blocks_store_chunks chunks : chunks_ok chunks -> forall f out rest,
    length chunks < f ->
    blocks f out ([], store_chunks chunks ++ rest) = Ok (rev (concat chunks) ++ out) ([], rest).
Proof.
  induction chunks as [|c cs IH]; intros Hok f out rest Hf.
  - destruct f as [|f]; [lia|]. cbn [store_chunks].
    rewrite blocks_stored_step by (simpl; lia). reflexivity.
  - destruct (chunks_ok_cons _ _ Hok) as [Hc Hcs].
    destruct f as [|f]; [simpl in Hf; lia|]. destruct cs as [|c2 cs'].
    + cbn [store_chunks]. rewrite blocks_stored_step by exact Hc.
      cbn [concat]. rewrite app_nil_r. reflexivity.
    + change (store_chunks (c :: c2 :: cs')) with (stored_blk false c ++ store_chunks (c2 :: cs')).
      rewrite <- app_assoc. rewrite blocks_stored_step by exact Hc.
      rewrite (IH Hcs) by (simpl in *; lia).
      change (concat (c :: c2 :: cs')) with (c ++ concat (c2 :: cs')).
      rewrite rev_app_distr, <- app_assoc. reflexivity.
Qed.

Lemma stored_blk_length final c : length (stored_blk final c) = 5 + length c.
Proof. reflexivity. Qed.

Lemma store_chunks_length chunks : length chunks * 5 <= length (store_chunks chunks) /\ 5 <= length (store_chunks chunks).
Proof.
  induction chunks as [|c cs IH].
  - simpl. lia.
  - destruct cs as [|c2 cs'].
    + cbn [store_chunks]. rewrite stored_blk_length. simpl. lia.
    + change (store_chunks (c :: c2 :: cs')) with (stored_blk false c ++ store_chunks (c2 :: cs')).
      rewrite app_length, stored_blk_length. destruct IH as [I1 I2].
      change (length (c :: c2 :: cs')) with (S (length (c2 :: cs'))). lia.
Qed.

Lemma inflate_store_chunks chunks f rest :
  chunks_ok chunks -> length chunks < f ->
  inflate_fuel f (store_chunks chunks ++ rest) = Ok (concat chunks) ([], rest).
Proof.
  intros Hok Hf. unfold inflate_fuel. rewrite (blocks_store_chunks _ Hok) by exact Hf.
  rewrite app_nil_r, rev_append_rev, app_nil_r, rev_involutive. reflexivity.
Qed.

Lemma fuel_enough chunks pre post :
  length chunks < fuel_for (pre ++ store_chunks chunks ++ post).
Proof.
  unfold fuel_for. rewrite !app_length. destruct (store_chunks_length chunks) as [H1 H2]. lia.
Qed.

(* ---- the three containers ---- *)

Theorem raw_stored_inverts d e : stored_raw d e -> inflate_raw_model e = Some d /\ zlib_header e = false.
Proof.
  intros [chunks [Hok [Ed Ee]]]. subst d e. split.
  - unfold inflate_raw_model.
    rewrite <- (app_nil_r (store_chunks chunks)) at 2.
    rewrite inflate_store_chunks; [reflexivity | exact Hok |].
    pose proof (fuel_enough chunks [] []) as H. simpl in H. rewrite app_nil_r in H. exact H.
  - destruct chunks as [|c [|c2 cs]]; reflexivity.
Qed.

Theorem zlib_stored_inverts d e : stored_zlib d e -> inflate_zlib_model e = Some d /\ zlib_header e = true.
Proof.
  intros [chunks [cmf [flg [a4 [Hok [Ed [Hh [L4 [Ha Ee]]]]]]]]]. subst e. split.
  - unfold inflate_zlib_model, inflate_zlib_fuel. rewrite Hh.
    rewrite inflate_store_chunks; [| exact Hok |].
    + rewrite <- Ed. unfold has_prefix_len. rewrite L4. cbn [Nat.leb].
      rewrite firstn_all2 by lia. rewrite Ha, N.eqb_refl. reflexivity.
    + pose proof (fuel_enough chunks [cmf; flg] a4) as H. exact H.
  - rewrite zlib_header_ok_eq. exact Hh.
Qed.

Theorem gzip_stored_inverts d e : stored_gzip d e -> gunzip_model e = Some d.
Proof.
  intros [chunks [h [foot [Hok [Ed [Hh [L8 [C1 [C2 Ee]]]]]]]]]. subst e.
  unfold gunzip_model, gunzip_fuel. rewrite Hh.
  rewrite inflate_store_chunks; [| exact Hok | apply fuel_enough].
  rewrite <- Ed. unfold has_prefix_len. rewrite L8. cbn [Nat.leb].
  assert (S4 : firstn 4 (skipn 4 foot) = skipn 4 foot).
  { apply firstn_all2. rewrite skipn_length. lia. }
  rewrite S4, C1, C2, !N.eqb_refl. reflexivity.
Qed.

(* ---- every stack of them (C13) ---- *)

Definition stored_enc (f : format) (d e : bytes) : Prop :=
  match f with Gz => stored_gzip d e | Zl => stored_zlib d e | Raw => stored_raw d e end.

Theorem decode_inverts_stored_stack hs fs d e :
  Enc stored_enc fs d e ->
  header_tokens hs CONTENT_ENCODING = map coding_token fs ->
  exists hs', decode_body_m hs e = Some (hs', d).
Proof.
  apply (decode_inverts_stack gunzip_model inflate_raw_model inflate_zlib_model stored_enc).
  - intros d0 e0 H. exact (gzip_stored_inverts _ _ H).
  - intros d0 e0 H. exact (zlib_stored_inverts _ _ H).
  - intros d0 e0 H. exact (raw_stored_inverts _ _ H).
Qed.

(* the plain ten-byte member header, and one with a file name, are headers the parser accepts *)
Lemma gz_header_plain mt xfl os : (mt = [0;0;0;0]%N) -> gz_header_ok ([31; 139; 8; 0]%N ++ mt ++ [xfl; os]).
Proof. intros ->. intros y. reflexivity. Qed.

Lemma gz_header_named xfl os : gz_header_ok ([31; 139; 8; 8; 0; 0; 0; 0; xfl; os; 97; 46; 116; 120; 116; 0]%N).
Proof. intros y. reflexivity. Qed.
