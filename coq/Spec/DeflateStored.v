(* DeflateStored.v -- the simplest family of conforming encoders, as a specification: DEFLATE
   with stored blocks only ("level 0"), for ANY partition of the data into blocks of at most
   65535 bytes, wrapped as a bare stream, as zlib (any valid two-byte header) or as a gzip
   member (any header the decoder's header parser accepts). *)
From Coq Require Import List NArith Arith.
From Http Require Import Model.Bytes Model.Inflate.
Import ListNotations.

Definition stored_blk (final : bool) (chunk : bytes) : bytes :=
  let len := N.of_nat (length chunk) in
  [if final then 1%N else 0%N; (len mod 256)%N; (len / 256)%N;
   ((65535 - len) mod 256)%N; ((65535 - len) / 256)%N] ++ chunk.

(* the last chunk is written as the final block; no chunk at all = one empty final block *)
Fixpoint store_chunks (chunks : list bytes) : bytes :=
  match chunks with
  | [] => stored_blk true []
  | [c] => stored_blk true c
  | c :: cs => stored_blk false c ++ store_chunks cs
  end.

Definition chunks_ok (chunks : list bytes) : Prop :=
  Forall (fun c => (N.of_nat (length c) <= 65535)%N) chunks.

(* a gzip member header: whatever follows it, the header parser accepts it and stops behind it *)
Definition gz_header_ok (h : bytes) : Prop := forall y, gzip_header (h ++ y) = Ok tt ([], y).

Definition stored_raw (d e : bytes) : Prop :=
  exists chunks, chunks_ok chunks /\ d = concat chunks /\ e = store_chunks chunks.

Definition stored_zlib (d e : bytes) : Prop :=
  exists chunks cmf flg a4,
    chunks_ok chunks /\ d = concat chunks /\ zlib_header_ok cmf flg = true /\
    length a4 = 4 /\ be32 a4 = adler32 d /\
    e = cmf :: flg :: store_chunks chunks ++ a4.

Definition stored_gzip (d e : bytes) : Prop :=
  exists chunks h foot,
    chunks_ok chunks /\ d = concat chunks /\ gz_header_ok h /\
    length foot = 8 /\ le32 (firstn 4 foot) = crc32 d /\
    le32 (skipn 4 foot) = (N.of_nat (length d) mod 4294967296)%N /\
    e = h ++ store_chunks chunks ++ foot.
