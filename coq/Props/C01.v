(* C01 -- Request parsing is independent of how the bytes are delivered.
   Only statements, closed by [exact], and their assumptions. *)
From Coq Require Import String.
From Http Require Import Model.Bytes Model.Request Spec.Delivery
     Proofs.FeedGeneric Proofs.ReqResume Proofs.C01Request.

(* For every URI oracle, every limit configuration, every stream and every way of cutting
   it into a non-empty list of deliveries (empty deliveries allowed): feeding the
   deliveries under the documented protocol ends like the single call on the whole stream:
   - both accept, with the same parser value (method, target, header list, body, ...) and
     the same total number of bytes consumed; or
   - both ask for more input, with the same partial parser value, the same total consumed
     and the same unconsumed bytes; or
   - both reject (categories are not compared). *)
Theorem C01_request_delivery_independent :
  forall (uri : Type) (uri_parse : bytes -> option uri) (cfg : rcfg) (ds : list bytes),
    ds <> [] ->
    feq (req_state uri) (same_request uri)
        (feed _ (req_parse uri uri_parse cfg) req_init [] ds 0)
        (feed _ (req_parse uri uri_parse cfg) req_init [] [concat ds] 0).
Proof. exact request_delivery_independent. Qed.
Print Assumptions C01_request_delivery_independent.

(* what one call answers on a buffer followed by more bytes, in terms of what it answers
   on the buffer alone (the resumption law behind the theorem) *)
Theorem C01_one_call_resumable :
  forall (uri : Type) (uri_parse : bytes -> option uri) (cfg : rcfg)
         (st : req_state uri) (a b : bytes),
    tot_ok uri cfg st ->
    match req_parse uri uri_parse cfg st a with
    | (st1, Complete c) =>
        c <= length a /\ req_parse uri uri_parse cfg st (a ++ b) = (st1, Complete c)
    | (st1, Incomplete c) =>
        c <= length a /\
        oeq uri (req_parse uri uri_parse cfg st (a ++ b))
            (shift uri c (req_parse uri uri_parse cfg st1 (skipn c a ++ b)))
    | (_, Reject e) => exists st' e', req_parse uri uri_parse cfg st (a ++ b) = (st', Reject e')
    end.
Proof. exact req_parse_spec. Qed.
Print Assumptions C01_one_call_resumable.

(* non-vacuity: a concrete stream, three deliveries with the cut between CR and LF and a
   request-line limit equal to the exact line length (the F1 pattern): accepted, 16+9+2 bytes *)
Definition id_oracle (b : bytes) : option bytes := Some b.
Definition ex_cfg : rcfg := {| rl := Some 14%N; hl := Some 9%N; mm := Some 30%N |}.
Definition ex_ds : list bytes :=
  [str "GET / HTTP/1.1"%string ++ [CR]; [LF] ++ str "A: b123"%string ++ [CR]; [LF; CR; LF] ++ str "xyz"%string].
Example C01_example_exact_limits :
  match feed _ (req_parse bytes id_oracle ex_cfg) req_init [] ex_ds 0,
        feed _ (req_parse bytes id_oracle ex_cfg) req_init [] [concat ex_ds] 0 with
  | Done s1 t1 _, Done s2 t2 _ => s1 = s2 /\ t1 = 27 /\ t2 = 27
  | _, _ => False
  end.
Proof. vm_compute. repeat split. Qed.
