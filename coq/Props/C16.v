(* C16 -- text decoding honours Content-Type and charset and never invents characters.
   encoding_rs is a parameter: [for_label] (label bytes -> encoding) and [enc_decode]
   (decode_without_bom_handling_and_without_replacement).  The two encodings the property
   singles out are modelled concretely ([utf8_decode], [w1252_decode]) and compared with
   encoding_rs byte for byte by the correspondence run. *)
From Coq Require Import String.
From Http Require Import Model.Bytes Model.Utf8 Model.Headers Model.Coding Proofs.TextDecode Proofs.LabelNorm.

Theorem C16_text_only_for_text_types :
  forall (enc : Type) (for_label : bytes -> option enc) (enc_decode : enc -> bytes -> option (list N))
         (hs : list header) (body : bytes) (t : list N),
    decode_text enc for_label enc_decode hs body = Some t ->
    exists ct ty sub cs e,
      header_value hs CONTENT_TYPE = Some ct /\
      split_at SLASH (type_subtype ct) = Some (ty, sub) /\ eq_ignore_case ty TEXT = true /\
      cs = match find_charset (split_on SEMI (parameters ct)) with
           | Some c => c | None => ISO_8859_1 end /\
      for_label (utf8_encode cs) = Some e /\ enc_decode e body = Some t.
Proof. exact decode_text_some. Qed.
Print Assumptions C16_text_only_for_text_types.

Theorem C16_nothing_without_content_type :
  forall enc for_label enc_decode (hs : list header) (body : bytes),
    header_value hs CONTENT_TYPE = None -> decode_text enc for_label enc_decode hs body = None.
Proof. exact decode_text_none_without_type. Qed.
Print Assumptions C16_nothing_without_content_type.

Theorem C16_nothing_for_non_text :
  forall enc for_label enc_decode (hs : list header) (body ct : bytes),
    header_value hs CONTENT_TYPE = Some ct -> content_type_charset ct = None ->
    decode_text enc for_label enc_decode hs body = None.
Proof. exact decode_text_none_not_text. Qed.
Print Assumptions C16_nothing_for_non_text.

Theorem C16_nothing_for_unknown_charset :
  forall enc for_label enc_decode (hs : list header) (body ct cs : bytes),
    header_value hs CONTENT_TYPE = Some ct -> content_type_charset ct = Some cs ->
    for_label (utf8_encode cs) = None -> decode_text enc for_label enc_decode hs body = None.
Proof. exact decode_text_none_unknown_charset. Qed.
Print Assumptions C16_nothing_for_unknown_charset.

Theorem C16_utf8_exact :
  forall body : bytes,
    (utf8_valid body = true <-> exists t, utf8_decode body = Some t) /\
    (forall t, utf8_decode body = Some t -> utf8_encode t = body).
Proof. exact utf8_text_exact. Qed.
Print Assumptions C16_utf8_exact.

Theorem C16_iso_8859_1_total :
  forall body : bytes,
    length (w1252_decode body) = length body /\
    forall i b, nth_error body i = Some b -> (b < 128)%N -> nth_error (w1252_decode body) i = Some b.
Proof. exact w1252_total. Qed.
Print Assumptions C16_iso_8859_1_total.

(* type, parameter name: any letter case; first charset wins; odd spacing; defaults *)
Example C16_examples :
  content_type_charset (str "TeXt/html ;  ChArSeT=UTF-8; charset=latin1"%string) = Some (str "UTF-8"%string)
  /\ content_type_charset (str "text/plain"%string) = Some ISO_8859_1
  /\ content_type_charset (str "text"%string) = None
  /\ content_type_charset (str "application/json; charset=utf-8"%string) = None
  /\ content_type_charset (str "text/plain; charset"%string) = Some ISO_8859_1
  /\ utf8_decode [239; 187; 191; 97]%N = Some [65279; 97]%N
  /\ utf8_decode [192; 128]%N = None /\ utf8_decode [237; 160; 128]%N = None
  /\ w1252_decode [128; 65; 233]%N = [8364; 65; 233]%N.
Proof. vm_compute. repeat split. Qed.

(* ---- the charset label: case and surrounding whitespace do not matter, whatever the label table is
   (for_label = normalise, then look up: Model/Coding.v; tied to encoding_rs by asking the real table with
   the normalised label on every text case of the run) ---- *)
Theorem C16_label_matched_case_insensitively :
  forall l l', lower l = lower l' -> label_norm l = label_norm l'.
Proof. exact label_norm_ci. Qed.
Print Assumptions C16_label_matched_case_insensitively.

Theorem C16_label_normalisation_idempotent :
  forall l, label_norm (label_norm l) = label_norm l.
Proof. exact label_norm_idem. Qed.
Print Assumptions C16_label_normalisation_idempotent.

Example C16_label_examples :
  label_norm (str " UTF-8"%string ++ [9%N; 13%N]) = str "utf-8"%string
  /\ label_norm (str "Latin1"%string) = str "latin1"%string
  /\ label_norm (str "utf 8"%string) = str "utf 8"%string.
Proof. vm_compute. repeat split. Qed.

(* text decoding looks at Content-Type and at nothing else in the header list: two lists that give the same
   Content-Type value give the same text (a Content-Length, a Content-Encoding, an entity tag beside it are
   none of its business) *)
Theorem C16_only_content_type_matters :
  forall enc for_label enc_decode (hs hs' : list header) (body : bytes),
    header_value hs CONTENT_TYPE = header_value hs' CONTENT_TYPE ->
    decode_text enc for_label enc_decode hs body = decode_text enc for_label enc_decode hs' body.
Proof. intros enc fl ed hs hs' body H. unfold decode_text. rewrite H. reflexivity. Qed.
Print Assumptions C16_only_content_type_matters.
