#!/usr/bin/env python3
"""Regenerate MANIFEST.json: a property is claimed iff coq/Props/<id>.v exists."""
import json, os
ROOT = os.path.dirname(os.path.dirname(os.path.abspath(__file__)))
props = [json.loads(l) for l in open(os.path.join(ROOT, "properties.jsonl"))]

COMMON_NOTE = ("Trusted: Coq 8.16.1 kernel (coqchk re-check in the thorough tier), no axioms (every Print Assumptions is "
               "'Closed under the global context'); the hand-written Gallina model of the crate and of rhymessage's header parser; "
               "the correspondence run (Rust harness, extracted OCaml driver with ExtrOcamlBasic only) which ties the model to the "
               "code built from /repo's working tree by sampling, not by proof; 64-bit usize; error categories instead of payloads. ")

T = {
 "C01": ("Theorem C01_request_delivery_independent: for every URI oracle, limit configuration, stream and non-empty list of deliveries, "
         "feeding the deliveries under the documented protocol ends like the one call on the whole stream (same parser value and total when "
         "accepted or when more input is needed, both rejected otherwise); proved from the one-call resumption law (req_parse_spec), itself by "
         "induction over the header parser's loop, with the F1/F2/F9 behaviour included. Unbounded in stream length, number of deliveries and limits. "
         "The correspondence run compares every call's (status, consumed) and the public fields for thousands of schedules incl. all 2^(n-1) cuts of "
         "short streams and exact-limit CR|LF cuts, and checks whole-vs-split directly on the implementation.",
         "rhymuri is an arbitrary function parameter of the theorem (holds for every oracle)."),
 "C02": ("Theorem C02_response_delivery_independent: for every stream and non-empty list of deliveries, feeding the deliveries under the documented protocol ends like the one call on the whole stream, with [same_response] = same code, reason, final headers, body and boundary (consumed minus trailing data); covers fixed, chunked (all four decoder sub-states, extensions, folded trailers) and body-less framing; proved from resp_parse_spec / chunk_decode_app (chunk loop induction). Theorem C02_trailing_data_exact: under any delivery schedule the trailing data held at completion is exactly the delivered bytes from the boundary to the end of the completing delivery. Correspondence: per-call trace, fields, trailing data, all cuts of short chunked streams, header lines around 1000 bytes cut at CR|LF.",
         ""),
 "C03": ("Theorems C03_accept_sound / C03_accept_complete / C03_grammar_unambiguous / C03_prefix_needs_more / C03_header_block_exact: Complete is reported exactly on the request grammar of Spec/RequestGrammar.v + Spec/HeaderGrammar.v (written without reference to the parser), with method, target, unfolded and trimmed header list and body exactly the grammar's elements and the boundary at their end; proper prefixes get 'more input'. C03_more_input_only_while_unfinished (timeliness). C03_rejection_names_first_defect: a fresh parser rejects with category e if and only if the input has a first offending element of category e (Spec/Rejections.v request_defect: line too long / not text / each request-line shape defect / first defective header line with its category / bad Content-Length / each way of exceeding the maximum), with C03_header_rejection_names_first_defect and C03_request_line_shape for the sub-parsers. Each defect needs at most the request line and header block, so the rejection is timely.",
         "uri_parse is a parameter; the target is 'a valid URI reference' iff rhymuri accepts it. A final CR of a buffer is held back before the header parser sees it (F1/F2), which the rejection spec states explicitly (strip_cr)."),
 "C04": ("Theorems C04_accept_sound / C04_accept_complete / C04_prefix_needs_more: Complete exactly on the response grammar (Spec/ResponseGrammar.v) with the framing order Content-Length, then chunked (IsChunked of C05, stored headers = the C12 rewriting), then none; trailing data = the bytes of the call after the boundary, verbatim; nothing consumed beyond a chunked or body-less message. C04_more_input_only_while_unfinished (timeliness). C04_rejection_names_first_defect: rejection with category e iff the input has a first offending element of category e (response_defect: status line not text, each status-line shape defect incl. code >= 1000, first defective header line, bad Content-Length, and inside a chunked body the first bad size line / terminator / trailer line via chunked_defect); C04_status_line_shape.",
         ""),
 "C05": ("Theorems C05_decodes_exactly (every IsChunked encoding -> exactly payload and trailers, stops at its end), C05_complete_only_if_wellformed (Complete => IsChunked of the consumed bytes, body = concatenation of the declared data ranges), C05_grammar_unambiguous, C05_delivery_independent, C05_decodes_exactly_under_any_delivery, and C05_rejection_names_first_defect (the decoder rejects with category e iff the input is well-formed chunks followed by a first offending element of category e: size line not text / not 1*HEXDIG fitting usize, chunk not followed by CRLF, defective trailer line); induction on the chunk list / the decoder loop. Correspondence through Response::parse: generated encodings, mutations and all strings up to length 4 (quick) / 6 (thorough) over a 10-symbol structural alphabet.",
         "The trailer section is specified by reference to the header-block parser (whose grammar is Spec/HeaderGrammar.v, C03_header_block_exact, and whose rejections are block_defect); chunk extensions: any valid UTF-8 without CRLF."),
 "C06": ("For the crate's own parsing code the property is now a theorem about a CHECKED model (Model/Checked.v): every slice range, str range (char boundaries included), usize "
         "subtraction / addition, Vec reserve / extend of request.rs, response.rs, chunked_body.rs and the str slicing / u16 arithmetic of coding.rs is an explicit partial operation "
         "labelled with its source site, inside the source's own loop over total_consumed. C06_request_parse_never_panics, C06_response_parse_never_panics, C06_chunk_decode_never_panics, "
         "C06_split_at_never_panics, C06_content_type_split_never_panics, C06_zlib_sniff_arithmetic: no operation fails and the checked parsers return exactly the pure model's answer, for every "
         "input, every limit configuration and every parser state reachable under the documented protocol (req_reach / resp_reach: the fresh value and whatever an Incomplete call left behind; "
         "invariants C06_body_never_longer_than_declared, C06_response_invariant_kept); one premise about the machine: stored bytes + presented bytes <= isize::MAX. The labels are compared on every "
         "run with the inventory of panic-capable operations that tools/panic_sites.py regenerates from /repo/src (54 sites: 51 proved, 2 reviewed, 0 unaccounted); a difference widens the crash search "
         "and is reported in the evidence. Still PARTIAL by nature for the rest. Also proved on the model: consumed <= presented for all three parsers (slice ranges), body never longer than the declared length "
         "(no usize underflow), the byte count saturates, str-slicing indices next to an ASCII delimiter of a UTF-8-valid line are char boundaries "
         "(C06_slices_at_char_boundaries, for multi-byte text at any position). Runtime part: every case of the run executes under catch_unwind in a supervised "
         "worker (process aborts are detected), with overflow checks on (dev) and off (release), numeric extremes 0..2^64+1, multi-byte text at every slicing position.",
         "Panic-freedom inside rhymuri, flate2, encoding_rs and rhymessage's generator is only sampled (K4 is a known finding there); stack and allocator behaviour are runtime facts."),
 "C07": ("PARTIAL by nature. Theorems C07_request_reserve_bounded / C07_chunk_reserves_bounded: every Vec::reserve the model performs asks for at most the bytes presented "
         "to that call, for declared lengths 0..2^64-1; C07_*_growth: the body/chunk buffers grow by at most what the call consumed. Runtime part: a counting global "
         "allocator measures the largest single request and the peak during each parse call; bound 4096+8*presented / 16384+24*presented; allocations above 1 GiB are refused so that an abort is observed.",
         "Real allocator traffic (Vec doubling, error payloads, dependency Strings) is measured, not proved."),
 "C08": ("Theorems C08_accepted_request_line_within_limit, C08_accepted_within_max (count computed without wrap-around), C08_declared_length_cannot_bypass (any declared length up to 2^64-1), C08_need_more_only_within_max (under every delivery schedule, consumed + pending <= max whenever more input is requested), C08_none_request_line_limit / C08_none_header_line_limit / C08_none_max_message_size (a call not answered with limit X's rejection gives the same answer and state with X = None, the other two limits unchanged: None disables exactly that limit), C08_request_line_rejection_exact / C08_header_line_rejection_exact / C08_message_size_rejection_exact (a size rejection is issued only when that limit is really exceeded by the line, or by the bytes presented, or by head + declared length); defaults and exact boundary behaviour as Examples; never-rejected-for-size within limits follows from C03_accept_complete whose grammar carries the limits, and C03_rejection_names_first_defect says exactly when each size rejection is issued. Correspondence: limits swept -2..+2 around the measured element lengths, both build profiles.",
         "Known finding K1 (rhymessage does not limit folded continuation lines) is stated as an Example and reported as KNOWN-FINDING; header-line limit theorems are inside C03's grammar (first lines + empty line)."),
 "C09": ("Theorems C09_request_suffix / C09_request_local / C09_response_suffix / C09_request_pipeline / C09_response_pipeline: a Complete answer is "
         "unchanged by any appended bytes, depends only on the consumed bytes, and a concatenation of messages is split by fresh parsers at the "
         "message lengths (responses: by the boundary). Corollaries of the resumption and locality lemmas, induction on the number of messages.", ""),
 "C10": ("Theorems C10_request_roundtrip / C10_response_roundtrip / C10_generated_is_grammatical: for every well-formed value (WfRequest / WfResponse, pinned in the file; methods: any UTF-8 text without SP and CRLF, in particular every graphic-ASCII token, C10_graphic_methods_are_legal) the generated bytes are accepted as one message consuming every byte, the parsed value equals the original, and regenerating gives the same bytes; proved from grammar completeness, parse_dec (show_dec n) = n, trimming lemmas and UTF-8 validity across concatenation. C10_folding_generator_agrees: rhymessage's folding generator (fold_header, modelled in Model/Headers.v hdr_generate_full and compared with the crate on every run) emits exactly those bytes whenever the lines fit; C10_fold_piece_within_limit, C10_fold_fuel_irrelevant. C10_request_roundtrip_with_folding: the round trip WITHOUT the 'lines fit the limit' clause for requests whose header values are graphic characters separated by single spaces -- generate() folds, the parser unfolds, the parsed value is the original, whatever the length of the header lines.",
         "Relative to the per-target premise uri_ok (rhymuri: Display then parse is the identity, displayed text is graphic ASCII), checked for every generated target by the run; K2 is where it fails. Header folding on generate is not modelled (values needing folding are outside the statement)."),
 "C11": ("Theorems C11_every_accepted_response_reserialises + C11_accepted_response_wellformed: every response the parser accepts (Content-Length, chunked or body-less) is a well-formed value -- legal names, printable trimmed values, for chunked input the C12 rewriting with a single Content-Length equal to the de-chunked body (C11_dechunked_headers_wellformed) -- and generating from it gives a message that parses to the same value with the whole output consumed. C11_request_reserialise: the same for every accepted request (any method the parser stores: UTF-8 without SP/CRLF), given a uri_ok target and re-serialised lines within the limits. That last premise cannot be dropped: C11_unrestricted_request_reserialise_refuted exhibits an accepted request (a 1000-byte header line without whitespace) on which the folding generator fails -- known finding K6, reported as KNOWN-FINDING with two witnesses replayed on the crate every run (generate() -> HeaderLineCouldNotBeFolded; a fold at a tab read back as a space). What does survive folding is proved too: C11_folded_headers_parse_back / C11_folded_block_is_grammatical -- headers whose values are graphic characters separated by single spaces are re-serialised by the folding generator, whatever their length and however many continuation lines it takes, into a header block of the grammar that parses back to exactly the same list; K6 is thereby confined to values that cannot be split and to tabs / runs of white space at a split point.",
         "uri_ok is the premise about rhymuri (Display then parse is the identity, displayed text graphic ASCII), checked per case by the run; known findings K2, K3 are where it fails. Bodies longer than usize::MAX are excluded by an explicit premise."),
 "C12": ("Theorems C12_content_length (single value = decoded body length), C12_transfer_encoding (final coding removed, the others kept in order in one header joined by ', ', "
         "no header when none remain), C12_codings_listed (tokenising the rewritten header gives back exactly the remaining codings, in order), C12_no_trailer_header, C12_other_headers (originals then non-framing trailer fields, order and values kept), C12_trailer_framing_fields_ignored, "
         "C12_parser_stores_rewrite; list lemmas over the header-collection model (Proofs/HeaderAlgebra.v).",
         "set_header's in-place algorithm in rhymessage is modelled at specification level (first match keeps its position and name); the run compares the final header list order-sensitively."),
 "C13": ("Theorem C13_every_rfc_encoding_inverted: for every body, every stack of gzip (RFC 1952, any member header the parser accepts), zlib (RFC 1950, any valid header) and bare deflate codings "
         "produced by ANY conforming encoder -- any sequence of stored, fixed-code and dynamic-header blocks, any HLIT/HDIST/HCLEN, any code-length code and run-length coding of the lengths, any pair of "
         "tables the decoder accepts, any literals and matches, any padding -- and every header list whose Content-Encoding tokenises to those codings, decode_body over the executable model of "
         "flate2/miniz_oxide (Model/Inflate.v) returns exactly the body: no hypothesis about the decoders is left. Proved from C13_deflate_stream_inverted (every DEFLATE stream decodes to its RFC 1951 "
         "meaning; induction over blocks), C13_dynamic_block_inverted, C13_fixed_block_inverted, C13_accepted_table_decodes (canonical Huffman decoding is correct for every table passing the decoder's "
         "Kraft check), C13_fast_copy_is_rfc_copy, and the glue theorem C13_decode_inverts_every_stack (any decoders). The model of flate2 is compared with the real library (called directly) on every stream "
         "of every run: levels 0-9, all strategies, empty/tiny/random/repetitive/pre-compressed bodies up to 1.1 MB, depth <= 3, gzip header options, decode-after-failed-decode histories.",
         "Relative to (1) the hand-written model of flate2, tied to the library by sampling (every stream of every run; tools/fuzz_inflate.py: 410k streams incl. hand-assembled dynamic blocks, 0 disagreements), and (2) the reading of RFC 1951 written down in Ser / block_ok / block_apply (Proofs/DeflateStream.v)."),
 "C14": ("Theorems C14_success (kept ++ undone split of the token list, body = undo of exactly the undone suffix, one Content-Encoding header with the kept tokens joined by ', ' or none, "
         "single Content-Length = |body|, all other headers unchanged in order), C14_failure_atomic, C14_succeeds_when_undoable; for every behaviour of the three decoders (parameters).", ""),
 "C15": ("For ANY stream decoders (parameters): C15_outer_decoder_error_is_failure, C15_truncation_fails, C15_success_is_full_decoder_output, C15_zlib_never_falls_back -- the crate's glue cannot bypass "
         "the containers' checks. For the executable model of flate2/miniz_oxide (Model/Inflate.v) no hypothesis is left: the decoders are proved LOCAL (they read left to right, byte by byte: same answer whatever "
         "follows the bytes they fetched, Eof on every strict prefix of them; Proofs/InflateLocal.v, by induction over fuel, for every block type, table and symbol sequence), hence "
         "C15_truncation_fails_flate2_model (every strict truncation of an exact gzip member / zlib stream / bare stream makes decode_body fail), C15_gzip_checks_applied and C15_zlib_checks_applied "
         "(success pins the stored CRC-32, length and Adler-32 to the returned content; replacing those bytes by any others that encode different values fails, whatever follows), C15_gzip_signature, "
         "C15_decoding_ignores_what_follows. Sampled in addition: every truncation point, every byte of signature / CRC-32 / ISIZE / Adler-32 substituted, bit flips across the stream, 64-300 KB bodies.",
         "The model of flate2 is tied to the real library (called directly) on every stream of every run and by tools/fuzz_inflate.py; 'a bit flip in the compressed data that still inflates is caught by the checksum' "
         "is exactly the checksum comparison proved here plus the CRC/Adler arithmetic, whose collision resistance is not a theorem. Known finding K5 (a damaged zlib header is re-read as a bare stream) stays."),
 "C16": ("Theorems C16_text_only_for_text_types, C16_nothing_without_content_type / _for_non_text / _for_unknown_charset, C16_utf8_exact (utf8_decode succeeds iff valid and then "
         "re-encoding gives the body: no replacement character, BOM kept), C16_iso_8859_1_total (one character per byte, ASCII fixed). The two concrete decoders are compared with encoding_rs "
         "exhaustively for 0-1 (quick) / 0-2 (thorough) byte bodies and structurally for multi-byte sequences. C16_label_matched_case_insensitively / C16_label_normalisation_idempotent: encoding_rs's for_label is modelled as 'normalise (trim ASCII whitespace, lower-case), then look up' (the driver asks the real table with the normalised label on every text case), so case-insensitive label matching holds for every label table.", "The label table and the other encodings' decoders are an oracle."),
 "C17": ("Theorems C17_decimal_exact / C17_hex_exact (the crate's field parsers accept exactly 1*DIGIT / 1*HEXDIG fitting usize), "
         "C17_request_content_length (any accepted request under any delivery schedule: Content-Length value is digits only), C17_status_code, "
         "C17_chunk_size, C17_response_content_length, and C17_std_parser_extra (what the pre-fix std parsers accepted in addition: exactly a leading '+'). "
         "Correspondence: exhaustive short strings over a 16-symbol alphabet plus every single byte value in each of the fields, inserted non-digits, repeated Content-Length under deliveries.", ""),
 "C18": ("Theorems over header lists: C18_lookups_ignore_case, C18_response_framing_ignores_case + C18_resp_headers_uses_framing, C18_request_framing_ignores_case, C18_decode_body_ignores_case, C18_decode_text_ignores_case, C18_dechunk_rewrite_ignores_case. Theorems over message bytes: C18_header_block_parser_ignores_case (parsing blocks equal up to ASCII case gives the same answer, the same consumed count and lists equal up to case), C18_response_bytes and C18_request_bytes (any change of letter case inside the header block of a message leaves verdict, consumed count, start-line fields, body, trailing data and parser phase unchanged; stored headers equal up to case, also after the de-chunking rewrite), C18_chunked_response_bytes (for an accepted chunked response the letter case of the trailer section may change as well: same boundary, body and fields, headers equal up to case).",
         "C18_decode_text_ignores_case_any_table needs no hypothesis about encoding_rs any more: for_label = normalise then look up (Model/Coding.v label_norm, tied to the library on every text case); the label table stays a parameter."),
}

DEFAULT_TEXT = "see DESIGN.md section 6"


def main():
    claimed = [p["id"] for p in props if os.path.exists(os.path.join(ROOT, "coq", "Props", p["id"] + ".v"))]
    checks = []
    for p in props:
        if p["id"] not in claimed:
            continue
        text, extra = T.get(p["id"], (DEFAULT_TEXT, ""))
        checks.append({
            "property_id": p["id"],
            "quick_cmd": f"./check {p['id']} --quick",
            "thorough_cmd": f"./check {p['id']} --thorough",
            "evidence_file": f"/verif/evidence/{p['id']}.json",
            "replay_cmd_template": f"./check {p['id']} --replay {{path}}",
            "engine": "coq-model+correspondence",
            "level_claimed": {"category": "proof", "text": text, "design_ref": f"DESIGN.md section 6, {p['id']}"},
            "level_note": COMMON_NOTE + extra,
            "technique": "machine-checked proof in Coq 8.16 (induction / invariants over an executable Gallina model) + differential correspondence run of the extracted model against the crate",
        })
    m = {"version": 1,
         "setup_cmd": "./setup.sh",
         "hooks": {"guard": "rhymuweb_verif",
                   "enable": "no source hooks exist: the checks build /repo as it is (the cfg flag rhymuweb_verif is reserved and unused)",
                   "baseline_off_cmd": "cd /repo && cargo test --workspace --no-fail-fast --offline",
                   "source_commits": [], "add_only": True},
         "engines": [{"name": "coq-model+correspondence", "path": "/verif/check", "serves_properties": claimed,
                      "kind_free_text": "Coq theorems (coq/Props) about an executable model (coq/Model); the model is extracted to OCaml (ocaml/driver) and compared with the real crate (harness/) on generated cases (tools/check.py, tools/gens.py)"}],
         "checks": checks,
         "not_applicable": [{"property_id": p["id"], "reason": "not yet claimed: the correspondence check exists and passes, the theorem file is still being written"}
                            for p in props if p["id"] not in claimed],
         "notes": "One engine for all properties; ./check <id> --quick|--thorough|--replay <file>. Known findings: known_findings.json. Seeded changes and what detects them: seeded/RESULTS.json and DESIGN.md."}
    json.dump(m, open(os.path.join(ROOT, "MANIFEST.json"), "w"), indent=1)
    print("claimed:", claimed)


if __name__ == "__main__":
    main()
