#!/usr/bin/env python3
"""check.py <Cxx> --quick|--thorough|--replay <file>

One run = proof step (Coq cone of Props/Cxx.v, Print Assumptions, forbidden-token
scan) + correspondence run (model vs. the implementation built from /repo's working
tree, same cases) + the property's own implementation-level relations + verdict."""
import re, json
import os
import random
import sys
import time
import zlib

sys.path.insert(0, os.path.dirname(os.path.abspath(__file__)))
import vlib
from vlib import fields_of
import gens as G
from gens import hx, dels, hdrs_spec, CRLF

ROOT = vlib.ROOT
KNOWN = json.load(open(os.path.join(ROOT, "known_findings.json")))


class Ctx:
    def __init__(self, prop, tier, seed):
        self.prop, self.tier, self.seed = prop, tier, seed
        self.rng = random.Random(f"{prop}/{seed}")
        self.cases = []          # (id, kind, args)
        self.meta = {}           # id -> dict
        self.groups = {}         # gid -> [ids]
        self.thorough = tier == "thorough"

    def add(self, kind, args, group=None, **meta):
        cid = f"{len(self.cases)}"
        self.cases.append((cid, kind, [str(a) for a in args]))
        meta["kind"] = kind
        meta["args"] = [str(a) for a in args]
        self.meta[cid] = meta
        if group is not None:
            self.groups.setdefault(group, []).append(cid)
            meta["group"] = group
        return cid

    def n(self, quick, thorough):
        return thorough if self.thorough else quick


def verdict_class(canon):
    if canon in ("PANIC", "ABORT"):
        return canon
    f = fields_of(canon)
    v = f.get("v", "?")
    return v[0] if v else "?"


# ====================================================================== properties
class Prop:
    id = None
    profiles = ("debug",)
    spec_type = False        # the model's answer is the specification (proved equal to it)
    theorems = ""

    def gen(self, ctx):
        raise NotImplementedError

    def project(self, ctx, cid, canon):
        return canon

    def relations(self, ctx, impl):
        """implementation-only checks; yields (case ids, message)"""
        return []

    def nontrivial(self, ctx, cid, canon):
        return verdict_class(canon) in ("C", "N") or canon.startswith(("ok", "some", "gen=", "first="))

    def known(self, ctx, cid, msg):
        """id of a listed known finding this failure belongs to, or None"""
        return None


def req_streams(ctx, n, p_odd=0.08, mutate_frac=0.3):
    out = []
    for _ in range(n):
        s, meta = G.gen_request(ctx.rng, p_odd)
        if ctx.rng.random() < mutate_frac:
            for _ in range(ctx.rng.randint(1, 2)):
                s = G.mutate(ctx.rng, s)
        if ctx.rng.random() < 0.15:
            s += G.gen_request(ctx.rng, 0.0)[0][:ctx.rng.randint(0, 30)]
        out.append((s, meta))
    return out


def resp_streams(ctx, n, p_odd=0.08, mutate_frac=0.3):
    out = []
    for _ in range(n):
        s, meta = G.gen_response(ctx.rng, p_odd)
        if ctx.rng.random() < mutate_frac:
            for _ in range(ctx.rng.randint(1, 2)):
                s = G.mutate(ctx.rng, s)
        out.append((s, meta))
    return out


def canon_no_category(canon):
    f = fields_of(canon)
    if f.get("v", "").startswith("R"):
        return "v=R"
    return canon


def exact_limit_cuts(ctx, s):
    """the F1/F2 pattern: a limit equal to the exact length of a line, delivery cut
    between that line's CR and LF"""
    out = []
    pos, first = 0, True
    while True:
        i = s.find(CRLF, pos)
        if i < 0 or len(out) > 4:
            break
        ln = i - pos
        if first:
            out.append(((str(ln), "d", "d"), [s[:i + 1], s[i + 1:]]))
            out.append(((str(ln), "-", "-"), [s[:i + 1], s[i + 1:]]))
        elif ln > 0:
            out.append((("d", str(ln + 2), "d"), [s[:i + 1], s[i + 1:]]))
            out.append((("-", str(ln + 2), "-"), [s[:pos], s[pos:i + 1], s[i + 1:]]))
        else:
            break
        first = False
        pos = i + 2
    return out


class C01(Prop):
    id = "C01"

    def gen(self, ctx):
        # empty lines ahead of the request line (a server may skip them, RFC 7230 section 3.5; this parser takes the
        # first one for an empty request line): one, two, three of them, under every cut of the first bytes
        for k in (1, 2, 3):
            for rest in (b"GET / HTTP/1.1\r\nHost: a\r\n\r\n", b"POST /p HTTP/1.1\r\nContent-Length: 3\r\n\r\nabc"):
                s = b"\r\n" * k + rest
                g = ("seg", s, ("d", "d", "d"))
                ctx.add("req", ["d", "d", "d", dels([s])], group=g, stream=s, parts=1)
                for i in range(1, 2 * k + 4):
                    ctx.add("req", ["d", "d", "d", dels([s[:i], s[i:]])], group=g, stream=s, parts=2)
                ctx.add("req", ["d", "d", "d", dels([s[i:i + 1] for i in range(len(s))])], group=g, stream=s, parts=len(s))
        for s, meta in req_streams(ctx, ctx.n(150, 1500)):
            for trip in G.limit_triples(ctx.rng, meta, ctx.n(2, 4))[: ctx.n(3, 6)]:
                g = ("seg", s, trip)
                for parts in G.schedules(ctx.rng, s, ctx.n(2, 6)):
                    ctx.add("req", list(trip) + [dels(parts)], group=g, stream=s, parts=len(parts))
            for trip, parts in exact_limit_cuts(ctx, s):
                g = ("seg", s, trip)
                if g not in ctx.groups:
                    ctx.add("req", list(trip) + [dels([s])], group=g, stream=s, parts=1)
                ctx.add("req", list(trip) + [dels(parts)], group=g, stream=s, parts=len(parts), exact=True)
            # a maximum message size equal to (or one either side of) the exact total, the body arriving after
            # the call that finishes the headers
            if meta.get("body", 0) > 0 and ctx.rng.random() < 0.5:
                tot, head = meta["head"] + meta["body"], meta["head"]
                for mm in (tot, tot + 1, tot - 1):
                    trip = ("d", "d", str(mm))
                    g = ("seg", s, trip)
                    ctx.add("req", list(trip) + [dels([s])], group=g, stream=s, parts=1)
                    for cuts in ([head], [head + 1] if meta["body"] > 1 else [head], [head - 1], [len(s) - 1], [head, len(s) - 1]):
                        parts = G.cut_at(s, sorted(set(c for c in cuts if 0 < c < len(s))))
                        ctx.add("req", list(trip) + [dels(parts)], group=g, stream=s, parts=len(parts), exact=True)
        # all segmentations of short streams
        shorts = [b"GET / HTTP/1.1\r\n\r\n"[k:] for k in (0,)] + [
            b"G / HTTP/1.1\r\nA:b\r\n\r\n", b"P / HTTP/1.1\r\nContent-Length:2\r\n\r\nab"[:0] or b"G * HTTP/1.1\r\n\r\nX"]
        maxn = ctx.n(10, 14)
        for s in shorts:
            s = s[-maxn:] if False else s
            if len(s) > maxn + 9:
                continue
            # restrict the enumerated cut positions to the last maxn-1 boundaries for longer strings
            free = min(len(s) - 1, maxn - 1)
            base = len(s) - 1 - free
            for mask in range(1 << free):
                cuts = [base + i + 1 for i in range(free) if mask >> i & 1]
                ctx.add("req", ["d", "d", "d", dels(G.cut_at(s, cuts))], group=("seg", s, ("d", "d", "d")), stream=s,
                        parts=len(cuts) + 1)

    def project(self, ctx, cid, canon):
        return canon_no_category(canon)

    def relations(self, ctx, impl):
        for g, ids in ctx.groups.items():
            ref = canon_no_category(impl[ids[0]][0])
            rf = fields_of(ref)
            for cid in ids[1:]:
                cur = canon_no_category(impl[cid][0])
                cf = fields_of(cur)
                same = all(rf.get(k) == cf.get(k) for k in ("v", "tot", "m", "t", "h", "b")) and \
                    rf.get("v", ref) == cf.get("v", cur)
                if not same:
                    yield [ids[0], cid], f"delivery-dependent result: whole={ref[:200]} split={cur[:200]}"


def resp_boundary(f):
    return int(f["tot"]) - len(f.get("x", "")) // 2


class C02(Prop):
    id = "C02"

    def gen(self, ctx):
        for s, meta in resp_streams(ctx, ctx.n(300, 3000)):
            g = ("seg", s)
            for parts in G.schedules(ctx.rng, s, ctx.n(3, 8)):
                ctx.add("resp", [dels(parts)], group=g, stream=s, parts=parts)
        shorts = [b"HTTP/1.1 200 \r\nTransfer-Encoding:chunked\r\n\r\n2\r\nab\r\n0\r\nA:b\r\n c\r\n\r\nZ",
                  b"HTTP/1.1 1 \r\nContent-Length:1\r\n\r\nabc"]
        # header lines around 1000 bytes (the request default; responses have no line limit), cut at CR|LF
        for total in (996, 997, 998, 999, 1000, 1001):
            for tail in (b"Content-Length: 2\r\n\r\nhiZZ", b"\r\n", b"Transfer-Encoding: chunked\r\n\r\n1\r\na\r\n0\r\n\r\nZ"):
                line = b"X-Long: " + b"v" * (total - 8)
                s = b"HTTP/1.1 200 OK\r\n" + line + b"\r\n" + tail
                i = s.find(line) + len(line)
                for cuts in ([], [i], [i + 1], [i + 2], [i - 1, i + 1]):
                    parts = G.cut_at(s, cuts)
                    ctx.add("resp", [dels(parts)], group=("seg", s), stream=s, parts=parts)
        # a repeated Content-Length (the joined value "a,b" is malformed whatever a and b are), every cut:
        # the verdict must not depend on which of the two lines had been consumed when a call returned
        for a, b in ((b"3", b"3"), (b"3", b"8"), (b"03", b"3"), (b"2", b"x")):
            for mid in (b"", b"X: y\r\n"):
                s = b"HTTP/1.1 200 OK\r\nContent-Length: " + a + b"\r\n" + mid + b"content-LENGTH: " + b + b"\r\nZ: z\r\n\r\nabcdefghij"
                for i in range(1, len(s)):
                    parts = G.cut_at(s, [i])
                    ctx.add("resp", [dels(parts)], group=("seg", s), stream=s, parts=parts)
        # a 4600-byte reason phrase, header value, chunk extension delivered byte by byte (more than 10 MB re-presented
        # in all): the same answer as in one call.  Implementation only (the list model is quadratic in this shape).
        pad = b"p" * 4600
        for s in (b"HTTP/1.1 200 " + pad + b"\r\nContent-Length: 2\r\n\r\nhiZZ", b"HTTP/1.1 200 OK\r\nX-Long: " + pad + b"\r\nContent-Length: 2\r\n\r\nhi",
                  b"HTTP/1.1 200 OK\r\nTransfer-Encoding: chunked\r\n\r\n2;e=" + pad + b"\r\nhi\r\n0\r\nT: " + pad + b"\r\n\r\n"):
            ctx.add("resp", [dels([s])], group=("seg", s), stream=s, parts=[s], impl_only=True)
            for step in (1, 2):
                parts = [s[i:i + step] for i in range(0, len(s), step)]
                ctx.add("resp", [dels(parts)], group=("seg", s), stream=s, parts=parts, impl_only=True)
        # a chunked body whose decoded size reaches 64 KiB (one 0x10000-byte chunk with an extension, a small
        # chunk, a trailer field), cut before, at and after the end of the big chunk's data
        big = bytes(ctx.rng.choice(b"abcdefgh\r\n") for _ in range(0x10000))
        s = G.STATUS_LINES[0] + b"\r\nTransfer-Encoding: chunked\r\n\r\n10000;big=1\r\n" + big + b"\r\n4\r\nWXYZ\r\n0\r\nX-T: v\r\n\r\nNEXT"
        at = s.find(big) + len(big)
        for cuts in ([], [at - 70000], [at - 1], [at], [at + 1], [at + 2], [at + 5], [at + 11], [len(s) - 6], [at - 30000, at + 3]):
            parts = G.cut_at(s, [c for c in cuts if 0 < c < len(s)])
            ctx.add("resp", [dels(parts)], group=("seg", s), stream=s, parts=parts)
        # header lines that begin like a status line or a request line, every single cut: no stage may
        # take them for the start of a message
        for hname in (b"HTTP/Upstream-Version", b"HTTP/1.1", b"GET"):
            for tail in (b"Content-Length: 3\r\n\r\nabcZ", b"\r\n", b"Transfer-Encoding: chunked\r\n\r\n1\r\na\r\n0\r\n\r\n"):
                s = b"HTTP/1.1 200 OK\r\nA: b\r\n" + hname + b": 1.0\r\nC: d\r\n" + tail
                for i in range(1, len(s)):
                    parts = G.cut_at(s, [i])
                    ctx.add("resp", [dels(parts)], group=("seg", s), stream=s, parts=parts)
        maxn = ctx.n(10, 14)
        for s in shorts:
            free = min(len(s) - 1, maxn - 1)
            base = len(s) - 1 - free
            for mask in range(1 << free):
                cuts = [base + i + 1 for i in range(free) if mask >> i & 1]
                parts = G.cut_at(s, cuts)
                ctx.add("resp", [dels(parts)], group=("seg", s), stream=s, parts=parts)

    def project(self, ctx, cid, canon):
        f = fields_of(canon)
        if f.get("v", "").startswith("R"):
            return "v=R"
        if f.get("v") == "C":
            return ";".join(f"{k}={f.get(k)}" for k in ("tr", "v", "code", "r", "h", "b", "x")) + f";bd={resp_boundary(f)}"
        return canon

    def relations(self, ctx, impl):
        for g, ids in ctx.groups.items():
            rf = fields_of(impl[ids[0]][0])
            for cid in ids:
                cf = fields_of(impl[cid][0])
                vc, vr = cf.get("v", "?")[:1], rf.get("v", "?")[:1]
                ok = vc == vr
                if ok and vc == "C":
                    ok = resp_boundary(cf) == resp_boundary(rf) and all(rf.get(k) == cf.get(k) for k in ("code", "r", "h", "b"))
                    # trailing data = delivered bytes after the boundary
                    parts = ctx.meta[cid]["parts"]
                    ncalls = len(cf["tr"].split(","))
                    delivered = b"".join(parts[:ncalls])
                    if ok and bytes.fromhex(cf.get("x", "")) != delivered[resp_boundary(cf):int(cf["tot"])]:
                        yield [cid], "trailing data is not the delivered bytes after the boundary"
                elif ok and vc == "N":
                    ok = all(rf.get(k) == cf.get(k) for k in ("tot", "code", "r", "h", "b", "x"))
                if not ok:
                    yield [ids[0], cid], f"delivery-dependent result: whole={impl[ids[0]][0][:200]} split={impl[cid][0][:200]}"


class C03(Prop):
    id = "C03"
    spec_type = True

    def gen(self, ctx):
        for s, meta in req_streams(ctx, ctx.n(1200, 12000), p_odd=0.12, mutate_frac=0.4):
            trips = [("d", "d", "d")] if ctx.rng.random() < 0.7 else G.limit_triples(ctx.rng, meta, 1)[-1:]
            for trip in trips:
                cid = ctx.add("req", list(trip) + [dels([s])], stream=s)
                if ctx.rng.random() < 0.25:
                    k = ctx.rng.randrange(len(s) + 1)
                    ctx.add("req", list(trip) + [dels([s[:k]])], stream=s[:k], prefix_of=cid)
                if ctx.rng.random() < 0.3:
                    for parts in G.schedules(ctx.rng, s, 1)[1:]:
                        ctx.add("req", list(trip) + [dels(parts)], stream=s, whole=cid)
        # zero-padded declared lengths of 20 .. 40 characters
        for z in (19, 20, 21, 22, 30, 40):
            for txt, body in ((b"0" * z + b"5", b"hello"), (b"0" * z + b"10", b"0123456789"), (b"0" * z + b"5x", b"hello"), (b"0" * z, b"")):
                s = b"POST / HTTP/1.1\r\nContent-Length: " + txt + b"\r\n\r\n" + body + b"NEXT"
                ctx.add("req", ["d", "d", "d", dels([s])], stream=s)
        # Request::default() is the value Request::new() builds: the same limits apply
        for s in (b"GET /" + b"a" * 990 + b" HTTP/1.1\r\n\r\n", b"GET /" + b"a" * 996 + b" HTTP/1.1\r\n\r\n",
                  b"GET / HTTP/1.1\r\nX: " + b"v" * 994 + b"\r\n\r\n", b"GET / HTTP/1.1\r\nX: " + b"v" * 996 + b"\r\n\r\n",
                  b"POST / HTTP/1.1\r\nContent-Length: 10000001\r\n\r\n", b"POST / HTTP/1.1\r\nContent-Length: 3\r\n\r\nabc"):
            for parts in ([s], [s[:len(s) // 2], s[len(s) // 2:]]):
                ctx.add("reqd", ["d", "d", "d", dels(parts)], stream=s)
        # declared lengths at the numeric extremes: rejected for size under a limit, waiting for the body without
        for n in (2 ** 64 - 1, 2 ** 64 - 11, 2 ** 64 - 60, 2 ** 63, 2 ** 63 - 1, 2 ** 32, 10 ** 7 + 1):
            s = b"POST / HTTP/1.1\r\nHost: a\r\nContent-Length: %d\r\n\r\nabc" % n
            for trip in (("d", "d", "d"), ("-", "-", "-"), ("d", "d", "1000")):
                ctx.add("req", list(trip) + [dels([s])], stream=s)
                ctx.add("req", list(trip) + [dels([s[:30], s[30:]])], stream=s)

    def relations(self, ctx, impl):
        # a strict prefix of an accepted request is never rejected (default limits: prefix within limits)
        for cid, m in ctx.meta.items():
            if "prefix_of" in m:
                whole = fields_of(impl[m["prefix_of"]][0])
                if whole.get("v") == "C" and len(m["stream"]) < int(whole["tot"]):
                    v = verdict_class(impl[cid][0])
                    if v != "N":
                        yield [cid], f"strict prefix of an accepted request answered {impl[cid][0][:120]}"


class C04(Prop):
    id = "C04"
    spec_type = True

    def gen(self, ctx):
        for s, meta in resp_streams(ctx, ctx.n(1200, 12000), p_odd=0.12, mutate_frac=0.4):
            cid = ctx.add("resp", [dels([s])], stream=s)
            if ctx.rng.random() < 0.25:
                k = ctx.rng.randrange(len(s) + 1)
                ctx.add("resp", [dels([s[:k]])], stream=s[:k], prefix_of=cid)
            if ctx.rng.random() < 0.3:
                for parts in G.schedules(ctx.rng, s, 1)[1:]:
                    ctx.add("resp", [dels(parts)], stream=s, whole=cid)
        # framing order and code boundaries, systematically
        for cl in (None, b"3", b"+3", b"0"):
            for te in (None, b"chunked", b"gzip, chunked", b"gzip"):
                for order in (0, 1):
                    fs = []
                    if cl is not None:
                        fs.append(b"Content-Length: " + cl)
                    if te is not None:
                        fs.append(b"Transfer-Encoding: " + te)
                    if order:
                        fs.reverse()
                    for body in (b"abcdef", b"3\r\nabc\r\n0\r\n\r\nrest", b""):
                        ctx.add("resp", [dels([b"HTTP/1.1 200 OK\r\n" + G.block(fs) + body])])
        for code in [b"0", b"00", b"007", b"999", b"1000", b"0999", b"01000", b"+99", b"99 ", b"", b"9" * 20, b"00000000000000000000001"]:
            ctx.add("resp", [dels([b"HTTP/1.1 " + code + b" X\r\n\r\n"])])

    def relations(self, ctx, impl):
        for cid, m in ctx.meta.items():
            if "prefix_of" in m:
                whole = fields_of(impl[m["prefix_of"]][0])
                if whole.get("v") == "C" and len(m["stream"]) < resp_boundary(whole):
                    if verdict_class(impl[cid][0]) != "N":
                        yield [cid], f"strict prefix of an accepted response answered {impl[cid][0][:120]}"


CHUNK_PREFIX = b"HTTP/1.1 200 OK\r\nTransfer-Encoding: chunked\r\n\r\n"


class C05(Prop):
    id = "C05"
    thorough_rounds = 1          # its thorough tier is dominated by an exhaustive enumeration
    spec_type = True

    def gen(self, ctx):
        rng = ctx.rng
        for _ in range(ctx.n(500, 5000)):
            enc, payload, tf = G.gen_chunked(rng, 0.0)
            clean = all(b"\r\n" not in f and b":" in f and all(33 <= c <= 126 for c in f.split(b":")[0])
                        and all(c in (9, 32) or 33 <= c <= 126 for c in f.split(b":", 1)[1]) for f in tf)
            sfx = rng.choice([b"", b"", b"X", b"\r\n", b"0\r\n\r\n", b"HTTP/1.1 200 OK\r\n\r\n"])
            ctx.add("resp", [dels([CHUNK_PREFIX + enc + sfx])], enc=enc, payload=payload, tf=tf, sfx=sfx,
                    roundtrip=clean)
            if rng.random() < 0.3:
                ctx.add("resp", [dels(G.cut_at(CHUNK_PREFIX + enc + sfx, rng.sample(range(1, len(CHUNK_PREFIX + enc + sfx) + 1), 3)))],
                        enc=enc, payload=payload, tf=tf, sfx=sfx, roundtrip=clean)
        for _ in range(ctx.n(500, 5000)):
            enc, payload, tf = G.gen_chunked(rng, 0.25)
            if rng.random() < 0.5:
                enc = G.mutate(rng, enc)
            ctx.add("resp", [dels([CHUNK_PREFIX + enc])], enc=enc)
        # the public `body` field already holds bytes when the chunked response is parsed -- set by the
        # caller, or left by an earlier message that was abandoned: an accepted chunked response replaces them
        for _ in range(ctx.n(60, 600)):
            m = G.gen_response(rng, 0.0, framing="chunked")[0]     # (a preset body beside a declared length is the caller breaking the parser's invariant: out of scope)
            ctx.add("resppre", [hx(rng.choice([b"STALE!", b"x", b"0123456789" * 3])), dels(rng.choice(G.schedules(rng, m, 2)))])
        # a Trailer header that announces some, all, none or other names than the trailer section carries:
        # every decoded trailer field is merged whatever was announced
        for _ in range(ctx.n(120, 1200)):
            enc, payload, tf = G.gen_chunked(rng, 0.0)
            names = [f.split(b":")[0] for f in tf if b":" in f]
            ann = [n for n in names if rng.random() < 0.5] + [rng.choice([b"X-Other", b"Expires", b"x-checksum"]) for _ in range(rng.randint(0, 2))]
            rng.shuffle(ann)
            tl = rng.choice([b"Trailer", b"trailer", b"TRAILER"]) + b": " + rng.choice([b", ", b","]).join(ann)
            pre = b"HTTP/1.1 200 OK\r\n" + (tl + b"\r\n" if ann or rng.random() < 0.3 else b"") + b"Transfer-Encoding: chunked\r\n" \
                  + (b"Trailer: " + rng.choice(ann) + b"\r\n" if ann and rng.random() < 0.2 else b"") + b"\r\n"
            ctx.add("resp", [dels([pre + enc])], enc=enc, prefix_len=len(pre))
        # exhaustive small world over the structural alphabet
        alpha = [b"0", b"5", b"a", b"F", b"g", b";", b"+", b"\r", b"\n", b"x"]
        maxlen = ctx.n(4, 6)
        import itertools
        for L in range(0, maxlen + 1):
            for tup in itertools.product(alpha, repeat=L):
                s = b"".join(tup)
                ctx.add("resp", [dels([CHUNK_PREFIX + s])], enc=s, small=True)

    def project(self, ctx, cid, canon):
        f = fields_of(canon)
        v = f.get("v", "?")
        if v == "C":
            return f"v=C;tot={f['tot']};h={f['h']};b={f['b']}"
        return "v=" + v

    def relations(self, ctx, impl):
        for cid, m in ctx.meta.items():
            f = fields_of(impl[cid][0])
            if m.get("roundtrip"):
                exp_tot = len(CHUNK_PREFIX) + len(m["enc"])
                if f.get("v") != "C" or int(f["tot"]) != exp_tot or bytes.fromhex(f["b"]) != m["payload"]:
                    yield [cid], f"round trip failed: payload={m['payload']!r} got {impl[cid][0][:200]}"
            elif f.get("v") == "C" and "payload" not in m and "enc" in m:
                # Complete => the consumed prefix is a well-formed chunked body (independent recogniser)
                n = int(f["tot"]) - m.get("prefix_len", len(CHUNK_PREFIX))
                rec = parse_chunked_ref(m["enc"][:n])
                if rec is None or rec != bytes.fromhex(f["b"]):
                    yield [cid], f"not a well-formed chunked body but reported complete: {m['enc'][:n]!r}"


def parse_chunked_ref(c):
    """independent recogniser of IsChunked (sizes 1*HEXDIG [;ext] CRLF data CRLF ... 0 [;ext] CRLF trailer CRLF);
    returns the payload when the whole of c is exactly one chunked body, else None.  Trailer fields: only the
    line structure is checked here."""
    pos, payload = 0, b""
    while True:
        e = c.find(b"\r\n", pos)
        if e < 0:
            return None
        line = c[pos:e]
        size = line.split(b";", 1)[0]
        if not size or any(ch not in b"0123456789abcdefABCDEF" for ch in size):
            return None
        n = int(size, 16)
        if n >= 1 << 64:
            return None
        pos = e + 2
        if n == 0:
            break
        if len(c) < pos + n + 2 or c[pos + n:pos + n + 2] != b"\r\n":
            return None
        payload += c[pos:pos + n]
        pos += n + 2
    # trailer: lines until the empty line, which must end c
    while True:
        e = c.find(b"\r\n", pos)
        if e < 0:
            return None
        if e == pos:
            return payload if e + 2 == len(c) else None
        pos = e + 2


EXTREMES = [0, 1, 2, 255, 999, 1000, 1001, 65535, 65536, 9999999, 10000000, 10000001, 2 ** 31 - 1, 2 ** 31, 2 ** 32 - 1,
            2 ** 32, 2 ** 32 + 1, 2 ** 53, 2 ** 63 - 1, 2 ** 63, 2 ** 63 + 1, 2 ** 64 - 2, 2 ** 64 - 1, 2 ** 64, 2 ** 64 + 1,
            10 ** 25]


def extreme_cases(ctx, supplied_opts=(0, 1, 5)):
    """messages whose declared lengths range over the numeric extremes, few bytes supplied"""
    rng = ctx.rng
    for n in EXTREMES:
        for supplied in supplied_opts:
            body = b"x" * supplied
            for trip in (("d", "d", "d"), ("-", "-", "-"), ("d", "d", str(min(n, 2 ** 64 - 1))), ("d", "d", str(min(2 ** 64 - 1, max(0, n - 40)))),
                         ("d", "d", "18446744073709551615")):
                s = b"POST / HTTP/1.1\r\nContent-Length: %d\r\n\r\n" % n + body
                for parts in ([s], [s[:20], s[20:]], [s[i:i + 1] for i in range(len(s))] if n in (2 ** 64 - 1, 2 ** 63) else [s[:-1], s[-1:]]):
                    yield ("req", list(trip) + [dels(parts)], dict(declared=n, supplied=supplied, presented=len(s)))
            s = b"HTTP/1.1 200 OK\r\nContent-Length: %d\r\n\r\n" % n + body
            for parts in ([s], [s[:25], s[25:]]):
                yield ("resp", [dels(parts)], dict(declared=n, supplied=supplied, presented=len(s)))
            s = CHUNK_PREFIX + b"%x\r\n" % n + body
            for parts in ([s], [s[:len(CHUNK_PREFIX) + 1], s[len(CHUNK_PREFIX) + 1:]]):
                yield ("resp", [dels(parts)], dict(declared=n, supplied=supplied, presented=len(s)))
            s = CHUNK_PREFIX + b"3\r\nabc\r\n%X;ext\r\n" % n + body
            yield ("resp", [dels([s])], dict(declared=n, supplied=supplied, presented=len(s)))
    for code in EXTREMES:
        yield ("resp", [dels([b"HTTP/1.1 %d X\r\n\r\n" % code])], dict())


class C06(Prop):
    id = "C06"
    profiles = ("debug", "release")

    def gen(self, ctx):
        rng = ctx.rng
        for kind, args, meta in extreme_cases(ctx):
            ctx.add(kind, args, **meta)
        for s, meta in req_streams(ctx, ctx.n(300, 3000), p_odd=0.15, mutate_frac=0.5):
            trip = rng.choice(G.limit_triples(rng, meta, 2))
            parts = rng.choice(G.schedules(rng, s, 2))
            ctx.add("req", list(trip) + [dels(parts)])
        for s, meta in resp_streams(ctx, ctx.n(300, 3000), p_odd=0.15, mutate_frac=0.5):
            parts = rng.choice(G.schedules(rng, s, 2))
            ctx.add("resp", [dels(parts)])
        # one parser value fed two messages in succession (a caller that keeps the value on a persistent
        # connection): whatever the first message left behind, the second call must return normally
        for _ in range(ctx.n(200, 2000)):
            m1 = G.gen_response(rng, 0.0)[0]
            m2 = G.gen_response(rng, 0.05)[0]
            if rng.random() < 0.3:
                m2 = b"HTTP/1.1 200 OK\r\nContent-Length: %d\r\n\r\n" % rng.choice([0, 1, 2, 3, 5]) + b"abcde"[:rng.randint(0, 5)]
            ctx.add("reuseresp", [dels(rng.choice(G.schedules(rng, m1, 2))), dels(rng.choice(G.schedules(rng, m2, 2)))])
        for _ in range(ctx.n(100, 1000)):
            m1, meta1 = G.gen_request(rng, 0.0)
            m2 = G.gen_request(rng, 0.05)[0]
            trip = rng.choice(G.limit_triples(rng, meta1, 2))
            ctx.add("reusereq", list(trip) + [dels(rng.choice(G.schedules(rng, m1, 2))), dels(rng.choice(G.schedules(rng, m2, 2)))])
        # very many small chunks / header lines / pipelined elements in ONE delivery: the work per call is
        # a loop, its stack depth must not grow with the number of elements
        for nchunks, solo in ((1200, False),) + ctx.n(((30000, True),), ((30000, True), (400000, True))):
            body = b"1\r\nx\r\n" * nchunks + b"0\r\n\r\n"
            ctx.add("resp", [dels([CHUNK_PREFIX + body])], impl_only=solo)
            ctx.add("resp", [dels([CHUNK_PREFIX + b"1;e=1\r\ny\r\n" * (nchunks // 4) + b"0\r\nA: b\r\n\r\n"])], impl_only=solo)
        for nh, solo in ((800, False), (ctx.n(5000, 40000), True)):
            many = b"".join(b"X-%d: v\r\n" % i for i in range(nh))
            ctx.add("resp", [dels([b"HTTP/1.1 200 OK\r\n" + many + b"\r\n"])], impl_only=solo)
            ctx.add("req", ["d", "d", "-", dels([b"GET / HTTP/1.1\r\n" + many + b"\r\n"])], impl_only=solo)
        # multi-byte UTF-8 at every slicing position of the start lines / content type
        for w in (b"\xc3\xa9", b"\xe2\x82\xac", b"\xf0\x9f\x98\x80"):
            base = b"GET /a HTTP/1.1"
            for i in range(len(base) + 1):
                ctx.add("req", ["d", "d", "d", dels([base[:i] + w + base[i:] + b"\r\n\r\n"])])
            base = b"HTTP/1.1 200 OK"
            for i in range(len(base) + 1):
                ctx.add("resp", [dels([base[:i] + w + base[i:] + b"\r\n\r\n"])])
            base = "text/plain; charset=utf-8"
            for i in range(len(base) + 1):
                ctx.add("txt", [hdrs_spec([("Content-Type", base[:i] + w.decode() + base[i:])]), hx(b"abc" + w)])
            base = b"5;ext"
            for i in range(len(base) + 1):
                ctx.add("resp", [dels([CHUNK_PREFIX + base[:i] + w + base[i:] + b"\r\nhello\r\n0\r\n\r\n"])])
        # generate with odd limits (K4 class: header line limit below 2)
        for hl in ("0", "1", "2", "3", "10", "d", "-"):
            for hs in ([], [("A", "b")], [("Name", "some value that is long")], [("A", "b c d e f g h i j k")]):
                ctx.add("genreq", ["d", hl, "d", hx(b"GET"), hx(b"/"), hdrs_spec(hs), hx(b"")], gen_hl=hl, nhdrs=len(hs))
        # a caller that goes on after an error (the rejected input dropped, the next delivery presented to the same
        # value), then calls generate: every call returns
        bad_resp = [b"HTTP/1.1 200 OK\r\nTransfer-Encoding: chunked\r\n\r\n5\r\nhello\r\n6x\r\n", b"HTTP/1.0 200 OK\r\n\r\n", b"HTTP/1.1 200 OK\r\nBad Header\r\n\r\n",
                    b"HTTP/1.1 200 OK\r\nTransfer-Encoding: chunked\r\n\r\n3\r\nabcXX", b"HTTP/1.1 2x0 OK\r\n\r\n", b"HTTP/1.1 200 OK\r\nContent-Length: +1\r\n\r\n"]
        bad_req = [b"GET / HTTP/1.0\r\n\r\n", b"GET /%zz HTTP/1.1\r\n\r\n", b"POST / HTTP/1.1\r\nContent-Length: x\r\n\r\n", b"GET / HTTP/1.1\r\nNo Colon\r\n\r\n",
                   b"POST / HTTP/1.1\r\nContent-Length: 99999999999\r\n\r\n", b"G" * 1200 + b"\r\n"]
        for _ in range(ctx.n(150, 1500)):
            msgs = [rng.choice(bad_resp) if rng.random() < 0.5 else G.gen_response(rng, 0.1)[0] for _ in range(rng.randint(2, 4))]
            parts = [p for m in msgs for p in rng.choice(G.schedules(rng, m, 2))]
            ctx.add("respe", [dels(parts)], impl_only=True)
            msgs = [rng.choice(bad_req) if rng.random() < 0.5 else G.gen_request(rng, 0.1)[0] for _ in range(rng.randint(2, 4))]
            parts = [p for m in msgs for p in rng.choice(G.schedules(rng, m, 2))]
            ctx.add("reqe", list(rng.choice([("d", "d", "d"), ("-", "-", "-"), ("20", "30", "200")])) + [dels(parts)], impl_only=True)
        for code in (0, 1, 99, 100, 199, 599, 600, 999, 1000, 65536, 2 ** 64 - 1):
            for reason in (b"", b"OK"):
                ctx.add("genresp", [code, hx(reason), hdrs_spec([]), hx(b"")])
                ctx.add("genresp", [code, hx(reason), hdrs_spec([("Content-Length", "2")]), hx(b"ab")])
        # start lines that are rejected and long, with a multi-byte character sliding across the offsets where an
        # error message might be cut (255..257, 511..513, 1023..1025): building the error must not slice inside it
        for w in (b"\xc3\xa9", b"\xe2\x82\xac", b"\xf0\x9f\x98\x80"):
            for edge in (256, 512, 1024):
                for off in range(edge - 5, edge + 2):
                    for tail in (b" HTTP/1.0", b"", b" x y z"):
                        line = b"GET /" + b"a" * (off - 5) + w + b"b" * 20 + tail
                        ctx.add("req", ["-", "d", "d", dels([line + b"\r\n\r\n"])])
                    for head in (b"HTTP/1.0 200 ", b"HTTP/1.1 20x ", b"HTTP/1.1 "):
                        line = head + b"r" * (off - len(head)) + w + b"s" * 20
                        ctx.add("resp", [dels([line + b"\r\n\r\n"])])
        # generate on values whose Content-Length says more (or less, or nonsense) than the body holds: a partly
        # received message, a HEAD-style head, an enormous declared length
        for cl in ("0", "1", "5", "10", "1234", "18446744073709551615", "18446744073709551616", "abc", "-1", "5, 5", ""):
            for body in (b"", b"abc", b"hello world"):
                for extra in ([], [("Transfer-Encoding", "chunked")]):
                    ctx.add("genresp", [rng.choice([200, 204, 206, 304]), hx(b"OK"), hdrs_spec([("Content-Length", cl)] + extra), hx(body)])
                    ctx.add("genreq", ["d", "d", "d", hx(b"POST"), hx(b"/"), hdrs_spec([("content-length", cl)] + extra), hx(body)], gen_hl="d", nhdrs=1)
        for _ in range(ctx.n(100, 1000)):
            add_decode_case(ctx, damaged=True)
            add_text_case(ctx)
        # every 0/1-byte body and zlib-header-like 2-byte bodies under each coding
        tiny = [b""] + [bytes([b]) for b in range(256)] + [bytes([c, rng.randrange(256)]) for c in range(0x08, 0x100, 0x10) for _ in range(4)]
        for enc in ("deflate", "gzip", "gzip, deflate", "DEFLATE", "deflate, gzip"):
            for body in tiny:
                ctx.add("dec", [hdrs_spec([("Content-Encoding", enc)]), hx(body)])
        for v in ["", " ", "\t ", ",", " , ", ",,", "gzip,", ",gzip", "identity", "\u00a0"]:
            for extra in ([], [("Content-Length", "3")], [("Content-Encoding", "")]):
                ctx.add("dec", [hdrs_spec([("Content-Encoding", v)] + extra), hx(b"abc")])
                ctx.add("dec", [hdrs_spec(extra + [("content-encoding", v)]), hx(G.gz(b"abc"))])
        for cs in ['"', '""', '"utf-8', 'utf-8"', '"utf-8"', "'", "=", "", " ", '" "', '"\u00e9"', "\u00e9", '"' * 3]:
            for ct in ("text/plain; charset=%s", "TEXT/html;CHARSET=%s ; q=1", "text/x;charset=%s;charset=utf-8"):
                ctx.add("txt", [hdrs_spec([("Content-Type", ct % cs)]), hx(b"ab\xc3\xa9")])

    def relations(self, ctx, impl):
        for cid, (canon, diag) in impl.items():
            if canon in ("PANIC", "ABORT"):
                yield [cid], f"{canon}: {diag[:200]}"

    def known(self, ctx, cid, msg):
        m = ctx.meta[cid]
        if m["kind"] == "genreq" and m.get("gen_hl") in ("0", "1") and m.get("nhdrs", 0) >= 1:
            return "K4"
        return None


class C07(Prop):
    id = "C07"

    def gen(self, ctx):
        for kind, args, meta in extreme_cases(ctx, supplied_opts=(0, 1, 7)):
            ctx.add(kind, args, **meta)
        rng = ctx.rng
        for _ in range(ctx.n(300, 3000)):
            declared = rng.choice([rng.randrange(0, 100), rng.randrange(1000, 100000), rng.randrange(10 ** 5, 10 ** 7),
                                   rng.randrange(10 ** 7, 2 ** 40)])
            supplied = rng.choice([0, 1, rng.randrange(0, 50)])
            body = bytes(rng.randrange(256) for _ in range(supplied))
            mm = rng.choice(["d", "-", str(declared + 100), str(rng.randrange(0, 10 ** 6))])
            k = rng.random()
            extra = rng.choice([b"", b"", b"Expect: 100-continue\r\n", b"expect: 100-Continue\r\n", b"Connection: keep-alive\r\n",
                                b"Content-Type: application/octet-stream\r\n", b"Range: bytes=0-\r\n", b"Upgrade: h2c\r\n",
                                b"Transfer-Encoding: gzip\r\n", b"Content-Encoding: gzip\r\n", b"Trailer: X\r\n"])
            if k < 0.4:
                s = b"POST /x HTTP/1.1\r\nHost: a\r\n" + extra + b"Content-Length: %d\r\n\r\n" % declared + body
                parts = rng.choice(G.schedules(rng, s, 2))
                ctx.add("req", ["d", "d", mm, dels(parts)], declared=declared, supplied=supplied, presented=len(s), mm=mm)
            elif k < 0.7:
                s = rng.choice(G.STATUS_LINES) + b"\r\nContent-Length: %d\r\n\r\n" % declared + body
                parts = rng.choice(G.schedules(rng, s, 2))
                ctx.add("resp", [dels(parts)], declared=declared, supplied=supplied, presented=len(s))
            else:
                s = CHUNK_PREFIX + b"2\r\nab\r\n%x\r\n" % declared + body
                parts = rng.choice(G.schedules(rng, s, 2))
                ctx.add("resp", [dels(parts)], declared=declared, supplied=supplied, presented=len(s))
        # a head that announces a huge length and is then rejected (a later header line without a colon / a limit), after
        # which the caller goes on with the same value: what the rejected message announced earns it nothing
        for huge in (2 ** 28, 2 ** 40):
            bad = b"HTTP/1.1 200 OK\r\nContent-Length: %d\r\nbroken line\r\n\r\n" % huge
            nxt = b"HTTP/1.1 200 OK\r\nContent-Length: 3\r\n\r\nabc"
            for parts in ([bad, nxt], [bad[:60], bad[60:], nxt[:20], nxt[20:]]):
                ctx.add("respe", [dels(parts)], declared=huge, supplied=3, presented=len(bad) + len(nxt), impl_only=True)
            badq = b"POST / HTTP/1.1\r\nContent-Length: %d\r\n\r\n" % huge
            nxtq = b"abcdefgh" * 4
            for mm in ("4096", "d"):
                for parts in ([badq, nxtq], [badq, nxtq[:5], nxtq[5:]]):
                    ctx.add("reqe", ["d", "d", mm, dels(parts)], declared=huge, supplied=32, presented=len(badq) + len(nxtq), mm=mm, impl_only=True)
        # a large declared length of which 96 KiB and more arrive in 16 KiB deliveries: growth stays proportional to
        # what has been received, also once the buffer is large (declared Content-Length, and a chunk of that size
        # after an honest 64 KiB chunk)
        piece = b"z" * 16384
        for declared in (2 ** 28, 2 ** 31):
            head = b"POST /x HTTP/1.1\r\nContent-Length: %d\r\n\r\n" % declared
            ctx.add("req", ["d", "d", "-", dels([head] + [piece] * 7)], declared=declared, supplied=7 * 16384, presented=len(head) + 7 * 16384, mm="-")
            head = b"HTTP/1.1 200 OK\r\nContent-Length: %d\r\n\r\n" % declared
            ctx.add("resp", [dels([head] + [piece] * 7)], declared=declared, supplied=7 * 16384, presented=len(head) + 7 * 16384)
            head = b"HTTP/1.1 200 OK\r\nTransfer-Encoding: chunked\r\n\r\n10000\r\n" + b"y" * 65536 + b"\r\n%x\r\n" % declared
            ctx.add("resp", [dels([head] + [piece] * 3)], declared=declared, supplied=65536 + 3 * 16384, presented=len(head) + 3 * 16384)
        # both framing headers, either order, large declared length
        for declared in (0, 5, 10 ** 6, 2 ** 30, 2 ** 31, 2 ** 40, 2 ** 62, 2 ** 63 - 1, 2 ** 63, 2 ** 64 - 1):
            for hs in (b"Content-Length: %d\r\nTransfer-Encoding: chunked\r\n" % declared,
                       b"Transfer-Encoding: chunked\r\nContent-Length: %d\r\n" % declared,
                       b"transfer-encoding: gzip, Chunked\r\ncontent-length: %d\r\n" % declared):
                for body in (b"", b"5\r\nhello\r\n0\r\n\r\n"):
                    s = b"HTTP/1.1 200 OK\r\n" + hs + b"\r\n" + body
                    for parts in ([s], [s[:30], s[30:]], [s[:len(s) - len(body)], body] if body else [s[:-2], s[-2:]]):
                        ctx.add("resp", [dels(parts)], declared=declared, supplied=len(body), presented=len(s))

    def project(self, ctx, cid, canon):
        return canon_no_category(canon)

    def relations(self, ctx, impl):
        for cid, (canon, diag) in impl.items():
            if canon == "ABORT":
                yield [cid], "process abort (allocation failure) while parsing"
                continue
            d = fields_of(diag)
            if "amax" not in d:
                continue
            presented = int(d.get("presented", ctx.meta[cid].get("presented", 0)))
            amax, apeak = int(d["amax"]), int(d["apeak"])
            if amax > 4096 + 8 * presented or apeak > 16384 + 24 * presented:
                yield [cid], (f"allocation out of proportion: largest request {amax}, peak {apeak}, "
                              f"presented {presented}, declared {ctx.meta[cid].get('declared')}")


def measure_request(s):
    """element lengths of a request as the crate defines them, computed independently"""
    i = s.find(CRLF)
    if i < 0:
        return None
    lines, pos = [], i + 2
    while True:
        j = s.find(CRLF, pos)
        if j < 0:
            return None
        lines.append((s[pos:j], j - pos + 2))
        pos = j + 2
        if j == pos - 2 and lines[-1][1] == 2:
            break
    return {"line": i, "lines": lines, "head": pos}


class C08(Prop):
    id = "C08"
    spec_type = True
    profiles = ("debug", "release")

    def gen(self, ctx):
        rng = ctx.rng
        ctx.add("defaults", [])
        for s, meta in req_streams(ctx, ctx.n(250, 2500), p_odd=0.03, mutate_frac=0.1):
            for trip in G.limit_triples(rng, meta, ctx.n(5, 10)):
                parts = rng.choice(G.schedules(rng, s, 2)) if rng.random() < 0.4 else [s]
                ctx.add("req", list(trip) + [dels(parts)], stream=s, trip=trip, parts=parts)
            for trip, parts in exact_limit_cuts(ctx, s):
                ctx.add("req", list(trip) + [dels(parts)], stream=s, trip=trip, parts=parts)
            # None disables exactly that limit: compare with the largest Some (a declared length can exceed
            # any smaller 'huge' value, e.g. Content-Length: 2^64-1 against 10^9 -- a false alarm of an earlier version)
            if rng.random() < 0.3:
                base = list(rng.choice(G.limit_triples(rng, meta, 3)))
                k = rng.randrange(3)
                a, b = list(base), list(base)
                a[k], b[k] = "-", "18446744073709551615"      # usize::MAX: a limit nothing representable exceeds
                g = ("none", s, tuple(base), k)
                ctx.add("req", a + [dels([s])], group=g, stream=s, trip=tuple(a), parts=[s])
                ctx.add("req", b + [dels([s])], group=g, stream=s, trip=tuple(b), parts=[s])
        # Request::default() carries the documented limits like Request::new()
        for L in (998, 1000, 1001, 1002, 5000):
            for s in (b"GET /" + b"a" * (L - 14) + b" HTTP/1.1\r\n\r\n", b"GET / HTTP/1.1\r\nX: " + b"v" * (L - 5) + b"\r\n\r\n"):
                for parts in ([s], [s[:700], s[700:]]):
                    ctx.add("reqd", ["d", "d", "d", dels(parts)], stream=s, trip=("d", "d", "d"), parts=parts)
        for n in (9999900, 10000001, 2 ** 64 - 1):
            s = b"POST / HTTP/1.1\r\nContent-Length: %d\r\n\r\n" % n
            ctx.add("reqd", ["d", "d", "d", dels([s])], stream=s, trip=("d", "d", "d"), parts=[s])
        # a Transfer-Encoding field beside the declared length (either order, any spelling): the declared body still
        # counts against the maximum
        for te in (b"Transfer-Encoding: chunked\r\n", b"transfer-encoding: gzip\r\n", b"TRANSFER-ENCODING: identity\r\n"):
            for n in (5, 1000, 10 ** 7, 2 * 10 ** 7, 2 ** 64 - 1):
                for order in (0, 1):
                    cl = b"Content-Length: %d\r\n" % n
                    s = b"POST / HTTP/1.1\r\n" + (te + cl if order else cl + te) + b"\r\nhello"
                    for mm in ("d", "-", "100", str(len(s) - 5 + n - 1), str(len(s) - 5 + n)):
                        if int(mm) < 2 ** 64 if mm.isdigit() else True:
                            ctx.add("req", ["d", "d", mm, dels([s])], stream=s, trip=("d", "d", mm), parts=[s])
        # no request-line limit: a request line of 65535 .. 65537 and 200000 bytes is a request line like any other
        for L in (65535, 65536, 65537, 200000):
            line = b"GET /" + b"a" * (L - 14) + b" HTTP/1.1"
            s = line + b"\r\nHost: a\r\n\r\n"
            for trip in (("-", "d", "d"), ("-", "-", "-"), ("100000", "d", "d"), ("-", "d", str(len(s))), ("-", "d", str(len(s) - 1))):
                for parts in ([s], [s[:40000], s[40000:]], [s[:L], s[L:]]):
                    ctx.add("req", list(trip) + [dels(parts)], stream=s, trip=trip, parts=parts)
        # enormous declared lengths against each maximum
        for n in EXTREMES:
            for mm in ("d", "100", "18446744073709551615", "18446744073709551614") + tuple(str(x) for x in (max(0, n + 39), n + 40, n + 41) if x < 2 ** 64):
                s = b"POST / HTTP/1.1\r\nContent-Length: %d\r\n\r\n" % n
                ctx.add("req", ["d", "d", mm, dels([s])], stream=s, trip=("d", "d", mm), parts=[s])
        # unbounded Incomplete: unterminated elements growing past the maximum
        for mm in (50, 200):
            for k in (mm - 1, mm, mm + 1, mm + 30):
                for s in (b"G" * k, b"GET / HTTP/1.1\r\nA: b\r\n" + b"c" * k, b"GET / HTTP/1.1\r\n" + b"c" * k,
                          b"GET / HTTP/1.1\r\nA: b\r\n " + b"c" * k):
                    for rl, hl in (("-", "-"), ("d", "d"), ("-", "d")):
                        ctx.add("req", [rl, hl, str(mm), dels([s])], stream=s, trip=(rl, hl, str(mm)), parts=[s])
                        ctx.add("req", [rl, hl, str(mm), dels([s[:10], s[10:]])], stream=s, trip=(rl, hl, str(mm)), parts=[s[:10], s[10:]])
        # K1 witness class: long folded continuation line
        for k in (5, 20):
            s = b"GET / HTTP/1.1\r\nA: b\r\n " + b"c" * k + b"\r\n\r\n"
            ctx.add("req", ["d", "11", "d", dels([s])], stream=s, trip=("d", "11", "d"), parts=[s])

    def relations(self, ctx, impl):
        dflt = {"rl": 1000, "hl": 1000, "mm": 10000000}
        for cid, m in ctx.meta.items():
            canon = impl[cid][0]
            if m["kind"] == "defaults":
                if canon != "rl=Some(1000);hl=Some(1000);mm=Some(10000000)":
                    yield [cid], f"default limits are {canon}"
                continue
            f = fields_of(canon)
            trip = m["trip"]
            lims = {}
            for k, v in zip(("rl", "hl", "mm"), trip):
                lims[k] = None if v == "-" else dflt[k] if v == "d" else int(v)
            if f.get("v") == "C":
                ms = measure_request(m["stream"])
                if ms is None:
                    yield [cid], "accepted but no complete head found by the independent measure"
                    continue
                if lims["rl"] is not None and ms["line"] > lims["rl"]:
                    yield [cid], f"accepted with request line {ms['line']} > limit {lims['rl']}"
                if lims["hl"] is not None:
                    for text, ln in ms["lines"]:
                        if ln > lims["hl"]:
                            yield [cid], f"accepted with header line of {ln} bytes > limit {lims['hl']} (continuation={text[:1] in (b' ', chr(9).encode())})"
                            break
                if lims["mm"] is not None and int(f["tot"]) > lims["mm"]:
                    yield [cid], f"accepted with total {f['tot']} > max {lims['mm']}"
            elif f.get("v") == "N":
                ncalls = len(f["tr"].split(","))
                presented = sum(len(p) for p in m["parts"][:ncalls])
                if lims["mm"] is not None and presented > lims["mm"]:
                    yield [cid], f"more input requested although {presented} bytes presented > max {lims['mm']}"
        for g, ids in ctx.groups.items():
            if g[0] == "none" and len(m_stream := ctx.meta[ids[0]]["stream"]) < 10 ** 9:
                a, b = impl[ids[0]][0], impl[ids[1]][0]
                if a != b:
                    yield ids, f"None differs from a huge limit: {a[:150]} vs {b[:150]}"

    def known(self, ctx, cid, msg):
        if "continuation=True" in msg:
            return "K1"
        return None


SUFFIXES = [b"\r\n", b" ", b"\t", b"  x", b"5", b"ff", b"0\r\n\r\n", b"GET / HTTP/1.1\r\n\r\n", b"HTTP/1.1 200 OK\r\n\r\n",
            b"\r", b"\n", b"\x00", b"\xff", b"Content-Length: 5\r\n\r\n", b": x\r\n", b"GET", b"X" * 50]


class C09(Prop):
    id = "C09"

    def gen(self, ctx):
        rng = ctx.rng
        # a fixed-length body followed by 9 999 .. 70 000 further bytes in the same call: all of them are kept, in order
        for n in (9999, 10000, 10001, 70000):
            s = b"HTTP/1.1 200 OK\r\nContent-Length: 5\r\n\r\nhello"
            tail = bytes(rng.randrange(256) for _ in range(n))
            g = ("sfx", "resp", s, n)
            ctx.add("resp", [dels([s])], group=g, base=True, stream=s)
            ctx.add("resp", [dels([s + tail])], group=g, sfx=tail, stream=s)
            ctx.add("resp", [dels([s[:30], s[30:] + tail])], group=g, sfx=tail, stream=s)
        for s, meta in req_streams(ctx, ctx.n(300, 3000), p_odd=0.02, mutate_frac=0.1):
            g = ("sfx", "req", s)
            ctx.add("req", ["d", "d", "d", dels([s])], group=g, base=True, stream=s)
            for sfx in rng.sample(SUFFIXES, 3) + [bytes(rng.randrange(256) for _ in range(rng.randint(1, 9)))]:
                ctx.add("req", ["d", "d", "d", dels([s + sfx])], group=g, sfx=sfx, stream=s)
        for s, meta in req_streams(ctx, ctx.n(200, 2000), p_odd=0.0, mutate_frac=0.0):
            # (a) the message arrives in pieces, the suffix rides on the completing delivery
            g = ("sfx", "req", s, "split")
            ctx.add("req", ["d", "d", "d", dels([s])], group=g, base=True, stream=s)
            for _ in range(3):
                sfx = rng.choice(SUFFIXES)
                cuts = sorted(rng.sample(range(1, len(s)), min(len(s) - 1, rng.randint(1, 3)))) if len(s) > 1 else []
                if meta["body"] > 1 and rng.random() < 0.7:
                    cuts = sorted(set(cuts + [meta["head"] + rng.randrange(1, meta["body"])]))
                ctx.add("req", ["d", "d", "d", dels(G.cut_at(s + sfx, cuts))], group=g, sfx=sfx, stream=s)
            # (b) a maximum message size equal to this message's size: bytes after it are not its business
            tot = str(meta["head"] + meta["body"])
            g = ("sfx", "req", s, "mm")
            ctx.add("req", ["d", "d", tot, dels([s])], group=g, base=True, stream=s)
            for sfx in rng.sample(SUFFIXES, 2) + [G.gen_request(rng, 0.0)[0]]:
                ctx.add("req", ["d", "d", tot, dels([s + sfx])], group=g, sfx=sfx, stream=s)
            msgs = [s, G.gen_request(rng, 0.0)[0]]
            big = str(max(len(m) for m in msgs))
            ids = [ctx.add("req", ["d", "d", big, dels([m])], stream=m) for m in msgs]
            ctx.add("pipereq", ["d", "d", big, hx(b"".join(msgs))], singles=ids, msgs=msgs)
        for s, meta in resp_streams(ctx, ctx.n(150, 1500), p_odd=0.0, mutate_frac=0.0):
            g = ("sfx", "resp", s, "split")
            ctx.add("resp", [dels([s])], group=g, base=True, stream=s)
            for _ in range(3):
                sfx = rng.choice(SUFFIXES)
                cuts = sorted(rng.sample(range(1, len(s)), min(len(s) - 1, rng.randint(1, 3)))) if len(s) > 1 else []
                ctx.add("resp", [dels(G.cut_at(s + sfx, cuts))], group=g, sfx=sfx, stream=s, split=True)
        # a lone CR right before the CRLF that ends a line found by the crate's own line scanner
        for s in (b"HTTP/1.1 200 OK\r\r\n\r\n", b"HTTP/1.1 200 OK\r\r\nA: b\r\n\r\n", b"HTTP/1.1 200 \r\r\n\r\n",
                  b"HTTP/1.1 200 OK\r\nTransfer-Encoding: chunked\r\n\r\n0;x\r\r\n\r\n",
                  b"HTTP/1.1 200 OK\r\nTransfer-Encoding: chunked\r\n\r\n1;y\r\r\na\r\n0\r\n\r\n",
                  b"HTTP/1.1 200 OK\r\r\nContent-Length: 1\r\n\r\na"):
            g = ("sfx", "resp", s)
            ctx.add("resp", [dels([s])], group=g, base=True, stream=s)
            for sfx in SUFFIXES[:6] + [b"X-Leak: 1\r\n\r\n", b"HTTP/1.1 200 OK\r\n\r\n"]:
                ctx.add("resp", [dels([s + sfx])], group=g, sfx=sfx, stream=s)
        # connection-management headers and interim / body-less status codes must not move the boundary
        for code in (b"200", b"100", b"101", b"102", b"199", b"204", b"304", b"0"):
            for hs in (b"", b"Connection: close\r\n", b"connection: Close\r\n", b"Connection: keep-alive, close\r\n",
                       b"Connection: Upgrade\r\nUpgrade: websocket\r\n", b"Connection: close\r\nContent-Length: 3\r\n\r\nabc"[:-7],
                       b"Proxy-Connection: close\r\n", b"Content-Type: multipart/byteranges\r\n"):
                s = b"HTTP/1.1 " + code + b" X\r\n" + hs + b"\r\n"
                if b"Content-Length: 3" in hs:
                    s += b"abc"
                g = ("sfx", "resp", s)
                ctx.add("resp", [dels([s])], group=g, base=True, stream=s)
                for sfx in rng.sample(SUFFIXES, 3) + [b"HTTP/1.1 200 OK\r\n\r\n", b"x"]:
                    ctx.add("resp", [dels([s + sfx])], group=g, sfx=sfx, stream=s)
        for s, meta in resp_streams(ctx, ctx.n(300, 3000), p_odd=0.02, mutate_frac=0.1):
            g = ("sfx", "resp", s)
            ctx.add("resp", [dels([s])], group=g, base=True, stream=s)
            for sfx in rng.sample(SUFFIXES, 3) + [bytes(rng.randrange(256) for _ in range(rng.randint(1, 9)))]:
                ctx.add("resp", [dels([s + sfx])], group=g, sfx=sfx, stream=s)
        # pipelines
        for _ in range(ctx.n(150, 1500)):
            k = rng.randint(2, 5)
            if rng.random() < 0.5:
                msgs = [G.gen_request(rng, 0.0)[0] for _ in range(k)]
                ids = [ctx.add("req", ["d", "d", "d", dels([m])], stream=m) for m in msgs]
                ctx.add("pipereq", ["d", "d", "d", hx(b"".join(msgs))], singles=ids, msgs=msgs)
            else:
                msgs = [G.gen_response(rng, 0.0, framing=rng.choice(["cl", "chunked", "none"]))[0] for _ in range(k)]
                ids = [ctx.add("resp", [dels([m])], stream=m) for m in msgs]
                ctx.add("piperesp", [hx(b"".join(msgs))], singles=ids, msgs=msgs)

    def project(self, ctx, cid, canon):
        return canon_no_category(canon) if ctx.meta[cid]["kind"] in ("req", "resp") else canon

    def relations(self, ctx, impl):
        for g, ids in ctx.groups.items():
            base = fields_of(impl[ids[0]][0])
            if base.get("v") != "C":
                # the parse of a completed message depends only on the bytes it consumed: if a
                # longer buffer completes exactly at the end of this stream, so must the stream
                for cid in ids[1:]:
                    f = fields_of(impl[cid][0])
                    if "sfx" not in ctx.meta[cid]:
                        continue
                    if f.get("v") == "C" and len(f["tr"].split(",")) == 1:
                        b2 = int(f["tot"]) if g[1] == "req" else resp_boundary(f)
                        if b2 == len(g[2]) and len(impl[ids[0]][0].split("tr=")[1].split(";")[0].split(",")) == 1:
                            yield [ids[0], cid], (f"the message completes at its own end when followed by "
                                                  f"{ctx.meta[cid]['sfx']!r} but not alone: {impl[ids[0]][0][:100]}")
                            break
                continue
            kind = g[1]
            s = g[2]
            bd = int(base["tot"]) if kind == "req" else resp_boundary(base)
            if bd != len(s) and kind == "req":
                pass    # the stream already carried extra bytes; still a valid base
            for cid in ids[1:]:
                f = fields_of(impl[cid][0])
                if "sfx" not in ctx.meta[cid]:
                    continue
                sfx = ctx.meta[cid]["sfx"]
                ok = f.get("v") == "C"
                if ok and kind == "req":
                    ok = f["tot"] == base["tot"] and all(f.get(k) == base.get(k) for k in ("m", "t", "h", "b"))
                elif ok:
                    ok = resp_boundary(f) == bd and all(f.get(k) == base.get(k) for k in ("code", "r", "h", "b"))
                    if ok and f.get("x", "") != base.get("x", ""):
                        # FixedBody: the suffix must be the continuation of the trailing data, verbatim
                        # (when the message arrived in pieces only the part delivered with the
                        # completing call is present)
                        want = bytes.fromhex(base.get("x", "")) + sfx
                        got = bytes.fromhex(f["x"])
                        ok = got == want or (ctx.meta[cid].get("split") and want.startswith(got))
                if not ok:
                    yield [ids[0], cid], f"suffix {sfx!r} changed the parse: {impl[ids[0]][0][:150]} vs {impl[cid][0][:150]}"
        for cid, m in ctx.meta.items():
            if m["kind"] in ("pipereq", "piperesp"):
                got = impl[cid][0].split("|")
                off = 0
                for i, (sid, msg) in enumerate(zip(m["singles"], m["msgs"])):
                    single = fields_of(impl[sid][0])
                    if single.get("v") != "C":
                        break
                    keys = ("m", "t", "h", "b") if m["kind"] == "pipereq" else ("code", "r", "h", "b")
                    sb = int(single["tot"]) if m["kind"] == "pipereq" else resp_boundary(single)
                    if i >= len(got) or not got[i].startswith("C"):
                        yield [cid, sid], f"pipeline message {i} not recovered: {got[i] if i < len(got) else 'missing'}"
                        break
                    head, rest = got[i].split(":", 1)
                    pf = fields_of(rest)
                    if int(head[1:]) != sb or any(pf.get(k) != single.get(k) for k in keys):
                        yield [cid, sid], f"pipeline message {i} differs from the message parsed alone"
                        break
                    if sb != len(msg):
                        break


def wf_request_value(rng):
    meth = rng.choice(G.METHODS_OK)
    target = rng.choice(G.TARGETS_OK + [b"http://[::FFFF:1.2.3.4]/"] if rng.random() < 0.03 else G.TARGETS_OK)
    hs = []
    for _ in range(rng.randint(0, 4)):
        n = rng.choice(G.NAMES_OK + [b"X-Dup"])
        v = rng.choice(G.VALUES_OK).strip(b" \t")
        if n.lower() in (b"content-length", b"transfer-encoding", b"trailer"):
            continue
        hs.append((n, v))
    body = G.gen_body(rng)
    if body or rng.random() < 0.3:
        hs.insert(rng.randint(0, len(hs)), (rng.choice(G.CL_NAMES), b"%d" % len(body)))
    return meth, target, hs, body


def is_k2_target(t):
    i = t.find(b"[")
    j = t.find(b"]", i)
    return i >= 0 and j > i and any(65 <= c <= 70 for c in t[i:j])


def is_k3_target(t):
    # a '%' not followed by two hex digits
    i = 0
    while i < len(t):
        if t[i] == 37:
            if i + 2 >= len(t) + 0 and not (i + 2 < len(t) + 1 and len(t) >= i + 3):
                return True
            hh = t[i + 1:i + 3]
            if len(hh) < 2 or any(c not in b"0123456789abcdefABCDEF" for c in hh):
                return True
            i += 3
        else:
            i += 1
    return False


class C10(Prop):
    id = "C10"

    def gen(self, ctx):
        rng = ctx.rng
        # the witness of known finding K2, every run
        for t in (b"http://[::FFFF:1.2.3.4]/", b"http://[FE80::1]/x"):
            ctx.add("genreq", ["d", "d", "d", hx(b"GET"), hx(t), hdrs_spec([]), hx(b"")], target=t, wf=True)
        for _ in range(ctx.n(600, 6000)):
            meth, target, hs, body = wf_request_value(rng)
            cut = rng.choice(["-", "-", "cr", str(rng.randrange(0, 400))])
            ctx.add("genreq", ["d", "d", "d", hx(meth), hx(target), hdrs_spec(hs), hx(body), cut], target=target, wf=True)
        # well-formed values whose request line is 998 .. 1000 bytes long (the default limit), parsed back whole and cut
        for L in (998, 999, 1000):
            meth = rng.choice([b"GET", b"POST", b"OPTIONS"])
            target = b"/" + b"a" * (L - len(meth) - 11)
            for cut in ("-", "cr", str(L), str(L + 1), str(L - 1), str(rng.randrange(1, L))):
                ctx.add("genreq", ["d", "d", "d", hx(meth), hx(target), hdrs_spec([(b"Host", b"a")]), hx(b""), cut], target=target, wf=True)
        # responses have no header line limit: a header value of 986 .. 3000 characters without white space is generated
        # on one line and parsed back
        for L in (986, 987, 1000, 1500, 3000):
            hs = [(b"Set-Cookie", b"v" * L), (b"Content-Length", b"0")]
            ctx.add("genresp", [200, hx(b"OK"), hdrs_spec(hs), hx(b""), "-"], wf=True)
        # a value whose generated size is exactly the maximum message size (or one below it), parsed back in two
        # deliveries cut at the end of the headers, inside the body, before its last byte
        for _ in range(ctx.n(60, 600)):
            meth, target = rng.choice([b"POST", b"PUT"]), rng.choice([b"/", b"/submit", b"/a/b?c=d"])
            body = G.gen_body(rng, 30) or b"x"
            hs = [(b"Host", b"a")] * rng.randint(0, 1) + [(rng.choice(G.CL_NAMES), b"%d" % len(body))]
            head = len(meth) + 1 + len(target) + 1 + 8 + 2 + sum(len(n) + 2 + len(v) + 2 for n, v in hs) + 2
            total = head + len(body)
            for mm in (total, total + 1):
                for cut in {head, head + 1, total - 1, rng.randrange(1, total)}:
                    ctx.add("genreq", ["d", "d", str(mm), hx(meth), hx(target), hdrs_spec(hs), hx(body), str(cut)], target=target, wf=True)
        for _ in range(ctx.n(600, 6000)):
            _, _, hs, body = wf_request_value(rng)
            if not any(n.lower() == b"content-length" for n, _ in hs):
                hs.append((b"Content-Length", b"0"))
            if rng.random() < 0.25:
                # Content-Length decides the framing even when a chunked transfer coding is listed
                hs.insert(rng.randint(0, len(hs)), (rng.choice(G.TE_NAMES), rng.choice(G.TE_VALUES).strip(b" \t")))
                if rng.random() < 0.5:
                    body = G.gen_chunked(rng, 0.0)[0]
                    hs = [(n, v) for n, v in hs if n.lower() != b"content-length"] + [(b"Content-Length", b"%d" % len(body))]
            code = rng.choice([0, 1, 7, 99, 100, 101, 199, 200, 204, 205, 304, 404, 599, 999])
            reason = rng.choice(G.REASONS)
            cut = rng.choice(["-", "-", "cr", str(rng.randrange(0, 400))])
            ctx.add("genresp", [code, hx(reason), hdrs_spec(hs), hx(body), cut], wf=True)

    def relations(self, ctx, impl):
        for cid, m in ctx.meta.items():
            canon = impl[cid][0]
            if canon.startswith("skip"):
                continue
            if not canon.startswith("gen="):
                yield [cid], f"generate failed on a well-formed value: {canon[:100]}"
                continue
            gen, rest = canon[4:].split(";", 1)
            orig, back = rest.split(";back=", 1)
            orig = orig[len("orig="):]
            if not back.startswith(f"C{len(gen) // 2};"):
                yield [cid], f"generated message not accepted as exactly one message: {back[:120]}"
                continue
            body, regen = back.split(";", 1)[1].rsplit(";regen=", 1)
            if body != orig:
                yield [cid], f"parsed value differs from the original: {orig[:150]} vs {body[:150]}"
            elif regen != gen:
                yield [cid], "regenerated bytes differ"

    def known(self, ctx, cid, msg):
        t = ctx.meta[cid].get("target", b"")
        if is_k2_target(t):
            return "K2"
        return None


class C11(Prop):
    id = "C11"

    def gen(self, ctx):
        rng = ctx.rng
        # the witnesses of known findings K2 and K3, every run
        for t in (b"http://[::FFFF:1.2.3.4]/", b"/%", b"/%4", b"/%/x"):
            s = b"GET " + t + b" HTTP/1.1\r\n\r\n"
            ctx.add("rtreq", ["d", "d", "d", hx(s)], stream=s)
        # the witnesses of known finding K6, every run: a 1000-byte header line without whitespace (re-serialised
        # with a space after the colon it no longer fits and cannot be folded); a value whose last place to split
        # is a tab
        for s in (b"GET / HTTP/1.1\r\nX:" + b"v" * 996 + b"\r\n\r\n",
                  b"GET / HTTP/1.1\r\nX: " + b"a" * 500 + b"\r\n " + b"b" * 400 + b"\t" + b"c" * 200 + b"\r\n\r\n"):
            ctx.add("rtreq", ["d", "d", "d", hx(s)], stream=s)
        # the public `body` field already holds bytes when the chunked response is parsed -- set by the
        # caller, or left by an earlier message that was abandoned: an accepted chunked response replaces them
        for _ in range(ctx.n(60, 600)):
            m = G.gen_response(rng, 0.0, framing="chunked")[0]     # (a preset body beside a declared length is the caller breaking the parser's invariant: out of scope)
            ctx.add("resppre", [hx(rng.choice([b"STALE!", b"x", b"0123456789" * 3])), dels(rng.choice(G.schedules(rng, m, 2)))])
        # header values of 1500 and 2700 bytes that arrive folded at single spaces: generate() folds them again and the
        # re-parse gives the same message (C11_folded_headers_parse_back)
        for words in (3, 5):
            v = b" ".join(bytes([97 + i]) * 520 for i in range(words))
            folded = v.replace(b" ", b"\r\n ")
            s = b"GET / HTTP/1.1\r\nX-Long: " + folded + b"\r\nHost: a\r\n\r\n"
            ctx.add("rtreq", ["d", "d", "d", hx(s)], stream=s)
            ctx.add("rtreq", ["d", "d", "d", hx(s), "cr"], stream=s)
        def sched(s):
            # how the first parse receives the input: one call, or deliveries (often many small ones, so that
            # bodies and chunked bodies arrive in three and more pieces)
            r = rng.random()
            if r < 0.5 or len(s) < 2:
                return "-"
            if r < 0.65:
                step = rng.choice([1, 1, 2, 3, 7])
                return dels([s[i:i + step] for i in range(0, len(s), step)])
            return dels(G.cut_at(s, sorted(rng.sample(range(1, len(s)), min(len(s) - 1, rng.randint(2, 5))))))
        for s, meta in req_streams(ctx, ctx.n(800, 8000), p_odd=0.05, mutate_frac=0.3):
            ctx.add("rtreq", ["d", "d", "d", hx(s), rng.choice(["-", "-", "cr", str(rng.randrange(0, 300))]), sched(s)], stream=s)
        for s, meta in resp_streams(ctx, ctx.n(800, 8000), p_odd=0.05, mutate_frac=0.3):
            ctx.add("rtresp", [hx(s), rng.choice(["-", "-", "cr", str(rng.randrange(0, 300))]), sched(s)], stream=s)

    def nontrivial(self, ctx, cid, canon):
        return canon.startswith("first=")

    def relations(self, ctx, impl):
        for cid, m in ctx.meta.items():
            canon = impl[cid][0]
            if not canon.startswith("first="):
                continue
            needs_fold = False
            if m["kind"] == "rtreq":
                # does a re-serialised header line (`name: value`) exceed the line limit minus 2, so that generate()
                # has to fold it?  (known finding K6: folding fails when the value offers no place to split, and a
                # fold at a tab is read back as a space)
                lim = {"d": 1000, "-": None}.get(m["args"][1], None if not m["args"][1].isdigit() else int(m["args"][1]))
                hf = fields_of(canon[len("first="):].split(";gen", 1)[0]).get("h", "-")
                if lim is not None and hf not in ("-", ""):
                    needs_fold = any(len(nv.split(":")[0]) // 2 + 2 + len(nv.split(":")[1]) // 2 + 2 > lim for nv in hf.split(","))
            m["needs_fold"] = needs_fold
            if ";generr:" in canon:
                yield [cid], f"an accepted message cannot be re-serialised: generate() fails ({canon.split(';generr:', 1)[1][:60]})"
                continue
            first, rest = canon[len("first="):].split(";gen=", 1)
            gen, back = rest.split(";back=", 1)
            if not back.startswith(f"C{len(gen) // 2};"):
                yield [cid], f"re-serialised message is not accepted whole: {back[:120]}"
                continue
            bf = back.split(";", 1)[1]
            if ";x=" in first:
                first, bf = first.rsplit(";x=", 1)[0], bf.rsplit(";x=", 1)[0]
            if bf != first:
                fa, fb = fields_of(first), fields_of(bf)
                m["only_headers_differ"] = all(fa.get(k) == fb.get(k) for k in set(fa) | set(fb) if k != "h")
                yield [cid], f"re-parsed message differs: {first[:150]} vs {bf[:150]}"

    def known(self, ctx, cid, msg):
        s = ctx.meta[cid].get("stream", b"")
        line = s.split(b"\r\n", 1)[0].split(b" ")
        if len(line) >= 2:
            if is_k2_target(line[1]):
                return "K2"
            if is_k3_target(line[1]):
                return "K3"
        if ctx.meta[cid].get("needs_fold") and (msg.startswith("an accepted message cannot be re-serialised: generate() fails (Headers.CouldNotBeFolded")
                                               or (msg.startswith("re-parsed message differs") and ctx.meta[cid].get("only_headers_differ"))):
            return "K6"
        return None


def tokens_ref(v):
    """split_terminator(',') / trim / lower of a header value (ASCII)"""
    parts = v.split(b",")
    if parts and parts[-1] == b"":
        parts = parts[:-1]
    return [p.strip(b" \t").lower() for p in parts]


class C12(Prop):
    id = "C12"
    spec_type = True

    def gen(self, ctx):
        rng = ctx.rng
        # the public `body` field already holds bytes when the chunked response is parsed (set by the caller, or left by
        # an abandoned message): the decoded body replaces them and Content-Length describes the decoded body
        for _ in range(ctx.n(60, 600)):
            m = G.gen_response(rng, 0.0, framing="chunked")[0]
            ctx.add("resppre", [hx(rng.choice([b"STALE!", b"x", b"0123456789" * 3])), dels(rng.choice(G.schedules(rng, m, 2)))])
        # trailer sections of 31 .. 40 and 100 fields (some of them framing fields): every other one is appended
        for nt in (31, 32, 33, 34, 40, 100):
            H = [(b"Host", b"a"), (b"Transfer-Encoding", b"chunked")]
            T = [(b"X-T%d" % i, b"v%d" % i) if i % 7 else rng.choice([(b"Content-Length", b"9"), (b"trailer", b"z"), (b"X-Seven", b"7")]) for i in range(nt)]
            payload = b"hello"
            s = b"HTTP/1.1 200 OK\r\n" + G.block([n + b": " + v for n, v in H]) + b"5\r\nhello\r\n0\r\n" + G.block([n + b": " + v for n, v in T])
            ctx.add("resp", [dels([s])], H=H, T=T, payload=payload)
            ctx.add("resp", [dels([s[:60], s[60:200], s[200:]])], H=H, T=T, payload=payload)
        for _ in range(ctx.n(1200, 12000)):
            H = []
            for _ in range(rng.randint(0, 4)):
                H.append((rng.choice(G.NAMES_OK + [b"X-Dup", b"x-dup"]), rng.choice(G.VALUES_OK).strip(b" \t")))
            H = [(n, v) for n, v in H if n.lower() not in (b"content-length", b"transfer-encoding")]
            others = rng.choice([[], [b"gzip"], [b"gzip", b"deflate"], [b"x"], [b"GZip", b"identity"], [b""], [b"a", b""]])
            toks = others + [rng.choice([b"chunked", b"Chunked", b"CHUNKED"])]
            if rng.random() < 0.15:
                toks += [b""] * rng.randint(1, 2)        # trailing empty list elements
            # spread the tokens over one or more Transfer-Encoding headers
            cutpoints = sorted(rng.sample(range(1, len(toks)), rng.randint(0, min(2, len(toks) - 1)))) if len(toks) > 1 else []
            pieces, start = [], 0
            for c in cutpoints + [len(toks)]:
                pieces.append(toks[start:c])
                start = c
            for piece in pieces:
                sep = rng.choice([b",", b", ", b" ,\t"])
                val = sep.join(piece)
                if piece and piece[-1] == b"" and len(piece) > 0:
                    val = sep.join(piece[:-1]) + b"," if len(piece) > 1 else b","
                H.insert(rng.randint(0, len(H)), (rng.choice(G.TE_NAMES), val))
            if rng.random() < 0.5:
                H.insert(rng.randint(0, len(H)), (rng.choice([b"Trailer", b"trailer"]), b"X-T"))
            T = []
            for _ in range(rng.randint(0, 3)):
                T.append(rng.choice([(b"X-T", b"1"), (b"Content-Length", b"999"), (b"content-length", b"1"),
                                     (b"Transfer-Encoding", b"gzip"), (b"TRANSFER-ENCODING", b"chunked"),
                                     (b"Trailer", b"y"), (b"X-Dup", b"t"), (b"Host", b"evil"), (b"Content-Type", b"a/b")]))
            payload = G.gen_body(rng, 20)
            enc = b""
            i = 0
            while i < len(payload):
                n = rng.randint(1, len(payload) - i)
                enc += b"%x\r\n" % n + payload[i:i + n] + b"\r\n"
                i += n
            enc += b"0\r\n" + G.block([n + b": " + v for n, v in T])
            s = rng.choice(G.STATUS_LINES) + b"\r\n" + G.block([n + b": " + v for n, v in H]) + enc
            parts = [s] if rng.random() < 0.6 else rng.choice(G.schedules(rng, s, 3)[1:])
            ctx.add("resp", [dels(parts)], H=H, T=T, payload=payload)

    def project(self, ctx, cid, canon):
        f = fields_of(canon)
        if f.get("v") == "C":
            return f"v=C;h={f['h']};b={f['b']}"
        return "v=" + f.get("v", "?")[:1]

    def relations(self, ctx, impl):
        for cid, m in ctx.meta.items():
            if "H" not in m:
                continue
            f = fields_of(impl[cid][0])
            H, T, payload = m["H"], m["T"], m["payload"]
            orig_tokens = [t for n, v in H if n.lower() == b"transfer-encoding" for t in tokens_ref(v)]
            nonempty = [t for t in orig_tokens if t]
            if not nonempty or nonempty[-1] != b"chunked":
                continue
            if f.get("v") != "C":
                yield [cid], f"chunked response not accepted: {impl[cid][0][:100]}"
                continue
            final = [] if f["h"] == "-" else [tuple(bytes.fromhex(x) for x in nv.split(":")) for nv in f["h"].split(",")]
            cls = [v for n, v in final if n.lower() == b"content-length"]
            if cls != [b"%d" % len(payload)] or bytes.fromhex(f["b"]) != payload:
                yield [cid], f"Content-Length after de-chunking is {cls}, body length {len(payload)}"
                continue
            te = [t for n, v in final if n.lower() == b"transfer-encoding" for t in tokens_ref(v)]
            if te != nonempty[:-1] or (not nonempty[:-1] and any(n.lower() == b"transfer-encoding" for n, _ in final)):
                yield [cid], f"Transfer-Encoding after de-chunking lists {te}, expected {nonempty[:-1]}"
                continue
            if any(n.lower() == b"trailer" for n, _ in final):
                yield [cid], "Trailer header still present"
                continue
            framing = (b"content-length", b"transfer-encoding", b"trailer")
            others = [(n, v) for n, v in final if n.lower() not in framing]
            exp = [(n, v) for n, v in H if n.lower() not in framing] + [(n, v) for n, v in T if n.lower() not in framing]
            if others != exp:
                yield [cid], f"other headers changed: {others} expected {exp}"


def add_decode_case(ctx, damaged=False, stack_only=False):
    rng = ctx.rng
    plain = G.gen_plain(rng, big=ctx.thorough and rng.random() < 0.1)
    if rng.random() < 0.12:
        # the representation is itself a compressed file (a .gz, a zlib or bare deflate stream): it must come
        # back as it is, with exactly the listed codings undone and no more
        plain = G.CODERS[rng.choice(["gzip", "gzip", "zlib", "raw"])](rng, plain[:2000])
    depth = rng.randint(1, 3)
    stack = [rng.choice(["gzip", "zlib", "raw"]) for _ in range(depth)]
    data = plain
    for c in stack:
        data = G.CODERS[c](rng, data)
    toks = [G.spell_token(rng, G.TOKEN_OF[c]) for c in stack]
    unknown_at = None
    if not stack_only and rng.random() < 0.3:
        unknown_at = rng.randint(0, len(toks))
        toks.insert(unknown_at, rng.choice(["identity", "br", "x-gzip", "", "gzipp", "compress", " "]))
    hs = []
    for _ in range(rng.randint(0, 2)):
        hs.append((rng.choice(["X-A", "Content-Type", "Content-Length", "content-length", "Host", "Transfer-Encoding", "transfer-encoding", "Trailer",
                               "Content-MD5", "Digest", "ETag", "Content-Range", "Vary", "Content-Location", "content-md5", "Set-Cookie",
                               "Content-Encoding-X", "X-Content-Encoding", "Accept-Encoding", "Last-Modified", "Content-Language"]),
                   rng.choice(["1", "text/plain", "zz", "foobar", "gzip", "application/gzip", "application/x-gzip", "Application/GZIP; x=1",
                               "application/x-gunzip", "application/zlib", "application/octet-stream", "\"abc\"", "W/\"x\"", "Q2hlY2sgSW50ZWdyaXR5IQ==", "bytes 0-4/10", "Accept-Encoding"])))
    # spread tokens over one or two Content-Encoding headers
    if len(toks) > 1 and rng.random() < 0.3:
        k = rng.randint(1, len(toks) - 1)
        hs.insert(rng.randint(0, len(hs)), (G.case_perm(rng, b"Content-Encoding").decode(), ",".join(toks[:k])))
        hs.append((G.case_perm(rng, b"Content-Encoding").decode(), ",".join(toks[k:])))
    else:
        hs.insert(rng.randint(0, len(hs)), (G.case_perm(rng, b"Content-Encoding").decode(), ",".join(toks)))
    dmg = None
    if damaged and rng.random() < 0.6 and data:
        k = rng.random()
        if k < 0.4:
            cut = rng.randrange(len(data))
            data = data[:cut]
            dmg = "trunc"
        elif k < 0.7:
            i = rng.randrange(len(data))
            data = data[:i] + bytes([data[i] ^ (1 << rng.randrange(8))]) + data[i + 1:]
            dmg = "flip"
        else:
            i = rng.randrange(max(1, len(data) - 8), len(data))
            data = data[:i] + bytes([(data[i] + rng.randrange(1, 256)) % 256]) + data[i + 1:]
            dmg = "tail"
    return ctx.add("dec", [hdrs_spec(hs), hx(data)], plain=plain, stack=stack, toks=toks, unknown_at=unknown_at,
                   hs=hs, dmg=dmg, outer=stack[-1])


class C13(Prop):
    id = "C13"

    def gen(self, ctx):
        for _ in range(ctx.n(700, 7000)):
            add_decode_case(ctx, stack_only=True)
        # large, highly repetitive bodies under stacks (each layer shrinks the input of the next a lot)
        for size in ctx.n((70000, 200000), (70000, 200000, 1100000)):
            for stack in (["gzip", "gzip"], ["raw", "gzip"], ["zlib", "zlib", "gzip"]):
                plain = b"\x00" * size
                data = plain
                for c in stack:
                    data = G.CODERS[c](ctx.rng, data)
                ctx.add("dec", [hdrs_spec([("Content-Encoding", ", ".join(G.TOKEN_OF[c] for c in stack))]), hx(data)],
                        plain=plain, stack=stack, unknown_at=None)
        # several decode_body calls one after the other on one thread: a failure that has already produced
        # output (truncated stream, wrong checksum) followed by a valid body, which must decode to its content
        rng = ctx.rng
        for _ in range(ctx.n(60, 600)):
            fmt1 = rng.choice(["gzip", "zlib", "raw"])
            plain1 = G.gen_plain(rng) or b"x"
            plain1 = (plain1 * (400 // len(plain1) + 1))[:rng.choice([300, 3000, 40000])]
            d1 = G.CODERS[fmt1](rng, plain1)
            if rng.random() < 0.5 or fmt1 == "raw":
                d1 = d1[:len(d1) - rng.randint(1, 6)]
            else:
                i = len(d1) - rng.randint(1, 4)
                d1 = d1[:i] + bytes([d1[i] ^ 0x41]) + d1[i + 1:]
            stack = [rng.choice(["gzip", "zlib", "raw"]) for _ in range(rng.randint(1, 3))]
            plain2 = G.gen_plain(rng)
            d2 = plain2
            for c in stack:
                d2 = G.CODERS[c](rng, d2)
            ctx.add("decseq", [hdrs_spec([("Content-Encoding", G.TOKEN_OF[fmt1])]), hx(d1),
                               hdrs_spec([("Content-Encoding", ", ".join(G.TOKEN_OF[c] for c in stack))]), hx(d2)],
                    plain=plain2, stack=stack, unknown_at=None, seq=True)
        # a Content-Length that does not describe the coded body (stale, or left by an earlier call): the whole body is decoded
        for cl in ("0", "1", "9", "10", "18", "100", "100000"):
            for stack in (["gzip"], ["zlib", "gzip"], ["raw"]):
                plain2 = G.gen_plain(rng)
                d2 = plain2
                for c in stack:
                    d2 = G.CODERS[c](rng, d2)
                ctx.add("dec", [hdrs_spec([("Content-Length", cl), ("Content-Encoding", ", ".join(G.TOKEN_OF[c] for c in stack))]), hx(d2)],
                        plain=plain2, stack=stack, unknown_at=None)
        # adjacent repeats of one coding really applied twice and three times
        for stack in (["gzip", "gzip"], ["zlib", "zlib"], ["raw", "zlib"], ["gzip", "gzip", "gzip"], ["gzip", "raw", "raw", "gzip"]):
            for lvl in (0, 6):
                plain2 = G.gen_plain(rng)
                d2 = plain2
                for c in stack:
                    d2 = G.gz(d2, lvl) if c == "gzip" else G.zl(d2, lvl) if c == "zlib" else G.raw_deflate(d2, lvl)
                ctx.add("dec", [hdrs_spec([("Content-Encoding", ", ".join(G.TOKEN_OF[c] for c in stack))]), hx(d2)], plain=plain2, stack=stack, unknown_at=None)
        # tiny bodies, plain 10-byte gzip header, every level
        for lvl in range(10):
            for body in (b"", b"a", b"ab", b"abc"):
                for stack in (["gzip"], ["raw", "gzip"], ["gzip", "gzip"]):
                    data = body
                    for c in stack:
                        data = G.gz(data, lvl) if c == "gzip" else G.raw_deflate(data, lvl)
                    ctx.add("dec", [hdrs_spec([("Content-Encoding", ", ".join(G.TOKEN_OF[c] for c in stack))]), hx(data)],
                            plain=body, stack=stack, unknown_at=None)
        # every level, each format, fixed bodies
        for lvl in range(10):
            for body in (b"", b"a", b"hello hello hello hello", bytes(range(256)) * 3):
                for name, enc in (("gzip", G.gz(body, lvl)), ("deflate", G.zl(body, lvl)), ("deflate", G.raw_deflate(body, lvl))):
                    ctx.add("dec", [hdrs_spec([("Content-Encoding", name)]), hx(enc)], plain=body, stack=["x"], unknown_at=None)

    def relations(self, ctx, impl):
        for cid, m in ctx.meta.items():
            last = impl[cid][0].split("|")[-1] if m.get("seq") else impl[cid][0]
            f = fields_of(last)
            if m.get("unknown_at") is None:
                if not last.startswith("ok;") or bytes.fromhex(f["b"]) != m["plain"]:
                    yield [cid], f"stack {m['stack']} not inverted{' (after an earlier failed decode on the same thread)' if m.get('seq') else ''}: {last[:80]}"


def big_ratio_cases(ctx, **meta):
    """bodies that inflate to 65536 / 65537 / 300000 bytes from a few hundred: decoded whole, headers truthful"""
    for size in (65536, 65537, 300000):
        for fill in (b"\x00", b" "):
            plain = fill * size
            for fmt, tok in (("gzip", "gzip"), ("zlib", "deflate"), ("raw", "Deflate")):
                data = G.CODERS[fmt](ctx.rng, plain)
                for hs in ([("Content-Encoding", tok)], [("Content-Type", "text/plain"), ("Content-Encoding", "foobar, " + tok)]):
                    yield hs, data, plain, fmt


class C14(Prop):
    id = "C14"
    spec_type = True

    def gen(self, ctx):
        rng = ctx.rng
        for _ in range(ctx.n(900, 9000)):
            add_decode_case(ctx, damaged=rng.random() < 0.3)
        for v in ["", ",", "gzip,", ",gzip", "gzip,,", " , ", "identity", "GZIP , identity , gzip"]:
            ctx.add("dec", [hdrs_spec([("A", "1"), ("Content-Encoding", v), ("B", "2")]), hx(G.gz(b"xyz"))], hs=[("A", "1"), ("Content-Encoding", v), ("B", "2")], plain=None)
        # raw deflate streams that look like zlib at their first two bytes: read as zlib they fail, and
        # a failure leaves the headers as they were
        for _ in range(ctx.n(60, 400)):
            data, _plain = G.zlib_looking_raw(rng)
            for enc in ("deflate", "gzip, deflate", "DEFLATE"):
                hs = [("Date", "x"), ("Content-Encoding", enc)]
                ctx.add("dec", [hdrs_spec(hs), hx(data)], hs=hs, plain=None)
        ctx.add("dec", [hdrs_spec([("A", "1")]), hx(b"xyz")], hs=[("A", "1")], plain=None)
        for hs, data, plain, fmt in big_ratio_cases(ctx):
            ctx.add("dec", [hdrs_spec(hs), hx(data)], hs=hs, plain=plain)
        # the coding list spread over two and three Content-Encoding lines
        for lines, stack in (((["foobar"], ["gzip"]), ["gzip"]), ((["GZIP"], ["Deflate"], ["gzip"]), ["gzip", "zlib", "gzip"]),
                             ((["deflate"], ["gzip"]), ["raw", "gzip"]), ((["br", "gzip"], ["deflate"]), ["gzip", "zlib"]), ((["gzip"], ["br"]), [])):
            plain = G.gen_plain(rng)
            data = plain
            for c in stack:
                data = G.CODERS[c](rng, data)
            hs = [("A", "1")] + [("Content-Encoding", ", ".join(l)) for l in lines]
            ctx.add("dec", [hdrs_spec(hs), hx(data)], hs=hs, plain=plain)
        # bodies whose decoded length is and is not a multiple of 8192, damaged at the very end
        for size in (100, 8191, 8192, 8193, 20000):
            plain = bytes(rng.randrange(256) for _ in range(size))
            for fmt, tok in (("gzip", "gzip"), ("zlib", "deflate")):
                data = G.CODERS[fmt](rng, plain)
                for bad in (data[:-1], data[:-4], data[:-5] + bytes([data[-5] ^ 1]) + data[-4:], data[:-1] + bytes([data[-1] ^ 0x80])):
                    hs = [("Content-Encoding", tok)]
                    ctx.add("dec", [hdrs_spec(hs), hx(bad)], hs=hs, plain=None)
        # a Content-Type that names a coding beside the Content-Encoding (a stored .gz labelled twice): every listed
        # coding is undone all the same, and the media type stays as it is
        for ct in ("application/gzip", "application/x-gzip", "Application/GZIP; x=1", "application/x-gunzip", "application/zlib", "application/deflate"):
            for stack in (["gzip"], ["gzip", "zlib"], ["gzip", "gzip"], ["zlib"], ["raw", "gzip"]):
                plain = G.gen_plain(rng)
                data = plain
                for c in stack:
                    data = G.CODERS[c](rng, data)
                hs = [("Content-Type", ct), ("Content-Encoding", ", ".join(G.TOKEN_OF[c] for c in stack))]
                ctx.add("dec", [hdrs_spec(hs), hx(data)], hs=hs, plain=plain)

    def relations(self, ctx, impl):
        for cid, m in ctx.meta.items():
            canon = impl[cid][0]
            f = fields_of(canon)
            before = [(n.encode(), v.encode()) for n, v in m["hs"]]
            after = [] if f.get("h", "-") == "-" else [tuple(bytes.fromhex(x) for x in nv.split(":")) for nv in f["h"].split(",")]
            if canon.startswith("err"):
                if after != before:
                    yield [cid], "headers changed although decode_body failed"
                continue
            toks = [t for n, v in before if n.lower() == b"content-encoding" for t in tokens_ref(v)]
            kept = list(toks)
            while kept and kept[-1] in (b"gzip", b"deflate"):
                kept.pop()
            ce = [v for n, v in after if n.lower() == b"content-encoding"]
            if (kept and ce != [b", ".join(kept)]) or (not kept and ce):
                yield [cid], f"Content-Encoding after decoding is {ce}, kept tokens {kept}"
                continue
            cl = [v for n, v in after if n.lower() == b"content-length"]
            if cl != [b"%d" % (len(f["b"]) // 2)]:
                yield [cid], f"Content-Length {cl} does not match body length {len(f['b']) // 2}"
                continue
            skip = (b"content-encoding", b"content-length")
            if [(n, v) for n, v in after if n.lower() not in skip] != [(n, v) for n, v in before if n.lower() not in skip]:
                yield [cid], "an unrelated header changed"


class C15(Prop):
    id = "C15"

    def gen(self, ctx):
        rng = ctx.rng
        for _ in range(ctx.n(40, 300)):
            plain = G.gen_plain(rng)
            for fmt, tok in (("gzip", "gzip"), ("zlib", "deflate"), ("raw", "deflate")):
                data = G.CODERS[fmt](rng, plain)
                hs = [("Content-Encoding", tok)]
                cuts = range(len(data)) if len(data) < 60 or ctx.thorough else sorted(set(rng.sample(range(len(data)), 40)) | set(range(len(data) - 10, len(data))) | set(range(0, 12)))
                for cut in cuts:
                    ctx.add("dec", [hdrs_spec(hs), hx(data[:cut])], plain=plain, dmg="trunc", fmt=fmt)
                tail = 8 if fmt == "gzip" else 4 if fmt == "zlib" else 0
                for i in list(range(len(data) - tail, len(data))) + ([0, 1, 2] if fmt == "gzip" else []):
                    for delta in (1, 0x80, rng.randrange(1, 256)):
                        d2 = data[:i] + bytes([(data[i] + delta) % 256]) + data[i + 1:]
                        ctx.add("dec", [hdrs_spec(hs), hx(d2)], plain=plain, dmg="integrity", fmt=fmt)
                for _ in range(ctx.n(6, 40)):
                    i = rng.randrange(len(data))
                    d2 = data[:i] + bytes([data[i] ^ (1 << rng.randrange(8))]) + data[i + 1:]
                    ctx.add("dec", [hdrs_spec(hs), hx(d2)], plain=plain, dmg="flip", fmt=fmt, data=d2)
        for _ in range(ctx.n(100, 1000)):
            add_decode_case(ctx, damaged=True, stack_only=True)
        # the witness of known finding K5, every run: zlib body 78 da 3b ... with one bit of its first byte flipped
        k5 = bytes.fromhex("7ada3b38a7f5370006e102de")
        ctx.add("dec", [hdrs_spec([("Content-Encoding", "deflate")]), hx(k5)], plain=bytes.fromhex("c19c85fb"), dmg="flip", fmt="zlib", data=k5)
        # a zlib body made of stored blocks whose bytes, read from the first byte as a bare deflate stream, are a
        # complete stream too (78 = a non-final stored block header; the first real block has LEN fffe so that its
        # LEN/NLEN read as NLEN/data of the bare reading; the content continues the framing): intact it must
        # decode to its content, damaged it must fail -- a second reading must never rescue it
        import zlib as _z
        content = bytes.fromhex("0000ffff010000ffff") + bytes(rng.randrange(256) for _ in range(0xFFFE - 9))
        poly = b"\x78\x01" + b"\x00\xfe\xff\x01\x00" + content + b"\x01\x00\x00\xff\xff" + _z.adler32(content).to_bytes(4, "big")
        assert _z.decompress(poly) == content
        hs = [("Content-Encoding", "deflate")]
        ctx.add("dec", [hdrs_spec(hs), hx(poly)], plain=content, dmg=None, fmt="zlib")
        for i in range(len(poly) - 4, len(poly)):
            d2 = poly[:i] + bytes([(poly[i] + rng.choice([1, 0x80])) % 256]) + poly[i + 1:]
            ctx.add("dec", [hdrs_spec(hs), hx(d2)], plain=content, dmg="integrity", fmt="zlib")
        for cut in (16, 17, 100, len(poly) // 2, len(poly) - 9, len(poly) - 5, len(poly) - 1):
            ctx.add("dec", [hdrs_spec(hs), hx(poly[:cut])], plain=content, dmg="trunc", fmt="zlib")
        # a Content-Type that names the coding beside the Content-Encoding (a stored .gz served with both labels):
        # the listed coding is still undone, so damage is still refused
        for ct in ("application/gzip", "application/x-gzip", "APPLICATION/GZIP; q=1", "application/x-gunzip", "application/zlib", "application/octet-stream"):
            plain = G.gen_plain(rng) or b"x"
            for fmt, tok in (("gzip", "gzip"), ("gzip", "GZip"), ("zlib", "deflate")):
                data = G.CODERS[fmt](rng, plain)
                hs = [("Content-Type", ct), ("Content-Encoding", tok)]
                ctx.add("dec", [hdrs_spec(hs), hx(data)], plain=plain, dmg=None, fmt=fmt)
                for cut in sorted({c for c in (0, 1, 2, 9, len(data) // 2, len(data) - 1) if c < len(data)}):
                    ctx.add("dec", [hdrs_spec(hs), hx(data[:cut])], plain=plain, dmg="trunc", fmt=fmt)
                for i in range(len(data) - 4, len(data)):
                    ctx.add("dec", [hdrs_spec(hs), hx(data[:i] + bytes([data[i] ^ 0x55]) + data[i + 1:])], plain=plain, dmg="integrity", fmt=fmt)
        # gzip members that are one final stored block (what an encoder emits for incompressible data or at level 0):
        # CRC-32 and ISIZE are checked there too
        for plain in (bytes(rng.randrange(256) for _ in range(rng.choice([1, 50, 3000]))), b"level zero text " * 20):
            data = G.gz(plain, 0)
            hs = [("Content-Encoding", "gzip")]
            ctx.add("dec", [hdrs_spec(hs), hx(data)], plain=plain, dmg=None, fmt="gzip")
            for i in list(range(len(data) - 8, len(data))) + [10 + 5 + len(plain) // 2]:
                ctx.add("dec", [hdrs_spec(hs), hx(data[:i] + bytes([data[i] ^ 0x21]) + data[i + 1:])], plain=plain,
                        dmg="integrity" if i >= len(data) - 8 else "flip", fmt="gzip", data=data[:i] + bytes([data[i] ^ 0x21]) + data[i + 1:])
        # decode_body called again with the same headers VALUE after a failure (a caller that retries): the failure left the
        # headers as they were, so the retry fails the same way; and stacks of six to eight codings damaged in the innermost
        for _ in range(ctx.n(40, 300)):
            plain = G.gen_plain(rng) or b"x"
            fmt, tok = rng.choice((("gzip", "gzip"), ("zlib", "deflate"), ("raw", "deflate")))
            data = G.CODERS[fmt](rng, plain)
            bad = data[:rng.randrange(len(data))] if rng.random() < 0.6 or fmt == "raw" else data[:-2] + bytes([data[-2] ^ 0x11]) + data[-1:]
            ctx.add("decchain", [hdrs_spec([("X", "y"), ("Content-Encoding", tok)]), hx(bad), hx(bad)], plain=plain, dmg="trunc", fmt=fmt, chain=True)
        for depth in (5, 6, 7, 8):
            for fmt, tok in (("gzip", "gzip"), ("zlib", "deflate")):
                plain = G.gen_plain(rng) or b"x"
                inner = G.CODERS[fmt](rng, plain)
                inner = inner[:-3] + bytes([inner[-3] ^ 0x41]) + inner[-2:]
                data = inner
                for _ in range(depth - 1):
                    data = G.CODERS[fmt](rng, data)
                ctx.add("dec", [hdrs_spec([("Content-Encoding", ", ".join([tok] * depth))]), hx(data)], plain=plain, dmg="integrity", fmt=fmt)
        # gzip bodies that carry a complete gzip member further in (a stored member whose content is a .gz, a member with
        # one in its FEXTRA field, two members one after the other): with the signature at the FRONT altered nothing
        # further in may be taken for the body
        inner = G.gz(b"contents of notes.txt.gz", 6)
        outers = [G.gz(b"prefix " + inner + b" suffix", 0), G.gz(b"payload", 6, extra=inner[:200]), G.gz(b"first", 6) + G.gz(b"second", 6)]
        for data in outers:
            hs = [("Content-Encoding", "gzip")]
            for i in (0, 1):
                for delta in (1, 0x80, 0x10, 0xff):
                    d2 = data[:i] + bytes([(data[i] + delta) % 256]) + data[i + 1:]
                    ctx.add("dec", [hdrs_spec(hs), hx(d2)], plain=b"", dmg="integrity", fmt="gzip")
            for cut in sorted({1, 2, 9, len(data) // 2, len(data) - 9, len(data) - 1}):
                if 0 < cut < len(data) and data is not outers[2]:
                    ctx.add("dec", [hdrs_spec(hs), hx(data[:cut])], plain=b"", dmg="trunc", fmt="gzip")
        # bare deflate and zlib streams produced with a sync flush after every write, cut exactly behind each flush
        # marker (00 00 ff ff) and everywhere near it: a stream that was never finished is not a body
        import zlib as _zz
        for lvl in (0, 1, 6):
            for wbits, fmt in ((-15, "raw"), (15, "zlib")):
                co = _zz.compressobj(lvl, _zz.DEFLATED, wbits)
                stream = b""
                marks = []
                for piece in (b"first part of the text, ", b"second part, " * 3, b"third."):
                    stream += co.compress(piece) + co.flush(_zz.Z_SYNC_FLUSH)
                    marks.append(len(stream))
                stream += co.flush()
                for m in marks:
                    for cut in (m - 1, m, m + 1):
                        if 0 < cut < len(stream):
                            ctx.add("dec", [hdrs_spec([("Content-Encoding", "deflate")]), hx(stream[:cut])], plain=b"", dmg="trunc", fmt=fmt)
        # the same headers (entity tag included) and the same coded length twice on one thread: first intact,
        # then damaged -- nothing remembered from the first call may stand in for decoding the second body
        for _ in range(ctx.n(40, 300)):
            plain = G.gen_plain(rng) or b"x"
            fmt, tok = rng.choice((("gzip", "gzip"), ("zlib", "deflate")))
            data = G.CODERS[fmt](rng, plain)
            tail = 8 if fmt == "gzip" else 4
            i = rng.choice(list(range(len(data) - tail, len(data))) + ([0, 1] if fmt == "gzip" else []))
            bad = data[:i] + bytes([(data[i] + rng.choice([1, 0x80, 0x55])) % 256]) + data[i + 1:]
            hs = [("ETag", rng.choice(['"v1"', '"abc"', 'W/"v1"'])), ("Content-Encoding", tok)] if rng.random() < 0.8 else [("Content-Encoding", tok)]
            if rng.random() < 0.3:
                hs.append(("Content-MD5", "Q2hlY2sgSW50ZWdyaXR5IQ=="))
            ctx.add("decseq", [hdrs_spec(hs), hx(data), hdrs_spec(hs), hx(bad)], plain=plain, dmg="integrity", fmt=fmt, seq=True)
        # large, highly repetitive content (decoded size >> coded size): the end-of-stream checks still apply
        line = b"GET /index.html HTTP/1.1 200 1234 \"-\" \"agent\"\n"
        for size in (65536, 100000) + ((300000,) if ctx.thorough else ()):
            plain = (line * (size // len(line) + 1))[:size]
            for fmt, tok in (("gzip", "gzip"), ("zlib", "deflate"), ("raw", "deflate")):
                data = G.CODERS[fmt](rng, plain)
                hs = [("Content-Encoding", tok)]
                ctx.add("dec", [hdrs_spec(hs), hx(data)], plain=plain, dmg=None, fmt=fmt)
                for cut in sorted(set(range(len(data) - 10, len(data))) | {len(data) // 2}):
                    ctx.add("dec", [hdrs_spec(hs), hx(data[:cut])], plain=plain, dmg="trunc", fmt=fmt)
                tail = 8 if fmt == "gzip" else 4 if fmt == "zlib" else 0
                for i in range(len(data) - tail, len(data)):
                    d2 = data[:i] + bytes([(data[i] + rng.choice([1, 0x80])) % 256]) + data[i + 1:]
                    ctx.add("dec", [hdrs_spec(hs), hx(d2)], plain=plain, dmg="integrity", fmt=fmt)
                for _ in range(4):
                    i = rng.randrange(len(data) // 2, len(data))
                    d2 = data[:i] + bytes([data[i] ^ (1 << rng.randrange(8))]) + data[i + 1:]
                    ctx.add("dec", [hdrs_spec(hs), hx(d2)], plain=plain, dmg="flip", fmt=fmt, data=d2)

    def relations(self, ctx, impl):
        for cid, m in ctx.meta.items():
            canon = impl[cid][0]
            if m.get("chain"):
                if any(part.startswith("ok") for part in canon.split("|")):
                    yield [cid], "a damaged body was accepted when decode_body was called again with the same headers value"
                continue
            if m.get("seq"):
                canon = canon.split("|")[-1]        # several calls on one thread: the last one is judged
            f = fields_of(canon)
            if m["dmg"] is None and m.get("fmt") and m.get("plain") is not None and "stack" not in m:
                if not canon.startswith("ok") or bytes.fromhex(f.get("b", "")) != m["plain"]:
                    yield [cid], f"undamaged {m['fmt']} body of {len(m['plain'])} bytes not decoded to its content"
                continue
            if canon.startswith("ok") and "stack" in m and m.get("unknown_at") is None and f.get("h") not in (None, "-"):
                # every listed coding is one the crate undoes: success with one of them still listed means a
                # layer's failure (its integrity check included) was turned into success
                left = [bytes.fromhex(nv.split(":")[1]) for nv in f["h"].split(",") if bytes.fromhex(nv.split(":")[0]).lower() == b"content-encoding"]
                if any(t.strip(b" \t").lower() in (b"gzip", b"deflate") for v in left for t in v.split(b",")):
                    yield [cid], "success reported although a recognised coding was left undone (a decoder failure was swallowed)"
                    continue
            if m["dmg"] is None or not canon.startswith("ok"):
                continue
            fmt = m.get("fmt") or m.get("outer")
            if m["dmg"] in ("trunc", "integrity"):
                yield [cid], f"{m['dmg']}-damaged {fmt} body accepted"
                continue
            got = bytes.fromhex(f["b"])
            if got == m["plain"] or fmt == "raw":
                continue        # bare deflate carries no checksum: bit flips are outside the statement
            dd = bytes.fromhex(m["args"][1]) if m["args"][1] != "." else b""
            if fmt == "zlib" and not (len(dd) >= 2 and dd[0] & 0x0f == 8 and dd[0] >> 4 <= 7 and (dd[0] * 256 + dd[1]) % 31 == 0):
                # the flip hit the two-byte zlib header: what is left no longer passes the zlib test and is read
                # as a bare deflate stream; when flate2's raw decoder accepts it, the result is returned although
                # it contradicts the Adler-32 at the end of the body (known finding K5)
                yield [cid], "zlib header destroyed by the damage: body read as bare deflate, content contradicts the stored Adler-32"
                continue
            data = bytes.fromhex(m["args"][1]) if m["args"][1] != "." else b""
            if "fmt" not in m:
                # stacked case: compare at the outermost layer only when it is the only layer
                if len(m["stack"]) > 1:
                    continue
            if fmt == "gzip" and zlib.crc32(got) & 0xffffffff == int.from_bytes(data[-8:-4], "little"):
                continue
            if fmt == "zlib" and zlib.adler32(got) & 0xffffffff == int.from_bytes(data[-4:], "big"):
                continue
            yield [cid], "damaged body decoded to content contradicting the stored checksum"


def _c15_known(self, ctx, cid, msg):
    if "zlib header destroyed" in msg:
        return "K5"
    return None


C15.known = _c15_known

CT_VALUES = ["text/plain; charset=utf-8; format=flowed", "text/plain; charset=utf-8;", "text/plain; a=b; charset=UTF-8; c=d", "text/html;charset=bogus;x=y",
             "text/plain", "text/html; charset=utf-8", "TEXT/PLAIN; CHARSET=UTF-8", "Text/x;Charset=Utf-8", "text/plain;charset=iso-8859-1",
             "text/plain; charset=\"utf-8\"", "text/plain; x=y; charset=utf-8", "text/plain; charset=utf-8; charset=latin1",
             "text/plain;  charset = utf-8", "text/plain; charset=", "text/plain; charset", "text/plain;;charset=utf-8",
             "application/json", "application/json; charset=utf-8", "text", "text/", "/plain", "", ";", "text;charset=utf-8",
             "teéxt/plain", "text/plain; charset=utf-8 ", "text/plain; charset=utf-8", "text/plain; charset= utf-8",
             "text/plain; charset=windows-1252", "text/plain; charset=ascii", "text/plain; charset=l1", "text/plain; charset=shift_jis",
             "text/plain; charset=utf-16le", "text/plain; charset=bogus", "text/plain; charset= utf-8 ", "text/plain; charset=\tutf-8",
             "text/plain; charset=utf8", "text/plain; charset=unicode-1-1-utf-8", "text/plain; charset=iso-2022-kr", "text/plain; charset=gbk",
             "text/plain; ChArSeT=UTF-8", "text/plain; xcharset=utf-8", "text/plain; charset=utf-8=x", "text /plain", " text/plain",
             "text/plain; charset=Koi8-r", "texT/plain", "texT/plain", "text/plain", "text/plain; charset=x-user-defined",
             "text/plain; charset=replacement", "text/plain, text/html; charset=utf-8"]
LABELS = ["utf-8", "UTF-8", "utf8", "latin1", "iso-8859-1", "ISO-8859-1", "windows-1252", "iso-8859-2", "koi8-r", "shift_jis", "euc-jp",
          "big5", "gb18030", "utf-16le", "utf-16be", "utf-16", "iso-2022-jp", "x-user-defined", "ibm866", "macintosh", "us-ascii", "cp1252",
          "windows-1251", "euc-kr", "nope", "", "utf-7", "l1", "ascii"]


def gen_text_body(rng):
    k = rng.random()
    if k < 0.25:
        return bytes(rng.randrange(256) for _ in range(rng.randint(0, 12)))
    if k < 0.5:
        return "héllo wörld €𝄞".encode()[: rng.randint(0, 24)]
    if k < 0.6:
        return rng.choice([b"\xef\xbb\xbfabc", b"\xff\xfeh\x00", b"\xfe\xff\x00h", b"\xc0\x80", b"\xed\xa0\x80", b"\xf4\x90\x80\x80",
                           b"\xe2\x82", b"\x80", b"\xf0\x9f\x98\x80", b"\x1b$B", b"\x00"])
    return bytes(rng.choice(b"abc xyz\r\n") for _ in range(rng.randint(0, 20)))


def add_text_case(ctx):
    rng = ctx.rng
    k = rng.random()
    if k < 0.5:
        ct = rng.choice(CT_VALUES)
    elif k < 0.85:
        lab = rng.choice(LABELS)
        if rng.random() < 0.4:
            lab = G.case_perm(rng, lab.encode()).decode()
        ct = rng.choice(["text/plain", "Text/HTML", "text/x"]) + rng.choice([";", "; ", " ;  "]) + \
            rng.choice(["charset", "Charset", "CHARSET"]) + "=" + lab
    else:
        ct = "".join(rng.choice(["text", "/", ";", "=", " ", "charset", "utf-8", "a", "é", " ", ","]) for _ in range(rng.randint(0, 7)))
    hs = [(G.case_perm(rng, b"Content-Type").decode() if rng.random() < 0.3 else "Content-Type", ct)]
    if rng.random() < 0.1:
        hs = []
    elif rng.random() < 0.1:
        hs.append(("Content-Type", rng.choice(CT_VALUES)))
    if rng.random() < 0.3:
        hs.insert(0, ("X", "y"))
    body = gen_text_body(rng)
    if rng.random() < 0.2:
        # headers that text decoding has no business with: a (stale) Content-Length, codings, a range
        hs.insert(rng.randint(0, len(hs)), rng.choice([("Content-Length", str(rng.randint(0, max(0, len(body) - 1)))), ("content-length", "1"),
                                                       ("Content-Length", str(len(body) + 5)), ("Content-Encoding", "gzip"),
                                                       ("Transfer-Encoding", "chunked"), ("Content-Range", "bytes 0-1/2")]))
    return ctx.add("txt", [hdrs_spec(hs), hx(body)], hs=hs, body=body)


class C16(Prop):
    id = "C16"
    spec_type = True

    def gen(self, ctx):
        for _ in range(ctx.n(1500, 15000)):
            add_text_case(ctx)
        # an empty charset value is a label like any other (unknown); single-byte charsets that leave bytes unassigned,
        # every byte value: malformed input gives nothing, never a replacement character
        for ct in ("text/plain; charset=", "text/plain;charset=;x=y", "TEXT/html; Charset= ", "text/plain; charset=\"\""):
            for body in (b"abc", b"\xff", b""):
                ctx.add("txt", [hdrs_spec([("Content-Type", ct)]), hx(body)], hs=[("Content-Type", ct)], body=body)
        for lab in ("windows-1253", "greek", "iso-8859-6", "arabic", "windows-1255", "iso-8859-8", "windows-1257", "iso-8859-3", "windows-874", "koi8-r", "iso-8859-7"):
            ct = "text/plain; charset=" + lab
            for b in range(0x80, 0x100) if ctx.thorough or lab in ("windows-1253", "iso-8859-6", "windows-1255") else range(0x80, 0x100, 3):
                body = b"a" + bytes([b]) + b"z"
                ctx.add("txt", [hdrs_spec([("Content-Type", ct)]), hx(body)], hs=[("Content-Type", ct)], body=body)
        # long bodies with a multi-byte character sliding across the offsets where a block-wise decoder would
        # cut (powers of two from 1 KiB to 64 KiB): valid text stays text, whatever its length
        rng = ctx.rng
        for w in ("\u00e9", "\u20ac", "\U0001f600"):
            wb = w.encode()
            for block in (1024, 4096, 8192, 16384, 65536) if ctx.thorough else (1024, 4096, 8192, 65536):
                for k in (1, 2) if block < 65536 else (1,):
                    for off in range(-len(wb), 1):
                        body = b"a" * (k * block + off) + wb + b"b" * rng.randint(0, 40)
                        for ct in ("text/plain; charset=utf-8", "text/plain"):
                            ctx.add("txt", [hdrs_spec([("Content-Type", ct)]), hx(body)], hs=[("Content-Type", ct)], body=body)
        # decoders exhaustively on short inputs
        import itertools
        maxlen = ctx.n(1, 2)
        for ct in ("text/plain; charset=utf-8", "text/plain"):
            for L in range(0, maxlen + 1):
                for tup in itertools.product(range(256), repeat=L):
                    ctx.add("txt", [hdrs_spec([("Content-Type", ct)]), hx(bytes(tup))], hs=[("Content-Type", ct)], body=bytes(tup))
            for lead in (0xc2, 0xdf, 0xe0, 0xe1, 0xed, 0xee, 0xef, 0xf0, 0xf1, 0xf4, 0xf5):
                for b1 in (0x7f, 0x80, 0x8f, 0x90, 0x9f, 0xa0, 0xbf, 0xc0):
                    for b2 in (0x7f, 0x80, 0xbf, 0xc0):
                        for tail in (b"", b"\x80", b"\xbf", b"A"):
                            body = bytes([lead, b1, b2]) + tail
                            ctx.add("txt", [hdrs_spec([("Content-Type", ct)]), hx(body)], hs=[("Content-Type", ct)], body=body)

    def relations(self, ctx, impl):
        for cid, m in ctx.meta.items():
            canon = impl[cid][0]
            hs = m["hs"]
            cts = [v for n, v in hs if n.lower() == "content-type"]
            if canon.startswith("some"):
                if not cts:
                    yield [cid], "text returned without a Content-Type"
                    continue
                ct = ",".join(cts)
                ty = ct.split(";", 1)[0].split("/", 1)[0]
                if "/" not in ct.split(";", 1)[0] or ty.lower() != "text" or any(ord(c) > 127 for c in ty):
                    yield [cid], f"text returned for Content-Type {ct!r}"
                    continue
            if len(cts) == 1 and cts[0] in ("text/plain; charset=utf-8", "text/plain"):
                body = m["body"]
                if cts[0] == "text/plain":
                    ok = canon.startswith("some;") and len(bytes.fromhex(canon[5:]).decode("utf-8")) == len(body) and \
                        all(ord(ch) == b for ch, b in zip(bytes.fromhex(canon[5:]).decode("utf-8"), body) if b < 128)
                    if not ok:
                        yield [cid], "ISO-8859-1 default did not decode to one character per byte"
                else:
                    try:
                        body.decode("utf-8")
                        valid = True
                    except UnicodeDecodeError:
                        valid = False
                    if valid != canon.startswith("some") or (valid and bytes.fromhex(canon[5:]) != body):
                        yield [cid], f"UTF-8 decoding wrong for {body!r}: {canon[:60]}"


class C17(Prop):
    id = "C17"
    thorough_rounds = 1          # exhaustive strings dominate
    spec_type = True

    def gen(self, ctx):
        import itertools
        alpha = [b"0", b"1", b"9", b"a", b"F", b"g", b"+", b"-", b" ", b"\t", b"x", b"_", b",", b".", b"\xd9\xa1", b"e"]
        maxlen = ctx.n(2, 3)
        strings = [b"".join(t) for L in range(0, maxlen + 1) for t in itertools.product(alpha, repeat=L)]
        strings += G.NUM_ODD + G.HEX_ODD
        rng = ctx.rng
        for _ in range(ctx.n(200, 2000)):
            d = b"%d" % rng.randrange(0, 5000)
            i = rng.randint(0, len(d))
            strings.append(d[:i] + rng.choice(alpha[3:]) + d[i:])
            h = b"%x" % rng.randrange(0, 5000)
            i = rng.randint(0, len(h))
            strings.append(h[:i] + rng.choice([b"g", b"+", b"-", b" ", b"x", b"_", b".", b"\t"]) + h[i:])
        for z in (b"0", b"00", b"0000"):
            for c in (b"+", b"-", b" ", b"\t", b"x", b"_", b".", b"e", b"\x0b", b"\x0c", b"\r", b"\xc2\xa0", b"\xe2\x80\x83"):
                for tail in (b"", b"5", b"12", b"200", b"0"):
                    strings += [z + c + tail, c + z + tail, b"1" + z + c + tail, tail + c + z]
        for d in (b"200", b"0200", b"7", b"65535", b"65536"):
            for i in range(len(d) + 1):
                for c in (b"\t", b"\x0b", b"\x0c", b"\r", b"\n", b"\xc2\x85", b"\xc2\xa0", b"\xe3\x80\x80", b"+", b"\x00"):
                    strings.append(d[:i] + c + d[i:])
        for lig in ("\ufb00", "\ufb01", "\ufb03", "\u017f", "\u212a", "\u0131", "\u00df", "\u24b6", "\uff21", "\uff41", "\U0001d7d8"):
            lb = lig.encode()
            strings += [lb, b"1" + lb, lb + b"0", lb + b";ext", b"a" + lb + b"b"]
        for z in (19, 20, 21, 22, 23, 30, 40):
            strings += [b"0" * z + b"5", b"0" * z + b"10", b"0" * z, b"0" * (z - 1) + b"5x", b"0" * z + b"a"]
        def liberal(t, base):
            try:
                return min(int(t.decode("ascii", "ignore").strip().lstrip("+").replace("_", "") or "z", base), 40)
            except ValueError:
                return 20
        for b in range(256):
            strings += [bytes([b]), b"5" + bytes([b]), bytes([b]) + b"5", b"1" + bytes([b]) + b"0"]
        # a well-formed Content-Length followed by a malformed one, delivered in pieces
        for bad in [b"5x", b"+5", b"5 5", b"!5", b"5,5", b"0x5", b"-5", b"5;", b""]:
            for first, second in ((b"5", bad), (bad, b"5"), (b"5", b"5")):
                head = b"POST / HTTP/1.1\r\nContent-Length: " + first + b"\r\nX: y\r\nContent-Length: " + second + b"\r\n\r\n"
                msg = head + b"hello"
                for cut in range(1, len(msg)):
                    ctx.add("req", ["d", "d", "d", dels([msg[:cut], msg[cut:]])], field="req-cl2", text=first + b"," + second)
                msg = b"HTTP/1.1 200 OK\r\nContent-Length: " + first + b"\r\nContent-Length: " + second + b"\r\n\r\nhello"
                for cut in range(20, len(msg), 3):
                    ctx.add("resp", [dels([msg[:cut], msg[cut:]])], field="resp-cl2", text=first + b"," + second)
        # a rejected numeric field stays rejected: after the error, further calls on the same value (with nothing, with the
        # same bytes) never report the message complete
        for bad in (b"+5", b"5x", b"-0", b"5 5", b"0x5", b""):
            ctx.add("reqretry", ["d", "d", "d", dels([b"POST / HTTP/1.1\r\nContent-Length: " + bad + b"\r\n\r\nhello"])], impl_only=True, retry=True)
            ctx.add("reqretry", ["d", "d", "d", dels([b"POST / HTTP/1.1\r\nContent-Length: " + bad + b"\r\n", b"\r\nhello"])], impl_only=True, retry=True)
            ctx.add("respretry", [dels([b"HTTP/1.1 200 OK\r\nContent-Length: " + bad + b"\r\n\r\nhello"])], impl_only=True, retry=True)
            ctx.add("respretry", [dels([CHUNK_PREFIX + bad + b"\r\nhello\r\n0\r\n\r\n"])], impl_only=True, retry=True)
        ctx.add("reqretry", ["d", "d", "10", dels([b"POST / HTTP/1.1\r\nContent-Length: 5\r\n\r\nhello"])], impl_only=True, retry=True)
        for s in strings:
            body = b"x" * liberal(s, 10)
            meth = rng.choice([b"POST", b"POST", b"GET", b"HEAD", b"TRACE", b"PUT", b"DELETE", b"OPTIONS", b"CONNECT", b"PATCH", b"head"])
            ctx.add("req", ["d", "d", "d", dels([meth + b" / HTTP/1.1\r\n" + rng.choice(G.CL_NAMES) + b": " + s + b"\r\n\r\n" + body])], field="req-cl", text=s)
            ctx.add("resp", [dels([rng.choice(G.STATUS_LINES) + b"\r\n" + rng.choice(G.CL_NAMES) + b": " + s + b"\r\n\r\n" + body])], field="resp-cl", text=s)
            if len(s) <= 2 or rng.random() < 0.3:
                # Content-Length decides the framing of a response even next to Transfer-Encoding: chunked, so it
                # is parsed (and must be refused when malformed) there too
                te = rng.choice([b"Transfer-Encoding: chunked", b"transfer-encoding: gzip, Chunked"])
                cl = b"Content-Length: " + s
                hh = [te, cl] if rng.random() < 0.5 else [cl, te]
                ctx.add("resp", [dels([b"HTTP/1.1 200 OK\r\n" + b"\r\n".join(hh) + b"\r\n\r\n" + b"x" * liberal(s, 10)])], field="resp-cl", text=s)
            ctx.add("resp", [dels([b"HTTP/1.1 " + s + b" OK\r\n\r\n"])], field="status", text=s)
            body = b"x" * liberal(s, 16)
            ctx.add("resp", [dels([CHUNK_PREFIX + s + b"\r\n" + body + b"\r\n0\r\n\r\n"])], field="chunk", text=s)
            ctx.add("resp", [dels([CHUNK_PREFIX + b"1\r\nx\r\n" + s + b"\r\n" + body + b"\r\n0\r\n\r\n"])], field="chunk2", text=s)
            if len(s) <= 3 or rng.random() < 0.2:
                first = CHUNK_PREFIX + b"1;note=abcdef\r\nx\r\n"
                rest = s + b"\r\n" + body + b"\r\n0\r\n\r\n"
                k = len(CHUNK_PREFIX) + rng.choice([2, 3, 8, 13, 14])
                ctx.add("resp", [dels([first[:k], first[k:] + rest])], field="chunk2", text=s)

    def project(self, ctx, cid, canon):
        return "v=" + verdict_class(canon)

    def nontrivial(self, ctx, cid, canon):
        return True

    def relations(self, ctx, impl):
        for cid, m in ctx.meta.items():
            if m.get("retry"):
                canon = impl[cid][0]
                if ";again=" in canon and any(x.startswith("C") for x in canon.split(";again=")[1].split(",")):
                    yield [cid], f"a message rejected for its numeric field was reported complete on a further call: {canon[:80]}"
                elif canon.startswith("first=C"):
                    yield [cid], "a malformed numeric field was accepted"
                continue
            if verdict_class(impl[cid][0]) != "C":
                continue
            t = m["text"]
            if m["field"] in ("req-cl2", "resp-cl2"):
                ok = False       # the joined value "a,b" is never 1*DIGIT
            elif m["field"] in ("req-cl", "resp-cl"):
                val = t.strip(b" \t")        # OWS around a field value is not part of it
                ok = len(val) > 0 and all(48 <= c <= 57 for c in val)
            elif m["field"] == "status":
                code = t.split(b" ", 1)[0]           # the code ends at the first space
                ok = len(code) > 0 and all(48 <= c <= 57 for c in code)
            else:
                size = t.split(b";", 1)[0]
                ok = len(size) > 0 and all(c in b"0123456789abcdefABCDEF" for c in size)
            if not ok:
                yield [cid], f"message accepted with {m['field']} field {t!r}"


RELEVANT = [b"content-length", b"transfer-encoding", b"trailer", b"content-encoding", b"content-type",
            b"chunked", b"gzip", b"deflate", b"text", b"charset"]


def case_variants(rng, s, n):
    """n variants of s in which only the letters of the relevant names/tokens change case"""
    low = s.lower()
    spans = []
    for w in RELEVANT:
        i = low.find(w)
        while i >= 0:
            spans.append((i, i + len(w)))
            i = low.find(w, i + 1)
    out = []
    for _ in range(n):
        b = bytearray(s)
        for a, e in spans:
            for i in range(a, e):
                if (65 <= b[i] <= 90 or 97 <= b[i] <= 122) and rng.random() < 0.5:
                    b[i] ^= 0x20
        out.append(bytes(b))
    # one occurrence at a time (all upper / first letter upper), the others untouched: a repeated name or
    # token whose occurrences are treated differently depending on their spelling
    extra = []
    for a, e in spans[:6]:
        for style in (0, 1):
            b = bytearray(s)
            for i in range(a, e if style == 0 else a + 1):
                if 97 <= b[i] <= 122:
                    b[i] ^= 0x20
            if bytes(b) != s:
                extra.append(bytes(b))
    if n > 1:
        out += extra[:6]
    return out


def head_end(s, meta_head):
    """End of the part of a (possibly mutated) stream whose letter case may be varied: never beyond the
    first empty line actually present, so that body bytes are not touched (a mutation can move the end of
    the header block before the generator's own idea of it)."""
    m = re.search(rb"\n\r*\n", s)
    e = m.end() if m else len(s)
    return min(e, meta_head, len(s))


class C18(Prop):
    id = "C18"

    def gen(self, ctx):
        rng = ctx.rng
        nv = ctx.n(4, 12)
        for s, meta in req_streams(ctx, ctx.n(150, 1500), p_odd=0.03, mutate_frac=0.1):
            head = s[:head_end(s, meta["head"])]
            g = ("case", "req", s)
            ctx.add("req", ["d", "d", "d", dels([s])], group=g)
            for hv in case_variants(rng, head, nv):
                ctx.add("req", ["d", "d", "d", dels([hv + s[len(head):]])], group=g)
        for s, meta in resp_streams(ctx, ctx.n(200, 2000), p_odd=0.03, mutate_frac=0.1):
            head = s[:head_end(s, meta["head"])]
            g = ("case", "resp", s)
            ctx.add("resp", [dels([s])], group=g)
            for hv in case_variants(rng, head, nv):
                ctx.add("resp", [dels([hv + s[len(head):]])], group=g)
        # chunked responses whose head *and trailer section* change case
        for _ in range(ctx.n(150, 1500)):
            H = [(rng.choice(G.NAMES_OK), rng.choice(G.VALUES_OK).strip(b" \t")) for _ in range(rng.randint(0, 2))]
            H = [(n, v) for n, v in H if n.lower() not in (b"content-length", b"transfer-encoding")]
            H.insert(rng.randint(0, len(H)), (b"Transfer-Encoding", rng.choice([b"chunked", b"gzip, chunked", b"x,chunked"])))
            if rng.random() < 0.5:
                H.insert(rng.randint(0, len(H)), (b"Trailer", b"X-T"))
            T = [rng.choice([(b"X-T", b"1"), (b"Content-Length", b"999"), (b"Transfer-Encoding", b"gzip"),
                             (b"Trailer", b"y"), (b"Content-Type", b"text/plain"), (b"Content-Encoding", b"gzip")])
                 for _ in range(rng.randint(1, 3))]
            payload = bytes(rng.choice(b"xyz01 ") for _ in range(rng.randint(0, 12)))
            enc = (b"%x\r\n" % len(payload) + payload + b"\r\n" if payload else b"") + b"0\r\n"
            head = b"HTTP/1.1 200 OK\r\n" + G.block([n + b": " + v for n, v in H])
            trailer = G.block([n + b": " + v for n, v in T])
            g = ("case", "resp-chunked", head + enc + trailer)
            ctx.add("resp", [dels([head + enc + trailer])], group=g)
            for hv, tv in zip(case_variants(rng, head, nv), case_variants(rng, trailer, nv)):
                ctx.add("resp", [dels([hv + enc + tv])], group=g)
        for _ in range(ctx.n(150, 1500)):
            cid = add_decode_case(ctx, damaged=rng.random() < 0.2)
            m = ctx.meta[cid]
            g = ("case", "dec", cid)
            ctx.groups.setdefault(g, []).append(cid)
            for _ in range(nv):
                hs2 = [(case_variants(rng, n.encode(), 1)[0].decode(), case_variants(rng, v.encode(), 1)[0].decode()) for n, v in m["hs"]]
                ctx.add("dec", [hdrs_spec(hs2), m["args"][1]], group=g, hs=hs2, dmg=m["dmg"], plain=m["plain"])
        # one coding per Content-Encoding line in its plainest spelling, then the variants: a shortcut keyed on
        # an exact spelling of one line shows here
        for stack in (["zlib", "gzip"], ["raw", "gzip"], ["gzip", "gzip"], ["gzip", "zlib"], ["gzip", "zlib", "gzip"], ["gzip"], ["zlib"]):
            for _ in range(ctx.n(2, 10)):
                plain = G.gen_plain(rng)
                data = plain
                for c in stack:
                    data = G.CODERS[c](rng, data)
                hs = [("Content-Encoding", G.TOKEN_OF[c]) for c in stack]
                if rng.random() < 0.5:
                    hs.insert(rng.randint(0, len(hs)), ("X-A", "gzip"))
                cid = ctx.add("dec", [hdrs_spec(hs), hx(data)], hs=hs, dmg=None, plain=plain)
                g = ("case", "dec", cid)
                ctx.groups.setdefault(g, []).append(cid)
                for k in range(len(hs)):
                    for n2 in ({hs[k][0], hs[k][0].upper(), hs[k][0].lower()}):
                        for v2 in ({hs[k][1].upper(), hs[k][1].capitalize(), hs[k][1][:-1] + hs[k][1][-1].upper()}):
                            hs2 = list(hs)
                            hs2[k] = (n2, v2)
                            ctx.add("dec", [hdrs_spec(hs2), hx(data)], group=g, hs=hs2, dmg=None, plain=plain)
        for _ in range(ctx.n(150, 1500)):
            cid = add_text_case(ctx)
            m = ctx.meta[cid]
            g = ("case", "txt", cid)
            ctx.groups.setdefault(g, []).append(cid)
            for _ in range(nv):
                hs2 = [(case_variants(rng, n.encode(), 1)[0].decode(), case_variants(rng, v.encode(), 1)[0].decode()) for n, v in m["hs"]]
                ctx.add("txt", [hdrs_spec(hs2), m["args"][1]], group=g, hs=hs2, body=m["body"])
            # each occurrence of a relevant token on its own (repeated parameters)
            for k, (n, v) in enumerate(m["hs"]):
                for v2 in case_variants(rng, v.encode(), 2)[2:]:
                    hs2 = list(m["hs"])
                    hs2[k] = (n, v2.decode())
                    ctx.add("txt", [hdrs_spec(hs2), m["args"][1]], group=g, hs=hs2, body=m["body"])

    @staticmethod
    def fold_headers(h):
        if h in ("-", None):
            return "-"
        out = []
        for nv in h.split(","):
            n, _, v = nv.partition(":")
            out.append(bytes.fromhex(n).lower().hex() + ":" + bytes.fromhex(v).lower().hex())
        return ",".join(out)

    def project(self, ctx, cid, canon):
        k = ctx.meta[cid]["kind"]
        f = fields_of(canon)
        if k in ("req", "resp"):
            v = f.get("v", "?")[:1]
            if v == "R":
                return "v=R"
            return f"v={v};tot={f.get('tot')};b={f.get('b')};h={self.fold_headers(f.get('h'))}"
        if k == "dec":
            return canon.split(";h=")[0]
        return canon

    def relations(self, ctx, impl):
        for g, ids in ctx.groups.items():
            ref = self.project(ctx, ids[0], impl[ids[0]][0])
            for cid in ids[1:]:
                cur = self.project(ctx, cid, impl[cid][0])
                if cur != ref:
                    yield [ids[0], cid], f"letter case changed the result: {ref[:120]} vs {cur[:120]}"


_c18_gen = C18.gen


def _c18_gen_more(self, ctx):
    _c18_gen(self, ctx)
    rng = ctx.rng
    # coded bodies of 4 KiB .. 70 KiB (and small ones) under every spelling of the coding tokens and header name
    for size in (100, 5000, 20000, 70000):
        plain = bytes(rng.randrange(256) for _ in range(size))
        for stack in (["gzip"], ["zlib", "gzip"], ["raw"]):
            data = plain
            for c in stack:
                data = G.CODERS[c](rng, data)
            g = ("case", "bigdec", size, tuple(stack), len(ctx.cases))      # one group per generated body
            for name in ("Content-Encoding", "content-encoding", "CONTENT-ENCODING"):
                for style in (str.lower, str.upper, str.title):
                    toks = ", ".join(style(G.TOKEN_OF[c]) for c in stack)
                    ctx.add("dec", [hdrs_spec([(name, toks)]), hx(data)], group=g)


C18.gen = _c18_gen_more

CORPUS_KINDS = {
    "C01": ("req",), "C02": ("resp",), "C03": ("req", "reqd"), "C04": ("resp",), "C05": ("resp",),
    "C06": ("req", "resp", "dec", "txt", "genreq", "genresp", "reusereq", "reuseresp", "decseq", "rtreq", "rtresp"),
    "C07": ("req", "resp"), "C08": ("req", "reqd"), "C09": ("req", "resp"), "C10": ("genreq", "genresp"),
    "C11": ("rtreq", "rtresp"), "C12": ("resp",), "C13": ("dec", "decseq"), "C14": ("dec",), "C15": ("dec", "decseq"),
    "C16": ("txt",), "C17": ("req", "resp"), "C18": ("req", "resp", "dec", "txt"),
}

PROPS = {c.id: c for c in (C01, C02, C03, C04, C05, C06, C07, C08, C09, C10, C11, C12, C13, C14, C15, C16, C17, C18)}

TRUSTED_BASE = [
    "Coq 8.16.1 kernel (coqc; coqchk in the thorough tier); vm_compute for Examples; no native_compute",
    "no axioms: every Print Assumptions is 'Closed under the global context'",
    "hand-written Gallina model of rhymuweb (request.rs, response.rs, chunked_body.rs, coding.rs, lib.rs), of rhymessage's header parser/collection, and of flate2 1.1.10 / miniz_oxide 0.9.1 (raw inflate, zlib, gzip: Model/Inflate.v)",
    "oracles (function parameters of the model, real libraries at run time): rhymuri Uri::parse/Display, encoding_rs for_label/decode; flate2 Gz/Zlib/Deflate decoders (called directly) decide each decode case and are compared with Model/Inflate.v on every stream",
    "correspondence check: Rust harness (tools/../harness), OCaml driver (hex, integer conversion, canonical printing), extraction with ExtrOcamlBasic only (bool, option, unit, prod, list, sumbool -> OCaml types; no Extract Constant)",
    "64-bit usize; error categories instead of error payloads",
]


def known_entry(kid):
    for k in KNOWN["known"]:
        if k["id"] == kid:
            return k
    return None


def shrink_tie_case(P, prop_id, kind, args, prof, work, budget_s=12.0, max_runs=80):
    """Minimise a single case on which model and implementation differ (delta debugging on the bytes of the
    last argument: deliveries are merged first, then byte ranges removed), keeping 'they still differ'.
    Used only on the violation path; returns (args, runs) -- the original args when nothing smaller fails."""
    t0 = time.time()
    runs = [0]

    def differs(cand_args):
        if runs[0] >= max_runs or time.time() - t0 > budget_s:
            return False
        runs[0] += 1
        c = Ctx(prop_id, "quick", 0)
        cid = c.add(kind, cand_args)
        try:
            impl, model = vlib.run_sides(os.path.join(work, "shrink"), c.cases, prof)
            return P.project(c, cid, impl[cid][0]) != P.project(c, cid, model[cid][0])
        except Exception:
            return False

    args = list(args)
    last = args[-1]
    if kind in ("req", "resp"):
        parts = [b"" if x in ("", ".") else bytes.fromhex(x) for x in last.split(",")]
    elif kind in ("dec", "txt", "pipereq", "piperesp", "rtreq", "rtresp"):
        parts = [bytes.fromhex(last)] if last not in ("", ".") else [b""]
    else:
        return args, 0
    enc = (lambda ps: dels(ps)) if kind in ("req", "resp") else (lambda ps: hx(b"".join(ps)))
    # merge deliveries
    if len(parts) > 1 and differs(args[:-1] + [enc([b"".join(parts)])]):
        parts = [b"".join(parts)]
    else:
        i = 0
        while i + 1 < len(parts):
            cand = parts[:i] + [parts[i] + parts[i + 1]] + parts[i + 2:]
            if differs(args[:-1] + [enc(cand)]):
                parts = cand
            else:
                i += 1
    # remove byte ranges inside each delivery
    for k in range(len(parts)):
        n = max(1, len(parts[k]) // 2)
        while n >= 1 and runs[0] < max_runs and time.time() - t0 <= budget_s:
            i, changed = 0, False
            while i < len(parts[k]):
                cand = parts[:k] + [parts[k][:i] + parts[k][i + n:]] + parts[k + 1:]
                if differs(args[:-1] + [enc(cand)]):
                    parts, changed = cand, True
                else:
                    i += n
            n = n // 2 if not changed or n > 1 else 0
    return args[:-1] + [enc(parts)], runs[0]


def run(prop_id, tier, seed, replay=None):
    t0 = time.time()
    P = PROPS[prop_id]()
    work = os.path.join(vlib.WORK, prop_id)
    os.makedirs(work, exist_ok=True)
    os.makedirs(os.path.join(ROOT, "replays"), exist_ok=True)
    log = lambda *a: print(*a, flush=True)

    # ---- proof step
    proof = vlib.proof_step(prop_id, thorough=(tier == "thorough"))
    log(f"[{prop_id}] proof step: ok={proof['ok']} obligations={proof['obligations']} theorems={proof['theorems']}")
    if not proof["ok"]:
        log(proof["log"][-3000:])

    # ---- build both sides from the current tree
    ok, out = vlib.build_harness(P.profiles)
    if not ok:
        log(out)
        log(f"[{prop_id}] the harness does not build against /repo's working tree")
        replay_path = os.path.join(ROOT, "replays", f"{prop_id}-build.json")
        json.dump({"property": prop_id, "kind": "build-failure", "log": out[-2000:]}, open(replay_path, "w"), indent=1)
        print(f"VIOLATION property={prop_id} replay={replay_path} no-failing-input-found")
        return 1
    ok, out = vlib.build_driver()
    if not ok:
        log(out)
        raise SystemExit("driver build failed (run setup)")

    # ---- cases
    ctx = Ctx(prop_id, tier, seed)
    site_report = None
    if replay:
        rp = json.load(open(replay))
        for c in rp["cases"]:
            ctx.add(c["kind"], c["args"], **{k: v for k, v in c.get("meta", {}).items()})
        if rp.get("minimized"):
            ctx.add(rp["minimized"]["kind"], rp["minimized"]["args"])
    else:
        if prop_id == "C06":
            # the inventory of operations that can panic, regenerated from /repo/src, against the partial
            # operations of Model/Checked.v (covered by C06_*_never_panics).  A difference is not a verdict
            # (a harmless rewrite changes expressions too): it widens this run's crash search to the
            # thorough tier's case counts and is reported in the evidence.
            import panic_sites
            try:
                site_report = panic_sites.compare()
            except Exception as e:      # the inventory is data for this run, never a verdict: a scanner problem must not break the check
                log(f"[C06] NOTE: the panic-site inventory could not be computed ({type(e).__name__}: {e}); crash search widened")
                site_report = {"sites_in_source": 0, "proved_in_checked_model": [], "reviewed_cannot_fail": [],
                               "unaccounted": ["<inventory unavailable>"], "stale_labels": []}
            if site_report["unaccounted"] or site_report["stale_labels"]:
                log(f"[C06] NOTE: the panic-site inventory of /repo/src differs from Model/Checked.v "
                    f"(not covered by the theorem: {site_report['unaccounted'][:6]}; no longer in the source: "
                    f"{site_report['stale_labels'][:6]}); crash search widened")
                ctx.thorough = True
        P.gen(ctx)
        if tier == "thorough":
            # deeper: the families again from further PRNG streams derived from the same seed (fixed families
            # repeat; they are small next to the random ones)
            for k in range(1, getattr(P, "thorough_rounds", 3)):
                ctx.rng = random.Random(f"{prop_id}/{seed}/round{k}")
                P.gen(ctx)
    log(f"[{prop_id}] {len(ctx.cases)} cases, profiles {P.profiles}")

    tie_bad, rel_bad, known_hits = [], [], {}
    unmodelled = 0
    inflate_stats = {"im": 0, "is": 0, "ig": 0, "examples": []}
    # the corpus (inputs that once told a broken tree from the real one; tools/seeded.py corpus) runs first,
    # through the model/implementation comparison only: its cases carry no generator metadata
    cctx = Ctx(prop_id, tier, seed)
    # the property's own corpus, then the corpus cases of the other properties that are about the same
    # operation (same case kinds): an input that once told a broken parser from the real one under C03 is an
    # input of C01, C08, C09 too
    kinds_of = getattr(P, "corpus_kinds", CORPUS_KINDS.get(prop_id, ()))
    if not replay:
        seen = set()
        for owner in [prop_id] + sorted(x for x in os.listdir(os.path.join(ROOT, "corpus")) if x != prop_id):
            cdir = os.path.join(ROOT, "corpus", owner)
            if not os.path.isdir(cdir):
                continue
            for fn in sorted(os.listdir(cdir)):
                for line in open(os.path.join(cdir, fn)):
                    parts = line.rstrip("\n").split("\t")
                    if parts[0] in ("reqe", "respe", "reqretry", "respretry"):
                        continue        # implementation-only kinds have no model side: they stay in the generators
                    if len(parts) >= 1 and parts[0] and (owner == prop_id or parts[0] in kinds_of) and tuple(parts) not in seen:
                        seen.add(tuple(parts))
                        cctx.add(parts[0], parts[1:], corpus=f"{owner}/{fn}")
    corpus_bad = []
    if cctx.cases:
        for prof in P.profiles:
            cimpl, cmodel = vlib.run_sides(os.path.join(work, "corpus-" + prof), cctx.cases, prof)
            for cid, kind, args in cctx.cases:
                if cid not in cimpl or cid not in cmodel or "generr:needs-fold" in cmodel[cid][0]:
                    continue
                try:
                    a, b = P.project(cctx, cid, cimpl[cid][0]), P.project(cctx, cid, cmodel[cid][0])
                except (KeyError, ValueError, IndexError):
                    continue        # a projection that needs generator metadata: not applicable to corpus cases
                if a != b and not P.known(cctx, cid, "corpus"):
                    corpus_bad.append((prof, cid, f"model and implementation differ on a corpus case ({prof}): impl={a[:300]} model={b[:300]}"))
    impl_by_profile = {}
    for prof in P.profiles:
        # cases marked impl_only (inputs of a size the list-based model needs minutes for) are run on the
        # implementation alone and judged by the property's relations; they are counted in the evidence
        both = [c for c in ctx.cases if not ctx.meta[c[0]].get("impl_only")]
        solo = [c for c in ctx.cases if ctx.meta[c[0]].get("impl_only")]
        impl, model = vlib.run_sides(os.path.join(work, prof), both, prof)
        if solo:
            impl.update(vlib.run_sides(os.path.join(work, prof + "-impl-only"), solo, prof, sides=("impl",))[0])
        impl_by_profile[prof] = impl
        for cid, (_, diag) in model.items():
            if diag.startswith("im="):
                d = fields_of(diag)
                for k in ("im", "is", "ig"):
                    inflate_stats[k] += int(d.get(k, 0))
                if d.get("igl"):
                    inflate_stats["examples"] = (inflate_stats["examples"] + d["igl"].split(","))[:5]
        missing = [c[0] for c in both if c[0] not in impl or c[0] not in model] + [c[0] for c in solo if c[0] not in impl]
        if missing:
            raise SystemExit(f"missing outputs for {len(missing)} cases, e.g. {missing[:3]}")
        for cid, kind, args in both:
            a, b = P.project(ctx, cid, impl[cid][0]), P.project(ctx, cid, model[cid][0])
            if "generr:needs-fold" in model[cid][0]:
                unmodelled += 1          # header folding on generate is not modelled: no comparison
                continue
            if a != b:
                msg = f"model and implementation differ ({prof}): impl={a[:300]} model={b[:300]}"
                kid = P.known(ctx, cid, msg)
                if kid:
                    known_hits.setdefault(kid, []).append((cid, msg))
                else:
                    tie_bad.append((prof, [cid], msg))
        if not replay or any("group" in m or True for m in ctx.meta.values()):
            try:
                rels = list(P.relations(ctx, impl))
            except (KeyError, ValueError, IndexError) as e:
                if replay:
                    rels = []
                else:
                    raise
            for ids, msg in rels:
                kid = P.known(ctx, ids[-1], msg)
                if kid:
                    known_hits.setdefault(kid, []).append((ids[-1], msg))
                else:
                    rel_bad.append((prof, ids, msg))

    with open(os.path.join(work, "mismatches.txt"), "w") as mf:
        for prof, ids, msg in tie_bad:
            mf.write(f"TIE {prof} {ids} {ctx.meta[ids[0]]['kind']} {ctx.meta[ids[0]]['args']} :: {msg}\n")
        for prof, ids, msg in rel_bad:
            mf.write(f"REL {prof} {ids} {ctx.meta[ids[-1]]['kind']} {ctx.meta[ids[-1]]['args']} :: {msg}\n")

    if inflate_stats["ig"]:
        log(f"[{prop_id}] MODEL-GAP (dependency model, not a verdict): Model/Inflate.v disagreed with flate2 on {inflate_stats['ig']} "
            f"stream(s), e.g. {inflate_stats['examples'][:2]}; those cases were decided with the library's answer")
    # ---- verdict
    for kid, hits in sorted(known_hits.items()):
        e = known_entry(kid)
        if e is None or prop_id not in e["properties"]:
            for cid, msg in hits:
                rel_bad.append(("?", [cid], msg))
            continue
        print(f"KNOWN-FINDING: property={prop_id} {kid} {e['class']} ({len(hits)} case(s) this run, e.g. {hits[0][1][:120]})")

    def case_dump(ids):
        return [{"id": i, "kind": ctx.meta[i]["kind"], "args": ctx.meta[i]["args"]} for i in ids]

    def size_of(entry):
        return sum(len(a) for i in entry[1] for a in ctx.meta[i]["args"])

    violation = None
    rel_bad.sort(key=size_of)
    tie_bad.sort(key=size_of)
    if rel_bad:
        prof, ids, msg = rel_bad[0]
        violation = {"kind": "property-fails-on-implementation", "profile": prof, "message": msg, "cases": case_dump(ids),
                     "impl": {i: impl_by_profile.get(prof, impl)[i][0] for i in ids}, "found": True}
    elif tie_bad:
        prof, ids, msg = tie_bad[0]
        violation = {"kind": "correspondence-broken", "profile": prof, "message": msg, "cases": case_dump(ids),
                     "theorems": proof["theorems"], "found": bool(P.spec_type),
                     "note": ("the model's answer is the specification for this property: this input is the failing input"
                              if P.spec_type else
                              "the theorems of this property are about the model; on this case the code no longer behaves like "
                              "the model, so they no longer transfer; the property's own relation found no failing input")}
        if not replay and len(ids) == 1:
            try:
                small, nruns = shrink_tie_case(P, prop_id, ctx.meta[ids[0]]["kind"], ctx.meta[ids[0]]["args"], prof, work)
            except Exception as e:       # minimisation is a convenience: it must never change the verdict
                small, nruns = ctx.meta[ids[0]]["args"], 0
                log(f"[{prop_id}] (minimisation skipped: {type(e).__name__})")
            if small != ctx.meta[ids[0]]["args"]:
                violation["minimized"] = {"kind": ctx.meta[ids[0]]["kind"], "args": small, "runs": nruns,
                                          "note": "smaller input on which model and implementation still differ (delta debugging)"}
    elif corpus_bad:
        prof, cid, msg = corpus_bad[0]
        violation = {"kind": "correspondence-broken", "profile": prof, "message": msg,
                     "cases": [{"id": cid, "kind": cctx.meta[cid]["kind"], "args": cctx.meta[cid]["args"]}],
                     "theorems": proof["theorems"], "found": bool(P.spec_type),
                     "note": "a corpus case (corpus/%s): the code no longer behaves like the model on it" % prop_id}
    elif not proof["ok"]:
        violation = {"kind": "proof-broken", "message": proof["log"][-1500:], "cases": [], "theorems": proof["theorems"], "found": False}

    nontriv = set()
    hist = {}
    impl0 = impl_by_profile[P.profiles[0]]
    for cid, kind, args in ctx.cases:
        canon = impl0[cid][0]
        key = verdict_class(canon) if kind in ("req", "resp") else canon.split(";")[0].split(":")[0][:12]
        hist[f"{kind}:{key}"] = hist.get(f"{kind}:{key}", 0) + 1
        if P.nontrivial(ctx, cid, canon):
            nontriv.add((kind, tuple(args)))
    # input distribution: bytes per case (hex arguments halved), and case kinds
    size_hist, kind_hist = {}, {}
    for cid, kind, args in ctx.cases:
        nbytes = sum(len(a) for a in args) // 2
        bucket = "<64" if nbytes < 64 else "<256" if nbytes < 256 else "<1Ki" if nbytes < 1024 else "<4Ki" if nbytes < 4096 else "<64Ki" if nbytes < 65536 else ">=64Ki"
        size_hist[bucket] = size_hist.get(bucket, 0) + 1
        kind_hist[kind] = kind_hist.get(kind, 0) + 1
    sample_ids = [c[0] for c in ctx.cases[:: max(1, len(ctx.cases) // 5)]][:5]
    coverage = {
        "obligations": proof["obligations"], "discharged": proof["discharged"],
        "checker_cmd": f"make -C coq Props/{prop_id}.vo (coqc 8.16.1, full .vo build)" + ("; coqchk -silent -o" if tier == "thorough" else ""),
        "trusted_base": TRUSTED_BASE,
        "theorems": proof["theorems"], "print_assumptions": proof["assumptions"], "proof_cone": proof["cone"],
        "coqchk": (proof.get("coqchk") or "not run in the quick tier")[-600:],
        "evaluations": len(ctx.cases) * len(P.profiles),
        "distinct_nontrivial": len(nontriv),
        "rule": "structured generators (tools/gens.py) + malformed stream + exact-limit sweeps + delivery schedules, all from one PRNG seeded by VERIF_SEED; "
                "non-trivial = distinct (kind, arguments) on which the implementation got past the first element (not an immediate rejection)",
        "traces_validated_against_impl": len(ctx.cases) * len(P.profiles),
        "not_compared_needs_folding": unmodelled,
        "implementation_only_cases": sum(1 for m in ctx.meta.values() if m.get("impl_only")),
        "inflate_model_vs_flate2": {"stream_decodes_by_the_coq_model": inflate_stats["im"], "skipped_too_large": inflate_stats["is"],
                                    "disagreements_with_the_library": inflate_stats["ig"], "examples": inflate_stats["examples"]},
        "tie_mismatches": len(tie_bad), "relation_failures": len(rel_bad),
        **({"panic_site_inventory": {"sites_in_source": site_report["sites_in_source"],
                                     "covered_by_checked_model_theorems": len(site_report["proved_in_checked_model"]),
                                     "reviewed_cannot_fail": site_report["reviewed_cannot_fail"],
                                     "not_covered": site_report["unaccounted"], "stale_labels": site_report["stale_labels"]}}
           if site_report else {}),
        "corpus_cases": len(cctx.cases), "corpus_mismatches": len(corpus_bad),
        "known_finding_hits": {k: len(v) for k, v in known_hits.items()},
        "verdict_histogram": hist,
        "input_size_histogram": size_hist, "case_kind_histogram": kind_hist,
        "profiles": list(P.profiles),
        "samples": [{"kind": ctx.meta[i]["kind"], "args": [a[:200] for a in ctx.meta[i]["args"]], "impl": impl0[i][0][:300]} for i in sample_ids],
    }
    assumptions = ["the model computes what the code computes: sampled by the correspondence run above, not proved",
                   "oracle behaviour (rhymuri, flate2, encoding_rs) enters theorems only as explicit hypotheses / parameters"]
    vlib.write_evidence(prop_id, tier, seed, coverage, assumptions, time.time() - t0, 1 if violation else 0)

    if violation:
        violation.update({"property": prop_id, "seed": seed, "tier": tier,
                          "replay_cmd": f"./check {prop_id} --replay <this file>"})
        rp = os.path.join(ROOT, "replays", f"{prop_id}-{tier}-{seed}.json")
        json.dump(violation, open(rp, "w"), indent=1, default=lambda o: o.hex() if isinstance(o, bytes) else str(o))
        log(f"[{prop_id}] {violation['kind']}: {violation['message'][:600]}")
        log(f"[{prop_id}] tie mismatches={len(tie_bad)} relation failures={len(rel_bad)}")
        print(f"VIOLATION property={prop_id} replay={rp}" + ("" if violation["found"] else " no-failing-input-found"))
        return 1
    log(f"[{prop_id}] OK: {len(ctx.cases)} cases x {len(P.profiles)} profile(s), {len(nontriv)} distinct non-trivial, "
        f"proof obligations {proof['discharged']}/{proof['obligations']}, {time.time() - t0:.1f}s")
    return 0


def main():
    if len(sys.argv) < 3 or sys.argv[1] not in PROPS:
        print(__doc__)
        return 2
    prop = sys.argv[1]
    seed = int(os.environ.get("VERIF_SEED", "1"))
    if sys.argv[2] == "--replay":
        return run(prop, "quick", seed, replay=sys.argv[3])
    tier = "thorough" if sys.argv[2] == "--thorough" else "quick"
    return run(prop, tier, seed)


if __name__ == "__main__":
    sys.exit(main())
