(* HuffmanDyn.v -- blocks with a dynamic header (RFC 1951 3.2.7), for ANY header an encoder may write:
   any HLIT/HDIST/HCLEN, any code-length code, any run-length coding of the code lengths, any pair of
   tables the decoder accepts, any literals and matches.  A final dynamic block, specified by its bits,
   decodes to RFC 1951's copy semantics of its symbols. *)
From Coq Require Import List NArith ZArith Arith Bool Lia ZifyBool ZifyN.
From Http Require Import Model.Bytes Model.Inflate Proofs.InflateLocal Proofs.HuffmanCanon Proofs.HuffmanKraft
     Proofs.HuffmanFixed Proofs.CopyMatch Proofs.HuffmanFixedLZ Proofs.HuffmanGen.
Import ListNotations.

(* ---- the lengths of the code-length code, written in HUFFLEN_ORDER ---- *)
Fixpoint place (order : list nat) (vs : list N) (acc : list N) : list N :=
  match order, vs with
  | o :: order', v :: vs' => place order' vs' (set_nth o v acc)
  | _, _ => acc
  end.

Lemma read_hufflens_correct : forall vs order acc s t,
    length vs <= length order ->
    Forall (fun v => (v < 8)%N) vs ->
    bits_of s = concat (map (lsb_bits 3) vs) ++ t ->
    exists s', read_hufflens order (length vs) acc s = Ok (place order vs acc) s' /\ bits_of s' = t.
Proof.
  induction vs as [|v vs IH]; intros order acc s t Hl Hv Hb.
  - exists s. split; [|exact Hb]. destruct order; reflexivity.
  - destruct order as [|o order']; [simpl in Hl; lia|]. inversion Hv as [|? ? Hv1 Hv']; subst.
    cbn [map concat] in Hb. rewrite <- app_assoc in Hb.
    destruct (getbits_view 3 _ _ _ Hb) as [s1 [G B1]].
    rewrite N.mod_small in G by (change (2 ^ N.of_nat 3)%N with 8%N; exact Hv1).
    destruct (IH order' (set_nth o v acc) s1 t ltac:(simpl in Hl; lia) Hv' B1) as [s' [R B']].
    exists s'. split; [|exact B']. cbn [length]. rewrite read_hufflens_S. unfold bind. rewrite G. exact R.
Qed.

(* ---- the run-length coded code lengths ---- *)
Inductive clsym := CLen (l : N) | C16 (e : N) | C17 (e : N) | C18 (e : N).

Definition clsym_num (c : clsym) : nat :=
  match c with CLen l => N.to_nat l | C16 _ => 16 | C17 _ => 17 | C18 _ => 18 end.

Definition clsym_ok (hlens : list N) (c : clsym) : Prop :=
  has_code hlens (clsym_num c) /\
  match c with
  | CLen l => (l < 16)%N | C16 e => (e < 4)%N | C17 e => (e < 8)%N | C18 e => (e < 128)%N
  end.

Definition clsym_bits (hlens : list N) (c : clsym) : list bool :=
  gcode hlens (clsym_num c) ++
  match c with CLen _ => [] | C16 e => lsb_bits 2 e | C17 e => lsb_bits 3 e | C18 e => lsb_bits 7 e end.

(* what the symbols denote: the list of code lengths (None: not a valid coding of `total` lengths) *)
Fixpoint expand (total : nat) (cs : list clsym) (acc : list N) : option (list N) :=
  match cs with
  | [] => if Nat.eqb (length acc) total then Some (rev acc) else None
  | c :: cs' =>
      if Nat.ltb (length acc) total then
        match c with
        | CLen l => expand total cs' (l :: acc)
        | C16 e => match acc with
                   | [] => None
                   | prev :: _ => expand total cs' (repeat prev (3 + N.to_nat e) ++ acc)
                   end
        | C17 e => expand total cs' (repeat 0%N (3 + N.to_nat e) ++ acc)
        | C18 e => expand total cs' (repeat 0%N (11 + N.to_nat e) ++ acc)
        end
      else None
  end.

Lemma read_lens_correct hlens total :
  table_ok true (mk_table hlens) = true ->
  forall cs f acc s t lens,
    Forall (clsym_ok hlens) cs ->
    expand total cs acc = Some lens ->
    length cs < f ->
    bits_of s = concat (map (clsym_bits hlens) cs) ++ t ->
    exists s', read_lens f (mk_table hlens) total acc s = Ok lens s' /\ bits_of s' = t.
Proof.
  intros Hok. induction cs as [|c cs IH]; intros f acc s t lens Hc He Hf Hb.
  - destruct f as [|f]; [lia|]. cbn [expand] in He.
    destruct (Nat.eqb (length acc) total) eqn:E; [|discriminate]. inversion He; subst lens.
    exists s. split; [|exact Hb]. rewrite read_lens_S. unfold read_lens_body.
    apply Nat.eqb_eq in E. replace (Nat.ltb (length acc) total) with false by (symmetry; apply Nat.ltb_ge; lia).
    replace (Nat.eqb (length acc) total) with true by (symmetry; apply Nat.eqb_eq; exact E). reflexivity.
  - destruct f as [|f]; [simpl in Hf; lia|]. inversion Hc as [|? ? Hc1 Hc']; subst.
    cbn [expand] in He. destruct (Nat.ltb (length acc) total) eqn:El; [|discriminate].
    cbn [map concat] in Hb. unfold clsym_bits at 1 in Hb. repeat rewrite <- app_assoc in Hb.
    destruct Hc1 as [Hcode Hext].
    destruct (dec_g true hlens (clsym_num c) s _ Hok Hcode Hb) as [s1 [D B1]].
    rewrite read_lens_S. unfold read_lens_body. rewrite El. unfold bind. rewrite D.
    destruct c as [l | e | e | e]; cbn [clsym_num] in *.
    + (* a length *)
      cbn [app] in B1.
      destruct (IH f (l :: acc) s1 t lens Hc' He ltac:(simpl in Hf; lia) B1) as [s' [R B']].
      exists s'. split; [|exact B'].
      replace (Nat.ltb (N.to_nat l) 16) with true by (symmetry; apply Nat.ltb_lt; lia).
      rewrite N2Nat.id. exact R.
    + (* repeat the previous length *)
      destruct acc as [|prev acc']; [discriminate|].
      destruct (getbits_view 2 _ _ _ B1) as [s2 [G B2]].
      rewrite N.mod_small in G by (change (2 ^ N.of_nat 2)%N with 4%N; exact Hext).
      destruct (IH f _ s2 t lens Hc' He ltac:(simpl in Hf; lia) B2) as [s' [R B']].
      exists s'. split; [|exact B']. cbn [Nat.ltb Nat.leb Nat.eqb]. rewrite G. exact R.
    + destruct (getbits_view 3 _ _ _ B1) as [s2 [G B2]].
      rewrite N.mod_small in G by (change (2 ^ N.of_nat 3)%N with 8%N; exact Hext).
      destruct (IH f _ s2 t lens Hc' He ltac:(simpl in Hf; lia) B2) as [s' [R B']].
      exists s'. split; [|exact B']. cbn [Nat.ltb Nat.leb Nat.eqb]. rewrite G. exact R.
    + destruct (getbits_view 7 _ _ _ B1) as [s2 [G B2]].
      rewrite N.mod_small in G by (change (2 ^ N.of_nat 7)%N with 128%N; exact Hext).
      destruct (IH f _ s2 t lens Hc' He ltac:(simpl in Hf; lia) B2) as [s' [R B']].
      exists s'. split; [|exact B']. cbn [Nat.ltb Nat.leb Nat.eqb]. rewrite G. exact R.
Qed.

(* ---- the whole header ---- *)
Record dyn_header := {
  d_hlit : nat;              (* number of literal/length code lengths: 257..286 *)
  d_hdist : nat;             (* number of distance code lengths: 1..30 *)
  d_vs : list N;             (* the 3-bit lengths of the code-length code, in HUFFLEN_ORDER: 4..19 of them *)
  d_cs : list clsym          (* the run-length coded lengths *)
}.

Definition d_hlens (h : dyn_header) : list N := place HUFFLEN_ORDER (d_vs h) (repeat 0%N 19).

Definition header_bits (h : dyn_header) : list bool :=
  lsb_bits 5 (N.of_nat (d_hlit h - 257)) ++ lsb_bits 5 (N.of_nat (d_hdist h - 1))
  ++ lsb_bits 4 (N.of_nat (length (d_vs h) - 4))
  ++ concat (map (lsb_bits 3) (d_vs h)) ++ concat (map (clsym_bits (d_hlens h)) (d_cs h)).

(* a header the decoder accepts, denoting the code lengths `lens` *)
Definition header_ok (h : dyn_header) (lens : list N) : Prop :=
  257 <= d_hlit h /\ d_hlit h <= 286 /\ 1 <= d_hdist h /\ d_hdist h <= 30 /\
  4 <= length (d_vs h) /\ length (d_vs h) <= 19 /\ Forall (fun v => (v < 8)%N) (d_vs h) /\
  table_ok true (mk_table (d_hlens h)) = true /\
  Forall (clsym_ok (d_hlens h)) (d_cs h) /\
  expand (d_hlit h + d_hdist h) (d_cs h) [] = Some lens /\
  table_ok false (mk_table (skipn (d_hlit h) lens)) = true /\
  table_ok false (mk_table (firstn (d_hlit h) lens)) = true.

Lemma dynamic_tables_correct h lens s t :
  header_ok h lens ->
  bits_of s = header_bits h ++ t ->
  exists s', dynamic_tables s = Ok (mk_table (firstn (d_hlit h) lens), mk_table (skipn (d_hlit h) lens)) s'
             /\ bits_of s' = t.
Proof.
  intros [L1 [L2 [D1 [D2 [V1 [V2 [Vv [Hhl [Hcs [Hex [Hdok Hlok]]]]]]]]]]] Hb.
  unfold header_bits in Hb. repeat rewrite <- app_assoc in Hb.
  destruct (getbits_view 5 _ _ _ Hb) as [s1 [G1 B1]].
  rewrite N.mod_small in G1 by (change (2 ^ N.of_nat 5)%N with 32%N; lia).
  destruct (getbits_view 5 _ _ _ B1) as [s2 [G2 B2]].
  rewrite N.mod_small in G2 by (change (2 ^ N.of_nat 5)%N with 32%N; lia).
  destruct (getbits_view 4 _ _ _ B2) as [s3 [G3 B3]].
  rewrite N.mod_small in G3 by (change (2 ^ N.of_nat 4)%N with 16%N; lia).
  destruct (read_hufflens_correct (d_vs h) HUFFLEN_ORDER (repeat 0%N 19) s3 _ ltac:(simpl; lia) Vv B3) as [s4 [R4 B4]].
  destruct (read_lens_correct (d_hlens h) (d_hlit h + d_hdist h) Hhl (d_cs h) (d_hlit h + d_hdist h + 1) [] s4 t lens Hcs Hex) as [s5 [R5 B5]].
  { (* every symbol adds at least one length, so there are at most hlit+hdist symbols *)
    assert (Hn : forall cs acc l, expand (d_hlit h + d_hdist h) cs acc = Some l -> length cs + length acc <= d_hlit h + d_hdist h).
    { clear. induction cs as [|c cs IH]; intros acc l He.
      - cbn [expand] in He. destruct (Nat.eqb (length acc) (d_hlit h + d_hdist h)) eqn:E; [|discriminate].
        apply Nat.eqb_eq in E. simpl. lia.
      - cbn [expand] in He. destruct (Nat.ltb (length acc) (d_hlit h + d_hdist h)) eqn:E; [|discriminate].
        destruct c as [l0|e|e|e].
        + specialize (IH _ _ He). simpl in *. lia.
        + destruct acc as [|p a']; [discriminate|]. specialize (IH _ _ He).
          rewrite app_length, repeat_length in IH. simpl in *. lia.
        + specialize (IH _ _ He). rewrite app_length, repeat_length in IH. simpl in *. lia.
        + specialize (IH _ _ He). rewrite app_length, repeat_length in IH. simpl in *. lia. }
    specialize (Hn _ _ _ Hex). simpl in Hn. lia. }
  { exact B4. }
  exists s5. split; [|exact B5].
  rewrite dynamic_tables_eq. unfold dyn_body, bind. rewrite G1, G2, G3. cbv zeta.
  replace (N.to_nat (N.of_nat (d_hlit h - 257)) + 257) with (d_hlit h) by lia.
  replace (N.to_nat (N.of_nat (d_hdist h - 1)) + 1) with (d_hdist h) by lia.
  replace (N.to_nat (N.of_nat (length (d_vs h) - 4)) + 4) with (length (d_vs h)) by lia.
  replace (Nat.ltb 286 (d_hlit h) || Nat.ltb 30 (d_hdist h))%bool with false
    by (symmetry; apply orb_false_iff; split; apply Nat.ltb_ge; lia).
  rewrite R4. fold (d_hlens h). rewrite Hhl. cbn [negb]. rewrite R5. rewrite Hdok, Hlok. reflexivity.
Qed.

(* ---- a final dynamic block, as a raw DEFLATE stream ---- *)
Theorem dynamic_block_inverts e h lens xs pad :
  header_ok h lens ->
  let litlens := firstn (d_hlit h) lens in
  let distlens := skipn (d_hlit h) lens in
  Forall (gsym_ok litlens distlens) xs -> has_code litlens 256 ->
  flat_map byte_bits e = [true; false; true] ++ header_bits h ++ gblock_bits litlens distlens xs ++ pad ->
  length pad < 8 ->
  inflate_raw_model e = Some (rev (fold_left fsym_apply xs [])).
Proof.
  intros Hh litlens distlens Hx Heob He Hp. unfold inflate_raw_model, inflate_fuel.
  pose proof Hh as [_ [_ [_ [_ [_ [_ [_ [_ [_ [_ [Hdok Hlok]]]]]]]]]]].
  assert (Hf : length xs + 1 < fuel_for e).
  { unfold fuel_for. pose proof (f_equal (@length bool) He) as HL.
    rewrite byte_bits_total, !app_length in HL. pose proof (gblock_bits_length litlens distlens Hlok Hdok xs Hx). cbn [length] in HL. lia. }
  remember (fuel_for e) as f eqn:Ef. destruct f as [|f]; [lia|].
  rewrite blocks_S. unfold blocks_body, bind.
  match goal with |- context [getbits 3 ?st] => set (st0 := st) end.
  assert (B0 : bits_of st0 = true :: false :: true :: header_bits h ++ gblock_bits litlens distlens xs ++ pad)
    by (unfold st0, bits_of; cbn [fst snd app]; exact He).
  destruct (getbit_view _ _ _ B0) as [s1 [G1 B1]].
  destruct (getbit_view _ _ _ B1) as [s2 [G2 B2]].
  destruct (getbit_view _ _ _ B2) as [s3 [G3 B3]].
  assert (G : getbits 3 st0 = Ok 5%N s3).
  { cbn [getbits]. rewrite G1, G2, G3. reflexivity. }
  rewrite G. unfold block_content. change (N.div2 5) with 2%N. change (N.odd 5) with true. cbv iota.
  destruct (dynamic_tables_correct h lens s3 _ Hh B3) as [s4 [DT B4]].
  unfold bind. rewrite DT. cbn [fst snd].
  destruct (codes_gsymbols litlens distlens Hlok Hdok xs (S f) [] s4 pad Hx Heob ltac:(lia) B4) as [s' [C B']].
  fold litlens distlens. rewrite C.
  assert (Hs' : snd s' = []) by (apply bits_short_no_bytes; rewrite B'; exact Hp).
  destruct s' as [c' r']. cbn [snd] in Hs'. subst r'. unfold align, to_option. cbn [snd].
  rewrite rev_append_rev, app_nil_r. reflexivity.
Qed.
