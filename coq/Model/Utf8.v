(* Utf8.v -- std::str::from_utf8 validity (Unicode Table 3-7), decoding to scalar
   values and encoding back. *)
From Http Require Import Model.Bytes.

Definition is_cont (b : N) : bool := between 128 191 b.

Fixpoint utf8_valid (s : bytes) : bool :=
  match s with
  | [] => true
  | b0 :: t =>
    if N.ltb b0 128 then utf8_valid t
    else if between 194 223 b0 then
      match t with
      | b1 :: t1 => is_cont b1 && utf8_valid t1
      | _ => false
      end
    else if between 224 239 b0 then
      match t with
      | b1 :: b2 :: t2 =>
          (if N.eqb b0 224 then between 160 191 b1
           else if N.eqb b0 237 then between 128 159 b1
           else is_cont b1) && is_cont b2 && utf8_valid t2
      | _ => false
      end
    else if between 240 244 b0 then
      match t with
      | b1 :: b2 :: b3 :: t3 =>
          (if N.eqb b0 240 then between 144 191 b1
           else if N.eqb b0 244 then between 128 143 b1
           else is_cont b1) && is_cont b2 && is_cont b3 && utf8_valid t3
      | _ => false
      end
    else false
  end.

(* decoding: Some code points iff valid *)
Fixpoint utf8_decode (s : bytes) : option (list N) :=
  match s with
  | [] => Some []
  | b0 :: t =>
    if N.ltb b0 128 then option_map (cons b0) (utf8_decode t)
    else if between 194 223 b0 then
      match t with
      | b1 :: t1 =>
          if is_cont b1
          then option_map (cons ((b0 - 192) * 64 + (b1 - 128))%N) (utf8_decode t1)
          else None
      | _ => None
      end
    else if between 224 239 b0 then
      match t with
      | b1 :: b2 :: t2 =>
          if (if N.eqb b0 224 then between 160 191 b1
              else if N.eqb b0 237 then between 128 159 b1
              else is_cont b1) && is_cont b2
          then option_map
                 (cons ((b0 - 224) * 4096 + (b1 - 128) * 64 + (b2 - 128))%N)
                 (utf8_decode t2)
          else None
      | _ => None
      end
    else if between 240 244 b0 then
      match t with
      | b1 :: b2 :: b3 :: t3 =>
          if (if N.eqb b0 240 then between 144 191 b1
              else if N.eqb b0 244 then between 128 143 b1
              else is_cont b1) && is_cont b2 && is_cont b3
          then option_map
                 (cons ((b0 - 240) * 262144 + (b1 - 128) * 4096
                        + (b2 - 128) * 64 + (b3 - 128))%N)
                 (utf8_decode t3)
          else None
      | _ => None
      end
    else None
  end.

Definition utf8_encode_char (c : N) : bytes :=
  if N.ltb c 128 then [c]
  else if N.ltb c 2048 then [(192 + c / 64)%N; (128 + c mod 64)%N]
  else if N.ltb c 65536 then
    [(224 + c / 4096)%N; (128 + (c / 64) mod 64)%N; (128 + c mod 64)%N]
  else
    [(240 + c / 262144)%N; (128 + (c / 4096) mod 64)%N;
     (128 + (c / 64) mod 64)%N; (128 + c mod 64)%N].

Definition utf8_encode (t : list N) : bytes := flat_map utf8_encode_char t.

(* a Unicode scalar value *)
Definition is_scalar (c : N) : bool :=
  (N.ltb c 55296 || (between 57344 1114111 c))%bool.
