(* C17 -- length-determining numeric fields are accepted only in their RFC form. *)
From Coq Require Import String.
From Http Require Import Model.Bytes Model.Num Model.Headers Model.Request Model.Chunked
     Model.Response Spec.Delivery Proofs.Numeric.

(* the parsers used by the crate accept exactly 1*DIGIT / 1*HEXDIG (value fitting usize) *)
Theorem C17_decimal_exact :
  forall (s : bytes) (n : N),
    parse_dec s = Some n <-> (all_digits s /\ n = dec_value s /\ (n <= USIZE_MAX)%N).
Proof.
  intros s n. split.
  - exact (parse_dec_digits s n).
  - intros [D [-> L]]. exact (parse_dec_complete s D L).
Qed.
Print Assumptions C17_decimal_exact.

Theorem C17_hex_exact :
  forall (s : bytes) (n : N),
    parse_hex s = Some n <-> (all_hexdigits s /\ n = hex_value s /\ (n <= USIZE_MAX)%N).
Proof.
  intros s n. split.
  - exact (parse_hex_digits s n).
  - intros [D [-> L]]. exact (parse_hex_complete s D L).
Qed.
Print Assumptions C17_hex_exact.

(* Content-Length of an accepted request, under every delivery schedule and configuration *)
Theorem C17_request_content_length :
  forall (uri : Type) (uri_parse : bytes -> option uri) (cfg : rcfg) (ds : list bytes)
         (st : req_state uri) (tot : nat) (rest : bytes),
    feed _ (req_parse uri uri_parse cfg) req_init [] ds 0 = Done st tot rest ->
    forall t, header_value (r_headers st) CONTENT_LENGTH = Some t -> all_digits t.
Proof.
  intros uri uri_parse cfg ds st tot rest H.
  exact (request_cl_digits uri uri_parse cfg ds req_init [] 0 st tot rest I H).
Qed.
Print Assumptions C17_request_content_length.

(* status code: the text between the first two spaces of an accepted status line *)
Theorem C17_status_code :
  forall (line : bytes) (code : N) (reason : bytes),
    parse_status_line line = inl (code, reason) ->
    exists f, status_code_field line = Some f /\ all_digits f /\ code = dec_value f /\ (code < 1000)%N.
Proof. exact status_line_code_digits. Qed.
Print Assumptions C17_status_code.

(* chunk size: the text before ';' on every accepted chunk-size line *)
Theorem C17_chunk_size :
  forall (st : chunk_state) (buf : bytes) (st' : chunk_state) (c : nat),
    decode_size st buf = CPart st' c ->
    exists e, find_crlf buf = Some e /\ c = e + 2 /\ all_hexdigits (chunk_size_field (firstn e buf)).
Proof. exact decode_size_hexdigits. Qed.
Print Assumptions C17_chunk_size.

(* Content-Length of a response: whenever the header block completes with a Content-Length
   value, the call rejects or the value is 1*DIGIT *)
Theorem C17_response_content_length :
  forall (st : resp_state) (buf : bytes) (st1 : resp_state) (o : outcome) hs c,
    resp_headers st buf = (st1, o) ->
    hdr_parse None (s_headers st) buf = HComplete hs c ->
    match header_value hs CONTENT_LENGTH with
    | Some v => (exists k, o = Reject k) \/ all_digits v
    | None => True
    end.
Proof. intros st buf st1 o hs c H. exact (proj2 (resp_headers_cl st buf st1 o H) hs c). Qed.
Print Assumptions C17_response_content_length.

(* the difference to the standard-library parsers the code used before the fix: they accept,
   in addition, exactly one leading '+' *)
Theorem C17_std_parser_extra :
  forall (s : bytes) (n : N),
    parse_dec_rust s = Some n -> ~ all_digits s ->
    exists t, s = PLUS :: t /\ all_digits t /\ parse_dec t = Some n.
Proof. exact parse_dec_rust_extra. Qed.

Example C17_plus_refuted_by_fix :
  parse_dec_rust (str "+5"%string) = Some 5%N /\ parse_dec (str "+5"%string) = None
  /\ parse_hex (str "5"%string ++ [CR]) = None /\ parse_dec (str "18446744073709551616"%string) = None
  /\ parse_dec (str "18446744073709551615"%string) = Some 18446744073709551615%N.
Proof. vm_compute. repeat split. Qed.
