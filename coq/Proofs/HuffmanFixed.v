(* HuffmanFixed.v -- a first Huffman-coded encoder family inverted by the model of inflate:
   one final block with the fixed code of RFC 1951 3.2.6 carrying literals only (what zlib emits
   with Z_FIXED + Z_HUFFMAN_ONLY), specified by its bits: ANY byte string whose bits, least
   significant first, are   1 1 0  code(b1) ... code(bn)  code(256)  followed by fewer than 8
   padding bits decodes to b1 ... bn.  Uses the general canonical-code theorem of HuffmanCanon.v. *)
From Coq Require Import List NArith ZArith Arith Bool Lia ZifyBool ZifyN.
From Http Require Import Model.Bytes Model.Inflate Proofs.InflateLocal Proofs.HuffmanCanon.
Import ListNotations.

Definition fixed_len (sym : nat) : nat :=
  if Nat.ltb sym 144 then 8 else if Nat.ltb sym 256 then 9 else if Nat.ltb sym 280 then 7 else 8.

Definition fixed_code (sym : nat) : list bool := code_bits fixed_lit_lens sym (fixed_len sym).

Definition fixed_sym_ok (sym : nat) : bool :=
  let L := fixed_len sym in
  match nth_error fixed_lit_lens sym with
  | Some l => (N.eqb l (N.of_nat L) && N.ltb (code_value fixed_lit_lens sym L) (2 ^ N.of_nat L))%bool
  | None => false
  end.

Lemma fixed_syms_ok : forallb fixed_sym_ok (seq 0 288) = true.
Proof. vm_compute. reflexivity. Qed.

Lemma dec_fixed sym s t :
  sym < 288 -> bits_of s = fixed_code sym ++ t ->
  exists s', dec_sym fixed_lit s = Ok sym s' /\ bits_of s' = t.
Proof.
  intros Hs Hb.
  assert (Hok : fixed_sym_ok sym = true).
  { pose proof fixed_syms_ok as H. rewrite forallb_forall in H. apply H. apply in_seq. lia. }
  unfold fixed_sym_ok in Hok.
  destruct (nth_error fixed_lit_lens sym) as [l|] eqn:E; [|discriminate].
  apply andb_true_iff in Hok. destruct Hok as [H1 H2]. apply N.eqb_eq in H1. apply N.ltb_lt in H2. subst l.
  apply (dec_sym_canonical fixed_lit_lens sym (fixed_len sym) s t); try assumption;
    unfold fixed_len; destruct (Nat.ltb sym 144), (Nat.ltb sym 256), (Nat.ltb sym 280); lia.
Qed.

(* the literals of a block, then end-of-block *)
Fixpoint lit_bits (d : bytes) : list bool :=
  match d with
  | [] => fixed_code 256
  | b :: t => fixed_code (N.to_nat b) ++ lit_bits t
  end.

Lemma codes_literals d : forall f out s t,
    Forall (fun b => (b < 256)%N) d -> length d < f ->
    bits_of s = lit_bits d ++ t ->
    exists s', codes f fixed_lit fixed_dist out s = Ok (rev d ++ out) s' /\ bits_of s' = t.
Proof.
  induction d as [|b d IH]; intros f out s t Hd Hf Hb.
  - destruct f as [|f]; [simpl in Hf; lia|]. cbn [lit_bits] in Hb.
    destruct (dec_fixed 256 s t ltac:(lia) Hb) as [s' [D B]].
    exists s'. split; [|exact B]. rewrite codes_S. unfold codes_body, bind. rewrite D. reflexivity.
  - destruct f as [|f]; [simpl in Hf; lia|]. inversion Hd as [|? ? Hb256 Hd']; subst.
    cbn [lit_bits] in Hb. rewrite <- app_assoc in Hb.
    destruct (dec_fixed (N.to_nat b) s _ ltac:(lia) Hb) as [s1 [D B1]].
    destruct (IH f (b :: out) s1 t Hd' ltac:(simpl in Hf; lia) B1) as [s' [C B']].
    exists s'. split; [|exact B']. rewrite codes_S. unfold codes_body, bind. rewrite D.
    replace (Nat.ltb (N.to_nat b) 256) with true by (symmetry; apply Nat.ltb_lt; lia).
    rewrite N2Nat.id. rewrite C. cbn [rev]. rewrite <- app_assoc. reflexivity.
Qed.

Lemma bits_short_no_bytes s : length (bits_of s) < 8 -> snd s = [].
Proof.
  destruct s as [cur rest]. unfold bits_of. cbn [fst snd]. intros H.
  destruct rest as [|b r]; [reflexivity|]. exfalso.
  cbn [flat_map] in H. rewrite !app_length in H.
  destruct (byte_bits_cons b) as [x [l E]].
  assert (length (byte_bits b) = 8) by reflexivity. lia.
Qed.

(* one final fixed-Huffman block of literals, as a raw DEFLATE stream *)
Theorem fixed_literal_block_inverts e d pad :
  Forall (fun b => (b < 256)%N) d ->
  flat_map byte_bits e = [true; true; false] ++ lit_bits d ++ pad ->
  length pad < 8 ->
  inflate_raw_model e = Some d.
Proof.
  intros Hd He Hp. unfold inflate_raw_model, inflate_fuel.
  assert (Hf : length d + 1 < fuel_for e).
  { unfold fuel_for. apply (f_equal (@length bool)) in He.
    assert (Hl : length (flat_map byte_bits e) = 8 * length e).
    { clear. induction e as [|x e IH]; [reflexivity|]. cbn [flat_map]. rewrite app_length, IH.
      change (length (byte_bits x)) with 8. cbn [length]. lia. }
    rewrite Hl in He. rewrite !app_length in He.
    assert (Hlb : length d <= length (lit_bits d)).
    { clear. induction d as [|b d IH]; [cbn; lia|]. cbn [lit_bits length]. rewrite app_length.
      assert (1 <= length (fixed_code (N.to_nat b))).
      { unfold fixed_code, code_bits. 
        assert (forall n v, length (msb_bits n v) = n) as ML by (induction n; intros; cbn [msb_bits length]; auto).
        rewrite ML. unfold fixed_len.
        destruct (Nat.ltb (N.to_nat b) 144), (Nat.ltb (N.to_nat b) 256), (Nat.ltb (N.to_nat b) 280); lia. }
      lia. }
    cbn [length] in He. lia. }
  remember (fuel_for e) as f eqn:Ef. destruct f as [|f]; [lia|].
  rewrite blocks_S. unfold blocks_body, bind.
  (* the three header bits *)
  match goal with |- context [getbits 3 ?st] => set (st0 := st) end.
  assert (B0 : bits_of st0 = true :: true :: false :: lit_bits d ++ pad) by (unfold st0, bits_of; cbn [fst snd app]; exact He).
  destruct (getbit_view _ _ _ B0) as [s1 [G1 B1]].
  destruct (getbit_view _ _ _ B1) as [s2 [G2 B2]].
  destruct (getbit_view _ _ _ B2) as [s3 [G3 B3]].
  assert (G : getbits 3 st0 = Ok 3%N s3).
  { cbn [getbits]. rewrite G1, G2, G3. reflexivity. }
  rewrite G. unfold block_content. change (N.div2 3) with 1%N. change (N.odd 3) with true. cbv iota.
  destruct (codes_literals d (S f) [] s3 pad Hd ltac:(lia) B3) as [s' [C B']].
  rewrite C. rewrite app_nil_r.
  assert (Hs' : snd s' = []) by (apply bits_short_no_bytes; rewrite B'; exact Hp).
  destruct s' as [c' r']. cbn [snd] in Hs'. subst r'. unfold align, to_option. cbn [snd].
  rewrite rev_append_rev, app_nil_r, rev_involutive. reflexivity.
Qed.
