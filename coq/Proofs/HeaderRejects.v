(* HeaderRejects.v -- the header-block parser rejects exactly the blocks that have a first
   defective element, and names that element's category. *)
From Coq Require Import Lia.
From Http Require Import Model.Bytes Model.Utf8 Model.Headers Spec.ChunkedGrammar Spec.HeaderGrammar
     Spec.Rejections Proofs.BytesLemmas Proofs.HeadersResume Proofs.Utf8Lemmas
     Proofs.ChunkGrammar Proofs.HeaderGrammarProofs.

Lemma starts_field_stops r : starts_field r <-> stops_unfold r.
Proof. unfold starts_field, stops_unfold. tauto. Qed.

Lemma is_line_firstn s lt : find_crlf s = Some lt -> is_line (firstn lt s).
Proof.
  intros E. unfold is_line.
  pose proof (find_crlf_bound _ _ E) as B.
  pose proof (find_crlf_firstn s lt (lt + 2) E (le_n _)) as F.
  rewrite firstn_plus in F. rewrite (find_crlf_at _ _ E) in F. cbn [firstn] in F.
  rewrite firstn_length. rewrite Nat.min_l by lia. exact F.
Qed.

Lemma skipn_line l rest : skipn (length l + 2) (l ++ CRLF ++ rest) = rest.
Proof.
  rewrite app_assoc. rewrite skipn_app.
  replace (length l + 2 - length (l ++ CRLF)) with 0 by (rewrite app_length; simpl; lia).
  rewrite skipn_all2 by (rewrite app_length; simpl; lia). reflexivity.
Qed.

Lemma firstn_line l rest : firstn (length l) (l ++ CRLF ++ rest) = l.
Proof. rewrite firstn_app_le by lia. apply firstn_all. Qed.

(* ------------------------------------------------------------------ defect => rejection *)
Lemma unfold_defect cs : forall l rest e v c f,
  Forall cont_ok cs -> is_line l -> cont_defect l e ->
  length (conts_bytes cs ++ l ++ CRLF ++ rest) < f ->
  unfold_hdr f (conts_bytes cs ++ l ++ CRLF ++ rest) v c = UErr e.
Proof.
  induction cs as [|cl cs IH]; intros l rest e v c f Hok Hl Hd Hf.
  - cbn [conts_bytes flat_map app]. destruct f as [|f]; [lia|]. rewrite unfold_step.
    rewrite (is_line_find l rest Hl). cbv zeta. rewrite firstn_line.
    destruct Hd as [l U|l U W V].
    + rewrite U. reflexivity.
    + rewrite U. cbn [negb]. destruct l as [|b l']; [discriminate|].
      cbn [starts_wsp] in W. rewrite W, V. reflexivity.
  - inversion Hok as [|? ? Hc Hcs]; subst.
    rewrite conts_bytes_cons in *. rewrite <- !app_assoc in *.
    destruct f as [|f]; [lia|]. rewrite unfold_step.
    destruct cl as [|b l0]; [contradiction|]. destruct Hc as [Hw Hv].
    rewrite (vchars_find_crlf (b :: l0) _ Hv). cbv zeta.
    rewrite firstn_line.
    rewrite (vchars_utf8_valid _ Hv). cbn [negb]. rewrite Hw, Hv. cbn [negb].
    rewrite skipn_line.
    apply IH; [exact Hcs|exact Hl|exact Hd|].
    rewrite !app_length in *. simpl in *. lia.
Qed.

(* hdr_step on a buffer that begins with a well-formed first line *)
Lemma hdr_step_first_line lim n v0 rem :
  name_ok n -> forallb is_vchar v0 = true ->
  over_limit (length (n ++ [COLON] ++ v0) + 2) lim = false ->
  hdr_step lim ((n ++ [COLON] ++ v0) ++ CRLF ++ rem) =
  match unfold_hdr (length ((n ++ [COLON] ++ v0) ++ CRLF ++ rem)) rem v0 0 with
  | UMore => SMore
  | UErr e => SErr e
  | UOk v c2 => SField (n, trim v) (length (n ++ [COLON] ++ v0) + 2 + c2)
  end.
Proof.
  intros Hn Hv Hl.
  set (f := {| f_name := n; f_seg0 := v0; f_conts := [] |}).
  pose proof (first_line_vchars f Hn Hv) as Hfl. unfold first_line in Hfl. cbn [f_name f_seg0 f] in Hfl.
  set (fl := n ++ [COLON] ++ v0) in *.
  assert (Hlen : length fl = S (length n + length v0)).
  { unfold fl. rewrite !app_length. simpl. lia. }
  assert (E : find_crlf (fl ++ CRLF ++ rem) = Some (length fl)) by (apply vchars_find_crlf; exact Hfl).
  rewrite (hdr_step_nz lim _ _ E) by lia.
  rewrite Hl. cbv zeta. rewrite firstn_line.
  rewrite (vchars_utf8_valid _ Hfl). cbn [negb].
  destruct Hn as [Hg Hnc].
  assert (Hcol : find_byte COLON fl = Some (length n)).
  { unfold fl. cbn [app]. apply find_byte_app_none. exact Hnc. }
  rewrite Hcol.
  assert (Hname : firstn (length n) fl = n).
  { unfold fl. rewrite firstn_app_le by lia. apply firstn_all. }
  assert (Hval : skipn (S (length n)) fl = v0).
  { unfold fl. cbn [app]. apply skipn_app_cons. }
  rewrite Hname, Hval, Hg, Hv. cbn [negb].
  rewrite skipn_line. reflexivity.
Qed.

Lemma hdr_step_line lim l rest :
  is_line l ->
  hdr_step lim (l ++ CRLF ++ rest) =
  if over_limit (length l + 2) lim then SErr HTooLong else
  match l with
  | [] => SDone 2
  | _ =>
    if negb (utf8_valid l) then SErr HNotText else
    match find_byte COLON l with
    | None => SErr HNoColon
    | Some k =>
      if negb (forallb is_graphic (firstn k l)) then SErr HBadName else
      if negb (forallb is_vchar (skipn (S k) l)) then SErr HBadValue else
      match unfold_hdr (length (l ++ CRLF ++ rest)) rest (skipn (S k) l) 0 with
      | UMore => SMore
      | UErr e => SErr e
      | UOk v c2 => SField (firstn k l, trim v) (length l + 2 + c2)
      end
    end
  end.
Proof.
  intros Hl. pose proof (is_line_find l rest Hl) as E.
  destruct l as [|a l'].
  - cbn [app] in *. unfold hdr_step. change (CRLF ++ rest) with (CR :: LF :: rest) in *.
    rewrite E. reflexivity.
  - rewrite (hdr_step_nz lim _ _ E) by (simpl; lia). cbv zeta. rewrite firstn_line, skipn_line.
    reflexivity.
Qed.

Lemma match_cons (n v : bytes) (A : Type) (x y : A) :
  match n ++ COLON :: v with [] => x | _ :: _ => y end = y.
Proof. destruct n; reflexivity. Qed.

Lemma line_defect_step lim l rest e :
  is_line l -> line_defect lim l e -> hdr_step lim (l ++ CRLF ++ rest) = SErr e.
Proof.
  intros Hl Hd. rewrite (hdr_step_line lim l rest Hl).
  destruct Hd as [l O|l O U|l O U Hne K|n v O U K G|n v O U Hn V].
  - rewrite O. reflexivity.
  - rewrite O. destruct l; [discriminate|]. rewrite U. reflexivity.
  - rewrite O. destruct l; [congruence|]. rewrite U, K. reflexivity.
  - rewrite O. rewrite (match_cons n v).
    rewrite U. cbn [negb]. rewrite (find_byte_app_none COLON n v K).
    rewrite firstn_app_le by lia. rewrite firstn_all. rewrite G. reflexivity.
  - rewrite O. rewrite (match_cons n v).
    rewrite U. cbn [negb]. destruct Hn as [G K]. rewrite (find_byte_app_none COLON n v K).
    rewrite firstn_app_le by lia. rewrite firstn_all. rewrite G. cbn [negb].
    rewrite skipn_app_cons. rewrite V. reflexivity.
Qed.

Lemma field_defect_step lim r e : field_defect lim r e -> hdr_step lim r = SErr e.
Proof.
  intros H. destruct H as [l rest e Hl Hd|f l rest e Hf Hl Hd|s Hne E O].
  - apply line_defect_step; assumption.
  - destruct Hf as [Hn [Hv [Hc Hlim]]].
    unfold field_bytes, first_line. rewrite <- !app_assoc.
    pose proof (hdr_step_first_line lim (f_name f) (f_seg0 f)
                  (conts_bytes (f_conts f) ++ l ++ CRLF ++ rest) Hn Hv Hlim) as S.
    rewrite <- !app_assoc in S. rewrite S.
    rewrite (unfold_defect (f_conts f) l rest e); [reflexivity|exact Hc|exact Hl|exact Hd|].
    rewrite !app_length. simpl. lia.
  - unfold hdr_step. destruct s as [|a s']; [congruence|]. rewrite E, O. reflexivity.
Qed.

Lemma hdr_loop_fields lim fs : forall r f acc off,
  Forall (field_ok lim) fs -> (fs = [] \/ stops_unfold r) ->
  length (flat_map field_bytes fs ++ r) < f ->
  exists f', length r < f' /\
    hdr_loop f lim (flat_map field_bytes fs ++ r) acc off =
    hdr_loop f' lim r (acc ++ map field_header fs) (off + length (flat_map field_bytes fs)).
Proof.
  induction fs as [|fd fs IH]; intros r f acc off Hok Hst Hf.
  - exists f. cbn [flat_map app map length]. rewrite app_nil_r, Nat.add_0_r. split; [exact Hf|reflexivity].
  - inversion Hok as [|? ? Hfd Hfs]; subst.
    destruct f as [|f]; [lia|]. rewrite hdr_loop_step.
    cbn [flat_map]. rewrite <- app_assoc.
    assert (Hnext : stops_unfold (flat_map field_bytes fs ++ r)).
    { destruct fs as [|f2 fs2].
      - destruct Hst as [Hst|Hst]; [discriminate|exact Hst].
      - inversion Hfs; subst. cbn [flat_map]. rewrite <- app_assoc. eapply field_bytes_stops. eassumption. }
    rewrite (hdr_step_field_complete lim fd _ Hfd Hnext).
    rewrite skipn_app. rewrite Nat.sub_diag. rewrite skipn_all. cbn [skipn app].
    assert (Hpos : 0 < length (field_bytes fd)).
    { unfold field_bytes. rewrite !app_length. simpl. lia. }
    destruct (IH r f (acc ++ [field_header fd]) (off + length (field_bytes fd)) Hfs) as [f' [Hf' Heq]].
    + destruct fs; [left; reflexivity|right].
      destruct Hst as [Hst|Hst]; [discriminate|exact Hst].
    + cbn [flat_map] in Hf. rewrite <- app_assoc in Hf. rewrite app_length in Hf. lia.
    + exists f'. split; [exact Hf'|]. rewrite Heq. cbn [map]. rewrite <- app_assoc.
      rewrite app_length. f_equal. lia.
Qed.

Theorem block_defect_rejected lim hs0 s e :
  block_defect lim s e -> hdr_parse lim hs0 s = HError e.
Proof.
  intros [fs [r [Hok [-> [Hd Hst]]]]]. unfold hdr_parse.
  destruct (hdr_loop_fields lim fs r (S (length (flat_map field_bytes fs ++ r))) hs0 0 Hok) as [f' [Hf' ->]].
  - destruct Hst as [Hst|Hst]; [left; exact Hst|right; apply starts_field_stops; exact Hst].
  - lia.
  - destruct f' as [|f']; [lia|]. rewrite hdr_loop_step.
    rewrite (field_defect_step lim r e Hd). reflexivity.
Qed.

(* ------------------------------------------------------------------ rejection => defect *)
Lemma unfold_err_inv f : forall s v c e,
  unfold_hdr f s v c = UErr e ->
  exists cs l rest, Forall cont_ok cs /\ s = conts_bytes cs ++ l ++ CRLF ++ rest /\
                    is_line l /\ cont_defect l e.
Proof.
  induction f as [|f IH]; intros s v c e H; [discriminate|].
  rewrite unfold_step in H.
  destruct (find_crlf s) as [lt|] eqn:E; [|discriminate]. cbv zeta in H.
  destruct (utf8_valid (firstn lt s)) eqn:U; cbn [negb] in H.
  2:{ inversion H; subst. exists [], (firstn lt s), (skipn (lt + 2) s).
      split; [constructor|]. split; [apply line_split; exact E|].
      split; [apply is_line_firstn; exact E|]. constructor. exact U. }
  destruct (firstn lt s) as [|b l] eqn:L; [discriminate|].
  destruct (is_wsp b) eqn:W; [|discriminate].
  destruct (forallb is_vchar (b :: l)) eqn:V; cbn [negb] in H.
  - destruct (IH _ _ _ _ H) as [cs [l1 [rest [Hcs [Hs [Hl Hd]]]]]].
    exists ((b :: l) :: cs), l1, rest. split; [constructor; [split; assumption|exact Hcs]|].
    split; [|split; assumption].
    rewrite conts_bytes_cons. rewrite <- !app_assoc. rewrite <- Hs. rewrite <- L.
    apply line_split. exact E.
  - inversion H; subst. exists [], (b :: l), (skipn (lt + 2) s).
    split; [constructor|]. split; [rewrite <- L; apply line_split; exact E|].
    split; [rewrite <- L; apply is_line_firstn; exact E|].
    apply CD_value; [exact U|exact W|exact V].
Qed.

Lemma hdr_step_err_inv lim s e : hdr_step lim s = SErr e -> field_defect lim s e.
Proof.
  intros H.
  destruct (find_crlf s) as [lt|] eqn:E.
  2:{ unfold hdr_step in H. destruct s as [|a s']; [discriminate|]. rewrite E in H.
      destruct (over_limit _ lim) eqn:O; [|discriminate]. inversion H; subst.
      apply FD_unterminated; [discriminate|exact E|exact O]. }
  pose proof (line_split _ _ E) as Hs.
  pose proof (is_line_firstn _ _ E) as Hl.
  pose proof (find_crlf_bound _ _ E) as B.
  assert (Hll : length (firstn lt s) = lt) by (rewrite firstn_length; lia).
  destruct (Nat.eq_dec lt 0) as [->|Hnz].
  { unfold hdr_step in H. destruct s as [|a s']; [discriminate|]. rewrite E in H.
    destruct (over_limit _ lim) eqn:O; [|discriminate]. inversion H; subst.
    rewrite Hs. apply FD_line; [exact Hl|]. apply LD_long. rewrite Hll. exact O. }
  rewrite (hdr_step_nz lim s lt E Hnz) in H. cbv zeta in H.
  destruct (over_limit (lt + 2) lim) eqn:O.
  { inversion H; subst. rewrite Hs. apply FD_line; [exact Hl|]. apply LD_long. rewrite Hll. exact O. }
  destruct (utf8_valid (firstn lt s)) eqn:U; cbn [negb] in H.
  2:{ inversion H; subst. rewrite Hs. apply FD_line; [exact Hl|]. apply LD_text; [rewrite Hll; exact O|exact U]. }
  destruct (find_byte COLON (firstn lt s)) as [k|] eqn:K.
  2:{ inversion H; subst. rewrite Hs. apply FD_line; [exact Hl|].
      apply LD_colon; [rewrite Hll; exact O|exact U| |exact K].
      intros Hnil. rewrite Hnil in Hll. simpl in Hll. lia. }
  pose proof (find_byte_split _ _ _ K) as Hsplit.
  pose proof (find_byte_firstn_none _ _ _ K) as Hnc.
  set (n := firstn k (firstn lt s)) in *. set (v0 := skipn (S k) (firstn lt s)) in *.
  destruct (forallb is_graphic n) eqn:G; cbn [negb] in H.
  2:{ inversion H; subst e. rewrite Hs. apply FD_line; [exact Hl|]. rewrite Hsplit.
      apply LD_name; [rewrite <- Hsplit, Hll; exact O|rewrite <- Hsplit; exact U|exact Hnc|exact G]. }
  destruct (forallb is_vchar v0) eqn:V; cbn [negb] in H.
  2:{ inversion H; subst e. rewrite Hs. apply FD_line; [exact Hl|]. rewrite Hsplit.
      apply LD_value; [rewrite <- Hsplit, Hll; exact O|rewrite <- Hsplit; exact U|split; assumption|exact V]. }
  destruct (unfold_hdr (length s) (skipn (lt + 2) s) v0 0) as [|e1|v c2] eqn:Un; try discriminate.
  inversion H; subst e1. clear H.
  destruct (unfold_err_inv _ _ _ _ _ Un) as [cs [l1 [rest [Hcs [Hsk [Hl1 Hd]]]]]].
  set (fd := {| f_name := n; f_seg0 := v0; f_conts := cs |}).
  assert (Hfl : first_line fd = firstn lt s).
  { unfold first_line, fd. cbn [f_name f_seg0 app]. symmetry. exact Hsplit. }
  assert (Hsd : s = field_bytes fd ++ l1 ++ CRLF ++ rest).
  { unfold field_bytes. rewrite Hfl. cbn [f_conts fd]. rewrite <- !app_assoc.
    rewrite <- Hsk. exact Hs. }
  rewrite Hsd. apply FD_cont; [|exact Hl1|exact Hd].
  unfold field_ok. cbn [f_name f_seg0 f_conts fd]. split; [split; assumption|].
  split; [exact V|]. split; [exact Hcs|]. rewrite Hfl, Hll. exact O.
Qed.

Lemma unfold_ok_stops f : forall s v c v' c',
  unfold_hdr f s v c = UOk v' c' -> c <= c' /\ stops_unfold (skipn (c' - c) s).
Proof.
  induction f as [|f IH]; intros s v c v' c' H; [discriminate|].
  rewrite unfold_step in H.
  destruct (find_crlf s) as [lt|] eqn:E; [|discriminate]. cbv zeta in H.
  destruct (utf8_valid (firstn lt s)) eqn:U; cbn [negb] in H; [|discriminate].
  destruct (firstn lt s) as [|b l] eqn:L.
  { inversion H; subst. rewrite Nat.sub_diag. split; [lia|]. cbn [skipn].
    exists lt. rewrite E, L. split; [reflexivity|]. split; [reflexivity|exact I]. }
  destruct (is_wsp b) eqn:W.
  2:{ inversion H; subst. rewrite Nat.sub_diag. split; [lia|]. cbn [skipn].
      exists lt. rewrite E, L. split; [reflexivity|]. split; [first [exact U|rewrite <- L; exact U]|exact W]. }
  destruct (negb (forallb is_vchar (b :: l))); [discriminate|].
  destruct (IH _ _ _ _ _ H) as [Hle Hst]. split; [lia|].
  replace (c' - c) with ((c' - (c + (lt + 2))) + (lt + 2)) by lia.
  rewrite <- skipn_skipn'. exact Hst.
Qed.

Lemma hdr_step_field_stops lim s h c :
  hdr_step lim s = SField h c -> stops_unfold (skipn c s).
Proof.
  intros H.
  destruct (find_crlf s) as [lt|] eqn:E.
  2:{ unfold hdr_step in H. destruct s; [discriminate|]. rewrite E in H.
      destruct (over_limit _ lim); discriminate. }
  destruct (Nat.eq_dec lt 0) as [->|Hnz].
  { unfold hdr_step in H. destruct s; [discriminate|]. rewrite E in H.
    destruct (over_limit _ lim); discriminate. }
  rewrite (hdr_step_nz lim s lt E Hnz) in H. cbv zeta in H.
  destruct (over_limit (lt + 2) lim); [discriminate|].
  destruct (negb (utf8_valid (firstn lt s))); [discriminate|].
  destruct (find_byte COLON (firstn lt s)) as [k|]; [|discriminate].
  destruct (negb (forallb is_graphic _)); [discriminate|].
  destruct (negb (forallb is_vchar _)); [discriminate|].
  destruct (unfold_hdr _ _ _ 0) as [|e|v c2] eqn:U; try discriminate.
  inversion H; subst. destruct (unfold_ok_stops _ _ _ _ _ _ U) as [_ Hst].
  rewrite Nat.sub_0_r in Hst. rewrite (Nat.add_comm (lt + 2) c2). rewrite <- skipn_skipn'. exact Hst.
Qed.

Theorem hdr_loop_reject_inv f lim : forall s acc off e,
  hdr_loop f lim s acc off = HError e -> block_defect lim s e.
Proof.
  induction f as [|f IH]; intros s acc off e H; [discriminate|].
  rewrite hdr_loop_step in H.
  destruct (hdr_step lim s) as [|e1|c1|h c1] eqn:E; try discriminate.
  - inversion H; subst e1. exists [], s. split; [constructor|]. split; [reflexivity|].
    split; [apply hdr_step_err_inv; exact E|left; reflexivity].
  - destruct (hdr_step_field_inv _ _ _ _ E) as [fd [Hfd [Hfb _]]].
    pose proof (hdr_step_field_stops _ _ _ _ E) as Hst.
    destruct (IH _ _ _ _ H) as [fs [r [Hok [Hs [Hd Hside]]]]].
    exists (fd :: fs), r. split; [constructor; assumption|]. split.
    + cbn [flat_map]. rewrite <- app_assoc. rewrite <- Hs, <- Hfb. symmetry. apply firstn_skipn.
    + split; [exact Hd|]. right. destruct Hside as [->|Hr]; [|exact Hr].
      cbn [flat_map app] in Hs. rewrite <- Hs. apply starts_field_stops. exact Hst.
Qed.

Theorem hdr_parse_reject_iff lim hs0 s e :
  hdr_parse lim hs0 s = HError e <-> block_defect lim s e.
Proof.
  split.
  - unfold hdr_parse. apply hdr_loop_reject_inv.
  - apply block_defect_rejected.
Qed.
