(* Utf8Lemmas.v -- utf8_decode succeeds exactly on valid UTF-8, and then encoding the scalar
   values gives back the bytes (so no replacement character, BOM kept as U+FEFF). *)
From Coq Require Import ZArith Lia ZifyN ZifyBool.
From Http Require Import Model.Bytes Model.Utf8.

Ltac Zify.zify_post_hook ::= Z.div_mod_to_equations.

Lemma between_spec lo hi b : between lo hi b = true <-> (lo <= b /\ b <= hi)%N.
Proof. unfold between. rewrite andb_true_iff, !N.leb_le. tauto. Qed.

Lemma between_false lo hi b : between lo hi b = false <-> (b < lo \/ hi < b)%N.
Proof. unfold between. rewrite andb_false_iff, !N.leb_gt. tauto. Qed.

Ltac btw :=
  repeat match goal with
         | H : between _ _ _ = true |- _ => apply between_spec in H
         | H : between _ _ _ = false |- _ => apply between_false in H
         | H : is_cont _ = true |- _ => unfold is_cont in H
         | H : is_cont _ = false |- _ => unfold is_cont in H
         | H : N.ltb _ _ = true |- _ => apply N.ltb_lt in H
         | H : N.ltb _ _ = false |- _ => apply N.ltb_ge in H
         | H : N.eqb _ _ = true |- _ => apply N.eqb_eq in H
         | H : N.eqb _ _ = false |- _ => apply N.eqb_neq in H
         | H : (_ && _)%bool = true |- _ => apply andb_prop in H; destruct H
         end.

Lemma enc2 b0 b1 :
  (194 <= b0 <= 223)%N -> (128 <= b1 <= 191)%N ->
  utf8_encode_char ((b0 - 192) * 64 + (b1 - 128)) = [b0; b1].
Proof.
  intros H0 H1. unfold utf8_encode_char.
  set (c := ((b0 - 192) * 64 + (b1 - 128))%N).
  assert (E1 : N.ltb c 128 = false) by (apply N.ltb_ge; subst c; lia).
  assert (E2 : N.ltb c 2048 = true) by (apply N.ltb_lt; subst c; lia).
  rewrite E1, E2. f_equal; [|f_equal]; subst c; lia.
Qed.

Lemma enc3 b0 b1 b2 :
  (224 <= b0 <= 239)%N -> (128 <= b1 <= 191)%N -> (128 <= b2 <= 191)%N ->
  (b0 = 224 -> 160 <= b1)%N ->
  utf8_encode_char ((b0 - 224) * 4096 + (b1 - 128) * 64 + (b2 - 128)) = [b0; b1; b2].
Proof.
  intros H0 H1 H2 Hov. unfold utf8_encode_char.
  set (c := ((b0 - 224) * 4096 + (b1 - 128) * 64 + (b2 - 128))%N).
  assert (E1 : N.ltb c 128 = false) by (apply N.ltb_ge; subst c; lia).
  assert (E2 : N.ltb c 2048 = false) by (apply N.ltb_ge; subst c; lia).
  assert (E3 : N.ltb c 65536 = true) by (apply N.ltb_lt; subst c; lia).
  rewrite E1, E2, E3. f_equal; [|f_equal; [|f_equal]]; subst c; lia.
Qed.

Lemma enc4 b0 b1 b2 b3 :
  (240 <= b0 <= 244)%N -> (128 <= b1 <= 191)%N -> (128 <= b2 <= 191)%N -> (128 <= b3 <= 191)%N ->
  (b0 = 240 -> 144 <= b1)%N ->
  utf8_encode_char ((b0 - 240) * 262144 + (b1 - 128) * 4096 + (b2 - 128) * 64 + (b3 - 128))
  = [b0; b1; b2; b3].
Proof.
  intros H0 H1 H2 H3 Hov. unfold utf8_encode_char.
  set (c := ((b0 - 240) * 262144 + (b1 - 128) * 4096 + (b2 - 128) * 64 + (b3 - 128))%N).
  assert (E1 : N.ltb c 128 = false) by (apply N.ltb_ge; subst c; lia).
  assert (E2 : N.ltb c 2048 = false) by (apply N.ltb_ge; subst c; lia).
  assert (E3 : N.ltb c 65536 = false) by (apply N.ltb_ge; subst c; lia).
  rewrite E1, E2, E3. f_equal; [|f_equal; [|f_equal; [|f_equal]]]; subst c; lia.
Qed.

(* decoding then encoding gives back the bytes; decoding succeeds iff valid *)
Lemma utf8_decode_spec n : forall s, length s <= n ->
  (utf8_valid s = true <-> exists t, utf8_decode s = Some t) /\
  (forall t, utf8_decode s = Some t -> utf8_encode t = s).
Proof.
  induction n as [|n IH]; intros s Hn.
  - destruct s; [|simpl in Hn; lia]. split; [split; [intros _; exists []; reflexivity|reflexivity]|].
    intros t H. inversion H. reflexivity.
  - destruct s as [|b0 s];
      [split; [split; [intros _; exists []; reflexivity|reflexivity]|intros t H; inversion H; reflexivity]|].
    simpl in Hn. cbn [utf8_valid utf8_decode].
    destruct (N.ltb b0 128) eqn:A.
    { destruct (IH s ltac:(lia)) as [I1 I2]. split.
      - rewrite I1. split; intros [t Ht].
        + rewrite Ht. simpl. eauto.
        + destruct (utf8_decode s); [eauto|simpl in Ht; discriminate].
      - intros t Ht. destruct (utf8_decode s) as [t'|] eqn:D; [|simpl in Ht; discriminate].
        simpl in Ht. inversion Ht; subst. cbn [utf8_encode flat_map]. fold (utf8_encode t'). rewrite (I2 t' eq_refl).
        unfold utf8_encode_char. rewrite A. reflexivity. }
    destruct (between 194 223 b0) eqn:B2.
    { destruct s as [|b1 s1]; [split; [split; [discriminate|intros [t Ht]; discriminate]|discriminate]|].
      simpl in Hn. destruct (IH s1 ltac:(lia)) as [I1 I2].
      destruct (is_cont b1) eqn:C1; cbn [andb].
      - split.
        + rewrite I1. split; intros [t Ht].
          * rewrite Ht. simpl. eauto.
          * destruct (utf8_decode s1); [eauto|simpl in Ht; discriminate].
        + intros t Ht. destruct (utf8_decode s1) as [t'|] eqn:D; [|simpl in Ht; discriminate].
          simpl in Ht. inversion Ht; subst. cbn [utf8_encode flat_map]. fold (utf8_encode t'). rewrite (I2 t' eq_refl).
          btw. rewrite enc2 by lia. reflexivity.
      - split; [split; [discriminate|intros [t Ht]; discriminate]|discriminate]. }
    destruct (between 224 239 b0) eqn:B3.
    { destruct s as [|b1 [|b2 s2]];
        try (split; [split; [discriminate|intros [t Ht]; discriminate]|discriminate]).
      simpl in Hn. destruct (IH s2 ltac:(lia)) as [I1 I2].
      set (ok1 := if N.eqb b0 224 then between 160 191 b1
                  else if N.eqb b0 237 then between 128 159 b1 else is_cont b1) in *.
      destruct ok1 eqn:O1; cbn [andb].
      2:{ split; [split; [discriminate|intros [t Ht]; discriminate]|discriminate]. }
      destruct (is_cont b2) eqn:C2; cbn [andb].
      2:{ split; [split; [discriminate|intros [t Ht]; discriminate]|discriminate]. }
      split.
      - rewrite I1. split; intros [t Ht].
        + rewrite Ht. simpl. eauto.
        + destruct (utf8_decode s2); [eauto|simpl in Ht; discriminate].
      - intros t Ht. destruct (utf8_decode s2) as [t'|] eqn:D; [|simpl in Ht; discriminate].
        simpl in Ht. inversion Ht; subst. cbn [utf8_encode flat_map]. fold (utf8_encode t'). rewrite (I2 t' eq_refl).
        subst ok1. btw.
        destruct (N.eqb b0 224) eqn:E0; [|destruct (N.eqb b0 237) eqn:E1]; btw;
          rewrite enc3 by lia; reflexivity. }
    destruct (between 240 244 b0) eqn:B4.
    { destruct s as [|b1 [|b2 [|b3 s3]]];
        try (split; [split; [discriminate|intros [t Ht]; discriminate]|discriminate]).
      simpl in Hn. destruct (IH s3 ltac:(lia)) as [I1 I2].
      set (ok1 := if N.eqb b0 240 then between 144 191 b1
                  else if N.eqb b0 244 then between 128 143 b1 else is_cont b1) in *.
      destruct ok1 eqn:O1; cbn [andb].
      2:{ split; [split; [discriminate|intros [t Ht]; discriminate]|discriminate]. }
      destruct (is_cont b2) eqn:C2; cbn [andb].
      2:{ split; [split; [discriminate|intros [t Ht]; discriminate]|discriminate]. }
      destruct (is_cont b3) eqn:C3; cbn [andb].
      2:{ split; [split; [discriminate|intros [t Ht]; discriminate]|discriminate]. }
      split.
      - rewrite I1. split; intros [t Ht].
        + rewrite Ht. simpl. eauto.
        + destruct (utf8_decode s3); [eauto|simpl in Ht; discriminate].
      - intros t Ht. destruct (utf8_decode s3) as [t'|] eqn:D; [|simpl in Ht; discriminate].
        simpl in Ht. inversion Ht; subst. cbn [utf8_encode flat_map]. fold (utf8_encode t'). rewrite (I2 t' eq_refl).
        subst ok1. btw.
        destruct (N.eqb b0 240) eqn:E0; [|destruct (N.eqb b0 244) eqn:E1]; btw;
          rewrite enc4 by lia; reflexivity. }
    split; [split; [discriminate|intros [t Ht]; discriminate]|discriminate].
Qed.

Theorem utf8_decode_iff_valid s : utf8_valid s = true <-> exists t, utf8_decode s = Some t.
Proof. apply (utf8_decode_spec (length s) s (le_n _)). Qed.

Theorem utf8_decode_roundtrip s t : utf8_decode s = Some t -> utf8_encode t = s.
Proof. apply (utf8_decode_spec (length s) s (le_n _)). Qed.
