(* C14 -- decode_body keeps the headers truthful and is all-or-nothing on failure. *)
From Coq Require Import String.
From Http Require Import Model.Bytes Model.Num Model.Headers Model.Coding
     Proofs.HeaderAlgebra Proofs.Rewrite.

(* For every behaviour of the three stream decoders (they are parameters), every header list
   and body: on success the token list of Content-Encoding splits as kept ++ undone where
   undone is the maximal suffix of recognised codings (gzip / deflate after lower-casing and
   trimming, as the crate tokenises), the body is the result of undoing exactly those,
   Content-Encoding becomes one header "kept joined by ', '" (absent when kept is empty),
   Content-Length has the single value |body'|, and all other headers are unchanged, in order. *)
Theorem C14_success :
  forall (gunzip inflate_raw inflate_zlib : bytes -> option bytes)
         (hs : list header) (body : bytes) (hs' : list header) (b : bytes),
    decode_body gunzip inflate_raw inflate_zlib hs body = Some (hs', b) ->
    exists kept undone,
      header_tokens hs CONTENT_ENCODING = kept ++ undone /\
      forallb recognised undone = true /\
      match rev kept with [] => True | c :: _ => recognised c = false end /\
      header_multi_value hs' CONTENT_ENCODING =
        match kept with [] => [] | _ => [join [COMMA; SP] kept] end /\
      header_multi_value hs' CONTENT_LENGTH' = [show_dec (N.of_nat (length b))] /\
      filter (outside CODING_NAMES) hs' = filter (outside CODING_NAMES) hs /\
      undo gunzip inflate_raw inflate_zlib (rev undone) body = Some b.
Proof. exact decode_body_success. Qed.
Print Assumptions C14_success.

(* failure is decided before any header is touched: decode_body returns no header list at
   all (the caller's list is left as it was), and it fails exactly when undoing fails *)
Theorem C14_failure_atomic :
  forall (gunzip inflate_raw inflate_zlib : bytes -> option bytes) (hs : list header) (body : bytes),
    decode_body gunzip inflate_raw inflate_zlib hs body = None ->
    decode_loop gunzip inflate_raw inflate_zlib (rev (header_tokens hs CONTENT_ENCODING)) body = None.
Proof. exact decode_body_failure_atomic. Qed.
Print Assumptions C14_failure_atomic.

Theorem C14_succeeds_when_undoable :
  forall (gunzip inflate_raw inflate_zlib : bytes -> option bytes)
         (hs : list header) (body : bytes) (kept undone : list bytes) (b : bytes),
    header_tokens hs CONTENT_ENCODING = kept ++ undone ->
    forallb recognised undone = true ->
    match rev kept with [] => True | c :: _ => recognised c = false end ->
    undo gunzip inflate_raw inflate_zlib (rev undone) body = Some b ->
    exists hs', decode_body gunzip inflate_raw inflate_zlib hs body = Some (hs', b).
Proof. exact decode_body_complete. Qed.
Print Assumptions C14_succeeds_when_undoable.

(* non-vacuity with toy decoders: strip a marker byte *)
Definition toy (m : N) (b : bytes) : option bytes :=
  match b with x :: t => if N.eqb x m then Some t else None | [] => None end.
Example C14_example :
  decode_body (toy 1) (toy 2) (toy 3)
    [(str "A"%string, str "x"%string);
     (str "content-encoding"%string, str "br , GZip"%string);
     (str "Content-Encoding"%string, str " deflate"%string)] [2%N; 1%N; 7%N]
  = Some ([(str "A"%string, str "x"%string); (str "content-encoding"%string, str "br"%string);
           (str "Content-Length"%string, str "1"%string)], [7%N]).
Proof. vm_compute. reflexivity. Qed.
