(* CaseLemmas.v -- ASCII letter case never matters to the header lookups (C18). *)
From Coq Require Import ZArith Lia ZifyN ZifyBool.
From Http Require Import Model.Bytes Model.Utf8 Model.Num Model.Headers Model.Request
     Model.Response Model.Coding Proofs.HeaderAlgebra Proofs.Utf8Lemmas.

Ltac Zify.zify_post_hook ::= Z.div_mod_to_equations.

(* equal up to ASCII letter case *)
Definition ci_eq (a b : bytes) : Prop := lower a = lower b.

Lemma to_lower_idem c : to_lower (to_lower c) = to_lower c.
Proof.
  unfold to_lower. destruct (between 65 90 c) eqn:E; [|rewrite E; reflexivity].
  apply between_spec in E.
  destruct (between 65 90 (c + 32)) eqn:E2; [apply between_spec in E2; lia|reflexivity].
Qed.

Lemma lower_idem s : lower (lower s) = lower s.
Proof. unfold lower. rewrite map_map. apply map_ext. apply to_lower_idem. Qed.

Lemma ci_eq_lower s : ci_eq (lower s) s.
Proof. apply lower_idem. Qed.

(* a byte outside A-Z / a-z is untouched, and to_lower never produces or destroys one *)
Lemma to_lower_eq_nonletter c d :
  between 65 90 d = false -> between 97 122 d = false -> (to_lower c = d <-> c = d).
Proof.
  intros H1 H2. unfold to_lower. destruct (between 65 90 c) eqn:E.
  - apply between_spec in E. apply between_false in H1, H2. split; intros; lia.
  - tauto.
Qed.

Lemma eqb_to_lower c d :
  between 65 90 d = false -> between 97 122 d = false -> N.eqb (to_lower c) d = N.eqb c d.
Proof.
  intros H1 H2. destruct (N.eqb c d) eqn:E.
  - apply N.eqb_eq in E. apply N.eqb_eq. apply to_lower_eq_nonletter; assumption.
  - apply N.eqb_neq in E. apply N.eqb_neq. intros H. apply E.
    apply (to_lower_eq_nonletter c d H1 H2). exact H.
Qed.

Lemma find_byte_lower d s :
  between 65 90 d = false -> between 97 122 d = false -> find_byte d (lower s) = find_byte d s.
Proof.
  intros H1 H2. induction s as [|a s IH]; [reflexivity|].
  simpl. rewrite eqb_to_lower by assumption. rewrite IH. reflexivity.
Qed.

Lemma firstn_lower n s : firstn n (lower s) = lower (firstn n s).
Proof. unfold lower. apply firstn_map. Qed.

Lemma skipn_lower n s : skipn n (lower s) = lower (skipn n s).
Proof. unfold lower. apply skipn_map. Qed.

Lemma is_ws_false_graphic c : (33 <= c <= 126)%N -> is_ws c = false.
Proof.
  intros H. unfold is_ws.
  repeat (apply orb_false_intro);
    first [apply between_false; lia | apply N.eqb_neq; lia].
Qed.

Lemma is_ws_to_lower c : is_ws (to_lower c) = is_ws c.
Proof.
  unfold to_lower. destruct (between 65 90 c) eqn:E; [|reflexivity].
  apply between_spec in E.
  rewrite (is_ws_false_graphic c) by lia. apply is_ws_false_graphic. lia.
Qed.

Lemma drop_while_ws_lower s : drop_while is_ws (lower s) = lower (drop_while is_ws s).
Proof.
  induction s as [|a s IH]; [reflexivity|].
  simpl. rewrite is_ws_to_lower. destruct (is_ws a); [exact IH|reflexivity].
Qed.

Lemma trim_lower s : trim (lower s) = lower (trim s).
Proof.
  unfold trim, trim_start, trim_end. rewrite drop_while_ws_lower.
  unfold lower at 1. rewrite <- map_rev. fold (lower (rev (drop_while is_ws s))).
  rewrite drop_while_ws_lower. unfold lower. rewrite map_rev. reflexivity.
Qed.

Lemma split_on_lower d s :
  between 65 90 d = false -> between 97 122 d = false ->
  split_on d (lower s) = map lower (split_on d s).
Proof.
  intros H1 H2. induction s as [|a s IH]; [reflexivity|].
  simpl. rewrite eqb_to_lower by assumption. destruct (N.eqb a d).
  - rewrite IH. reflexivity.
  - rewrite IH. destruct (split_on d s) as [|p ps]; reflexivity.
Qed.

Lemma drop_last_empty_lower l : drop_last_empty (map lower l) = map lower (drop_last_empty l).
Proof.
  induction l as [|p l IH]; [reflexivity|].
  destruct p as [|x p]; simpl.
  - destruct l as [|q l']; [reflexivity|]. simpl in IH. simpl. rewrite <- IH. reflexivity.
  - destruct l as [|q l']; [reflexivity|]. simpl in IH. simpl. rewrite <- IH. reflexivity.
Qed.

Lemma value_tokens_lower v : value_tokens (lower v) = value_tokens v.
Proof.
  unfold value_tokens, split_terminator.
  rewrite split_on_lower by reflexivity. rewrite drop_last_empty_lower, map_map.
  apply map_ext. intros p. rewrite trim_lower, lower_idem. reflexivity.
Qed.

Lemma value_tokens_ci v v' : ci_eq v v' -> value_tokens v = value_tokens v'.
Proof. intros H. rewrite <- (value_tokens_lower v), <- (value_tokens_lower v'), H. reflexivity. Qed.

(* ---- header lists equal up to the case of names and values ---- *)
Definition hdr_ci (h h' : header) : Prop := ci_eq (fst h) (fst h') /\ ci_eq (snd h) (snd h').
Definition hdrs_ci (hs hs' : list header) : Prop := Forall2 hdr_ci hs hs'.

Lemma name_eq_ci a a' n n' : ci_eq a a' -> ci_eq n n' -> name_eq a n = name_eq a' n'.
Proof. intros H1 H2. unfold name_eq, eq_ignore_case. rewrite H1, H2. reflexivity. Qed.

Lemma hmv_ci hs hs' n n' :
  hdrs_ci hs hs' -> ci_eq n n' ->
  Forall2 ci_eq (header_multi_value hs n) (header_multi_value hs' n').
Proof.
  intros H Hn. induction H as [|h h' hs hs' [H1 H2] _ IH]; [constructor|].
  unfold header_multi_value in *. simpl. rewrite (name_eq_ci _ _ _ _ H1 Hn).
  destruct (name_eq (fst h') n'); [constructor; assumption|exact IH].
Qed.

Lemma header_tokens_ci hs hs' n n' :
  hdrs_ci hs hs' -> ci_eq n n' -> header_tokens hs n = header_tokens hs' n'.
Proof.
  intros H Hn. rewrite !header_tokens_hmv.
  pose proof (hmv_ci hs hs' n n' H Hn) as HF.
  induction HF as [|v v' vs vs' Hv _ IH]; [reflexivity|].
  simpl. rewrite (value_tokens_ci _ _ Hv), IH. reflexivity.
Qed.

Lemma has_header_token_ci hs hs' n n' tok tok' :
  hdrs_ci hs hs' -> ci_eq n n' -> ci_eq tok tok' ->
  has_header_token hs n tok = has_header_token hs' n' tok'.
Proof.
  intros H Hn Ht. unfold has_header_token. rewrite (header_tokens_ci _ _ _ _ H Hn), Ht. reflexivity.
Qed.

Lemma has_header_ci hs hs' n n' : hdrs_ci hs hs' -> ci_eq n n' -> has_header hs n = has_header hs' n'.
Proof.
  intros H Hn. induction H as [|h h' hs hs' [H1 H2] _ IH]; [reflexivity|].
  unfold has_header in *. simpl. rewrite (name_eq_ci _ _ _ _ H1 Hn), IH. reflexivity.
Qed.

Lemma lower_app a b : lower (a ++ b) = lower a ++ lower b.
Proof. unfold lower. apply map_app. Qed.

Lemma join_ci sep vs vs' : Forall2 ci_eq vs vs' -> ci_eq (join sep vs) (join sep vs').
Proof.
  intros H. unfold ci_eq. induction H as [|v v' vs vs' Hv Hvs IH]; [reflexivity|].
  destruct vs as [|w ws]; inversion Hvs; subst.
  - simpl. exact Hv.
  - cbn [join]. rewrite !lower_app. rewrite Hv. f_equal. f_equal. exact IH.
Qed.

Lemma header_value_ci hs hs' n n' :
  hdrs_ci hs hs' -> ci_eq n n' ->
  match header_value hs n, header_value hs' n' with
  | Some v, Some v' => ci_eq v v'
  | None, None => True
  | _, _ => False
  end.
Proof.
  intros H Hn. rewrite !header_value_hmv.
  pose proof (hmv_ci hs hs' n n' H Hn) as HF.
  destruct HF as [|v v' vs vs' Hv Hvs]; [exact I|].
  apply (join_ci [COMMA] (v :: vs) (v' :: vs')). constructor; assumption.
Qed.

(* digits are not letters: the numeric parser cannot see letter case *)
Lemma parse_dec_lower s : parse_dec (lower s) = parse_dec s.
Proof.
  unfold parse_dec. destruct s as [|a s']; [reflexivity|].
  change (lower (a :: s')) with (to_lower a :: lower s').
  assert (Hd : forall c, is_digit (to_lower c) = is_digit c).
  { intros c. unfold to_lower. destruct (between 65 90 c) eqn:E; [|reflexivity].
    apply between_spec in E. unfold is_digit.
    destruct (between 48 57 (c + 32)) eqn:E1; [apply between_spec in E1; lia|].
    destruct (between 48 57 c) eqn:E2; [apply between_spec in E2; lia|reflexivity]. }
  assert (Hf : forall l, forallb is_digit (lower l) = forallb is_digit l).
  { induction l as [|c l IH]; [reflexivity|]. simpl. rewrite Hd, IH. reflexivity. }
  change (to_lower a :: lower s') with (lower (a :: s')). rewrite Hf.
  destruct (forallb is_digit (a :: s')) eqn:F; [|reflexivity].
  (* all digits: lower is the identity *)
  assert (Hid : forall l, forallb is_digit l = true -> lower l = l).
  { induction l as [|c l IH]; [reflexivity|]. simpl. intros H. apply andb_prop in H as [H1 H2].
    rewrite (IH H2). f_equal. unfold to_lower. unfold is_digit in H1. apply between_spec in H1.
    destruct (between 65 90 c) eqn:E; [apply between_spec in E; lia|reflexivity]. }
  rewrite (Hid _ F). reflexivity.
Qed.

Lemma parse_dec_ci s s' : ci_eq s s' -> parse_dec s = parse_dec s'.
Proof. intros H. rewrite <- (parse_dec_lower s), <- (parse_dec_lower s'), H. reflexivity. Qed.

(* ---- the framing decision of a response (after its header block is complete) ---- *)
Inductive framing := FFixed (n : N) | FBadLength | FChunked | FNone.

Definition resp_framing (hs : list header) : framing :=
  match header_value hs CONTENT_LENGTH with
  | Some v => match parse_dec v with Some n => FFixed n | None => FBadLength end
  | None => if has_header_token hs TRANSFER_ENCODING CHUNKED then FChunked else FNone
  end.

Theorem resp_framing_ci hs hs' : hdrs_ci hs hs' -> resp_framing hs = resp_framing hs'.
Proof.
  intros H. unfold resp_framing.
  pose proof (header_value_ci hs hs' CONTENT_LENGTH CONTENT_LENGTH H eq_refl) as HV.
  destruct (header_value hs CONTENT_LENGTH) as [v|], (header_value hs' CONTENT_LENGTH) as [v'|];
    try contradiction.
  - rewrite (parse_dec_ci _ _ HV). reflexivity.
  - rewrite (has_header_token_ci hs hs' _ _ _ _ H eq_refl eq_refl). reflexivity.
Qed.

(* requests: the only framing input is Content-Length *)
Definition req_framing (hs : list header) : option (option N) :=
  match header_value hs CONTENT_LENGTH with
  | Some v => Some (parse_dec v)
  | None => None
  end.

Theorem req_framing_ci hs hs' : hdrs_ci hs hs' -> req_framing hs = req_framing hs'.
Proof.
  intros H. unfold req_framing.
  pose proof (header_value_ci hs hs' CONTENT_LENGTH CONTENT_LENGTH H eq_refl) as HV.
  destruct (header_value hs CONTENT_LENGTH) as [v|], (header_value hs' CONTENT_LENGTH) as [v'|];
    try contradiction; [|reflexivity].
  rewrite (parse_dec_ci _ _ HV). reflexivity.
Qed.

(* ---- decode_body: the returned body does not depend on letter case ---- *)
Theorem decode_body_ci gunzip inflate_raw inflate_zlib hs hs' body :
  hdrs_ci hs hs' ->
  option_map snd (decode_body gunzip inflate_raw inflate_zlib hs body) =
  option_map snd (decode_body gunzip inflate_raw inflate_zlib hs' body).
Proof.
  intros H. unfold decode_body.
  rewrite (header_tokens_ci hs hs' CONTENT_ENCODING CONTENT_ENCODING H eq_refl).
  destruct (decode_loop _ _ _ _ body) as [[r b]|]; reflexivity.
Qed.

(* ---- decode_body_as_text ---- *)
Lemma split_at_lower d x :
  between 65 90 d = false -> between 97 122 d = false ->
  split_at d (lower x) = option_map (fun p => (lower (fst p), lower (snd p))) (split_at d x).
Proof.
  intros H1 H2. unfold split_at. rewrite find_byte_lower by assumption.
  destruct (find_byte d x) as [k|]; [|reflexivity].
  cbn [option_map fst snd]. rewrite firstn_lower, skipn_lower. reflexivity.
Qed.

Lemma eq_ignore_case_lower a b : eq_ignore_case (lower a) b = eq_ignore_case a b.
Proof. unfold eq_ignore_case. rewrite lower_idem. reflexivity. Qed.

Lemma find_charset_lower l : find_charset (map lower l) = option_map lower (find_charset l).
Proof.
  induction l as [|p l IH]; [reflexivity|].
  cbn [map find_charset]. rewrite trim_lower. rewrite split_at_lower by reflexivity.
  destruct (split_at EQUALS (trim p)) as [[name value]|]; cbn [option_map fst snd]; [|exact IH].
  rewrite eq_ignore_case_lower. destruct (eq_ignore_case name CHARSET); [reflexivity|exact IH].
Qed.

Lemma content_type_charset_lower ct :
  option_map lower (content_type_charset (lower ct)) = option_map lower (content_type_charset ct).
Proof.
  unfold content_type_charset. rewrite find_byte_lower by reflexivity.
  destruct (find_byte SEMI ct) as [d|].
  - rewrite firstn_lower, skipn_lower. rewrite split_at_lower by reflexivity.
    destruct (split_at SLASH (firstn d ct)) as [[ty sub]|]; cbn [option_map fst snd]; [|reflexivity].
    rewrite eq_ignore_case_lower. destruct (eq_ignore_case ty TEXT); [|reflexivity].
    rewrite split_on_lower by reflexivity. rewrite find_charset_lower.
    destruct (find_charset (split_on SEMI (skipn (S d) ct))) as [cs|]; cbn [option_map];
      [rewrite lower_idem|]; reflexivity.
  - rewrite split_at_lower by reflexivity.
    destruct (split_at SLASH ct) as [[ty sub]|]; cbn [option_map fst snd]; [|reflexivity].
    rewrite eq_ignore_case_lower. destruct (eq_ignore_case ty TEXT); reflexivity.
Qed.

Lemma utf8_encode_char_lower c : utf8_encode_char (to_lower c) = lower (utf8_encode_char c).
Proof.
  unfold to_lower. destruct (between 65 90 c) eqn:E.
  - apply between_spec in E. unfold utf8_encode_char.
    assert (E1 : N.ltb (c + 32) 128 = true) by (apply N.ltb_lt; lia).
    assert (E2 : N.ltb c 128 = true) by (apply N.ltb_lt; lia).
    rewrite E1, E2. cbn [lower map]. unfold to_lower.
    assert (E3 : between 65 90 c = true) by (apply between_spec; lia). rewrite E3. reflexivity.
  - assert (Hid : forall b, between 65 90 b = false -> to_lower b = b)
      by (intros b Hb; unfold to_lower; rewrite Hb; reflexivity).
    assert (Hhigh : forall b, (128 <= b)%N -> to_lower b = b).
    { intros b Hb. apply Hid. apply between_false. lia. }
    unfold utf8_encode_char.
    destruct (N.ltb c 128) eqn:A; [cbn [lower map]; rewrite (Hid c E); reflexivity|].
    destruct (N.ltb c 2048) eqn:B; [cbn [lower map]; rewrite !Hhigh by lia; reflexivity|].
    destruct (N.ltb c 65536) eqn:C; cbn [lower map]; rewrite !Hhigh by lia; reflexivity.
Qed.

Lemma utf8_encode_lower cs : utf8_encode (lower cs) = lower (utf8_encode cs).
Proof.
  unfold utf8_encode. induction cs as [|c cs IH]; [reflexivity|].
  cbn [lower map flat_map]. fold (lower cs). rewrite utf8_encode_char_lower, IH, lower_app. reflexivity.
Qed.

Section Text.
  Variable enc : Type.
  Variable for_label : bytes -> option enc.
  Variable enc_decode : enc -> bytes -> option (list N).
  (* encoding_rs looks labels up ASCII-case-insensitively (sampled, not proved) *)
  Hypothesis for_label_ci : forall l l', ci_eq l l' -> for_label l = for_label l'.

  Theorem decode_text_ci hs hs' body :
    hdrs_ci hs hs' ->
    decode_text enc for_label enc_decode hs body = decode_text enc for_label enc_decode hs' body.
  Proof.
    intros H. unfold decode_text.
    pose proof (header_value_ci hs hs' CONTENT_TYPE CONTENT_TYPE H eq_refl) as HV.
    destruct (header_value hs CONTENT_TYPE) as [ct|], (header_value hs' CONTENT_TYPE) as [ct'|];
      try contradiction; [|reflexivity].
    assert (HC : option_map lower (content_type_charset ct) = option_map lower (content_type_charset ct')).
    { rewrite <- (content_type_charset_lower ct), <- (content_type_charset_lower ct'), HV. reflexivity. }
    destruct (content_type_charset ct) as [cs|], (content_type_charset ct') as [cs'|];
      simpl in HC; try discriminate; [|reflexivity].
    inversion HC as [Hcs].
    assert (HL : for_label (utf8_encode cs) = for_label (utf8_encode cs')).
    { apply for_label_ci. unfold ci_eq. rewrite <- !utf8_encode_lower, Hcs. reflexivity. }
    rewrite HL. reflexivity.
  Qed.
End Text.
