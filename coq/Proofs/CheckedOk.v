(* CheckedOk.v -- no partial operation of Model/Checked.v ever fails, and the checked parsers
   compute exactly what the pure model computes (C06 for the crate's own parsing code:
   every input, every parser state reachable under the documented protocol, every limit
   configuration).  The only premise about the machine: the bytes already stored plus the
   bytes presented fit the address space (`Vec` lengths never exceed isize::MAX). *)
From Coq Require Import Lia ZifyN ZifyNat String.
From Http Require Import Model.Bytes Model.Utf8 Model.Num Model.Headers Model.Request
     Model.Chunked Model.Response Model.Checked
     Proofs.BytesLemmas Proofs.HeadersResume Proofs.ReqResume Proofs.ChunkResume
     Proofs.RespResume Proofs.Utf8Split Proofs.HeaderGrammarProofs Proofs.Safety.

(* ---- the partial operations, when their side condition holds ---- *)
Lemma ck_from_ok site s k : k <= length s -> ck_from site s k = COk (skipn k s).
Proof. intros H. unfold ck_from. apply Nat.leb_le in H. rewrite H. reflexivity. Qed.
Lemma ck_to_ok site s k : k <= length s -> ck_to site s k = COk (firstn k s).
Proof. intros H. unfold ck_to. apply Nat.leb_le in H. rewrite H. reflexivity. Qed.
Lemma ck_addn_ok site a b : (N.of_nat a + N.of_nat b <= USIZE_MAX)%N -> ck_addn site a b = COk (a + b).
Proof. intros H. unfold ck_addn. apply N.leb_le in H. rewrite H. reflexivity. Qed.
Lemma ck_subn_ok site a b : b <= a -> ck_subn site a b = COk (a - b).
Proof. intros H. unfold ck_subn. apply Nat.leb_le in H. rewrite H. reflexivity. Qed.
Lemma ck_subN_ok site a b : (b <= a)%N -> ck_subN site a b = COk (a - b)%N.
Proof. intros H. unfold ck_subN. apply N.leb_le in H. rewrite H. reflexivity. Qed.
Lemma ck_grow_ok site len add : (N.of_nat len + add <= ISIZE_MAX)%N -> ck_grow site len add = COk tt.
Proof. intros H. unfold ck_grow. apply N.leb_le in H. rewrite H. reflexivity. Qed.

Lemma isize_le_usize n : (n <= ISIZE_MAX)%N -> (n <= USIZE_MAX)%N.
Proof. unfold ISIZE_MAX, USIZE_MAX. lia. Qed.

(* ---- char boundaries ---- *)
Lemma char_boundary_b s k : char_boundary s k -> is_boundaryb s k = true.
Proof.
  unfold char_boundary, is_boundaryb. intros [H|[H|[b [Hn Hc]]]].
  - subst. reflexivity.
  - subst. rewrite Nat.eqb_refl. apply orb_true_iff. left. apply orb_true_r.
  - rewrite Hn, Hc. apply orb_true_r.
Qed.

Lemma ck_str_to_ok site s k : k <= length s -> char_boundary s k -> ck_str_to site s k = COk (firstn k s).
Proof.
  intros H B. unfold ck_str_to. apply Nat.leb_le in H. rewrite H, (char_boundary_b _ _ B). reflexivity.
Qed.
Lemma ck_str_from_ok site s k : k <= length s -> char_boundary s k -> ck_str_from site s k = COk (skipn k s).
Proof.
  intros H B. unfold ck_str_from. apply Nat.leb_le in H. rewrite H, (char_boundary_b _ _ B). reflexivity.
Qed.

(* the text after an ASCII delimiter of a valid string is valid *)
Lemma utf8_valid_after_delim c s k :
  utf8_valid s = true -> (c < 128)%N -> find_byte c s = Some k -> utf8_valid (skipn (S k) s) = true.
Proof.
  intros Hv Hc Hf. pose proof (find_byte_split _ _ _ Hf) as E.
  rewrite E in Hv. pose proof (utf8_valid_split _ _ _ Hc Hv) as Ha.
  rewrite (utf8_valid_app _ _ Ha) in Hv. cbn [utf8_valid] in Hv.
  apply N.ltb_lt in Hc. rewrite Hc in Hv. exact Hv.
Qed.

Lemma sp_ascii : (SP < 128)%N.  Proof. unfold SP. lia. Qed.
Lemma semi_ascii : (SEMI < 128)%N.  Proof. unfold SEMI. lia. Qed.

Lemma small_add_ok site a b n :
  a + b <= n -> (N.of_nat n <= ISIZE_MAX)%N -> ck_addn site a b = COk (a + b).
Proof. intros H Hn. apply ck_addn_ok. unfold ISIZE_MAX, USIZE_MAX in *. lia. Qed.

Lemma hdr_parse_bound lim hs s :
  match hdr_parse lim hs s with
  | HComplete _ c | HIncomplete _ c => c <= length s
  | HError _ => True
  end.
Proof.
  pose proof (hdr_parse_app lim hs s [] (or_intror (eq_trans (f_equal (andb (ends_cr s)) eq_refl) (andb_false_r _)))) as A.
  destruct (hdr_parse lim hs s); tauto.
Qed.

(* ------------------------------------------------------------------ requests *)
Section Req.
  Variable uri : Type.
  Variable uri_parse : bytes -> option uri.
  Notation state := (req_state uri).

  Lemma c_parse_request_line_ok line :
    utf8_valid line = true -> (N.of_nat (length line) <= ISIZE_MAX)%N ->
    c_parse_request_line uri uri_parse line = COk (parse_request_line uri uri_parse line).
  Proof.
    intros Hv Hsz. unfold c_parse_request_line, parse_request_line.
    destruct (find_byte SP line) as [md|] eqn:F; [|reflexivity].
    pose proof (find_byte_bound _ _ _ F) as B.
    destruct (ascii_delimiter_boundaries _ _ _ Hv sp_ascii F) as [B1 B2].
    rewrite ck_str_to_ok by (try lia; exact B1). cbn [cbind].
    destruct md as [|md']; [reflexivity|].
    rewrite (small_add_ok _ _ _ (length line)) by (try lia; exact Hsz). cbn [cbind].
    replace (S md' + 1) with (S (S md')) by lia.
    rewrite ck_str_from_ok by (try lia; exact B2). cbn [cbind].
    pose proof (utf8_valid_after_delim _ _ _ Hv sp_ascii F) as Hv2.
    set (at_target := skipn (S (S md')) line) in *.
    assert (Hlen : length at_target <= length line) by (subst at_target; rewrite skipn_length; lia).
    destruct (find_byte SP at_target) as [td|] eqn:F2; [|reflexivity].
    pose proof (find_byte_bound _ _ _ F2) as Bt.
    destruct (ascii_delimiter_boundaries _ _ _ Hv2 sp_ascii F2) as [C1 C2].
    destruct td as [|td']; [reflexivity|].
    rewrite ck_str_to_ok by (try lia; exact C1). cbn [cbind].
    destruct (uri_parse _) as [u|]; [|reflexivity].
    rewrite (small_add_ok _ _ _ (length line)) by (try lia; exact Hsz). cbn [cbind].
    replace (S td' + 1) with (S (S td')) by lia.
    rewrite ck_str_from_ok by (try lia; exact C2). reflexivity.
  Qed.

  (* one phase function, against the pure model's nested functions *)
  Definition of_rstep (k : nat) (cont : state -> nat -> state * outcome) (st0 : state) (r : rstep uri)
    : state * outcome :=
    match r with
    | RErr _ e => (st0, Reject e)
    | RWhole _ st c => (st, Complete (k + c))
    | RInc _ st c => (st, Incomplete (k + c))
    | RPart _ st c => cont st (k + c)
    end.

  (* memory premise: what is stored plus what is presented fits *)
  Definition fits (stored : nat) (raw : bytes) : Prop :=
    (N.of_nat stored + N.of_nat (length raw) <= ISIZE_MAX)%N.

  Lemma c_req_loop_step f cfg st raw total :
    c_req_loop uri uri_parse (S f) cfg st raw total =
    (rem <- ck_from "request.rs:parse:raw_message[total_consumed..]" raw total ;;
     r <- c_req_step uri uri_parse cfg st rem ;;
     match r with
     | RErr _ e => COk (st, Reject e)
     | RPart _ st' c =>
       total' <- ck_addn "request.rs:parse:total_consumed += consumed" total c ;;
       c_req_loop uri uri_parse f cfg st' raw total'
     | RWhole _ st' c =>
       total' <- ck_addn "request.rs:parse:total_consumed += consumed" total c ;;
       COk (st', Complete total')
     | RInc _ st' c =>
       total' <- ck_addn "request.rs:parse:total_consumed += consumed" total c ;;
       COk (st', Incomplete total')
     end).
  Proof. reflexivity. Qed.

  (* body phase: one round *)
  Lemma c_req_loop_body f cfg st n raw total :
    r_phase st = PBody n -> total <= length raw ->
    (N.of_nat (length (r_body st)) <= n)%N -> fits (length (r_body st)) raw ->
    c_req_loop uri uri_parse (S f) cfg st raw total
    = COk (shift uri total (req_body uri st n (skipn total raw))).
  Proof.
    intros Hph Ht Hinv Hfit. unfold fits in Hfit. rewrite c_req_loop_step.
    rewrite ck_from_ok by exact Ht. cbn [cbind].
    unfold c_req_step. rewrite Hph. unfold c_req_body, req_body.
    rewrite ck_subN_ok by exact Hinv. cbn [cbind].
    pose proof (skipn_length total raw) as Hl.
    destruct (N.leb _ _) eqn:E.
    - apply N.leb_le in E.
      rewrite ck_to_ok by lia. cbn [cbind].
      rewrite ck_grow_ok by (rewrite firstn_length; lia). cbn [cbind].
      rewrite (small_add_ok _ _ _ (length raw)) by lia. reflexivity.
    - rewrite ck_grow_ok by lia. cbn [cbind].
      rewrite (small_add_ok _ _ _ (length raw)) by lia. reflexivity.
  Qed.


  (* header phase: at most two rounds *)
  Lemma c_req_loop_headers f cfg st raw total :
    r_phase st = PHeaders -> total <= length raw -> r_body st = [] -> fits 0 raw ->
    c_req_loop uri uri_parse (S (S f)) cfg st raw total
    = COk (shift uri total (req_headers uri cfg st (skipn total raw))).
  Proof.
    intros Hph Ht Hb Hfit. unfold fits in Hfit. rewrite c_req_loop_step.
    rewrite ck_from_ok by exact Ht. cbn [cbind].
    unfold c_req_step. rewrite Hph. unfold c_req_headers, req_headers.
    set (rem := skipn total raw).
    assert (Hl : length rem = length raw - total) by (subst rem; apply skipn_length).
    pose proof (hdr_parse_bound (hl cfg) (r_headers st) (strip_cr rem)) as Hc.
    pose proof (strip_cr_length rem) as Hs.
    destruct (hdr_parse (hl cfg) (r_headers st) (strip_cr rem)) as [hs c|hs c|e]; cbn [cbind].
    - destruct (count_bytes cfg (r_total st) (N.of_nat c)) as [t|]; cbn [cbind]; [|reflexivity].
      destruct (header_value hs CONTENT_LENGTH) as [v|]; cbn [cbind].
      + destruct (parse_dec v) as [n|]; cbn [cbind]; [|reflexivity].
        destruct (count_bytes cfg t n) as [t2|]; cbn [cbind]; [|reflexivity].
        rewrite Hb. rewrite ck_grow_ok by (cbn [length]; lia). cbn [cbind].
        rewrite (small_add_ok _ _ _ (length raw)) by lia. cbn [cbind].
        rewrite (c_req_loop_body f cfg _ n raw (total + c)); cbn [r_phase r_body length];
          try reflexivity; try lia; [|unfold fits; cbn [length]; lia].
        rewrite shift_shift. subst rem. rewrite skipn_skipn'. rewrite (Nat.add_comm c total). reflexivity.
      + rewrite (small_add_ok _ _ _ (length raw)) by lia. reflexivity.
    - destruct (count_bytes cfg (r_total st) (N.of_nat c)) as [t|]; cbn [cbind]; [|reflexivity].
      rewrite (small_add_ok _ _ _ (length raw)) by lia. reflexivity.
    - reflexivity.
  Qed.

  (* request-line phase: at most three rounds *)
  Lemma c_req_loop_line f cfg st raw total :
    r_phase st = PRequestLine -> total <= length raw -> r_body st = [] -> fits 0 raw ->
    c_req_loop uri uri_parse (S (S (S f))) cfg st raw total
    = COk (shift uri total (req_line uri uri_parse cfg st (skipn total raw))).
  Proof.
    intros Hph Ht Hb Hfit. unfold fits in Hfit. rewrite c_req_loop_step.
    rewrite ck_from_ok by exact Ht. cbn [cbind].
    unfold c_req_step. rewrite Hph. unfold c_req_line, req_line.
    set (rem := skipn total raw).
    assert (Hl : length rem = length raw - total) by (subst rem; apply skipn_length).
    destruct (find_crlf rem) as [e|] eqn:F.
    - pose proof (find_crlf_bound _ _ F) as B.
      destruct (over_limit e (rl cfg)) eqn:O.
      + destruct (rl cfg) as [l|]; [|reflexivity].
        unfold over_limit in O. apply N.ltb_lt in O.
        rewrite ck_to_ok by lia. reflexivity.
      + rewrite ck_to_ok by lia. cbn [cbind].
        destruct (utf8_valid (firstn e rem)) eqn:V; cbn [negb cbind]; [|reflexivity].
        rewrite (small_add_ok _ _ _ (length raw)) by lia. cbn [cbind].
        destruct (count_bytes cfg (r_total st) (N.of_nat (e + 2))) as [t|]; [|reflexivity].
        rewrite c_parse_request_line_ok; [|exact V|rewrite firstn_length; lia]. cbn [cbind].
        destruct (parse_request_line uri uri_parse (firstn e rem)) as [[meth u]|er]; cbn [cbind]; [|reflexivity].
        rewrite (small_add_ok _ _ _ (length raw)) by lia. cbn [cbind].
        rewrite (c_req_loop_headers f cfg _ raw (total + (e + 2))); cbn [r_phase r_body];
          try reflexivity; try lia; try assumption.
        rewrite shift_shift. subst rem. rewrite skipn_skipn'. rewrite (Nat.add_comm (e + 2) total). reflexivity.
    - destruct (over_limit (length (strip_cr rem)) (rl cfg)) eqn:O.
      + destruct (rl cfg) as [l|]; [|reflexivity].
        unfold over_limit in O. apply N.ltb_lt in O. pose proof (strip_cr_length rem).
        rewrite ck_to_ok by lia. reflexivity.
      + cbn [cbind]. rewrite (small_add_ok _ _ _ (length raw)) by lia. cbn [cbind shift]. rewrite Nat.add_0_r. reflexivity.
  Qed.

  (* Request::parse, any reachable state: no operation fails, and the answer is the pure
     model's *)
  Theorem c_req_parse_ok cfg st raw :
    body_inv uri st -> fits (length (r_body st)) raw ->
    c_req_parse uri uri_parse cfg st raw = COk (req_parse uri uri_parse cfg st raw).
  Proof.
    intros Hinv Hfit. unfold c_req_parse. rewrite req_parse_eq.
    assert (E : c_req_loop uri uri_parse 3 cfg st raw 0
                = COk (req_dispatch uri uri_parse cfg st raw)).
    { unfold body_inv in Hinv. unfold req_dispatch.
      destruct (r_phase st) as [| |n] eqn:Hph.
      - rewrite c_req_loop_line; try assumption; try lia; [|rewrite Hinv in Hfit; exact Hfit].
        cbn [skipn]. apply f_equal. apply shift_0.
      - rewrite c_req_loop_headers; try assumption; try lia; [|rewrite Hinv in Hfit; exact Hfit].
        cbn [skipn]. apply f_equal. apply shift_0.
      - rewrite (c_req_loop_body _ cfg st n); try assumption; try lia.
        cbn [skipn]. apply f_equal. apply shift_0. }
    rewrite E. cbn [cbind].
    destruct (req_dispatch uri uri_parse cfg st raw) as [st' [c|c|e]] eqn:D; try reflexivity.
    rewrite ck_subn_ok; [reflexivity|].
    eapply req_dispatch_consumed. right. exact D.
  Qed.
End Req.

(* ------------------------------------------------------------------ chunked bodies *)
Lemma c_parse_chunk_size_ok line :
  utf8_valid line = true -> c_parse_chunk_size line = COk (parse_chunk_size line).
Proof.
  intros Hv. unfold c_parse_chunk_size, parse_chunk_size.
  destruct (find_byte SEMI line) as [d|] eqn:F.
  - pose proof (find_byte_bound _ _ _ F) as B.
    destruct (ascii_delimiter_boundaries _ _ _ Hv semi_ascii F) as [B1 _].
    rewrite ck_str_to_ok by (try lia; exact B1). reflexivity.
  - rewrite ck_str_to_ok; [|lia|right; left; reflexivity]. cbn [cbind]. rewrite firstn_all. reflexivity.
Qed.

Lemma c_chunk_step_ok st rem :
  (N.of_nat (length (c_buffer st)) + N.of_nat (length rem) <= ISIZE_MAX)%N ->
  c_chunk_step st rem = COk (chunk_step st rem).
Proof.
  intros Hfit. unfold c_chunk_step, chunk_step. destruct (c_phase st) as [|needed| |]; try reflexivity.
  - unfold c_decode_size, decode_size.
    destruct (find_crlf rem) as [e|] eqn:F; [|reflexivity].
    pose proof (find_crlf_bound _ _ F) as B.
    rewrite ck_to_ok by lia. cbn [cbind].
    destruct (utf8_valid (firstn e rem)) eqn:V; cbn [negb]; [|reflexivity].
    rewrite (small_add_ok _ _ _ (length rem)) by lia. cbn [cbind].
    rewrite c_parse_chunk_size_ok by exact V. cbn [cbind].
    destruct (parse_chunk_size (firstn e rem)) as [n|]; [|reflexivity].
    rewrite ck_grow_ok by lia. reflexivity.
  - unfold c_decode_data, decode_data. cbv zeta.
    set (k := if N.leb needed (N.of_nat (length rem)) then N.to_nat needed else length rem).
    assert (Hk : k <= length rem /\ (N.of_nat k <= needed)%N).
    { subst k. destruct (N.leb needed (N.of_nat (length rem))) eqn:E;
        [apply N.leb_le in E|apply N.leb_gt in E]; lia. }
    rewrite ck_subN_ok by lia. cbn [cbind].
    rewrite ck_to_ok by lia. cbn [cbind].
    rewrite ck_grow_ok by (rewrite firstn_length; lia). reflexivity.
Qed.

Lemma c_chunk_loop_step f st raw total :
  c_chunk_loop (S f) st raw total =
  (rem <- ck_from "chunked_body.rs:decode:input[total_consumed..]" raw total ;;
   r <- c_chunk_step st rem ;;
   match r with
   | CErr e => COk (st, Reject e)
   | CWhole st' c =>
     total' <- ck_addn "chunked_body.rs:decode:total_consumed += consumed" total c ;;
     COk (st', Complete total')
   | CInc st' c =>
     total' <- ck_addn "chunked_body.rs:decode:total_consumed += consumed" total c ;;
     COk (st', Incomplete total')
   | CPart st' c =>
     total' <- ck_addn "chunked_body.rs:decode:total_consumed += consumed" total c ;;
     c_chunk_loop f st' raw total'
   end).
Proof. reflexivity. Qed.

Lemma c_chunk_loop_ok f : forall st raw total,
  cwf st -> total <= length raw -> length raw - total < f ->
  (N.of_nat (length raw) <= ISIZE_MAX)%N ->
  (N.of_nat (length (c_buffer st)) + N.of_nat (length raw - total) <= ISIZE_MAX)%N ->
  c_chunk_loop f st raw total = COk (chunk_loop f st (skipn total raw) total).
Proof.
  induction f as [|f IH]; intros st raw total Hwf Ht Hf Hraw Hfit; [lia|].
  rewrite c_chunk_loop_step, chunk_loop_step.
  rewrite ck_from_ok by exact Ht. cbn [cbind].
  set (rem := skipn total raw).
  assert (Hl : length rem = length raw - total) by (subst rem; apply skipn_length).
  rewrite c_chunk_step_ok by lia. cbn [cbind].
  pose proof (chunk_step_buffer st rem) as Hbuf.
  destruct (chunk_step st rem) as [st' c|st' c|st' c|e] eqn:E.
  - destruct (chunk_step_part st rem [] st' c Hwf E) as [_ [Hp [Hc Hwf']]].
    rewrite (small_add_ok _ _ _ (length raw)) by lia. cbn [cbind].
    destruct Hbuf as [k [Hk Hb]].
    rewrite IH; try assumption; try lia.
    subst rem. rewrite skipn_skipn'. rewrite (Nat.add_comm c total). reflexivity.
  - destruct (chunk_step_whole st rem [] st' c E) as [_ Hc].
    rewrite (small_add_ok _ _ _ (length raw)) by lia. reflexivity.
  - destruct (chunk_step_inc st rem [] st' c Hwf E) as [Hc _].
    rewrite (small_add_ok _ _ _ (length raw)) by lia. reflexivity.
  - reflexivity.
Qed.

Theorem c_chunk_decode_ok st raw :
  cwf st -> (N.of_nat (length (c_buffer st)) + N.of_nat (length raw) <= ISIZE_MAX)%N ->
  c_chunk_decode st raw = COk (chunk_decode st raw).
Proof.
  intros Hwf Hfit. unfold c_chunk_decode, chunk_decode.
  rewrite c_chunk_loop_ok; try assumption; try lia. reflexivity.
Qed.

(* ------------------------------------------------------------------ responses *)
Lemma c_parse_status_line_ok line :
  utf8_valid line = true -> (N.of_nat (length line) <= ISIZE_MAX)%N ->
  c_parse_status_line line = COk (parse_status_line line).
Proof.
  intros Hv Hsz. unfold c_parse_status_line, parse_status_line.
  destruct (find_byte SP line) as [pd|] eqn:F; [|reflexivity].
  pose proof (find_byte_bound _ _ _ F) as B.
  destruct (ascii_delimiter_boundaries _ _ _ Hv sp_ascii F) as [B1 B2].
  rewrite ck_str_to_ok by (try lia; exact B1). cbn [cbind].
  destruct (negb (bytes_eqb (firstn pd line) HTTP11)); [reflexivity|].
  rewrite (small_add_ok _ _ _ (length line)) by (try lia; exact Hsz). cbn [cbind].
  replace (pd + 1) with (S pd) by lia.
  rewrite ck_str_from_ok by (try lia; exact B2). cbn [cbind].
  pose proof (utf8_valid_after_delim _ _ _ Hv sp_ascii F) as Hv2.
  set (at_code := skipn (S pd) line) in *.
  assert (Hlen : length at_code <= length line) by (subst at_code; rewrite skipn_length; lia).
  destruct (find_byte SP at_code) as [cd|] eqn:F2; [|reflexivity].
  pose proof (find_byte_bound _ _ _ F2) as Bt.
  destruct (ascii_delimiter_boundaries _ _ _ Hv2 sp_ascii F2) as [C1 C2].
  rewrite ck_str_to_ok by (try lia; exact C1). cbn [cbind].
  destruct (parse_dec (firstn cd at_code)) as [code|]; [|reflexivity].
  destruct (N.ltb code 1000); [|reflexivity].
  rewrite (small_add_ok _ _ _ (length line)) by (try lia; exact Hsz). cbn [cbind].
  replace (cd + 1) with (S cd) by lia.
  rewrite ck_str_from_ok by (try lia; exact C2). reflexivity.
Qed.

(* the states a response parser goes through while one message is being parsed (from
   Response::new() until it reports completion) *)
Definition resp_inv (st : resp_state) : Prop :=
  match s_phase st with
  | SFixedBody n => (N.of_nat (length (s_body st)) <= n)%N
  | SChunkedBody cs => cwf cs
  | _ => s_body st = []
  end.

Definition resp_fits (st : resp_state) (raw : bytes) : Prop :=
  (N.of_nat (length (s_body st)) + N.of_nat (length raw) <= ISIZE_MAX)%N /\
  (N.of_nat (length (s_trailer st)) + N.of_nat (length raw) <= ISIZE_MAX)%N /\
  match s_phase st with
  | SChunkedBody cs => (N.of_nat (length (c_buffer cs)) + N.of_nat (length raw) <= ISIZE_MAX)%N
  | _ => True
  end.

Lemma c_resp_loop_step f st raw total :
  c_resp_loop (S f) st raw total =
  (rem <- ck_from "response.rs:parse:raw_message[total_consumed..]" raw total ;;
   r <- c_resp_step st rem ;;
   match r with
   | SErr e => COk (st, Reject e)
   | SPart st' c =>
     total' <- ck_addn "response.rs:parse:total_consumed += consumed" total c ;;
     c_resp_loop f st' raw total'
   | SWhole st' c =>
     total' <- ck_addn "response.rs:parse:total_consumed += consumed" total c ;;
     COk (st', Complete total')
   | SInc st' c =>
     total' <- ck_addn "response.rs:parse:total_consumed += consumed" total c ;;
     COk (st', Incomplete total')
   end).
Proof. reflexivity. Qed.

Lemma c_resp_loop_fixed f st n raw total :
  s_phase st = SFixedBody n -> total <= length raw ->
  (N.of_nat (length (s_body st)) <= n)%N -> resp_fits st raw ->
  c_resp_loop (S f) st raw total = COk (rshift total (resp_fixed st n (skipn total raw))).
Proof.
  intros Hph Ht Hinv [Hf1 [Hf2 _]]. rewrite c_resp_loop_step.
  rewrite ck_from_ok by exact Ht. cbn [cbind].
  unfold c_resp_step. rewrite Hph. unfold c_resp_fixed, resp_fixed.
  rewrite ck_subN_ok by exact Hinv. cbn [cbind].
  pose proof (skipn_length total raw) as Hl.
  destruct (N.leb _ _) eqn:E.
  - apply N.leb_le in E.
    rewrite ck_to_ok by lia. cbn [cbind].
    rewrite ck_from_ok by lia. cbn [cbind].
    rewrite ck_grow_ok by (rewrite firstn_length; lia). cbn [cbind].
    rewrite ck_grow_ok by (rewrite skipn_length; lia). cbn [cbind].
    rewrite (small_add_ok _ _ _ (length raw)) by lia. reflexivity.
  - rewrite ck_grow_ok by lia. cbn [cbind].
    rewrite (small_add_ok _ _ _ (length raw)) by lia. reflexivity.
Qed.

Lemma c_resp_loop_chunked f st cs raw total :
  s_phase st = SChunkedBody cs -> total <= length raw -> cwf cs ->
  (N.of_nat (length raw) <= ISIZE_MAX)%N ->
  (N.of_nat (length (c_buffer cs)) + N.of_nat (length raw) <= ISIZE_MAX)%N ->
  c_resp_loop (S f) st raw total = COk (rshift total (resp_chunked st cs (skipn total raw))).
Proof.
  intros Hph Ht Hwf Hraw Hfit. rewrite c_resp_loop_step.
  rewrite ck_from_ok by exact Ht. cbn [cbind].
  unfold c_resp_step. rewrite Hph. unfold c_resp_chunked, resp_chunked.
  pose proof (skipn_length total raw) as Hl.
  rewrite c_chunk_decode_ok by (try exact Hwf; lia). cbn [cbind].
  pose proof (chunk_decode_consumed cs (skipn total raw)) as Hc.
  destruct (chunk_decode cs (skipn total raw)) as [cs' [c|c|e]]; cbn [cbind].
  - specialize (Hc cs' c Hwf (or_introl eq_refl)).
    rewrite (small_add_ok _ _ _ (length raw)) by lia. reflexivity.
  - specialize (Hc cs' c Hwf (or_intror eq_refl)).
    rewrite (small_add_ok _ _ _ (length raw)) by lia. reflexivity.
  - reflexivity.
Qed.

(* the state that accompanies a rejection is never used (Response::parse leaves the value in
   an unspecified state on error); answers are compared up to it *)
Definition cok_roeq (x : chk (resp_state * outcome)) (r : resp_state * outcome) : Prop :=
  exists r', x = COk r' /\ roeq r' r.

Lemma cok_refl r : cok_roeq (COk r) r.
Proof. exists r. split; [reflexivity|apply roeq_refl]. Qed.

Lemma resp_chunked_phase st st' cs b :
  s_code st = s_code st' -> s_reason st = s_reason st' -> s_headers st = s_headers st' ->
  s_body st = s_body st' -> s_trailer st = s_trailer st' ->
  roeq (resp_chunked st cs b) (resp_chunked st' cs b).
Proof.
  intros E1 E2 E3 E4 E5. unfold resp_chunked. rewrite E1, E2, E3, E4, E5.
  destruct (chunk_decode cs b) as [cs' [c|c|e]]; simpl; reflexivity.
Qed.

Lemma c_resp_loop_headers f st raw total :
  s_phase st = SHeaders -> total <= length raw -> s_body st = [] ->
  (N.of_nat (length raw) <= ISIZE_MAX)%N ->
  (N.of_nat (length (s_trailer st)) + N.of_nat (length raw) <= ISIZE_MAX)%N ->
  cok_roeq (c_resp_loop (S (S f)) st raw total) (rshift total (resp_headers st (skipn total raw))).
Proof.
  intros Hph Ht Hb Hraw Htr. rewrite c_resp_loop_step.
  rewrite ck_from_ok by exact Ht. cbn [cbind].
  unfold c_resp_step. rewrite Hph. unfold c_resp_headers, resp_headers.
  set (rem := skipn total raw).
  assert (Hl : length rem = length raw - total) by (subst rem; apply skipn_length).
  pose proof (hdr_parse_bound None (s_headers st) rem) as Hc.
  destruct (hdr_parse None (s_headers st) rem) as [hs c|hs c|e]; cbn [cbind].
  - destruct (header_value hs CONTENT_LENGTH) as [v|].
    + destruct (parse_dec v) as [n|]; cbn [cbind]; [|apply cok_refl].
      rewrite Hb. rewrite ck_grow_ok by (cbn [length]; lia). cbn [cbind].
      rewrite (small_add_ok _ _ _ (length raw)) by lia. cbn [cbind].
      rewrite (c_resp_loop_fixed f _ n raw (total + c)); cbn [s_phase s_body s_trailer length];
        try reflexivity; try lia.
      * rewrite rshift_rshift. subst rem. rewrite skipn_skipn'. rewrite (Nat.add_comm c total).
        unfold resp_fixed. cbn [s_phase s_code s_reason s_headers s_body s_trailer]. apply cok_refl.
      * unfold resp_fits. cbn [s_phase s_body s_trailer length]. repeat split; lia.
    + destruct (has_header_token hs TRANSFER_ENCODING CHUNKED); cbn [cbind].
      * rewrite (small_add_ok _ _ _ (length raw)) by lia. cbn [cbind].
        rewrite (c_resp_loop_chunked f _ chunk_init raw (total + c)); cbn [s_phase c_buffer chunk_init length];
          try reflexivity; try lia; try exact cwf_init.
        rewrite rshift_rshift. subst rem. rewrite skipn_skipn'. rewrite (Nat.add_comm c total).
        eexists. split; [reflexivity|]. apply roeq_rshift. apply resp_chunked_phase; reflexivity.
      * rewrite (small_add_ok _ _ _ (length raw)) by lia. apply cok_refl.
  - rewrite (small_add_ok _ _ _ (length raw)) by lia. apply cok_refl.
  - apply cok_refl.
Qed.

Lemma c_resp_loop_line f st raw total :
  s_phase st = SStatusLine -> total <= length raw -> s_body st = [] ->
  (N.of_nat (length raw) <= ISIZE_MAX)%N ->
  (N.of_nat (length (s_trailer st)) + N.of_nat (length raw) <= ISIZE_MAX)%N ->
  cok_roeq (c_resp_loop (S (S (S f))) st raw total) (rshift total (resp_line st (skipn total raw))).
Proof.
  intros Hph Ht Hb Hraw Htr. rewrite c_resp_loop_step.
  rewrite ck_from_ok by exact Ht. cbn [cbind].
  unfold c_resp_step. rewrite Hph. unfold c_resp_line, resp_line.
  set (rem := skipn total raw).
  assert (Hl : length rem = length raw - total) by (subst rem; apply skipn_length).
  destruct (find_crlf rem) as [e|] eqn:F.
  - pose proof (find_crlf_bound _ _ F) as B.
    rewrite ck_to_ok by lia. cbn [cbind].
    destruct (utf8_valid (firstn e rem)) eqn:V; cbn [negb cbind]; [|apply cok_refl].
    rewrite (small_add_ok _ _ _ (length raw)) by lia. cbn [cbind].
    rewrite c_parse_status_line_ok; [|exact V|rewrite firstn_length; lia]. cbn [cbind].
    destruct (parse_status_line (firstn e rem)) as [[code reason]|er]; cbn [cbind]; [|apply cok_refl].
    rewrite (small_add_ok _ _ _ (length raw)) by lia. cbn [cbind].
    assert (H : cok_roeq (c_resp_loop (S (S f))
                {| s_phase := SHeaders; s_code := code; s_reason := reason; s_headers := s_headers st;
                   s_body := s_body st; s_trailer := s_trailer st |} raw (total + (e + 2)))
              (rshift (total + (e + 2)) (resp_headers
                {| s_phase := SHeaders; s_code := code; s_reason := reason; s_headers := s_headers st;
                   s_body := s_body st; s_trailer := s_trailer st |} (skipn (total + (e + 2)) raw)))).
    { apply c_resp_loop_headers; cbn [s_phase s_body s_trailer]; try reflexivity; try lia; assumption. }
    destruct H as [r' [E R]].
    exists r'. split; [exact E|].
    rewrite rshift_rshift. subst rem. rewrite skipn_skipn'. rewrite (Nat.add_comm (e + 2) total). exact R.
  - cbn [cbind]. rewrite (small_add_ok _ _ _ (length raw)) by lia. cbn [cbind rshift].
    rewrite Nat.add_0_r. apply cok_refl.
Qed.

(* Response::parse in any state met while one message is being parsed: no operation fails, and
   the answer is the pure model's *)
Theorem c_resp_parse_ok st raw :
  resp_inv st -> resp_fits st raw ->
  cok_roeq (c_resp_parse st raw) (resp_parse st raw).
Proof.
  intros Hinv Hfit. pose proof Hfit as [Hf1 [Hf2 Hf3]]. unfold c_resp_parse, resp_parse.
  unfold resp_inv in Hinv.
  assert (Hraw : (N.of_nat (length raw) <= ISIZE_MAX)%N) by lia.
  destruct (s_phase st) as [| |n|cs] eqn:Hph.
  - destruct (c_resp_loop_line 0 st raw 0) as [r' [E R]]; try assumption; try lia.
    exists r'. split; [exact E|]. cbn [skipn] in R. rewrite rshift_0 in R. exact R.
  - destruct (c_resp_loop_headers 1 st raw 0) as [r' [E R]]; try assumption; try lia.
    exists r'. split; [exact E|]. cbn [skipn] in R. rewrite rshift_0 in R. exact R.
  - rewrite (c_resp_loop_fixed _ st n); try assumption; try lia. cbn [skipn]. rewrite rshift_0. apply cok_refl.
  - rewrite (c_resp_loop_chunked _ st cs); try assumption; try lia. cbn [skipn]. rewrite rshift_0. apply cok_refl.
Qed.

(* the invariant is kept for as long as the parser asks for more input *)
Theorem resp_inv_init : resp_inv resp_init.
Proof. reflexivity. Qed.

(* ------------------------------------------------------------------ coding.rs *)
Theorem c_zlib_check_value_ok cmf flg :
  (cmf < 256)%N -> (flg < 256)%N -> c_zlib_check_value cmf flg = COk ((cmf * 256 + flg) mod 31)%N.
Proof.
  intros Hc Hf. unfold c_zlib_check_value, U16_MAX.
  assert (H1 : N.leb (cmf * 256) 65535 = true) by (apply N.leb_le; lia).
  assert (H2 : N.leb (cmf * 256 + flg) 65535 = true) by (apply N.leb_le; lia).
  rewrite H1, H2. reflexivity.
Qed.

(* ------------------------------------------------------------------ reachable states *)
(* the states a parser is in when `parse` is called under the documented protocol: the fresh
   value, and whatever a call that asked for more input left behind *)
Section ReachReq.
  Variable uri : Type.
  Variable uri_parse : bytes -> option uri.

  Inductive req_reach (cfg : rcfg) : req_state uri -> Prop :=
  | req_reach_init : req_reach cfg req_init
  | req_reach_step st buf st' c :
      req_reach cfg st -> req_parse uri uri_parse cfg st buf = (st', Incomplete c) -> req_reach cfg st'.

  Lemma req_reach_inv cfg st : req_reach cfg st -> body_inv uri st.
  Proof.
    induction 1 as [|st buf st' c _ IH E].
    - reflexivity.
    - rewrite req_parse_eq in E.
      destruct (req_dispatch uri uri_parse cfg st buf) as [s [k|k|e]] eqn:D.
      + discriminate.
      + destruct (presented_ok _ _ _); [|discriminate]. inversion E; subst.
        pose proof (req_dispatch_inv uri uri_parse cfg st buf st' (Incomplete c) IH D) as H. cbv beta iota in H. apply H.
      + discriminate.
  Qed.

  Theorem c_req_parse_reachable cfg st raw :
    req_reach cfg st -> fits (length (r_body st)) raw ->
    c_req_parse uri uri_parse cfg st raw = COk (req_parse uri uri_parse cfg st raw).
  Proof. intros R. apply c_req_parse_ok. apply (req_reach_inv cfg). exact R. Qed.
End ReachReq.

Lemma resp_fixed_inv st n buf st' c :
  (N.of_nat (length (s_body st)) <= n)%N -> resp_fixed st n buf = (st', Incomplete c) -> resp_inv st'.
Proof.
  intros H. unfold resp_fixed. destruct (N.leb _ _) eqn:E; [discriminate|].
  intros X. inversion X; subst. unfold resp_inv. cbn [s_phase s_body].
  apply N.leb_gt in E. rewrite app_length. lia.
Qed.

Lemma resp_chunked_inv st cs buf st' c :
  cwf cs -> resp_chunked st cs buf = (st', Incomplete c) -> resp_inv st'.
Proof.
  intros Hwf. unfold resp_chunked.
  pose proof (chunk_decode_app cs buf [] Hwf) as A.
  destruct (chunk_decode cs buf) as [cs' [k|k|e]]; try discriminate.
  intros X. inversion X; subst. unfold resp_inv. cbn [s_phase]. tauto.
Qed.

Lemma rshift_incomplete k r st' c : rshift k r = (st', Incomplete c) -> exists c0, r = (st', Incomplete c0).
Proof. destruct r as [s [a|a|e]]; simpl; intros H; inversion H; subst. eexists. reflexivity. Qed.

Lemma resp_headers_inv st buf st' c :
  s_body st = [] -> resp_headers st buf = (st', Incomplete c) -> resp_inv st'.
Proof.
  intros Hb. unfold resp_headers.
  destruct (hdr_parse None (s_headers st) buf) as [hs k|hs k|e]; [| |discriminate].
  - destruct (header_value hs CONTENT_LENGTH) as [v|].
    + destruct (parse_dec v) as [n|]; [|discriminate].
      intros X. apply rshift_incomplete in X as [c0 X].
      eapply resp_fixed_inv; [|exact X]. cbn [s_body]. rewrite Hb. cbn [length]. lia.
    + destruct (has_header_token hs TRANSFER_ENCODING CHUNKED); [|discriminate].
      intros X. apply rshift_incomplete in X as [c0 X].
      eapply resp_chunked_inv; [exact cwf_init|exact X].
  - intros X. inversion X; subst. exact Hb.
Qed.

Theorem resp_inv_preserved st buf st' c :
  resp_inv st -> resp_parse st buf = (st', Incomplete c) -> resp_inv st'.
Proof.
  unfold resp_inv at 1, resp_parse. destruct (s_phase st) as [| |n|cs] eqn:Hph; intros Hinv.
  - unfold resp_line. destruct (find_crlf buf) as [e|].
    + destruct (negb _); [discriminate|].
      destruct (parse_status_line _) as [[code reason]|er]; [|discriminate].
      intros X. apply rshift_incomplete in X as [c0 X].
      eapply resp_headers_inv; [|exact X]. exact Hinv.
    + intros X. inversion X; subst. unfold resp_inv. rewrite Hph. exact Hinv.
  - apply resp_headers_inv. exact Hinv.
  - apply resp_fixed_inv. exact Hinv.
  - apply resp_chunked_inv. exact Hinv.
Qed.

Inductive resp_reach : resp_state -> Prop :=
| resp_reach_init : resp_reach resp_init
| resp_reach_step st buf st' c :
    resp_reach st -> resp_parse st buf = (st', Incomplete c) -> resp_reach st'.

Lemma resp_reach_inv st : resp_reach st -> resp_inv st.
Proof.
  induction 1 as [|st buf st' c _ IH E]; [reflexivity|]. eapply resp_inv_preserved; eassumption.
Qed.

Theorem c_resp_parse_reachable st raw :
  resp_reach st -> resp_fits st raw -> cok_roeq (c_resp_parse st raw) (resp_parse st raw).
Proof. intros R. apply c_resp_parse_ok. apply resp_reach_inv. exact R. Qed.

From Http Require Import Model.Coding.

Theorem c_split_at_ok c s :
  utf8_valid s = true -> (c < 128)%N -> (N.of_nat (length s) <= ISIZE_MAX)%N ->
  c_split_at c s = COk (split_at c s).
Proof.
  intros Hv Hc Hsz. unfold c_split_at, split_at.
  destruct (find_byte c s) as [d|] eqn:F; [|reflexivity].
  pose proof (find_byte_bound _ _ _ F) as B.
  destruct (ascii_delimiter_boundaries _ _ _ Hv Hc F) as [B1 B2].
  rewrite ck_str_to_ok by (try lia; exact B1). cbn [cbind].
  rewrite (small_add_ok _ _ _ (length s)) by (try lia; exact Hsz). cbn [cbind].
  replace (d + 1) with (S d) by lia.
  rewrite ck_str_from_ok by (try lia; exact B2). reflexivity.
Qed.

Theorem c_content_type_split_ok ct :
  utf8_valid ct = true -> (N.of_nat (length ct) <= ISIZE_MAX)%N ->
  c_content_type_split ct = COk (match find_byte SEMI ct with
                                 | Some d => (firstn d ct, skipn (S d) ct)
                                 | None => (ct, [])
                                 end).
Proof.
  intros Hv Hsz. unfold c_content_type_split.
  destruct (find_byte SEMI ct) as [d|] eqn:F; [|reflexivity].
  pose proof (find_byte_bound _ _ _ F) as B.
  destruct (ascii_delimiter_boundaries _ _ _ Hv semi_ascii F) as [B1 B2].
  rewrite ck_str_to_ok by (try lia; exact B1). cbn [cbind].
  rewrite (small_add_ok _ _ _ (length ct)) by (try lia; exact Hsz). cbn [cbind].
  replace (d + 1) with (S d) by lia.
  rewrite ck_str_from_ok by (try lia; exact B2). reflexivity.
Qed.
