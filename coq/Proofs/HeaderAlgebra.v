(* HeaderAlgebra.v -- equational facts about the header collection operations. *)
From Coq Require Import Lia.
From Http Require Import Model.Bytes Model.Headers.

Lemma bytes_eqb_eq a b : bytes_eqb a b = true <-> a = b.
Proof.
  revert b. induction a as [|x a IH]; intros [|y b]; simpl; split; intros H;
    try reflexivity; try discriminate.
  - apply andb_prop in H as [H1 H2]. apply N.eqb_eq in H1. apply IH in H2. subst. reflexivity.
  - inversion H; subst. rewrite N.eqb_refl. simpl. apply IH. reflexivity.
Qed.

Lemma bytes_eqb_refl a : bytes_eqb a a = true.
Proof. apply bytes_eqb_eq. reflexivity. Qed.

Lemma name_eq_iff a b : name_eq a b = true <-> lower a = lower b.
Proof. unfold name_eq, eq_ignore_case. apply bytes_eqb_eq. Qed.

Lemma name_eq_refl a : name_eq a a = true.
Proof. apply name_eq_iff. reflexivity. Qed.

Lemma name_eq_sym a b : name_eq a b = name_eq b a.
Proof.
  destruct (name_eq a b) eqn:E1, (name_eq b a) eqn:E2; try reflexivity.
  - apply name_eq_iff in E1. symmetry in E1. apply name_eq_iff in E1. congruence.
  - apply name_eq_iff in E2. symmetry in E2. apply name_eq_iff in E2. congruence.
Qed.

Lemma name_eq_trans a b c : name_eq a b = true -> name_eq b c = true -> name_eq a c = true.
Proof. rewrite !name_eq_iff. congruence. Qed.

(* if x matches m but m and n differ, x does not match n *)
Lemma name_eq_other x m n : name_eq m n = false -> name_eq x m = true -> name_eq x n = false.
Proof.
  intros H1 H2. destruct (name_eq x n) eqn:E; [|reflexivity].
  rewrite name_eq_sym in H2. rewrite (name_eq_trans m x n H2 E) in H1. discriminate.
Qed.

(* ---- header_multi_value ---- *)
Lemma hmv_app a b n : header_multi_value (a ++ b) n = header_multi_value a n ++ header_multi_value b n.
Proof. unfold header_multi_value. rewrite filter_app, map_app. reflexivity. Qed.

Lemma hmv_single h n : header_multi_value [h] n = if name_eq (fst h) n then [snd h] else [].
Proof. unfold header_multi_value. simpl. destruct (name_eq (fst h) n); reflexivity. Qed.

Lemma hmv_remove_same hs n : header_multi_value (remove_header hs n) n = [].
Proof.
  unfold header_multi_value, remove_header. induction hs as [|h hs IH]; [reflexivity|].
  simpl. destruct (name_eq (fst h) n) eqn:E; simpl; [exact IH|]. rewrite E. exact IH.
Qed.

Lemma hmv_remove_other hs n m :
  name_eq m n = false -> header_multi_value (remove_header hs n) m = header_multi_value hs m.
Proof.
  intros Hmn. unfold header_multi_value, remove_header. induction hs as [|h hs IH]; [reflexivity|].
  simpl. destruct (name_eq (fst h) n) eqn:E; simpl.
  - destruct (name_eq (fst h) m) eqn:E2.
    + rewrite (name_eq_other _ _ _ Hmn E2) in E. discriminate.
    + exact IH.
  - destruct (name_eq (fst h) m); simpl; rewrite IH; reflexivity.
Qed.

Lemma has_header_hmv hs n : has_header hs n = false <-> header_multi_value hs n = [].
Proof.
  unfold has_header, header_multi_value. induction hs as [|h hs IH]; simpl; [tauto|].
  destruct (name_eq (fst h) n); simpl; [split; discriminate|exact IH].
Qed.

Lemma hmv_set_same hs n v : header_multi_value (set_header hs n v) n = [v].
Proof.
  unfold set_header. destruct (has_header hs n) eqn:Hh.
  - induction hs as [|h hs IH]; [discriminate|].
    simpl in Hh. simpl. destruct (name_eq (fst h) n) eqn:E.
    + unfold header_multi_value. simpl. rewrite E. simpl. f_equal.
      apply hmv_remove_same.
    + simpl in Hh. unfold header_multi_value in *. simpl. rewrite E. apply IH. exact Hh.
  - rewrite hmv_app, hmv_single. simpl. rewrite name_eq_refl.
    apply has_header_hmv in Hh. rewrite Hh. reflexivity.
Qed.

Lemma hmv_set_other hs n v m :
  name_eq m n = false -> header_multi_value (set_header hs n v) m = header_multi_value hs m.
Proof.
  intros Hmn. unfold set_header. destruct (has_header hs n) eqn:Hh.
  - clear Hh. induction hs as [|h hs IH]; [reflexivity|].
    simpl. destruct (name_eq (fst h) n) eqn:E.
    + unfold header_multi_value at 1. simpl.
      destruct (name_eq (fst h) m) eqn:E2.
      * rewrite (name_eq_other _ _ _ Hmn E2) in E. discriminate.
      * fold (header_multi_value (remove_header hs n) m). rewrite hmv_remove_other by exact Hmn.
        unfold header_multi_value. simpl. rewrite E2. reflexivity.
    + unfold header_multi_value in *. simpl. destruct (name_eq (fst h) m); simpl; rewrite IH; reflexivity.
  - rewrite hmv_app, hmv_single. simpl. rewrite name_eq_sym, Hmn. apply app_nil_r.
Qed.

Lemma hmv_filter_none (p : header -> bool) hs n :
  (forall h, name_eq (fst h) n = true -> p h = false) ->
  header_multi_value (filter p hs) n = [].
Proof.
  intros Hp. unfold header_multi_value. induction hs as [|h hs IH]; [reflexivity|].
  simpl. destruct (p h) eqn:E; [|exact IH]. simpl.
  destruct (name_eq (fst h) n) eqn:E2; [rewrite (Hp h E2) in E; discriminate|exact IH].
Qed.

Lemma header_value_hmv hs n :
  header_value hs n = match header_multi_value hs n with [] => None | vs => Some (join [COMMA] vs) end.
Proof. reflexivity. Qed.

Lemma header_tokens_hmv hs n : header_tokens hs n = flat_map value_tokens (header_multi_value hs n).
Proof. reflexivity. Qed.

(* ---- the headers outside a set of names ---- *)
Definition outside (names : list bytes) (h : header) : bool :=
  negb (existsb (name_eq (fst h)) names).

Lemma outside_name_eq names h1 h2 :
  name_eq (fst h1) (fst h2) = true -> outside names h1 = outside names h2.
Proof.
  intros H. unfold outside. f_equal. induction names as [|n ns IH]; [reflexivity|].
  simpl. rewrite IH. f_equal.
  destruct (name_eq (fst h1) n) eqn:E1, (name_eq (fst h2) n) eqn:E2; try reflexivity.
  - rewrite name_eq_sym in H. rewrite (name_eq_trans _ _ _ H E1) in E2. discriminate.
  - rewrite (name_eq_trans _ _ _ H E2) in E1. discriminate.
Qed.

Lemma others_remove names hs n :
  existsb (name_eq n) names = true ->
  filter (outside names) (remove_header hs n) = filter (outside names) hs.
Proof.
  intros Hn. unfold remove_header. induction hs as [|h hs IH]; [reflexivity|].
  simpl. destruct (name_eq (fst h) n) eqn:E; simpl.
  - assert (Ho : outside names h = false).
    { rewrite (outside_name_eq names h (n, [])) by exact E. unfold outside. simpl. rewrite Hn. reflexivity. }
    rewrite Ho. exact IH.
  - destruct (outside names h); rewrite IH; reflexivity.
Qed.

Lemma others_set names hs n v :
  existsb (name_eq n) names = true ->
  filter (outside names) (set_header hs n v) = filter (outside names) hs.
Proof.
  intros Hn.
  assert (Hout : forall x, outside names (n, x) = false).
  { intros x. unfold outside. simpl. rewrite Hn. reflexivity. }
  unfold set_header. destruct (has_header hs n).
  - induction hs as [|h hs IH]; [reflexivity|].
    simpl. destruct (name_eq (fst h) n) eqn:E.
    + simpl. rewrite (outside_name_eq names (fst h, v) (n, v)) by exact E.
      rewrite (outside_name_eq names h (n, v)) by exact E. rewrite Hout.
      apply others_remove. exact Hn.
    + simpl. destruct (outside names h); rewrite IH; reflexivity.
  - rewrite filter_app. simpl. rewrite Hout. apply app_nil_r.
Qed.

Lemma others_add_inside names hs n v :
  existsb (name_eq n) names = true ->
  filter (outside names) (add_header hs (n, v)) = filter (outside names) hs.
Proof.
  intros Hn. unfold add_header. rewrite filter_app. simpl.
  unfold outside at 2. simpl. rewrite Hn. apply app_nil_r.
Qed.
