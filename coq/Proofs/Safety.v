(* Safety.v -- the side conditions under which the Rust code would panic are never met
   (C06, for the crate's own parsing code), and buffer growth / reservations are bounded by
   the bytes presented (C07). *)
From Coq Require Import Lia ZifyN ZifyNat.
From Http Require Import Model.Bytes Model.Utf8 Model.Num Model.Headers Model.Request
     Model.Chunked Model.Response Proofs.BytesLemmas Proofs.HeadersResume Proofs.ReqResume
     Proofs.ChunkResume Proofs.RespResume Proofs.Utf8Lemmas.

(* ---- slicing: every call consumes at most what it was given ---- *)
Section Req.
  Variable uri : Type.
  Variable uri_parse : bytes -> option uri.
  Notation D := (req_dispatch uri uri_parse).
  Notation P := (req_parse uri uri_parse).

  Lemma req_dispatch_consumed cfg st buf st1 c :
    D cfg st buf = (st1, Complete c) \/ D cfg st buf = (st1, Incomplete c) -> c <= length buf.
  Proof.
    pose proof (req_dispatch_spec uri uri_parse cfg st buf []) as H. unfold res_spec in H.
    intros [E|E]; rewrite E in H; tauto.
  Qed.

  Theorem req_parse_consumed cfg st buf st1 c :
    P cfg st buf = (st1, Complete c) \/ P cfg st buf = (st1, Incomplete c) -> c <= length buf.
  Proof.
    rewrite req_parse_eq. destruct (D cfg st buf) as [s [k|k|e]] eqn:E.
    - intros [H|H]; inversion H; subst. eapply req_dispatch_consumed. left. exact E.
    - destruct (presented_ok _ _ _); intros [H|H]; inversion H; subst.
      eapply req_dispatch_consumed. right. exact E.
    - intros [H|H]; discriminate.
  Qed.

  (* `content_length - self.body.len()` never underflows: in the body phase the body is
     never longer than the declared length *)
  Definition body_inv (st : req_state uri) : Prop :=
    match r_phase st with
    | PBody n => (N.of_nat (length (r_body st)) <= n)%N
    | _ => r_body st = []
    end.

  Lemma req_body_inv st n buf st1 o :
    r_phase st = PBody n -> body_inv st -> req_body uri st n buf = (st1, o) ->
    body_inv st1 /\ length (r_body st1) <= length (r_body st) + length buf.
  Proof.
    intros Hph Hinv. unfold body_inv in Hinv. rewrite Hph in Hinv.
    unfold req_body. cbv zeta.
    destruct (N.leb _ _) eqn:E; intros H; inversion H; subst; clear H;
      unfold body_inv; cbn [r_phase r_body]; rewrite Hph, app_length.
    - apply N.leb_le in E. rewrite firstn_length. split; lia.
    - apply N.leb_gt in E. split; lia.
  Qed.

  Lemma req_headers_inv cfg st buf st1 o :
    r_body st = [] -> req_headers uri cfg st buf = (st1, o) ->
    match o with Reject _ => True | _ => body_inv st1 /\ length (r_body st1) <= length buf end.
  Proof.
    intros Hb. unfold req_headers.
    destruct (hdr_parse (hl cfg) (r_headers st) (strip_cr buf)) as [hs c|hs c|e] eqn:HP.
    - destruct (count_bytes _ _ _) as [t|]; [|intros H; inversion H; exact I].
      destruct (header_value hs CONTENT_LENGTH) as [v|].
      + destruct (parse_dec v) as [n|]; [|intros H; inversion H; exact I].
        destruct (count_bytes cfg t n) as [t2|]; [|intros H; inversion H; exact I].
        set (st' := {| r_phase := PBody n; r_method := r_method st; r_target := r_target st;
                       r_headers := hs; r_body := r_body st; r_total := t2 |}).
        assert (Hinv' : body_inv st').
        { unfold body_inv, st'. cbn [r_phase r_body]. rewrite Hb. simpl. lia. }
        destruct (req_body uri st' n (skipn c buf)) as [sb [k|k|eb]] eqn:EB;
          cbn [shift]; intros H; inversion H; subst sb; clear H; try exact I;
          destruct (req_body_inv st' n _ _ _ eq_refl Hinv' EB) as [I1 I2];
          unfold st' in I2; cbn [r_body] in I2; rewrite Hb in I2; simpl in I2;
          rewrite skipn_length in I2; (split; [exact I1|lia]).
      + intros H; inversion H; subst. unfold body_inv. cbn [r_phase r_body]. rewrite Hb.
        split; [reflexivity|simpl; lia].
    - destruct (count_bytes _ _ _); intros H; inversion H; subst; [|exact I].
      unfold body_inv. cbn [r_phase r_body]. rewrite Hb. split; [reflexivity|simpl; lia].
    - intros H; inversion H; exact I.
  Qed.

  Theorem req_dispatch_inv cfg st buf st1 o :
    body_inv st -> D cfg st buf = (st1, o) ->
    match o with
    | Reject _ => True
    | _ => body_inv st1 /\ length (r_body st1) <= length (r_body st) + length buf
    end.
  Proof.
    intros Hinv. unfold req_dispatch. destruct (r_phase st) as [| |n] eqn:Hph.
    - assert (Hb : r_body st = []) by (unfold body_inv in Hinv; rewrite Hph in Hinv; exact Hinv).
      unfold req_line. destruct (find_crlf buf) as [e|] eqn:E.
      + destruct (over_limit e (rl cfg)); [intros H; inversion H; exact I|].
        destruct (negb _); [intros H; inversion H; exact I|].
        destruct (count_bytes _ _ _); [|intros H; inversion H; exact I].
        destruct (parse_request_line _ _ _) as [[m u]|er]; [|intros H; inversion H; exact I].
        match goal with |- shift _ _ ?R = _ -> _ => destruct R as [sh [k|k|eh]] eqn:EH end;
          cbn [shift]; intros H; inversion H; subst; clear H; try exact I;
          pose proof (fun pf => req_headers_inv _ _ _ _ _ pf EH) as HI; specialize (HI Hb); cbv beta iota in HI;
          rewrite skipn_length in HI; (split; [tauto|lia]).
      + destruct (over_limit _ _); intros H; inversion H; subst; [exact I|].
        split; [exact Hinv|lia].
    - assert (Hb : r_body st = []) by (unfold body_inv in Hinv; rewrite Hph in Hinv; exact Hinv).
      intros H. pose proof (req_headers_inv _ _ _ _ _ Hb H) as HI.
      destruct o; try exact I; (split; [tauto|lia]).
    - intros H. pose proof (req_body_inv _ _ _ _ _ Hph Hinv H) as HI. destruct o; try exact I; exact HI.
  Qed.

  (* Vec::reserve is asked for at most the number of bytes presented to the call (after F4),
     whatever the declared Content-Length *)
  Theorem req_reserve_bounded cfg st buf n :
    req_reserve uri cfg st buf = Some n -> (n <= N.of_nat (length buf))%N.
  Proof.
    unfold req_reserve.
    assert (Hin : forall (s : req_state uri) b m,
               match hdr_parse (hl cfg) (r_headers s) (strip_cr b) with
               | HComplete hs c =>
                 match header_value hs CONTENT_LENGTH with
                 | Some v => match parse_dec v with
                             | Some n0 => Some (N.min n0 (N.of_nat (length (strip_cr b))))
                             | None => None end
                 | None => None end
               | _ => None end = Some m -> (m <= N.of_nat (length b))%N).
    { intros s b m. pose proof (strip_cr_length b).
      destruct (hdr_parse _ _ _) as [hs c|?|?]; try discriminate.
      destruct (header_value hs CONTENT_LENGTH) as [v|]; [|discriminate].
      destruct (parse_dec v) as [n0|]; [|discriminate]. intros Hm. inversion Hm. lia. }
    destruct (r_phase st).
    - destruct (find_crlf buf) as [e|] eqn:E; [|discriminate].
      intros H. apply Hin in H. rewrite skipn_length in H. lia.
    - apply Hin.
    - discriminate.
  Qed.
End Req.

(* ---- chunk decoder ---- *)
Theorem chunk_decode_consumed st buf st1 c :
  cwf st ->
  chunk_decode st buf = (st1, Complete c) \/ chunk_decode st buf = (st1, Incomplete c) ->
  c <= length buf.
Proof.
  intros Hwf. pose proof (chunk_decode_app st buf [] Hwf) as H.
  intros [E|E]; rewrite E in H; tauto.
Qed.

Theorem chunk_reserves_bounded f st buf :
  Forall (fun n => (n <= N.of_nat (length buf))%N) (chunk_reserves f st buf).
Proof.
  revert st buf. induction f as [|f IH]; intros st buf; [constructor|].
  cbn [chunk_reserves]. destruct (chunk_step st buf) as [st' c|st' c|st' c|e]; try constructor.
  assert (Hsub : Forall (fun n => (n <= N.of_nat (length buf))%N) (chunk_reserves f st' (skipn c buf))).
  { eapply Forall_impl; [|apply IH]. intros a Ha. cbv beta in Ha. rewrite skipn_length in Ha. lia. }
  destruct (c_phase st); try exact Hsub.
  destruct (c_phase st'); constructor; try exact Hsub; lia.
Qed.

(* the decoded buffer grows only by bytes of the input *)
Lemma chunk_step_buffer st buf :
  match chunk_step st buf with
  | CPart st' c | CWhole st' c | CInc st' c =>
      exists k, k <= c /\ length (c_buffer st') = length (c_buffer st) + k
  | CErr _ => True
  end.
Proof.
  unfold chunk_step. destruct (c_phase st) as [|needed| |].
  - unfold decode_size. destruct (find_crlf buf) as [e|]; [|exists 0; simpl; lia].
    cbv zeta. destruct (negb _); [exact I|]. destruct (parse_chunk_size _); [|exact I].
    exists 0. simpl. lia.
  - unfold decode_data. cbv zeta.
    set (k := if N.leb needed (N.of_nat (length buf)) then N.to_nat needed else length buf).
    assert (Hk : k <= length buf).
    { subst k. destruct (N.leb needed (N.of_nat (length buf))) eqn:E; [apply N.leb_le in E; lia|lia]. }
    destruct (N.eqb _ 0); exists k; cbn [c_buffer]; rewrite app_length, firstn_length; lia.
  - unfold decode_terminator. destruct buf as [|a [|b t]].
    + exists 0. simpl. lia.
    + destruct (N.eqb a CR); [exists 0; simpl; lia|exact I].
    + destruct (_ && _)%bool; [exists 0; simpl; lia|exact I].
  - unfold decode_trailer. destruct (hdr_parse None (c_trailer st) buf); try exact I;
      exists 0; simpl; lia.
Qed.

(* ---- responses ---- *)
Theorem resp_parse_consumed st buf st1 c :
  rwf st ->
  resp_parse st buf = (st1, Complete c) \/ resp_parse st buf = (st1, Incomplete c) ->
  c <= length buf.
Proof.
  intros Hwf. pose proof (resp_parse_spec st buf [] Hwf) as H. unfold rspec in H.
  intros [E|E]; rewrite E in H; tauto.
Qed.

(* ---- str slicing: an index next to an ASCII byte of a valid UTF-8 string is a char
   boundary (Rust's is_char_boundary: 0, len, or a byte that is not 10xxxxxx) ---- *)
Definition char_boundary (s : bytes) (i : nat) : Prop :=
  i = 0 \/ i = length s \/ exists b, nth_error s i = Some b /\ is_cont b = false.

Lemma utf8_valid_after_ascii n : forall s i a b,
  length s <= n -> utf8_valid s = true ->
  nth_error s i = Some a -> (a < 128)%N -> nth_error s (S i) = Some b -> is_cont b = false.
Proof.
  induction n as [|n IH]; intros s i a b Hn Hv Ha Hlt Hb.
  - destruct s; [destruct i; discriminate|simpl in Hn; lia].
  - destruct s as [|b0 s]; [destruct i; discriminate|]. simpl in Hn.
    cbn [utf8_valid] in Hv.
    destruct (N.ltb b0 128) eqn:A.
    { destruct i as [|i].
      - (* the ASCII byte is b0; the next byte starts a new sequence or is ASCII *)
        simpl in Ha, Hb. destruct s as [|b1 s1]; [discriminate|]. simpl in Hb. inversion Hb; subst b1.
        cbn [utf8_valid] in Hv. unfold is_cont.
        destruct (N.ltb b 128) eqn:B; [btw; apply between_false; lia|].
        destruct (between 194 223 b) eqn:B2; [btw; apply between_false; lia|].
        destruct (between 224 239 b) eqn:B3; [btw; apply between_false; lia|].
        destruct (between 240 244 b) eqn:B4; [btw; apply between_false; lia|discriminate].
      - simpl in Ha, Hb. apply (IH s i a b); try assumption; lia. }
    destruct (between 194 223 b0) eqn:B2.
    { destruct s as [|b1 s1]; [discriminate|]. apply andb_prop in Hv as [C1 Hv].
      destruct i as [|[|i]].
      - simpl in Ha. inversion Ha; subst. btw. lia.
      - simpl in Ha. inversion Ha; subst. btw. lia.
      - simpl in Ha, Hb. simpl in Hn. apply (IH s1 i a b); try assumption; lia. }
    destruct (between 224 239 b0) eqn:B3.
    { destruct s as [|b1 [|b2 s2]]; try discriminate.
      apply andb_prop in Hv as [Hv Hv2]. apply andb_prop in Hv as [O1 C2].
      assert (Hb1 : (128 <= b1)%N).
      { destruct (N.eqb b0 224); [|destruct (N.eqb b0 237)]; btw; lia. }
      destruct i as [|[|[|i]]].
      - simpl in Ha. inversion Ha; subst. btw. lia.
      - simpl in Ha. inversion Ha; subst. lia.
      - simpl in Ha. inversion Ha; subst. btw. lia.
      - simpl in Ha, Hb. simpl in Hn. apply (IH s2 i a b); try assumption; lia. }
    destruct (between 240 244 b0) eqn:B4; [|discriminate].
    destruct s as [|b1 [|b2 [|b3 s3]]]; try discriminate.
    apply andb_prop in Hv as [Hv Hv3]. apply andb_prop in Hv as [Hv C3]. apply andb_prop in Hv as [O1 C2].
    assert (Hb1 : (128 <= b1)%N).
    { destruct (N.eqb b0 240); [|destruct (N.eqb b0 244)]; btw; lia. }
    destruct i as [|[|[|[|i]]]].
    + simpl in Ha. inversion Ha; subst. btw. lia.
    + simpl in Ha. inversion Ha; subst. lia.
    + simpl in Ha. inversion Ha; subst. btw. lia.
    + simpl in Ha. inversion Ha; subst. btw. lia.
    + simpl in Ha, Hb. simpl in Hn. apply (IH s3 i a b); try assumption; lia.
Qed.

Lemma find_byte_nth c s i : find_byte c s = Some i -> nth_error s i = Some c.
Proof.
  revert i. induction s as [|a s IH]; intros i Hf; [discriminate|].
  simpl in Hf. destruct (N.eqb a c) eqn:E.
  - inversion Hf; subst. apply N.eqb_eq in E. subst. reflexivity.
  - destruct (find_byte c s) as [j|] eqn:F; [|discriminate]. simpl in Hf. inversion Hf; subst.
    simpl. apply IH. reflexivity.
Qed.

(* the delimiter positions used for str slicing (find(' '), find(':'), find(';'), find('/'),
   find('=')) and the positions just after them are char boundaries *)
Theorem ascii_delimiter_boundaries s c i :
  utf8_valid s = true -> (c < 128)%N -> find_byte c s = Some i ->
  char_boundary s i /\ char_boundary s (S i).
Proof.
  intros Hv Hc Hf.
  pose proof (find_byte_nth _ _ _ Hf) as Hnth.
  split.
  - right. right. exists c. split; [exact Hnth|]. unfold is_cont. apply between_false. lia.
  - destruct (nth_error s (S i)) as [b|] eqn:Hb.
    + right. right. exists b. split; [exact Hb|].
      eapply (utf8_valid_after_ascii (length s) s i c b); eauto.
    + right. left. apply nth_error_None in Hb. pose proof (find_byte_bound _ _ _ Hf). lia.
Qed.
