(* C01Request.v -- instantiating the generic delivery theorem for Request::parse. *)
From Coq Require Import Lia String.
From Http Require Import Model.Bytes Model.Num Model.Headers Model.Request Spec.Delivery
     Proofs.BytesLemmas Proofs.HeadersResume Proofs.ReqResume Proofs.FeedGeneric.

Section WithUri.
  Variable uri : Type.
  Variable uri_parse : bytes -> option uri.
  Notation state := (req_state uri).
  Notation P := (req_parse uri uri_parse).

  (* two completed request parses are the same message: same parser value (method,
     target, header list, body, phase, byte count) and same number of bytes consumed *)
  Definition same_request (s1 : state) (t1 : nat) (s2 : state) (t2 : nat) : Prop :=
    s1 = s2 /\ t1 = t2.

  Lemma req_init_ok cfg : tot_ok uri cfg req_init.
  Proof.
    unfold tot_ok, presented_ok, sat_add. cbn [r_total req_init].
    destruct (mm cfg) as [m|]; [|reflexivity].
    apply negb_true_iff. apply N.ltb_ge. simpl. lia.
  Qed.

  Lemma req_resumable cfg :
    resumable state (P cfg) (tot_ok uri cfg) same_request.
  Proof.
    intros st a b Hinv.
    pose proof (req_parse_spec uri uri_parse cfg st a b Hinv) as HS.
    destruct (P cfg st a) as [st1 [c|c|e]] eqn:E.
    - destruct HS as [Hc HS]. split; [exact Hc|]. exists st1, c. split; [exact HS|split; reflexivity].
    - destruct HS as [Hc HS]. split; [exact Hc|]. split.
      + eapply req_parse_tot_ok. exact E.
      + exact HS.
    - exact HS.
  Qed.

  Theorem request_delivery_independent cfg ds :
    ds <> [] ->
    feq state same_request
        (feed state (P cfg) req_init [] ds 0)
        (feed state (P cfg) req_init [] [concat ds] 0).
  Proof.
    intros Hne.
    apply (feed_concat state (P cfg) (tot_ok uri cfg) same_request).
    - intros s c. split; reflexivity.
    - intros s1 c1 s2 c2 s3 c3 [-> ->] [-> ->]. split; reflexivity.
    - intros k s1 c1 s2 c2 [-> ->]. split; reflexivity.
    - apply req_resumable.
    - exact Hne.
    - apply req_init_ok.
  Qed.

  (* the same for a parser that has already been fed: any reachable state *)
  Theorem request_delivery_independent_from cfg st pending tot ds :
    tot_ok uri cfg st -> ds <> [] ->
    feq state same_request
        (feed state (P cfg) st pending ds tot)
        (feed state (P cfg) st pending [concat ds] tot).
  Proof.
    intros Hok Hne.
    apply (feed_concat state (P cfg) (tot_ok uri cfg) same_request); try assumption.
    - intros s c. split; reflexivity.
    - intros s1 c1 s2 c2 s3 c3 [-> ->] [-> ->]. split; reflexivity.
    - intros k s1 c1 s2 c2 [-> ->]. split; reflexivity.
    - apply req_resumable.
  Qed.
End WithUri.
