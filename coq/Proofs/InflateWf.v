(* InflateWf.v -- input states keep their shape: fewer than 8 pending bits of the current byte, and
   the pending bytes are a suffix of what was pending before (so byte values stay below 256 when the
   input's were).  Also: byte_bits is injective on bytes, so a bit view pins the bytes. *)
From Coq Require Import List NArith ZArith Arith Bool Lia ZifyBool ZifyN.
From Http Require Import Model.Bytes Model.Inflate Proofs.InflateLocal Proofs.HuffmanCanon.
Import ListNotations.

Definition bytes_ok (bs : bytes) : Prop := Forall (fun b => (b < 256)%N) bs.
Definition wf (s : istate) : Prop := length (fst s) < 8 /\ bytes_ok (snd s).

Definition wfp {A} (p : istate -> res A) : Prop :=
  forall s a s', p s = Ok a s' -> wf s -> wf s'.

Lemma wfp_ext {A} (p q : istate -> res A) : (forall s, p s = q s) -> wfp q -> wfp p.
Proof. intros E H s a s' Hp. rewrite E in Hp. exact (H _ _ _ Hp). Qed.

Lemma wfp_ret {A} (a : A) : wfp (ret a).
Proof. intros s a' s' H Hw. unfold ret in H. inversion H; subst. exact Hw. Qed.

Lemma wfp_bad {A} : wfp (fun _ => @Bad A).
Proof. intros s a s' H. discriminate. Qed.
Lemma wfp_eof {A} : wfp (fun _ => @Eof A).
Proof. intros s a s' H. discriminate. Qed.

Lemma wfp_bind {A B} (p : istate -> res A) (f : A -> istate -> res B) :
  wfp p -> (forall a, wfp (f a)) -> wfp (bind p f).
Proof.
  intros Hp Hf s b s' H Hw. unfold bind in H.
  destruct (p s) as [a s1| |] eqn:E; try discriminate.
  exact (Hf a _ _ _ H (Hp _ _ _ E Hw)).
Qed.

Lemma byte_bits_len b : length (byte_bits b) = 8.
Proof. reflexivity. Qed.

Lemma wfp_getbit : wfp getbit.
Proof.
  intros [cur rest] b s' H [Hl Hb]. cbn [fst snd] in *. destruct cur as [|c cur'].
  - destruct rest as [|byte rest']; [discriminate|]. cbn [getbit] in H.
    destruct (byte_bits_cons byte) as [x [l E]]. rewrite E in H. inversion H; subst.
    split; cbn [fst snd].
    + pose proof (byte_bits_len byte) as L. rewrite E in L. simpl in L. lia.
    + inversion Hb; assumption.
  - cbn [getbit] in H. inversion H; subst. split; cbn [fst snd]; [simpl in Hl; lia | exact Hb].
Qed.

Lemma wfp_getbits n : wfp (getbits n).
Proof.
  induction n as [|n IH].
  - exact (wfp_ret 0%N).
  - apply (wfp_ext _ _ (getbits_S n)). apply wfp_bind; [exact wfp_getbit|].
    intros b. apply wfp_bind; [exact IH|]. intros v. apply wfp_ret.
Qed.

Lemma wfp_dec_sym_loop counts syms : forall code first index, wfp (dec_sym_loop counts syms code first index).
Proof.
  induction counts as [|c cs IH]; intros code first index.
  - exact wfp_bad.
  - apply (wfp_ext _ _ (dec_sym_loop_cons c cs syms code first index)).
    unfold dec_step. apply wfp_bind; [exact wfp_getbit|]. intros b.
    destruct (_ && _)%bool.
    + destruct (nth_error syms _); [apply wfp_ret | apply wfp_bad].
    + apply IH.
Qed.
Lemma wfp_dec_sym t : wfp (dec_sym t).
Proof. apply wfp_dec_sym_loop. Qed.

Lemma wfp_codes f lit dist : forall out, wfp (codes f lit dist out).
Proof.
  induction f as [|f IH]; intros out.
  - exact wfp_eof.
  - apply (wfp_ext _ _ (codes_S f lit dist out)). unfold codes_body.
    apply wfp_bind; [apply wfp_dec_sym|]. intros sym.
    destruct (Nat.ltb sym 256); [apply IH|].
    destruct (Nat.eqb sym 256); [apply (wfp_ret out)|].
    destruct (Nat.ltb 285 sym); [apply wfp_bad|].
    apply wfp_bind; [apply wfp_getbits|]. intros e.
    apply wfp_bind; [apply wfp_dec_sym|]. intros dsym.
    destruct (Nat.ltb 29 dsym); [apply wfp_bad|].
    apply wfp_bind; [apply wfp_getbits|]. intros e2. apply IH.
Qed.

Lemma wfp_read_hufflens : forall n order acc, wfp (read_hufflens order n acc).
Proof.
  induction n as [|n IH]; intros order acc.
  - destruct order; exact (wfp_ret acc).
  - destruct order as [|o order]; [exact wfp_bad|].
    apply (wfp_ext _ _ (read_hufflens_S o order n acc)).
    apply wfp_bind; [apply wfp_getbits|]. intros v. apply IH.
Qed.

Lemma wfp_read_lens f hl total : forall acc, wfp (read_lens f hl total acc).
Proof.
  induction f as [|f IH]; intros acc.
  - exact wfp_eof.
  - apply (wfp_ext _ _ (read_lens_S f hl total acc)). unfold read_lens_body.
    destruct (Nat.ltb (length acc) total).
    + apply wfp_bind; [apply wfp_dec_sym|]. intros sym.
      destruct (Nat.ltb sym 16); [apply IH|].
      destruct (Nat.eqb sym 16).
      * destruct acc as [|prev acc']; [apply wfp_bad|].
        apply wfp_bind; [apply wfp_getbits|]. intros e. apply IH.
      * destruct (Nat.eqb sym 17); [apply wfp_bind; [apply wfp_getbits|]; intros e; apply IH|].
        destruct (Nat.eqb sym 18); [apply wfp_bind; [apply wfp_getbits|]; intros e; apply IH|].
        apply wfp_bad.
    + destruct (Nat.eqb (length acc) total); [apply wfp_ret | apply wfp_bad].
Qed.

Lemma wfp_dynamic_tables : wfp dynamic_tables.
Proof.
  apply (wfp_ext _ _ dynamic_tables_eq). unfold dyn_body.
  apply wfp_bind; [apply wfp_getbits|]. intros hlit.
  apply wfp_bind; [apply wfp_getbits|]. intros hdist.
  apply wfp_bind; [apply wfp_getbits|]. intros hclen. cbv zeta.
  destruct (_ || _)%bool; [apply wfp_bad|].
  apply wfp_bind; [apply wfp_read_hufflens|]. intros hlens.
  destruct (negb _); [apply wfp_bad|].
  apply wfp_bind; [apply wfp_read_lens|]. intros lens.
  destruct (negb _); [apply wfp_bad|].
  destruct (negb _); [apply wfp_bad|]. apply wfp_ret.
Qed.

(* ---- byte_bits is injective on bytes ---- *)
Lemma byte_bits_value b : (b < 256)%N ->
  b = fold_right (fun (x : bool) acc => (bit_val x + 2 * acc)%N) 0%N (byte_bits b).
Proof.
  intros H. unfold byte_bits. cbn [byte_bits_aux fold_right].
  assert (D : forall x, x = (bit_val (N.odd x) + 2 * N.div2 x)%N).
  { intros x. rewrite (N.div2_odd x) at 1. unfold bit_val, N.b2n. destruct (N.odd x); lia. }
  set (b1 := N.div2 b). set (b2 := N.div2 b1). set (b3 := N.div2 b2). set (b4 := N.div2 b3).
  set (b5 := N.div2 b4). set (b6 := N.div2 b5). set (b7 := N.div2 b6).
  pose proof (D b) as E0. pose proof (D b1) as E1. pose proof (D b2) as E2. pose proof (D b3) as E3.
  pose proof (D b4) as E4. pose proof (D b5) as E5. pose proof (D b6) as E6. pose proof (D b7) as E7.
  fold b1 in E0. fold b2 in E1. fold b3 in E2. fold b4 in E3. fold b5 in E4. fold b6 in E5. fold b7 in E6.
  assert (N.div2 b7 = 0)%N.
  { assert (Hb : forall x, (bit_val (N.odd x) <= 1)%N) by (intros x; unfold bit_val; destruct (N.odd x); lia).
    pose proof (Hb b). pose proof (Hb b1). pose proof (Hb b2). pose proof (Hb b3). pose proof (Hb b4).
    pose proof (Hb b5). pose proof (Hb b6). pose proof (Hb b7). lia. }
  lia.
Qed.

Lemma byte_bits_inj a b : (a < 256)%N -> (b < 256)%N -> byte_bits a = byte_bits b -> a = b.
Proof. intros Ha Hb E. rewrite (byte_bits_value a Ha), (byte_bits_value b Hb), E. reflexivity. Qed.

(* a bit view that starts with the bits of the bytes y pins those bytes *)
Lemma bytes_of_bits : forall (y x : bytes) (z : list bool),
    flat_map byte_bits x = flat_map byte_bits y ++ z ->
    bytes_ok x -> bytes_ok y ->
    exists r, x = y ++ r /\ flat_map byte_bits r = z.
Proof.
  induction y as [|b y IH]; intros x z H Hx Hy.
  - exists x. split; [reflexivity | exact H].
  - inversion Hy as [|? ? Hb Hy']; subst. destruct x as [|a x'].
    + cbn [flat_map app] in H. destruct (byte_bits_cons b) as [q [l E]]. rewrite E in H. discriminate.
    + inversion Hx as [|? ? Ha Hx']; subst. cbn [flat_map] in H. rewrite <- app_assoc in H.
      assert (E1 : byte_bits a = byte_bits b /\ flat_map byte_bits x' = flat_map byte_bits y ++ z).
      { apply app_inj_pivot_len || idtac.
        assert (L : length (byte_bits a) = length (byte_bits b)) by reflexivity.
        revert H L. generalize (byte_bits a) (byte_bits b) (flat_map byte_bits x') (flat_map byte_bits y ++ z).
        induction l as [|p l IHl]; intros l0 l1 l2 H L; destruct l0 as [|q l0]; simpl in L; try lia.
        - simpl in H. split; [reflexivity | exact H].
        - simpl in H. inversion H; subst. destruct (IHl l0 l1 l2 H2 ltac:(lia)) as [E3 E4]. split; [f_equal; exact E3 | exact E4]. }
      destruct E1 as [E1 E2]. apply (byte_bits_inj a b Ha Hb) in E1. subst a.
      destruct (IH x' z E2 Hx' Hy') as [r [Er Ez]]. exists r. split; [rewrite Er; reflexivity | exact Ez].
Qed.

Lemma app_same_length {A} : forall (l p a b : list A),
    l ++ a = p ++ b -> length l = length p -> l = p /\ a = b.
Proof.
  induction l as [|x l IH]; intros p a b H E; destruct p as [|y p]; simpl in E; try lia.
  - split; [reflexivity | exact H].
  - simpl in H. inversion H; subst. destruct (IH p a b H2 ltac:(lia)) as [E1 E2]. split; [f_equal; exact E1 | exact E2].
Qed.

Lemma flat_bits_length (e : bytes) : length (flat_map byte_bits e) = 8 * length e.
Proof. induction e as [|x e IH]; [reflexivity|]. cbn [flat_map]. rewrite app_length, IH, byte_bits_len. simpl. lia. Qed.

(* a well-formed state whose bit view starts with fewer than 8 bits followed by whole bytes:
   those bits are exactly the rest of the current byte *)
Lemma state_of_bits s pad (bs : bytes) :
  wf s -> length pad < 8 -> bits_of s = pad ++ flat_map byte_bits bs ->
  fst s = pad /\ flat_map byte_bits (snd s) = flat_map byte_bits bs.
Proof.
  intros [Hl Hb] Hp H. unfold bits_of in H.
  pose proof (f_equal (@length bool) H) as HL. rewrite !app_length, !flat_bits_length in HL.
  apply app_same_length in H; [exact H | lia].
Qed.
