#!/usr/bin/env python3
"""fuzz_inflate.py [n] [seed] -- differential soak of the Coq model of flate2/miniz_oxide (Model/Inflate.v)
against the real library (harness `oracle`, which calls flate2 directly).  Not part of any verdict: it is
how the dependency model is validated.  Streams: encoder output at every level, bit flips, byte
substitutions, truncations, junk appended, hand-assembled raw DEFLATE blocks with random (complete,
incomplete, over-subscribed) code-length sets, bad stored lengths, distances before the start of output,
gzip members with every optional header field.  Prints the number of decodes and of disagreements."""
import os, random, sys, zlib, gzip, struct
sys.path.insert(0, os.path.dirname(os.path.abspath(__file__)))
import vlib

HX = lambda b: b.hex() if b else "."


class BitW:
    def __init__(self):
        self.bits = []

    def put(self, v, n):           # LSB first
        for i in range(n):
            self.bits.append((v >> i) & 1)

    def code(self, v, n):          # Huffman code, MSB first
        for i in reversed(range(n)):
            self.bits.append((v >> i) & 1)

    def bytes(self, pad=0):
        b = self.bits + [pad] * ((-len(self.bits)) % 8)
        return bytes(sum(b[i + j] << j for j in range(8)) for i in range(0, len(b), 8))


def canon(lens):
    cnt = [0] * 16
    for l in lens:
        cnt[l] += 1
    cnt[0] = 0
    nxt, code = [0] * 17, 0
    for b in range(1, 16):
        code = (code + cnt[b - 1]) << 1
        nxt[b] = code
    out = {}
    for s, l in enumerate(lens):
        if l:
            out[s] = (nxt[l], l)
            nxt[l] += 1
    return out


def rand_lens(rng, n, maxlen, style):
    """code lengths for n symbols: complete, incomplete, over-subscribed, single, empty"""
    if style == "empty":
        return [0] * n
    if style == "single":
        l = [0] * n
        l[rng.randrange(n)] = rng.choice([1, 1, 1, 2])
        return l
    # start from a complete code by splitting leaves
    leaves = [1, 1]
    k = rng.randrange(2, max(3, min(n, 40)))
    while len(leaves) < k:
        i = rng.randrange(len(leaves))
        if leaves[i] >= maxlen:
            if all(x >= maxlen for x in leaves):
                break
            continue
        leaves[i] += 1
        leaves.append(leaves[i])
    if style == "incomplete" and len(leaves) > 1:
        leaves.pop(rng.randrange(len(leaves)))
    if style == "over":
        leaves.append(rng.choice(leaves))
    l = [0] * n
    pos = rng.sample(range(n), min(n, len(leaves)))
    for p, v in zip(pos, leaves):
        l[p] = v
    return l


def dyn_block(rng, w, final):
    style = rng.choice(["complete"] * 6 + ["incomplete", "over", "single", "empty"])
    dstyle = rng.choice(["complete"] * 5 + ["incomplete", "over", "single", "single", "empty"])
    hlit = rng.choice([257, 257, 258, 270, 286, 286, rng.randrange(257, 289)])
    hdist = rng.choice([1, 1, 2, 5, 30, rng.randrange(1, 33)])
    ll = rand_lens(rng, hlit, 15, style)
    if rng.random() < 0.85 and style != "empty":
        if ll[256] == 0:                      # make sure end-of-block is codable, mostly
            nz = [i for i, x in enumerate(ll) if x]
            if nz:
                j = rng.choice(nz)
                ll[256], ll[j] = ll[j], 0
    dl = rand_lens(rng, hdist, 15, dstyle)
    seq = ll + dl
    # code-length alphabet: run-length encode, with random choices
    syms = []
    i = 0
    while i < len(seq):
        v = seq[i]
        run = 1
        while i + run < len(seq) and seq[i + run] == v:
            run += 1
        if v == 0 and run >= 3 and rng.random() < 0.8:
            r = min(run, 138)
            if r >= 11 and rng.random() < 0.8:
                syms.append((18, r - 11, 7))
            else:
                r = min(r, 10)
                syms.append((17, r - 3, 3))
            i += r
        elif run >= 4 and rng.random() < 0.7:
            syms.append((v, 0, 0))
            r = min(run - 1, 6)
            syms.append((16, r - 3, 2))
            i += 1 + r
        else:
            syms.append((v, 0, 0))
            i += 1
    if rng.random() < 0.05:
        syms.insert(0, (16, rng.randrange(4), 2))        # repeat with nothing before
    if rng.random() < 0.05:
        syms.append((18, rng.randrange(128), 7))         # run past the end
    used = sorted(set(s for s, _, _ in syms))
    cstyle = rng.choice(["complete"] * 8 + ["incomplete", "over"])
    # lengths for the code-length code: complete over the used symbols
    cl = [0] * 19
    leaves = [1, 1] if len(used) > 1 else [1]
    while len(leaves) < len(used):
        i = rng.randrange(len(leaves))
        if leaves[i] >= 7:
            continue
        leaves[i] += 1
        leaves.append(leaves[i])
    if len(used) == 1:
        leaves = [1]
        # a lone 1-bit code is incomplete: the code-length code must be complete, so add a dummy
        extra = [s for s in range(19) if s not in used]
        if rng.random() < 0.8:
            used = used + [rng.choice(extra)]
            leaves = [1, 1]
    for s, l in zip(used, leaves):
        cl[s] = l
    if cstyle == "incomplete":
        nz = [s for s in range(19) if cl[s] and s not in [x for x, _, _ in syms]]
        if nz:
            cl[nz[0]] = 0
    if cstyle == "over":
        z = [s for s in range(19) if not cl[s]]
        if z:
            cl[rng.choice(z)] = 1
    order = [16, 17, 18, 0, 8, 7, 9, 6, 10, 5, 11, 4, 12, 3, 13, 2, 14, 1, 15]
    hclen = 19
    while hclen > 4 and cl[order[hclen - 1]] == 0:
        hclen -= 1
    if rng.random() < 0.3:
        hclen = rng.randrange(hclen, 20)
    w.put(1 if final else 0, 1)
    w.put(2, 2)
    w.put(hlit - 257, 5)
    w.put(hdist - 1, 5)
    w.put(hclen - 4, 4)
    for k in range(hclen):
        w.put(cl[order[k]], 3)
    cc = canon(cl)
    for s, e, n in syms:
        if s not in cc:
            return
        w.code(*cc[s])
        if n:
            w.put(e, n)
    emit_symbols(rng, w, canon(ll), canon(dl))


LB = [3, 4, 5, 6, 7, 8, 9, 10, 11, 13, 15, 17, 19, 23, 27, 31, 35, 43, 51, 59, 67, 83, 99, 115, 131, 163, 195, 227, 258]
LE = [0, 0, 0, 0, 0, 0, 0, 0, 1, 1, 1, 1, 2, 2, 2, 2, 3, 3, 3, 3, 4, 4, 4, 4, 5, 5, 5, 5, 0]
DE = [0, 0, 0, 0, 1, 1, 2, 2, 3, 3, 4, 4, 5, 5, 6, 6, 7, 7, 8, 8, 9, 9, 10, 10, 11, 11, 12, 12, 13, 13]


def emit_symbols(rng, w, lc, dc):
    lits = [s for s in lc if s < 256]
    lens = [s for s in lc if s > 256]
    for _ in range(rng.choice([0, 1, 3, 10, 40])):
        r = rng.random()
        if r < 0.6 and lits:
            w.code(*lc[rng.choice(lits)])
        elif lens and dc:
            s = rng.choice(lens)
            w.code(*lc[s])
            if 257 <= s <= 285 and LE[s - 257]:
                w.put(rng.randrange(1 << LE[s - 257]), LE[s - 257])
            d = rng.choice(list(dc))
            w.code(*dc[d])
            if d < 30 and DE[d]:
                w.put(rng.randrange(1 << DE[d]), DE[d])
        elif lens:
            w.code(*lc[rng.choice(lens)])
    if 256 in lc and rng.random() < 0.9:
        w.code(*lc[256])


def fixed_block(rng, w, final):
    w.put(1 if final else 0, 1)
    w.put(1, 2)
    ll = [8] * 144 + [9] * 112 + [7] * 24 + [8] * 8
    emit_symbols(rng, w, canon(ll), canon([5] * 32))


def stored_block(rng, w, final):
    w.put(1 if final else 0, 1)
    w.put(0, 2)
    while len(w.bits) % 8:
        w.bits.append(rng.randrange(2))
    n = rng.choice([0, 0, 1, 5, 300])
    nl = (~n) & 0xFFFF
    if rng.random() < 0.1:
        nl ^= 1 << rng.randrange(16)
    w.put(n, 16)
    w.put(nl, 16)
    for _ in range(n if rng.random() < 0.9 else n // 2):
        w.put(rng.randrange(256), 8)


def crafted(rng):
    w = BitW()
    nb = rng.choice([1, 1, 2, 3])
    for i in range(nb):
        t = rng.choice([stored_block, fixed_block, dyn_block, dyn_block, dyn_block])
        t(rng, w, i == nb - 1 and rng.random() < 0.95)
    if rng.random() < 0.05:
        w.put(rng.randrange(2), 1)
        w.put(3, 2)
    return w.bytes(rng.randrange(2)) + bytes(rng.randrange(256) for _ in range(rng.choice([0, 0, 2, 9])))


def payload(rng):
    k = rng.randrange(7)
    if k == 0:
        return b""
    if k == 1:
        return bytes(rng.randrange(256) for _ in range(rng.choice([1, 2, 17, 300, 3000])))
    if k == 2:
        return bytes(rng.choice(b"ab") for _ in range(rng.choice([5, 100, 5000])))
    if k == 3:
        return b"\x00" * rng.choice([1, 258, 259, 70000])
    if k == 4:
        w = [bytes(rng.choice(b"etaoin shrdlu") for _ in range(rng.randrange(2, 9))) for _ in range(30)]
        return b" ".join(rng.choice(w) for _ in range(rng.choice([10, 200, 2000])))
    if k == 5:
        return bytes(range(256)) * rng.choice([1, 3, 40])
    return bytes(rng.choice(b"0123456789") for _ in range(rng.randrange(1, 40))) * rng.choice([1, 50, 900])


def encode(rng, fmt, d):
    lvl = rng.randrange(10)
    strat = rng.choice([zlib.Z_DEFAULT_STRATEGY, zlib.Z_FILTERED, zlib.Z_HUFFMAN_ONLY, zlib.Z_RLE, zlib.Z_FIXED])
    if fmt == "inflate":
        c = zlib.compressobj(lvl, zlib.DEFLATED, -rng.choice([9, 12, 15]), rng.choice([1, 8, 9]), strat)
        out = c.compress(d)
        if rng.random() < 0.3 and len(d) > 4:
            out = c.compress(d[:len(d) // 2]) + c.flush(rng.choice([zlib.Z_SYNC_FLUSH, zlib.Z_FULL_FLUSH])) + c.compress(d[len(d) // 2:])
        return out + c.flush()
    if fmt == "zlib":
        c = zlib.compressobj(lvl, zlib.DEFLATED, rng.choice([9, 12, 15]), rng.choice([1, 8, 9]), strat)
        return c.compress(d) + c.flush()
    # gzip: hand-built header with optional fields
    flg = rng.choice([0, 0, 0, rng.randrange(32), rng.randrange(256)])
    h = bytearray([0x1f, 0x8b, 8, flg]) + struct.pack("<I", rng.choice([0, 1700000000])) + bytes([rng.choice([0, 2, 4]), rng.choice([3, 255])])
    if flg & 4:
        x = bytes(rng.randrange(256) for _ in range(rng.choice([0, 1, 6, 300])))
        h += struct.pack("<H", len(x)) + x
    if flg & 8:
        h += bytes(rng.randrange(1, 256) for _ in range(rng.choice([0, 5, 40]))) + b"\0"
    if flg & 16:
        h += bytes(rng.randrange(1, 256) for _ in range(rng.choice([0, 7]))) + b"\0"
    if flg & 2:
        crc = zlib.crc32(bytes(h)) & 0xFFFF
        if rng.random() < 0.1:
            crc ^= 1 << rng.randrange(16)
        h += struct.pack("<H", crc)
    c = zlib.compressobj(lvl, zlib.DEFLATED, -15, 8, strat)
    body = c.compress(d) + c.flush()
    return bytes(h) + body + struct.pack("<II", zlib.crc32(d) & 0xFFFFFFFF, len(d) & 0xFFFFFFFF)


def mutate(rng, e):
    e = bytearray(e)
    k = rng.randrange(8)
    if k == 0 or not e:
        return bytes(e)
    if k == 1:
        return bytes(e[:rng.randrange(len(e))])
    if k == 2:
        i = rng.randrange(len(e))
        e[i] ^= 1 << rng.randrange(8)
    elif k == 3:
        for _ in range(rng.randrange(1, 4)):
            e[rng.randrange(len(e))] = rng.randrange(256)
    elif k == 4:
        i = rng.randrange(min(len(e), 24))
        e[i] ^= 1 << rng.randrange(8)
    elif k == 5:
        e += bytes(rng.randrange(256) for _ in range(rng.randrange(1, 12)))
    elif k == 6:
        i = rng.randrange(len(e))
        del e[i:i + rng.randrange(1, 4)]
    else:
        i = max(0, len(e) - rng.randrange(1, 10))
        e[i] ^= 1 << rng.randrange(8)
    return bytes(e)


def main():
    n = int(sys.argv[1]) if len(sys.argv) > 1 else 20000
    seed = int(sys.argv[2]) if len(sys.argv) > 2 else 1
    rng = random.Random(seed)
    cases, kinds = [], {}
    for i in range(n):
        fmt = rng.choice(["inflate", "inflate", "zlib", "gunzip"])
        r = rng.random()
        if r < 0.35:
            raw = crafted(rng)
            if fmt == "zlib":
                raw = bytes([0x78, 0x9c]) + raw + struct.pack(">I", rng.randrange(1 << 32))
            elif fmt == "gunzip":
                raw = bytes([0x1f, 0x8b, 8, 0, 0, 0, 0, 0, 0, 3]) + raw + bytes(8)
            e = raw
            kinds[str(i)] = "crafted-" + fmt
        elif r < 0.40:
            e = bytes(rng.randrange(256) for _ in range(rng.randrange(0, 40)))
            kinds[str(i)] = "junk-" + fmt
        else:
            kinds[str(i)] = "encoder+mutation-" + fmt
            e = mutate(rng, encode(rng, fmt, payload(rng)))
        cases.append((str(i), "inf", [fmt, HX(e)]))
    ok, msg = vlib.build_driver()
    assert ok, msg
    work = os.path.join(vlib.ROOT, "work", f"fuzz-inflate-{seed}")
    _, model = vlib.run_sides(work, cases, sides=("model",))
    gaps, okc, errc, per = [], 0, 0, {}
    for cid, (canon, diag) in model.items():
        st = per.setdefault(kinds[cid], [0, 0])
        st[0 if canon.startswith("agree:some") else 1] += 1
        if canon.startswith("gap"):
            gaps.append((cid, canon))
        elif canon.startswith("agree:some"):
            okc += 1
        else:
            errc += 1
    print(f"fuzz_inflate seed={seed}: {len(model)} decodes, accepted {okc}, rejected {errc}, disagreements {len(gaps)}")
    print("  accepted/rejected per generator:", ", ".join(f"{k} {a}/{r}" for k, (a, r) in sorted(per.items())))
    for cid, c in gaps[:10]:
        print("  GAP", cases[int(cid)][2][0], cases[int(cid)][2][1][:400], c[:200])
    return 1 if gaps else 0


if __name__ == "__main__":
    sys.exit(main())
