(* Request.v -- model of rhymuweb::Request::{new, parse, generate} (src/request.rs). *)
From Coq Require Import String.
From Http Require Import Model.Bytes Model.Utf8 Model.Num Model.Headers.

(* error categories = variants of rhymuweb::Error (refined by rhymessage::Error) *)
Inductive err :=
| EHeaders (e : herr)
| ETrailer (e : herr)
| EChunkSizeLineNotValidText
| EInvalidChunkSize
| EInvalidChunkTerminator
| EInvalidContentLength
| EInvalidStatusCode
| EMessageTooLong
| ERequestLineNoMethodDelimiter
| ERequestLineNoMethodOrExtraWhitespace
| ERequestLineNoTargetDelimiter
| ERequestLineNoTargetOrExtraWhitespace
| ERequestLineNotValidText
| ERequestLineProtocol
| ERequestLineTooLong
| ERequestTargetUriInvalid
| EStatusCodeOutOfRange
| EStatusLineNoProtocolDelimiter
| EStatusLineNoStatusCodeDelimiter
| EStatusLineNotValidText
| EStatusLineProtocol.

Inductive outcome :=
| Complete (consumed : nat)
| Incomplete (consumed : nat)
| Reject (e : err).

Definition HTTP11 : bytes := str "HTTP/1.1"%string.
Definition CONTENT_LENGTH : bytes := str "Content-Length"%string.
Definition TRANSFER_ENCODING : bytes := str "Transfer-Encoding"%string.
Definition TRAILER : bytes := str "Trailer"%string.
Definition CHUNKED : bytes := str "chunked"%string.

Record rcfg := { rl : option N; hl : option N; mm : option N }.

Definition default_cfg : rcfg :=
  {| rl := Some 1000%N; hl := Some 1000%N; mm := Some 10000000%N |}.

Inductive rphase := PRequestLine | PHeaders | PBody (n : N).

Section WithUri.
  (* rhymuri as an oracle: Uri::parse, Display *)
  Variable uri : Type.
  Variable uri_parse : bytes -> option uri.
  Variable uri_show : uri -> bytes.

  Record req_state := {
    r_phase : rphase;
    r_method : bytes;
    r_target : option uri;          (* None = Uri::default() of a fresh value *)
    r_headers : list header;
    r_body : bytes;
    r_total : N                     (* total_bytes *)
  }.

  Definition req_init : req_state :=
    {| r_phase := PRequestLine; r_method := str "GET"%string; r_target := None;
       r_headers := []; r_body := []; r_total := 0%N |}.

  (* parse_request_line *)
  Definition parse_request_line (line : bytes) : (bytes * uri) + err :=
    match find_byte SP line with
    | None => inr ERequestLineNoMethodDelimiter
    | Some md =>
      match md with
      | O => inr ERequestLineNoMethodOrExtraWhitespace
      | _ =>
        let meth := firstn md line in
        let at_target := skipn (S md) line in
        match find_byte SP at_target with
        | None => inr ERequestLineNoTargetDelimiter
        | Some td =>
          match td with
          | O => inr ERequestLineNoTargetOrExtraWhitespace
          | _ =>
            match uri_parse (firstn td at_target) with
            | None => inr ERequestTargetUriInvalid
            | Some u =>
              if bytes_eqb (skipn (S td) at_target) HTTP11 then inl (meth, u)
              else inr ERequestLineProtocol
            end
          end
        end
      end
    end.

  (* count_bytes after F3: saturating add, then compare with the maximum *)
  Definition sat_add (a b : N) : N := N.min (a + b) USIZE_MAX.

  Definition count_bytes (cfg : rcfg) (total : N) (n : N) : option N :=
    let t := sat_add total n in
    match mm cfg with
    | Some m => if N.ltb m t then None else Some t
    | None => Some t
    end.

  (* check_bytes_presented (F9): presented-but-unconsumed bytes count too *)
  Definition presented_ok (cfg : rcfg) (total : N) (unconsumed : nat) : bool :=
    match mm cfg with
    | Some m => negb (N.ltb m (sat_add total (N.of_nat unconsumed)))
    | None => true
    end.

  (* unterminated line: one trailing CR is not counted / not presented (F1, F2) *)
  Fixpoint strip_cr (s : bytes) : bytes :=
    match s with
    | [] => []
    | b :: t =>
      match t with
      | [] => if N.eqb b CR then [] else [b]
      | _ => b :: strip_cr t
      end
    end.

  Definition set_phase (st : req_state) (p : rphase) : req_state :=
    {| r_phase := p; r_method := r_method st; r_target := r_target st;
       r_headers := r_headers st; r_body := r_body st; r_total := r_total st |}.

  (* internal result of one phase function: new state, CompleteWhole/Incomplete/Reject
     with consumed counted from the start of [buf] *)

  (* parse_message_for_body *)
  Definition req_body (st : req_state) (n : N) (buf : bytes) : req_state * outcome :=
    let needed_n := (n - N.of_nat (length (r_body st)))%N in
    if N.leb needed_n (N.of_nat (length buf)) then
      let needed := N.to_nat needed_n in
      ({| r_phase := r_phase st; r_method := r_method st; r_target := r_target st;
          r_headers := r_headers st; r_body := r_body st ++ firstn needed buf;
          r_total := r_total st |}, Complete needed)
    else
      ({| r_phase := r_phase st; r_method := r_method st; r_target := r_target st;
          r_headers := r_headers st; r_body := r_body st ++ buf;
          r_total := r_total st |}, Incomplete (length buf)).

  Definition shift (k : nat) (r : req_state * outcome) : req_state * outcome :=
    match r with
    | (st, Complete c) => (st, Complete (k + c))
    | (st, Incomplete c) => (st, Incomplete (k + c))
    | (st, Reject e) => (st, Reject e)
    end.

  (* parse_message_for_headers, followed by the body phase when it completes *)
  Definition req_headers (cfg : rcfg) (st : req_state) (buf : bytes)
    : req_state * outcome :=
    match hdr_parse (hl cfg) (r_headers st) (strip_cr buf) with
    | HError e => (st, Reject (EHeaders e))
    | HIncomplete hs c =>
      match count_bytes cfg (r_total st) (N.of_nat c) with
      | None => (st, Reject EMessageTooLong)
      | Some t =>
        ({| r_phase := PHeaders; r_method := r_method st; r_target := r_target st;
            r_headers := hs; r_body := r_body st; r_total := t |}, Incomplete c)
      end
    | HComplete hs c =>
      match count_bytes cfg (r_total st) (N.of_nat c) with
      | None => (st, Reject EMessageTooLong)
      | Some t =>
        match header_value hs CONTENT_LENGTH with
        | None =>
          ({| r_phase := PHeaders; r_method := r_method st; r_target := r_target st;
              r_headers := hs; r_body := r_body st; r_total := t |}, Complete c)
        | Some v =>
          match parse_dec v with
          | None => (st, Reject EInvalidContentLength)
          | Some n =>
            match count_bytes cfg t n with
            | None => (st, Reject EMessageTooLong)
            | Some t2 =>
              shift c
                (req_body
                   {| r_phase := PBody n; r_method := r_method st;
                      r_target := r_target st; r_headers := hs;
                      r_body := r_body st; r_total := t2 |}
                   n (skipn c buf))
            end
          end
        end
      end
    end.

  (* parse_message_for_request_line, followed by the header phase *)
  Definition req_line (cfg : rcfg) (st : req_state) (buf : bytes)
    : req_state * outcome :=
    match find_crlf buf with
    | Some e =>
      if over_limit e (rl cfg) then (st, Reject ERequestLineTooLong) else
      let line := firstn e buf in
      if negb (utf8_valid line) then (st, Reject ERequestLineNotValidText) else
      match count_bytes cfg (r_total st) (N.of_nat (e + 2)) with
      | None => (st, Reject EMessageTooLong)
      | Some t =>
        match parse_request_line line with
        | inr er => (st, Reject er)
        | inl (meth, u) =>
          shift (e + 2)
            (req_headers cfg
               {| r_phase := PHeaders; r_method := meth; r_target := Some u;
                  r_headers := r_headers st; r_body := r_body st; r_total := t |}
               (skipn (e + 2) buf))
        end
      end
    | None =>
      if over_limit (length (strip_cr buf)) (rl cfg)
      then (st, Reject ERequestLineTooLong)
      else (st, Incomplete 0)
    end.

  Definition req_dispatch (cfg : rcfg) (st : req_state) (buf : bytes)
    : req_state * outcome :=
    match r_phase st with
    | PRequestLine => req_line cfg st buf
    | PHeaders => req_headers cfg st buf
    | PBody n => req_body st n buf
    end.

  (* Request::parse: one call.  After F9 an Incomplete answer is given only while
     the bytes presented for the message are within max_message_size. *)
  Definition req_parse (cfg : rcfg) (st : req_state) (buf : bytes)
    : req_state * outcome :=
    match req_dispatch cfg st buf with
    | (st', Incomplete c) =>
      if presented_ok cfg (r_total st') (length buf - c)
      then (st', Incomplete c) else (st, Reject EMessageTooLong)
    | r => r
    end.

  (* Vec::reserve request made by this call (F4): at most the bytes presented to
     the header phase.  [None] = no reservation. *)
  Definition req_reserve (cfg : rcfg) (st : req_state) (buf : bytes) : option N :=
    let in_headers (st : req_state) (b : bytes) :=
      match hdr_parse (hl cfg) (r_headers st) (strip_cr b) with
      | HComplete hs c =>
        match header_value hs CONTENT_LENGTH with
        | Some v =>
          match parse_dec v with
          | Some n => Some (N.min n (N.of_nat (length (strip_cr b))))
          | None => None
          end
        | None => None
        end
      | _ => None
      end in
    match r_phase st with
    | PRequestLine =>
      match find_crlf buf with
      | Some e => in_headers st (skipn (e + 2) buf)
      | None => None
      end
    | PHeaders => in_headers st buf
    | PBody _ => None
    end.

  (* Request::generate; None = header lines would need folding (not modelled) *)
  Definition req_generate (cfg : rcfg) (meth : bytes) (target : bytes)
             (hs : list header) (body : bytes) : option bytes :=
    match hdr_generate (hl cfg) hs with
    | Some h => Some (meth ++ [SP] ++ target ++ [SP] ++ HTTP11 ++ CRLF ++ h ++ body)
    | None => None
    end.

  (* Request::generate in full: header lines folded by rhymessage where they exceed the limit *)
  Definition req_generate_full (cfg : rcfg) (meth : bytes) (target : bytes)
             (hs : list header) (body : bytes) : gen_result :=
    match hdr_generate_full (hl cfg) hs with
    | GOk h => GOk (meth ++ [SP] ++ target ++ [SP] ++ HTTP11 ++ CRLF ++ h ++ body)
    | r => r
    end.

End WithUri.

Arguments r_phase {uri}. Arguments r_method {uri}. Arguments r_target {uri}.
Arguments r_headers {uri}. Arguments r_body {uri}. Arguments r_total {uri}.
Arguments req_init {uri}.
