(* InflateTop.v -- consequences of locality for the three stream decoders over bytes:
   what follows a stream does not influence its decoding, truncated streams are refused,
   success pins the stored checksum to the returned content. *)
From Coq Require Import List NArith Arith Bool Lia.
From Http Require Import Model.Bytes Model.Inflate Proofs.InflateLocal.
Import ListNotations.

Lemma sprefix_length c' c : sprefix c' c -> length c' < length c.
Proof.
  intros [t [Ht E]]. subst c. rewrite app_length. destruct t; [contradiction|]. simpl. lia.
Qed.

Lemma sprefix_of_length c y t : t <> [] -> sprefix c (c ++ t ++ y).
Proof. intros Ht. exists (t ++ y). split; [|reflexivity]. destruct t; [contradiction|discriminate]. Qed.

(* ---------------------------------------------------------------- raw DEFLATE *)

Lemma inflate_fuel_local f b out cur rest :
  inflate_fuel f b = Ok out (cur, rest) ->
  cur = [] /\ exists c, b = c ++ rest /\
    (forall y, inflate_fuel f (c ++ y) = Ok out ([], y)) /\
    (forall c', sprefix c' c -> inflate_fuel f c' = Eof).
Proof.
  unfold inflate_fuel. intros H.
  destruct (blocks f [] ([], b)) as [o [cur1 rest1]| |] eqn:E; try discriminate.
  inversion H; subst. clear H.
  pose proof (blocks_aligned _ _ _ _ _ _ E) as Hc. subst cur. split; [reflexivity|].
  destruct (local_blocks f [] _ _ _ _ _ E) as [c [R [X T]]].
  exists c. split; [exact R|]. split.
  - intros y. rewrite X. reflexivity.
  - intros c' Hc. rewrite (T _ Hc). reflexivity.
Qed.

Lemma inflate_fuel_mono f f' b out s :
  f <= f' -> inflate_fuel f b = Ok out s -> inflate_fuel f' b = Ok out s.
Proof.
  unfold inflate_fuel. intros Hf H.
  destruct (blocks f [] ([], b)) as [o s1| |] eqn:E; try discriminate.
  rewrite (blocks_mono_le _ _ _ Hf _ _ _ E). exact H.
Qed.

Lemma fuel_for_le p b : length p <= length b -> fuel_for p <= fuel_for b.
Proof. unfold fuel_for. lia. Qed.

(* a complete raw stream with nothing behind it: every strict truncation is refused *)
Theorem inflate_raw_truncated b out :
  inflate_fuel (fuel_for b) b = Ok out ([], []) ->
  forall p, sprefix p b -> inflate_raw_model p = None.
Proof.
  intros H p Hp. destruct (inflate_fuel_local _ _ _ _ _ H) as [_ [c [R [_ T]]]].
  rewrite app_nil_r in R. subst c.
  unfold inflate_raw_model. destruct (inflate_fuel (fuel_for p) p) as [o s| |] eqn:E; try reflexivity.
  exfalso. apply (inflate_fuel_mono _ (fuel_for b)) in E.
  - rewrite (T _ Hp) in E. discriminate.
  - apply fuel_for_le. apply sprefix_length in Hp. lia.
Qed.

(* what follows the stream is not looked at *)
Theorem inflate_raw_ignores_tail f b out rest :
  inflate_fuel f b = Ok out ([], rest) ->
  exists c, b = c ++ rest /\ forall y, inflate_fuel f (c ++ y) = Ok out ([], y).
Proof.
  intros H. destruct (inflate_fuel_local _ _ _ _ _ H) as [_ [c [R [X _]]]]. exists c. split; assumption.
Qed.

(* ---------------------------------------------------------------- zlib *)

Lemma has_prefix_len_split n r : has_prefix_len n r = true -> r = firstn n r ++ skipn n r /\ length (firstn n r) = n.
Proof.
  unfold has_prefix_len. intros H. apply Nat.leb_le in H. split.
  - symmetry. apply firstn_skipn.
  - apply firstn_length_le. exact H.
Qed.

(* shape of a successful zlib decode: header, raw stream, 4 check bytes = Adler-32 of the output *)
Theorem zlib_success_shape f b out cur rest :
  inflate_zlib_fuel f b = Ok out (cur, rest) ->
  cur = [] /\
  exists cmf flg c a4,
    b = cmf :: flg :: c ++ a4 ++ rest /\ zlib_header_ok cmf flg = true /\
    length a4 = 4 /\ be32 a4 = adler32 out /\
    (forall y, inflate_fuel f (c ++ y) = Ok out ([], y)) /\
    (forall c', sprefix c' c -> inflate_fuel f c' = Eof).
Proof.
  unfold inflate_zlib_fuel. intros H.
  destruct b as [|cmf [|flg body]]; try discriminate.
  destruct (zlib_header_ok cmf flg) eqn:Hh; try discriminate.
  destruct (inflate_fuel f body) as [o [cur1 rest1]| |] eqn:E; try discriminate.
  destruct (has_prefix_len 4 rest1) eqn:H4; try discriminate.
  destruct (N.eqb (be32 (firstn 4 rest1)) (adler32 o)) eqn:Ha; try discriminate.
  inversion H; subst. clear H.
  destruct (inflate_fuel_local _ _ _ _ _ E) as [Hc [c [R [X T]]]]. subst cur. split; [reflexivity|].
  destruct (has_prefix_len_split _ _ H4) as [S4 L4].
  exists cmf, flg, c, (firstn 4 rest1). split; [change (cmf :: flg :: body = cmf :: flg :: c ++ firstn 4 rest1 ++ skipn 4 rest1); rewrite <- S4, R; reflexivity|].
  split; [exact Hh|]. split; [exact L4|]. split; [apply N.eqb_eq; exact Ha|]. split; assumption.
Qed.

Lemma firstn_app_exact {A} (a b : list A) n : length a = n -> firstn n (a ++ b) = a.
Proof. intros H. subst n. rewrite firstn_app, Nat.sub_diag, firstn_all. simpl. apply app_nil_r. Qed.

Lemma skipn_app_exact {A} (a b : list A) n : length a = n -> skipn n (a ++ b) = b.
Proof. intros H. subst n. rewrite skipn_app, Nat.sub_diag, skipn_all. reflexivity. Qed.

(* altering the stored Adler-32 (only) makes the decode fail, whatever follows *)
Theorem zlib_altered_check_fails f b out cur rest :
  inflate_zlib_fuel f b = Ok out (cur, rest) ->
  exists pre a4, b = pre ++ a4 ++ rest /\ length a4 = 4 /\
    forall a4' y, length a4' = 4 -> be32 a4' <> be32 a4 -> inflate_zlib_fuel f (pre ++ a4' ++ y) = Bad.
Proof.
  intros H. destruct (zlib_success_shape _ _ _ _ _ H) as [_ [cmf [flg [c [a4 [Eb [Hh [L4 [Ha [X _]]]]]]]]]].
  exists (cmf :: flg :: c), a4. split; [rewrite Eb; reflexivity|].
  split; [exact L4|]. intros a4' y L4' Hne.
  cbn [app inflate_zlib_fuel]. rewrite Hh. rewrite X.
  assert (Hp : has_prefix_len 4 (a4' ++ y) = true).
  { unfold has_prefix_len. apply Nat.leb_le. rewrite app_length. lia. }
  rewrite Hp. rewrite (firstn_app_exact _ _ _ L4').
  destruct (N.eqb (be32 a4') (adler32 out)) eqn:E; [|reflexivity].
  apply N.eqb_eq in E. exfalso. apply Hne. rewrite E, Ha. reflexivity.
Qed.

Lemma inflate_zlib_fuel_mono f f' b out s :
  f <= f' -> inflate_zlib_fuel f b = Ok out s -> inflate_zlib_fuel f' b = Ok out s.
Proof.
  unfold inflate_zlib_fuel. intros Hf H.
  destruct b as [|cmf [|flg body]]; try discriminate.
  destruct (zlib_header_ok cmf flg); try discriminate.
  destruct (inflate_fuel f body) as [o [cur1 rest1]| |] eqn:E; try discriminate.
  rewrite (inflate_fuel_mono _ _ _ _ _ Hf E). exact H.
Qed.

Lemma sprefix_cons_inv (x : N) p b : sprefix p (x :: b) -> p = [] \/ exists p', p = x :: p' /\ sprefix p' b.
Proof.
  intros [t [Ht E]]. destruct p as [|z p'].
  - left. reflexivity.
  - right. inversion E; subst. exists p'. split; [reflexivity|]. exists t. split; [assumption|reflexivity].
Qed.

(* same fuel: every strict truncation of a complete zlib stream ends in Eof *)
Lemma zlib_truncated_eof f b out :
  inflate_zlib_fuel f b = Ok out ([], []) -> forall p, sprefix p b -> inflate_zlib_fuel f p = Eof.
Proof.
  intros H p Hp.
  destruct (zlib_success_shape _ _ _ _ _ H) as [_ [cmf [flg [c [a4 [Eb [Hh [L4 [Ha [X T]]]]]]]]]].
  rewrite app_nil_r in Eb. subst b.
  destruct (sprefix_cons_inv _ _ _ Hp) as [E | [p1 [E Hp1]]]; [subst p; reflexivity|].
  subst p. destruct (sprefix_cons_inv _ _ _ Hp1) as [E | [p2 [E Hp2]]]; [subst p1; reflexivity|].
  subst p1. simpl. rewrite Hh.
  destruct (sprefix_app_inv _ _ _ Hp2) as [Hc | [a' [E Ha']]].
  - rewrite (T _ Hc). reflexivity.
  - subst p2. rewrite X.
    assert (Hl : has_prefix_len 4 a' = false).
    { unfold has_prefix_len. apply Nat.leb_gt. apply sprefix_length in Ha'. lia. }
    rewrite Hl. reflexivity.
Qed.

Theorem inflate_zlib_truncated b out :
  inflate_zlib_fuel (fuel_for b) b = Ok out ([], []) ->
  forall p, sprefix p b -> inflate_zlib_model p = None.
Proof.
  intros H p Hp. unfold inflate_zlib_model.
  destruct (inflate_zlib_fuel (fuel_for p) p) as [o s| |] eqn:E; try reflexivity.
  exfalso. apply (inflate_zlib_fuel_mono _ (fuel_for b)) in E.
  - rewrite (zlib_truncated_eof _ _ _ H _ Hp) in E. discriminate.
  - apply fuel_for_le. apply sprefix_length in Hp. lia.
Qed.

(* ---------------------------------------------------------------- gzip header *)

Definition blocal (p : bytes -> res unit) : Prop :=
  forall b u cur r, p b = Ok u (cur, r) ->
    cur = [] /\ exists h, b = h ++ r /\
      (forall y, p (h ++ y) = Ok tt ([], y)) /\
      (forall h', sprefix h' h -> p h' = Eof).

Lemma blocal_hok : blocal hok.
Proof.
  intros b u cur r H. unfold hok in H. inversion H; subst. split; [reflexivity|].
  exists []. split; [reflexivity|]. split; [reflexivity|].
  intros h' Hh. exfalso. exact (sprefix_nil_r _ Hh).
Qed.

Lemma skip_to_nul_nil n : skip_to_nul n [] = Eof.
Proof. destruct n; reflexivity. Qed.

Lemma skip_to_nul_cons n x t :
  skip_to_nul n (x :: t) = if N.eqb x 0 then hok t else match n with 0 => Bad | S n' => skip_to_nul n' t end.
Proof. destruct n; reflexivity. Qed.

Lemma blocal_skip_to_nul : forall n, blocal (skip_to_nul n).
Proof.
  intros n b. revert n. induction b as [|x t IH]; intros n u cur r H.
  - rewrite skip_to_nul_nil in H. discriminate.
  - rewrite skip_to_nul_cons in H. destruct (N.eqb x 0) eqn:Ex.
    + unfold hok in H. inversion H; subst. split; [reflexivity|].
      exists [x]. split; [reflexivity|]. split.
      * intros y. cbn [app]. rewrite skip_to_nul_cons, Ex. reflexivity.
      * intros h' Hh. destruct (sprefix_cons_inv _ _ _ Hh) as [E | [p' [_ Hp']]].
        { subst h'. apply skip_to_nul_nil. }
        exfalso. exact (sprefix_nil_r _ Hp').
    + destruct n as [|n']; [discriminate|].
      destruct (IH _ _ _ _ H) as [Hc [h [R [X T]]]]. split; [exact Hc|].
      exists (x :: h). split; [rewrite R; reflexivity|]. split.
      * intros y. cbn [app]. rewrite skip_to_nul_cons, Ex. apply X.
      * intros h' Hh. destruct (sprefix_cons_inv _ _ _ Hh) as [E | [p' [E Hp']]].
        { subst h'. apply skip_to_nul_nil. }
        subst h'. rewrite skip_to_nul_cons, Ex. apply T. exact Hp'.
Qed.

Lemma has_prefix_len_app n (h y : bytes) : length h = n -> has_prefix_len n (h ++ y) = true.
Proof. intros H. unfold has_prefix_len. apply Nat.leb_le. rewrite app_length. lia. Qed.

Lemma has_prefix_len_short n (h : bytes) : length h < n -> has_prefix_len n h = false.
Proof. intros H. unfold has_prefix_len. apply Nat.leb_gt. exact H. Qed.

Lemma blocal_gz_extra flags : blocal (gz_extra flags).
Proof.
  unfold gz_extra. destruct (flag_set flags FEXTRA); [|apply blocal_hok].
  intros b u cur r H.
  destruct (has_prefix_len 2 b) eqn:H2; cbn [negb] in H; [|discriminate].
  destruct (has_prefix_len_split _ _ H2) as [S2 L2].
  remember (firstn 2 b) as f2 eqn:Ef2. remember (skipn 2 b) as b2 eqn:Eb2.
  set (xl := N.to_nat (le16 f2)) in *.
  destruct (has_prefix_len xl b2) eqn:Hx; cbn [negb] in H; [|discriminate].
  destruct (has_prefix_len_split _ _ Hx) as [Sx Lx].
  remember (firstn xl b2) as ex eqn:Eex. remember (skipn xl b2) as r' eqn:Er'.
  unfold hok in H. inversion H; subst cur r. clear H. split; [reflexivity|].
  exists (f2 ++ ex). split; [rewrite <- app_assoc, <- Sx; exact S2|]. split.
  - intros y. rewrite <- app_assoc.
    rewrite (has_prefix_len_app 2 _ _ L2). cbn [negb].
    rewrite (firstn_app_exact _ _ _ L2), (skipn_app_exact _ _ _ L2). fold xl.
    rewrite (has_prefix_len_app xl _ _ Lx). cbn [negb].
    rewrite (skipn_app_exact _ _ _ Lx). reflexivity.
  - intros h' Hh. destruct (sprefix_app_inv _ _ _ Hh) as [Hs1 | [h2 [E H2']]].
    + rewrite (has_prefix_len_short 2 h'); [reflexivity|]. apply sprefix_length in Hs1. lia.
    + subst h'. rewrite (has_prefix_len_app 2 _ _ L2). cbn [negb].
      rewrite (firstn_app_exact _ _ _ L2), (skipn_app_exact _ _ _ L2). fold xl.
      rewrite (has_prefix_len_short xl h2); [reflexivity|]. apply sprefix_length in H2'. lia.
Qed.

Lemma blocal_gz_string flags bit : blocal (gz_string flags bit).
Proof. unfold gz_string. destruct (flag_set flags bit); [apply blocal_skip_to_nul | apply blocal_hok]. Qed.

Lemma firstn_consumed {A} (p q : list A) : firstn (length (p ++ q) - length q) (p ++ q) = p.
Proof. rewrite app_length. replace (length p + length q - length q) with (length p) by lia. apply firstn_app_exact. reflexivity. Qed.

Definition magic_ok (b : bytes) : bool :=
  (N.eqb (nth 0 b 0%N) 31 && N.eqb (nth 1 b 0%N) 139 && N.eqb (nth 2 b 0%N) 8 && N.ltb (nth 3 b 0%N) 32)%bool.

Lemma nth_firstn_app (b10 t : bytes) i : i < length b10 -> nth i (b10 ++ t) 0%N = nth i b10 0%N.
Proof. intros H. apply app_nth1. exact H. Qed.

(* the member header is a prefix h of the input; decoding it does not depend on what follows,
   and every strict prefix of h is refused as incomplete *)
Lemma gzip_header_local : blocal gzip_header.
Proof.
  intros b u cur body H. unfold gzip_header in H.
  destruct (has_prefix_len 10 b) eqn:H10; cbn [negb] in H; [|discriminate].
  destruct (has_prefix_len_split _ _ H10) as [S10 L10].
  set (flags := nth 3 b 0%N) in *.
  destruct (N.eqb (nth 0 b 0%N) 31 && N.eqb (nth 1 b 0%N) 139 && N.eqb (nth 2 b 0%N) 8 && N.ltb flags 32)%bool eqn:Hm;
    cbn [negb] in H; [|discriminate].
  destruct (gz_extra flags (skipn 10 b)) as [u1 [c1 r1]| |] eqn:E1; try discriminate.
  destruct (gz_string flags FNAME r1) as [u2 [c2 r2]| |] eqn:E2; try discriminate.
  destruct (gz_string flags FCOMMENT r2) as [u3 [c3 r3]| |] eqn:E3; try discriminate.
  destruct (blocal_gz_extra flags _ _ _ _ E1) as [_ [h1 [R1 [X1 T1]]]].
  destruct (blocal_gz_string flags FNAME _ _ _ _ E2) as [_ [h2 [R2 [X2 T2]]]].
  destruct (blocal_gz_string flags FCOMMENT _ _ _ _ E3) as [_ [h3 [R3 [X3 T3]]]].
  set (b10 := firstn 10 b) in *.
  assert (Eb : b = (b10 ++ h1 ++ h2 ++ h3) ++ r3).
  { rewrite S10, R1, R2, R3. repeat rewrite <- app_assoc. reflexivity. }
  (* facts about the first ten bytes that survive any change of what follows them *)
  assert (Hn : forall t i, i < 10 -> nth i (b10 ++ t) 0%N = nth i b 0%N).
  { intros t i Hi. rewrite nth_firstn_app by lia.
    transitivity (nth i (b10 ++ skipn 10 b) 0%N); [rewrite nth_firstn_app by lia; reflexivity|].
    rewrite <- S10. reflexivity. }
  assert (Hhead : forall t, gzip_header (b10 ++ t)
                            = match gz_extra flags t with
                              | Ok _ (_, r1) =>
                                match gz_string flags FNAME r1 with
                                | Ok _ (_, r2) =>
                                  match gz_string flags FCOMMENT r2 with
                                  | Ok _ (_, r3) => gz_hcrc flags (b10 ++ t) r3
                                  | Eof => Eof | Bad => Bad end
                                | Eof => Eof | Bad => Bad end
                              | Eof => Eof | Bad => Bad end).
  { intros t. unfold gzip_header. rewrite (has_prefix_len_app 10 _ _ L10). cbn [negb].
    rewrite !Hn by lia. fold flags. rewrite Hm. cbn [negb].
    rewrite (skipn_app_exact _ _ _ L10). reflexivity. }
  unfold gz_hcrc in H. destruct (flag_set flags FHCRC) eqn:Hf.
  - destruct (has_prefix_len 2 r3) eqn:Hc2; cbn [negb] in H; [|discriminate].
    destruct (N.eqb (le16 (firstn 2 r3)) (crc32 (firstn (length b - length r3) b) mod 65536)) eqn:Hcrc; [|discriminate].
    destruct (has_prefix_len_split _ _ Hc2) as [Sc Lc].
    remember (firstn 2 r3) as cc eqn:Ecc. remember (skipn 2 r3) as r4 eqn:Er4.
    unfold hok in H. inversion H; subst cur body. clear H. split; [reflexivity|].
    assert (Hpre : firstn (length b - length r3) b = b10 ++ h1 ++ h2 ++ h3).
    { rewrite Eb at 2. rewrite Eb at 1. apply firstn_consumed. }
    rewrite Hpre in Hcrc.
    exists ((b10 ++ h1 ++ h2 ++ h3) ++ cc). split; [rewrite <- app_assoc, <- Sc; exact Eb|]. split.
    + intros y. repeat rewrite <- app_assoc. rewrite Hhead.
      rewrite X1, X2, X3. unfold gz_hcrc. rewrite Hf.
      rewrite (has_prefix_len_app 2 _ _ Lc). cbn [negb].
      replace (b10 ++ h1 ++ h2 ++ h3 ++ cc ++ y) with ((b10 ++ h1 ++ h2 ++ h3) ++ (cc ++ y))
        by (repeat rewrite <- app_assoc; reflexivity).
      rewrite firstn_consumed. rewrite (firstn_app_exact _ _ _ Lc), Hcrc.
      rewrite (skipn_app_exact _ _ _ Lc). reflexivity.
    + intros h' Hh.
      destruct (sprefix_app_inv _ _ _ Hh) as [Hh1 | [q [Eq Hq]]].
      * (* inside the fixed part and the optional fields *)
        destruct (sprefix_app_inv _ _ _ Hh1) as [Ha | [q1 [Eq1 Hq1]]].
        { unfold gzip_header. rewrite (has_prefix_len_short 10 h'); [reflexivity|].
          apply sprefix_length in Ha. lia. }
        subst h'. rewrite Hhead.
        destruct (sprefix_app_inv _ _ _ Hq1) as [Hb | [q2 [Eq2 Hq2]]]; [rewrite (T1 _ Hb); reflexivity|].
        subst q1. rewrite X1.
        destruct (sprefix_app_inv _ _ _ Hq2) as [Hc | [q3 [Eq3 Hq3]]]; [rewrite (T2 _ Hc); reflexivity|].
        subst q2. rewrite X2. rewrite (T3 _ Hq3). reflexivity.
      * subst h'. repeat rewrite <- app_assoc. rewrite Hhead. rewrite X1, X2, X3.
        unfold gz_hcrc. rewrite Hf. rewrite (has_prefix_len_short 2 q); [reflexivity|].
        apply sprefix_length in Hq. lia.
  - unfold hok in H. inversion H; subst cur body. clear H. split; [reflexivity|].
    exists (b10 ++ h1 ++ h2 ++ h3). split; [exact Eb|]. split.
    + intros y. repeat rewrite <- app_assoc. rewrite Hhead.
      rewrite X1, X2, X3. unfold gz_hcrc. rewrite Hf. reflexivity.
    + intros h' Hh1.
      destruct (sprefix_app_inv _ _ _ Hh1) as [Ha | [q1 [Eq1 Hq1]]].
      { unfold gzip_header. rewrite (has_prefix_len_short 10 h'); [reflexivity|].
        apply sprefix_length in Ha. lia. }
      subst h'. rewrite Hhead.
      destruct (sprefix_app_inv _ _ _ Hq1) as [Hb | [q2 [Eq2 Hq2]]]; [rewrite (T1 _ Hb); reflexivity|].
      subst q1. rewrite X1.
      destruct (sprefix_app_inv _ _ _ Hq2) as [Hc | [q3 [Eq3 Hq3]]]; [rewrite (T2 _ Hc); reflexivity|].
      subst q2. rewrite X2. rewrite (T3 _ Hq3). reflexivity.
Qed.

(* ---------------------------------------------------------------- gzip *)

Definition M32 : N := 4294967296%N.

Theorem gunzip_success_shape f b out cur rest :
  gunzip_fuel f b = Ok out (cur, rest) ->
  cur = [] /\
  exists h c foot,
    b = h ++ c ++ foot ++ rest /\ length foot = 8 /\
    le32 (firstn 4 foot) = crc32 out /\
    le32 (skipn 4 foot) = (N.of_nat (length out) mod M32)%N /\
    (forall y, gzip_header (h ++ y) = Ok tt ([], y)) /\
    (forall h', sprefix h' h -> gzip_header h' = Eof) /\
    (forall y, inflate_fuel f (c ++ y) = Ok out ([], y)) /\
    (forall c', sprefix c' c -> inflate_fuel f c' = Eof).
Proof.
  unfold gunzip_fuel. intros H.
  destruct (gzip_header b) as [u [hc body]| |] eqn:Eh; try discriminate.
  destruct (inflate_fuel f body) as [o [cur1 rest1]| |] eqn:E; try discriminate.
  destruct (has_prefix_len 8 rest1) eqn:H8; try discriminate.
  destruct (has_prefix_len_split _ _ H8) as [S8 L8].
  remember (firstn 8 rest1) as foot eqn:Ef. remember (skipn 8 rest1) as rest2 eqn:Er2.
  assert (F4 : firstn 4 rest1 = firstn 4 foot).
  { rewrite S8. rewrite firstn_app. rewrite L8. simpl (4 - 8). rewrite firstn_O, app_nil_r. reflexivity. }
  assert (S4 : firstn 4 (skipn 4 rest1) = skipn 4 foot).
  { rewrite S8. rewrite skipn_app. rewrite L8. simpl (4 - 8). rewrite skipn_O.
    rewrite firstn_app. rewrite skipn_length, L8. simpl (4 - (8 - 4)). rewrite firstn_O, app_nil_r.
    apply firstn_all2. rewrite skipn_length, L8. simpl. lia. }
  rewrite F4, S4 in H.
  destruct (N.eqb (le32 (firstn 4 foot)) (crc32 o) && N.eqb (le32 (skipn 4 foot)) (N.of_nat (length o) mod 4294967296))%bool eqn:Hc;
    try discriminate.
  inversion H; subst out cur rest. clear H.
  apply andb_true_iff in Hc. destruct Hc as [Hc1 Hc2]. apply N.eqb_eq in Hc1, Hc2.
  destruct (gzip_header_local _ _ _ _ Eh) as [_ [h [Rh [Xh Th]]]].
  destruct (inflate_fuel_local _ _ _ _ _ E) as [Hcur [c [R [X T]]]]. subst cur1.
  split; [reflexivity|]. exists h, c, foot.
  split; [rewrite Rh, R, S8; reflexivity|]. split; [exact L8|]. split; [exact Hc1|].
  split; [exact Hc2|]. repeat split; assumption.
Qed.

(* altering the stored CRC-32 or the stored length (only) makes the decode fail *)
Theorem gunzip_altered_check_fails f b out cur rest :
  gunzip_fuel f b = Ok out (cur, rest) ->
  exists pre foot, b = pre ++ foot ++ rest /\ length foot = 8 /\
    forall foot' y, length foot' = 8 ->
      le32 (firstn 4 foot') <> le32 (firstn 4 foot) \/ le32 (skipn 4 foot') <> le32 (skipn 4 foot) ->
      gunzip_fuel f (pre ++ foot' ++ y) = Bad.
Proof.
  intros H. destruct (gunzip_success_shape _ _ _ _ _ H) as [_ [h [c [foot [Eb [L8 [C1 [C2 [Xh [_ [X _]]]]]]]]]]].
  exists (h ++ c), foot. split; [rewrite Eb; repeat rewrite <- app_assoc; reflexivity|].
  split; [exact L8|]. intros foot' y L8' Hne.
  unfold gunzip_fuel. rewrite <- app_assoc. rewrite Xh. rewrite X.
  rewrite (has_prefix_len_app 8 _ _ L8').
  assert (F4 : firstn 4 (foot' ++ y) = firstn 4 foot').
  { rewrite firstn_app. rewrite L8'. simpl (4 - 8). rewrite firstn_O, app_nil_r. reflexivity. }
  assert (S4 : firstn 4 (skipn 4 (foot' ++ y)) = skipn 4 foot').
  { rewrite skipn_app. rewrite L8'. simpl (4 - 8). rewrite skipn_O.
    rewrite firstn_app. rewrite skipn_length, L8'. simpl (4 - (8 - 4)). rewrite firstn_O, app_nil_r.
    apply firstn_all2. rewrite skipn_length, L8'. simpl. lia. }
  rewrite F4, S4.
  destruct (N.eqb (le32 (firstn 4 foot')) (crc32 out) && N.eqb (le32 (skipn 4 foot')) (N.of_nat (length out) mod 4294967296))%bool eqn:Hc;
    [|reflexivity].
  exfalso. apply andb_true_iff in Hc. destruct Hc as [Hc1 Hc2]. apply N.eqb_eq in Hc1, Hc2.
  destruct Hne as [Hn | Hn]; apply Hn; [rewrite Hc1, C1 | rewrite Hc2, C2]; reflexivity.
Qed.

Lemma gunzip_fuel_mono f f' b out s :
  f <= f' -> gunzip_fuel f b = Ok out s -> gunzip_fuel f' b = Ok out s.
Proof.
  unfold gunzip_fuel. intros Hf H.
  destruct (gzip_header b) as [u [hc body]| |]; try discriminate.
  destruct (inflate_fuel f body) as [o [cur1 rest1]| |] eqn:E; try discriminate.
  rewrite (inflate_fuel_mono _ _ _ _ _ Hf E). exact H.
Qed.

Lemma gunzip_truncated_eof f b out :
  gunzip_fuel f b = Ok out ([], []) -> forall p, sprefix p b -> gunzip_fuel f p = Eof.
Proof.
  intros H p Hp.
  destruct (gunzip_success_shape _ _ _ _ _ H) as [_ [h [c [foot [Eb [L8 [_ [_ [Xh [Th [X T]]]]]]]]]]].
  rewrite app_nil_r in Eb. subst b. unfold gunzip_fuel.
  destruct (sprefix_app_inv _ _ _ Hp) as [Hh | [q [Eq Hq]]]; [rewrite (Th _ Hh); reflexivity|].
  subst p. rewrite Xh.
  destruct (sprefix_app_inv _ _ _ Hq) as [Hc | [q2 [Eq2 Hq2]]]; [rewrite (T _ Hc); reflexivity|].
  subst q. rewrite X. rewrite (has_prefix_len_short 8 q2); [reflexivity|].
  apply sprefix_length in Hq2. lia.
Qed.

(* a complete gzip member with nothing behind it: every strict truncation is refused *)
Theorem gunzip_truncated b out :
  gunzip_fuel (fuel_for b) b = Ok out ([], []) ->
  forall p, sprefix p b -> gunzip_model p = None.
Proof.
  intros H p Hp. unfold gunzip_model.
  destruct (gunzip_fuel (fuel_for p) p) as [o s| |] eqn:E; try reflexivity.
  exfalso. apply (gunzip_fuel_mono _ (fuel_for b)) in E.
  - rewrite (gunzip_truncated_eof _ _ _ H _ Hp) in E. discriminate.
  - apply fuel_for_le. apply sprefix_length in Hp. lia.
Qed.

(* any other signature is refused *)
Theorem gunzip_bad_signature b :
  nth 0 b 0%N <> 31%N \/ nth 1 b 0%N <> 139%N -> gunzip_model b = None.
Proof.
  intros H. unfold gunzip_model, gunzip_fuel, gzip_header.
  destruct (has_prefix_len 10 b); cbn [negb]; [|reflexivity].
  destruct (N.eqb (nth 0 b 0%N) 31) eqn:E0.
  - destruct (N.eqb (nth 1 b 0%N) 139) eqn:E1.
    + exfalso. apply N.eqb_eq in E0, E1. destruct H as [H | H]; contradiction.
    + reflexivity.
  - reflexivity.
Qed.
