(* Coding.v -- model of rhymuweb::coding::{decode_body, decode_body_as_text}
   (src/coding.rs).  Header names/values here are caller-supplied Rust Strings:
   lists of Unicode scalar values.  flate2 and encoding_rs are oracles. *)
From Coq Require Import String.
From Http Require Import Model.Bytes Model.Utf8 Model.Num Model.Headers.

Definition CONTENT_ENCODING : bytes := str "Content-Encoding"%string.
Definition CONTENT_LENGTH' : bytes := str "Content-Length"%string.
Definition CONTENT_TYPE : bytes := str "Content-Type"%string.
Definition GZIP : bytes := str "gzip"%string.
Definition DEFLATE : bytes := str "deflate"%string.
Definition TEXT : bytes := str "text"%string.
Definition CHARSET : bytes := str "charset"%string.
Definition ISO_8859_1 : bytes := str "iso-8859-1"%string.

(* two-byte zlib header (RFC 1950): CM = 8, CINFO <= 7, FDICT = 0, FCHECK ok *)
Definition zlib_header (b : bytes) : bool :=
  match b with
  | cmf :: flg :: _ =>
      (N.eqb (cmf mod 16) 8 && N.leb (cmf / 16) 7
       && N.eqb ((flg / 32) mod 2) 0
       && N.eqb ((cmf * 256 + flg) mod 31) 0)%bool
  | _ => false
  end.

Section WithCodecs.
  (* flate2: GzDecoder / DeflateDecoder / ZlibDecoder .read_to_end *)
  Variable gunzip inflate_raw inflate_zlib : bytes -> option bytes.

  (* deflate_decode after F8: sniff the zlib header *)
  Definition deflate_decode (b : bytes) : option bytes :=
    if zlib_header b then inflate_zlib b else inflate_raw b.

  (* the `while let Some(coding) = codings.pop()` loop, on the reversed token list *)
  Fixpoint decode_loop (rcodings : list bytes) (body : bytes)
    : option (list bytes * bytes) :=
    match rcodings with
    | [] => Some ([], body)
    | c :: rest =>
      if bytes_eqb c GZIP then
        match gunzip body with
        | None => None
        | Some b => decode_loop rest b
        end
      else if bytes_eqb c DEFLATE then
        match deflate_decode body with
        | None => None
        | Some b => decode_loop rest b
        end
      else Some (rcodings, body)
    end.

  (* decode_body: None = Err (headers untouched) *)
  Definition decode_body (hs : list header) (body : bytes)
    : option (list header * bytes) :=
    match decode_loop (rev (header_tokens hs CONTENT_ENCODING)) body with
    | None => None
    | Some (rrem, b) =>
      let codings := rev rrem in
      let hs1 := match codings with
                 | [] => remove_header hs CONTENT_ENCODING
                 | _ => set_header hs CONTENT_ENCODING (join [COMMA; SP] codings)
                 end in
      Some (set_header hs1 CONTENT_LENGTH' (show_dec (N.of_nat (length b))), b)
    end.
End WithCodecs.

(* coding::split_at *)
Definition split_at (c : N) (s : bytes) : option (bytes * bytes) :=
  match find_byte c s with
  | Some d => Some (firstn d s, skipn (S d) s)
  | None => None
  end.

(* first `charset` parameter among the trimmed ';'-separated pieces having an '=' *)
Fixpoint find_charset (params : list bytes) : option bytes :=
  match params with
  | [] => None
  | p :: ps =>
    match split_at EQUALS (trim p) with
    | Some (name, value) =>
      if eq_ignore_case name CHARSET then Some value else find_charset ps
    | None => find_charset ps
    end
  end.

Definition content_type_charset (ct : bytes) : option bytes :=
  let '(ts, params) :=
    match find_byte SEMI ct with
    | Some d => (firstn d ct, skipn (S d) ct)
    | None => (ct, [])
    end in
  match split_at SLASH ts with
  | None => None
  | Some (ty, _) =>
    if eq_ignore_case ty TEXT then
      Some match find_charset (split_on SEMI params) with
           | Some cs => cs
           | None => ISO_8859_1
           end
    else None
  end.

(* encoding_rs::Encoding::for_label, its normalisation made explicit: leading and trailing ASCII
   whitespace (09 0A 0C 0D 20) is skipped and ASCII letters are lower-cased before the label table is
   searched; what is left with other characters, or with whitespace inside, is in no table.  The table
   itself stays a parameter ([lookup], on normalised labels). *)
Definition is_label_ws (b : N) : bool :=
  (N.eqb b 9 || N.eqb b 10 || N.eqb b 12 || N.eqb b 13 || N.eqb b 32)%bool.
Definition label_trim (l : bytes) : bytes :=
  rev (drop_while is_label_ws (rev (drop_while is_label_ws l))).
Definition label_norm (l : bytes) : bytes := lower (label_trim l).
Definition for_label_of {enc : Type} (lookup : bytes -> option enc) (l : bytes) : option enc :=
  lookup (label_norm l).

Section WithEncodings.
  (* encoding_rs: Encoding::for_label(label bytes),
     decode_without_bom_handling_and_without_replacement *)
  Variable enc : Type.
  Variable for_label : bytes -> option enc.
  Variable enc_decode : enc -> bytes -> option (list N).

  Definition decode_text (hs : list header) (body : bytes) : option (list N) :=
    match header_value hs CONTENT_TYPE with
    | None => None
    | Some ct =>
      match content_type_charset ct with
      | None => None
      | Some cs =>
        match for_label (utf8_encode cs) with
        | None => None
        | Some e => enc_decode e body
        end
      end
    end.
End WithEncodings.

(* windows-1252 (what encoding_rs uses for iso-8859-1 / latin1 / ascii labels):
   the WHATWG index for 0x80..0x9F, identity elsewhere *)
Definition w1252_high : list N :=
  [8364; 129; 8218; 402; 8222; 8230; 8224; 8225; 710; 8240; 352; 8249; 338; 141;
   381; 143; 144; 8216; 8217; 8220; 8221; 8226; 8211; 8212; 732; 8482; 353; 8250;
   339; 157; 382; 376]%N.

Definition w1252_char (b : N) : N :=
  if between 128 159 b then nth (N.to_nat (b - 128)) w1252_high b else b.

Definition w1252_decode (b : bytes) : list N := map w1252_char b.
