#!/usr/bin/env python3
"""Case generators: structured, mostly-valid messages plus a malformed stream,
limit sweeps at the exact element lengths, delivery schedules.  Every random
choice comes from the one random.Random passed in."""
import gzip
import itertools
import zlib

CRLF = b"\r\n"


def hx(b):
    return b.hex() if b else "."


def hdrs_spec(hs):
    """[(name(str|bytes), value(str|bytes))] -> case field"""
    if not hs:
        return "-"
    out = []
    for n, v in hs:
        nb = n.encode() if isinstance(n, str) else n
        vb = v.encode() if isinstance(v, str) else v
        out.append(nb.hex() + ":" + vb.hex())
    return ";".join(out)


def lim(x):
    return "-" if x is None else str(x)


# ---------------------------------------------------------------- vocabulary
METHODS_OK = [b"GET", b"POST", b"PUT", b"DELETE", b"OPTIONS", b"HEAD", b"CONNECT", b"TRACE", b"PATCH", b"head", b"Connect",
              b"M-SEARCH", b"x", b"get", b"G!#$%&'*+-.^_`|~9",
              b"PUBLI\xc3\x89", b"\xe2\x82\xac\xf0\x9f\x98\x80"]      # the method is not validated: multi-byte UTF-8 is accepted
METHODS_ODD = [b"", b"G\xc3\xa9T", b"GE\tT", b"G\x00T", b"\xff", b"G:T", b"GET\r", b"\nGET"]
TARGETS_OK = [b"/", b"*", b"/index.html", b"/a/b/c?x=1&y=2", b"/a%20b", b"/%41", b"/\xc3\xa9t\xc3\xa9",
              b"http://www.example.com/", b"http://www.example.com:8080/p?q#f", b"example.com:443",
              b"//host/path", b"?query", b"#frag", b"/a#", b"/?", b"http://[::1]/", b"http://[::ffff:1.2.3.4]/",
              b"http://user:pw@host/", b"a", b"a/b", b"../x", b"/a//b", b"/.", b"HTTP://EXAMPLE.com/A",
              b"/%e2%82%ac", b"/a;b=c", b"/~x", b"/a:b", b"urn:isbn:0451450523", b"/x" * 30]
TARGETS_ODD = [b"", b"/%", b"/%4", b"/%zz", b"/\xff", b"/a b", b"http://[::FFFF:1.2.3.4]/", b"http://[::1",
               b"/\x7f", b"/a\tb", b"http://host:99999/", b"//[", b"/^", b"http://ex ample/", b"/\xc3",
               b"/%/x", b"\\", b"/\"", b"http://h:port/", b"1http://x/", b":"]
PROTOS_OK = [b"HTTP/1.1"]
PROTOS_ODD = [b"HTTP/1.0", b"HTTP/1.10", b"HTTP/1.1 ", b" HTTP/1.1", b"http/1.1", b"", b"HTTP/1.1\r",
              b"HTTP/1.1\t", b"HTTP/2", b"HTTP/1.", b"HTTP/1.1x", b"HTTP/1.1\n", b"HTTP/1.1\xc3\xa9",
              b"HTTP/1.1 x", b"HTTP", b"HTTP/1.1\x00"]

NAMES_OK = [b"Host", b"Accept", b"X-Foo", b"User-Agent", b"x", b"X_y.z!", b"Content-Type", b"Connection",
            b"Trailer", b"Content-Encoding", b"TE", b"Via", b"Expect", b"Upgrade", b"Content-Range", b"Range",
            b"Keep-Alive", b"Proxy-Connection", b"Content-MD5", b"X-Content-Length", b"Content-Length-X", b"Host",
            b"HTTP/Upstream-Version", b"HTTP/1.1", b"Digest", b"ETag", b"GET"]
NAMES_ODD = [b"", b"A B", b"A\tB", b"N\x7fme", b"N\xc3\xa9", b"\xff", b"A\x00", b" Lead", b"Trail "]
VALUES_OK = [b"x", b"", b"www.example.com", b"a, b, c", b"  padded\t ", b"text/plain; charset=utf-8",
             b"5", b"a:b:c", b"\"quoted, comma\"", b"~!@#$%^&*()", b"a" * 40, b"gzip", b"chunked", b",", b",,a,",
             b"close", b"keep-alive", b"Close, Upgrade", b"100-continue", b"identity", b"bytes 0-4/10", b"bytes=0-",
             b"websocket", b"h2c", b"timeout=5, max=100", b"trailers", b"0", b"-1", b"chunked, gzip"]
VALUES_ODD = [b"\x7f", b"a\x00b", b"\xc3\xa9", b"\xff", b"a\x0bb", b"a\rb", b"a\nb", b"\x01"]
CL_NAMES = [b"Content-Length", b"content-length", b"CONTENT-LENGTH", b"Content-length", b"cOnTeNt-LeNgTh"]
TE_NAMES = [b"Transfer-Encoding", b"transfer-encoding", b"TRANSFER-ENCODING", b"Transfer-encoding"]
NUM_ODD = [b"+5", b"-5", b" 5", b"5 ", b"0x5", b"5_0", b"", b"+", b"-", b"5,5", b"5, 5", b"\xd9\xa5", b"5.0",
           b"1e1", b"0b1", b"+0", b"-0", b"5a", b"a5", b"\t5", b"5\t", b"\xef\xbc\x95",
           b"0005", b"00", b"18446744073709551616", b"99999999999999999999", b"18446744073709551615",
           b"9223372036854775807", b"9223372036854775808", b"4294967296", b"2147483648", b"1" + b"0" * 30]
HEX_ODD = [b"+5", b"-5", b" 5", b"0x5", b"5 ", b"", b"g", b"5g", b"5_0", b"+", b"5\rjunk", b"5\r", b"\r5",
           b"10000000000000000", b"FFFFFFFFFFFFFFFF", b"ffffffffffffffff", b"7FFFFFFFFFFFFFFF", b"100000000",
           b"0005", b"00", b"0000000000000000000005", b"5\t", b"\t5", b"\xef\xbc\x95", b"5h", b"5,5"]
STRUCT = [b"\r", b"\n", b" ", b"\t", b":", b";", b",", b"+", b"-", b"0", b"9", b"a", b"F", b"g",
          b"\x00", b"\x7f", b"\x80", b"\xc3", b"\xff", b"\r\n"]


def pick(rng, ok, odd, p_odd=0.1):
    return rng.choice(odd) if rng.random() < p_odd else rng.choice(ok)


def case_perm(rng, b):
    return bytes((c ^ 0x20) if (65 <= c <= 90 or 97 <= c <= 122) and rng.random() < 0.5 else c for c in b)


# ---------------------------------------------------------------- header blocks
def gen_field(rng, p_odd=0.08, allow_fold=True):
    name = pick(rng, NAMES_OK, NAMES_ODD, p_odd)
    val = pick(rng, VALUES_OK, VALUES_ODD, p_odd)
    sep = rng.choice([b": ", b":", b":  ", b":\t", b" : "]) if rng.random() < 0.3 else b": "
    if rng.random() < p_odd / 2:
        sep = b" "                       # missing colon
    line = name + sep + val
    if allow_fold and rng.random() < 0.15:
        for _ in range(rng.randint(1, 3)):
            line += CRLF + rng.choice([b" ", b"\t", b"  \t"]) + pick(rng, VALUES_OK, VALUES_ODD, p_odd)
    return line


def gen_fields(rng, p_odd=0.08, maxn=4):
    fs = [gen_field(rng, p_odd) for _ in range(rng.randint(0, maxn))]
    r = rng.random()
    if r < 0.03:
        # many fields
        fs += [gen_field(rng, p_odd, allow_fold=False) for _ in range(rng.randint(8, 24))]
    elif r < 0.06 and fs:
        # one field three or four times, possibly in different letter case
        f = rng.choice(fs)
        for _ in range(rng.randint(2, 3)):
            i = f.find(b":")
            g = case_perm(rng, f[:i]) + f[i:] if i > 0 and rng.random() < 0.5 else f
            fs.insert(rng.randint(0, len(fs)), g)
    if rng.random() < 0.04:
        # a long header line, around the 1000-byte default limit of requests (responses have no limit)
        total = rng.choice([990, 997, 998, 999, 1000, 1001, 1002, 1010, 1500])
        name = rng.choice([b"X-Long", b"Cookie"])
        fs.insert(rng.randint(0, len(fs)), name + b": " + b"v" * max(0, total - len(name) - 2 - 2))
    return fs


def block(fields):
    return b"".join(f + CRLF for f in fields) + CRLF


POW2_LENGTHS = [255, 256, 257, 511, 512, 1023, 1024, 1025, 4095, 4096, 4097, 8192, 16384, 65535, 65536, 65537]


def gen_body(rng, maxlen=40):
    k = rng.random()
    n = rng.randint(0, maxlen)
    if maxlen >= 30 and rng.random() < 0.02:
        # lengths at buffer-size boundaries
        n = rng.choice(POW2_LENGTHS)
        unit = rng.choice([b"x", b"ab\r\n", b"0123456789abcdef", b"\r", b"\n"])
        return (unit * (n // len(unit) + 1))[:n]
    if k < 0.3:
        return bytes(rng.randrange(256) for _ in range(n))
    if k < 0.5:
        return b"GET / HTTP/1.1\r\nHost: y\r\n\r\n"[:n]
    if k < 0.6:
        return b"5\r\nhello\r\n0\r\n\r\n"[:n]
    if k < 0.7:
        return b""
    return bytes(rng.choice(b"abc\r\n :") for _ in range(n))


def cl_value(rng, body_len, p_odd=0.1):
    r = rng.random()
    if r < p_odd:
        return rng.choice(NUM_ODD)
    if r < p_odd + 0.05:
        return b"%d" % max(0, body_len + rng.choice([-2, -1, 1, 2, 5]))
    if r < p_odd + 0.1:
        return b"0" * rng.randint(1, 3) + b"%d" % body_len
    return b"%d" % body_len


# ---------------------------------------------------------------- requests
def gen_request(rng, p_odd=0.08):
    """returns (bytes, meta) -- meta holds measured element lengths for limit sweeps"""
    m = pick(rng, METHODS_OK, METHODS_ODD, p_odd)
    t = pick(rng, TARGETS_OK, TARGETS_ODD, p_odd)
    p = pick(rng, PROTOS_OK, PROTOS_ODD, p_odd)
    r = rng.random()
    if r < p_odd / 3:
        line = m + t + b" " + p
    elif r < 2 * p_odd / 3:
        line = m + b" " + t + p
    elif r < p_odd:
        line = m + b"  " + t + b" " + p
    else:
        line = m + b" " + t + b" " + p
    if rng.random() < 0.05 and t.startswith(b"/") and p == b"HTTP/1.1":
        # a request line whose length is around a power of two, or at the default limit of 1000
        total = rng.choice(THRESHOLDS + [998, 999, 1000, 1001])
        line = m + b" " + pad_to(t, total - len(m) - 10, b"a") + b" " + p
    fields = gen_fields(rng, p_odd)
    if rng.random() < 0.05:
        total = rng.choice(THRESHOLDS + [996, 997, 998, 999])
        fields.insert(rng.randint(0, len(fields)), pad_to(b"X-Pad: ", total, b"v"))
    body = b""
    r = rng.random()
    if r < 0.55:
        body = gen_body(rng)
        f = rng.choice(CL_NAMES) + b": " + cl_value(rng, len(body), p_odd)
        fields.insert(rng.randint(0, len(fields)), f)
        if rng.random() < 0.06:
            fields.insert(rng.randint(0, len(fields)), rng.choice(CL_NAMES) + b": " + cl_value(rng, len(body), p_odd))
    elif r < 0.62:
        fields.insert(rng.randint(0, len(fields)), rng.choice(TE_NAMES) + b": chunked")
        body = gen_chunked(rng)[0]
        if rng.random() < 0.3:
            fields.insert(rng.randint(0, len(fields)), rng.choice(CL_NAMES) + b": " + cl_value(rng, len(body), p_odd))
    eol = CRLF if rng.random() > p_odd / 2 else rng.choice([b"\n", b"\r", b"\r\r\n", b"\n\r"])
    head = line + eol + block(fields)
    meta = {"line": len(line), "field_lines": [len(x) + 2 for f in fields for x in f.split(CRLF)],
            "head": len(head), "body": len(body)}
    if rng.random() < 0.03:
        # empty lines ahead of the request line (RFC 7230 section 3.5 lets a server skip them; this parser does
        # not): whatever it does with them must not depend on the delivery
        k = rng.randint(1, 3)
        head = CRLF * k + head
        meta = {"line": 0, "field_lines": meta["field_lines"], "head": len(head), "body": len(body)}
    return head + body, meta


def limit_triples(rng, meta, n=4):
    """limit settings swept around the measured element lengths"""
    out = [("d", "d", "d"), ("-", "-", "-")]
    for _ in range(n):
        rl = rng.choice(["d", "-", str(max(0, meta["line"] + rng.choice([-2, -1, 0, 0, 1, 2])))])
        fl = meta["field_lines"] or [2]
        hl = rng.choice(["d", "-", str(max(0, rng.choice(fl + [2]) + rng.choice([-2, -1, 0, 0, 1, 2])))])
        tot = meta["head"] + meta["body"]
        mm = rng.choice(["d", "-", str(max(0, rng.choice([tot, meta["head"], meta["line"] + 2]) + rng.choice([-2, -1, 0, 0, 1, 2])))])
        out.append((rl, hl, mm))
    return out


# ---------------------------------------------------------------- chunked bodies
EXT_ODD = [b";\xff\xfe", b";x=\x80", b";note=\xc3", b";\xed\xa0\x80", b";a\rb", b";a\nb", b";\x00", b";" + b"y" * 1200]


THRESHOLDS = [62, 63, 64, 65, 126, 127, 128, 129, 254, 255, 256, 257, 511, 512, 513]


def pad_to(prefix, total, fill=b"p"):
    """prefix followed by filler so that the whole is `total` bytes long (prefix alone when it is longer)"""
    return prefix + fill * max(0, total - len(prefix))


def gen_chunk_ext(rng, p_odd=0.0, size_len=1):
    if rng.random() < p_odd:
        return rng.choice(EXT_ODD)
    r = rng.random()
    if r < 0.06:
        # the whole chunk-size line (size field + extension) of a length around a power of two
        total = rng.choice(THRESHOLDS)
        return pad_to(b";e=", max(3, total - size_len), b"x")
    if r < 0.12:
        # quoted-string extension values: escaped quotes, an odd number of quote characters, CR/LF-free
        return rng.choice([b';note="a\\"b"', b';q="', b';a="x";b="y\\"z"', b';a=""', b';a="\\\\"', b';"', b';a="b";c=\"'])
    return rng.choice([b"", b"", b"", b";a", b";a=b", b";a=\"q;x\"", b";a;b;c", b"; sp", b";\xc3\xa9", b";" + b"x" * 20])


def hexnum(rng, n):
    s = b"%x" % n
    if rng.random() < 0.3:
        s = s.upper()
    if rng.random() < 0.2:
        s = b"0" * rng.randint(1, 4) + s
    return case_perm(rng, s) if rng.random() < 0.2 else s


def gen_chunked(rng, p_odd=0.0, payload=None):
    """returns (encoded, payload, trailer_fields)"""
    if payload is None:
        payload = gen_body(rng, 30)
    out = b""
    i = 0
    while i < len(payload):
        n = rng.randint(1, max(1, min(17 if len(payload) < 2000 else 8192, len(payload) - i)))
        size = hexnum(rng, n)
        if rng.random() < p_odd:
            size = rng.choice(HEX_ODD)
        out += size + gen_chunk_ext(rng, p_odd, len(size)) + CRLF + payload[i:i + n]
        out += CRLF if rng.random() >= p_odd else rng.choice([b"\n", b"\r", b"", b"x\r\n", b"\r\r\n", b"\n\r"])
        i += n
    last = b"0" * rng.randint(1, 3)
    if rng.random() < p_odd:
        last = rng.choice(HEX_ODD)
    out += last + gen_chunk_ext(rng, p_odd) + CRLF
    tfields = []
    if rng.random() < 0.4:
        for _ in range(rng.randint(1, 3)):
            if rng.random() < 0.3:
                tfields.append(rng.choice([b"Content-Length: 99", b"Transfer-Encoding: gzip", b"Trailer: x",
                                           b"content-length: 1", b"TRANSFER-ENCODING: chunked", b"Content-Length: +1"]))
            else:
                tfields.append(gen_field(rng, p_odd))
    if rng.random() < 0.05:
        # a long trailer line (the trailer section has no line limit), around the 1000-byte request default
        total = rng.choice([990, 997, 998, 999, 1000, 1001, 1002, 1200, 3000])
        tfields.insert(rng.randint(0, len(tfields)), b"X-Long-Trailer: " + b"t" * (total - 16 - 2))
    out += block(tfields)
    return out, payload, tfields


# ---------------------------------------------------------------- responses
CODES_OK = [b"200", b"404", b"100", b"0", b"007", b"999", b"000", b"99", b"1", b"101", b"103", b"199", b"204", b"205",
            b"206", b"301", b"304", b"500", b"204", b"304"]
CODES_ODD = [b"1000", b"+200", b"-1", b"2 00", b"", b"20x", b"0x10", b"99999999999999999999", b"2_0",
             b"18446744073709551615", b"18446744073709551616", b" 200", b"200\t", b"\xef\xbc\x92"]
STATUS_LINES = [b"HTTP/1.1 200 OK", b"HTTP/1.1 206 Partial Content", b"HTTP/1.1 304 Not Modified", b"HTTP/1.1 204 No Content",
                b"HTTP/1.1 100 Continue", b"HTTP/1.1 101 Switching Protocols", b"HTTP/1.1 404 Not Found", b"HTTP/1.1 500 ",
                b"HTTP/1.1 416 Range Not Satisfiable", b"HTTP/1.1 201 Created", b"HTTP/1.1 199 x", b"HTTP/1.1 999 "]
REASONS = [b"OK", b"", b"Not Found", b" OK ", b"O\tK", b"caf\xc3\xa9", b"a  b", b"x" * 50, b"200", b":"]
REASONS_ODD = [b"\xff", b"O\rK", b"O\nK", b"\x00"]
TE_VALUES = [b"chunked", b"Chunked", b"CHUNKED", b"gzip, chunked", b"gzip,chunked", b" gzip ,\tdeflate , chunked ",
             b"chunked,", b"chunked,,", b"gzip, deflate, chunked", b"x, chunked", b",chunked", b"identity,chunked",
             b"gzip,,chunked", b"gzip, , chunked", b"gzip,, chunked,", b",,chunked"]
TE_VALUES_ODD = [b"chunked, gzip", b"gzip", b"", b"chunke", b"chunkedd", b"chunked chunked", b"chunked;q=1",
                 b"chunked, chunked", b",", b"\"chunked\""]


def gen_response(rng, p_odd=0.08, framing=None):
    proto = pick(rng, PROTOS_OK, PROTOS_ODD, p_odd)
    code = pick(rng, CODES_OK, CODES_ODD, p_odd)
    reason = pick(rng, REASONS, REASONS_ODD, p_odd / 2)
    r = rng.random()
    if r < p_odd / 3:
        line = proto + code + b" " + reason
    elif r < 2 * p_odd / 3:
        line = proto + b" " + code + reason
    elif r < p_odd:
        line = proto + b" " + code
    else:
        line = proto + b" " + code + b" " + reason
    if rng.random() < 0.05:
        line = pad_to(proto + b" " + code + b" R", rng.choice(THRESHOLDS + [1000, 1001, 4095, 4096, 4097]), b"r")
    fields = gen_fields(rng, p_odd)
    if rng.random() < 0.05:
        fields.insert(rng.randint(0, len(fields)), pad_to(b"X-Pad: ", rng.choice(THRESHOLDS + [999, 1000, 4096]), b"v"))
    if rng.random() < 0.02 and line.startswith(b"HTTP/1.1 "):
        line = CRLF * rng.randint(1, 2) + line
    framing = framing or rng.choice(["cl", "cl", "chunked", "chunked", "none", "both"])
    body = b""
    meta = {"framing": framing}
    if framing in ("cl", "both"):
        payload = gen_body(rng)
        if framing == "both" and rng.random() < 0.4:
            payload = gen_chunked(rng, 0.0)[0]       # Content-Length wins: these bytes are the body verbatim
        fields.insert(rng.randint(0, len(fields)), rng.choice(CL_NAMES) + b": " + cl_value(rng, len(payload), p_odd))
        body = payload
        if rng.random() < 0.06:
            fields.insert(rng.randint(0, len(fields)), rng.choice(CL_NAMES) + b": " + cl_value(rng, len(payload), p_odd))
        if rng.random() < 0.4:
            body += gen_body(rng, 12)       # trailing data
    if framing in ("chunked", "both"):
        tev = pick(rng, TE_VALUES, TE_VALUES_ODD, max(p_odd, 0.1))
        k = rng.randint(0, len(fields))
        if b"," in tev and rng.random() < 0.3:
            a, b_ = tev.split(b",", 1)
            fields.insert(k, rng.choice(TE_NAMES) + b": " + a)
            fields.insert(rng.randint(k + 1, len(fields)), rng.choice(TE_NAMES) + b": " + b_)
        else:
            fields.insert(k, rng.choice(TE_NAMES) + b": " + tev)
        if rng.random() < 0.4:
            ann = rng.choice([b"X-Foo", b"X-Foo", b"Host, Accept", b"x", b"X-Other", b"Content-Type,Via", b"", b"Content-Length"])
            fields.insert(rng.randint(0, len(fields)), rng.choice([b"Trailer", b"trailer", b"TRAILER"]) + b": " + ann)
        if framing == "chunked":
            enc, payload, _ = gen_chunked(rng, p_odd)
            body = enc
            if rng.random() < 0.3:
                body += gen_body(rng, 10)
    if framing == "none" and rng.random() < 0.3:
        body = gen_body(rng, 10)
    eol = CRLF if rng.random() > p_odd / 2 else rng.choice([b"\n", b"\r", b"\r\r\n"])
    head = line + eol + block(fields)
    meta["head"] = len(head)
    return head + body, meta


# ---------------------------------------------------------------- mutation / schedules
def mutate(rng, s):
    if not s:
        return rng.choice(STRUCT)
    k = rng.random()
    i = rng.randrange(len(s))
    if k < 0.3:
        return s[:i] + s[i + 1:]
    if k < 0.6:
        return s[:i] + rng.choice(STRUCT) + s[i:]
    if k < 0.9:
        return s[:i] + rng.choice(STRUCT) + s[i + 1:]
    return s[:i]


def all_segmentations(s):
    n = len(s)
    if n == 0:
        yield [b""]
        return
    for mask in range(1 << (n - 1)):
        parts, start = [], 0
        for i in range(n - 1):
            if mask >> i & 1:
                parts.append(s[start:i + 1])
                start = i + 1
        parts.append(s[start:])
        yield parts


def cut_at(s, cuts):
    cuts = sorted(set(c for c in cuts if 0 < c < len(s)))
    parts, start = [], 0
    for c in cuts:
        parts.append(s[start:c])
        start = c
    parts.append(s[start:])
    return parts


def schedules(rng, s, n_random=3, with_empty=True):
    """a list of delivery lists for s (the whole stream first)"""
    out = [[s]]
    n = len(s)
    if n <= 1:
        return out
    if n <= 3000:
        out.append([s[i:i + 1] for i in range(n)])             # one byte at a time
    else:
        # long streams (bodies at buffer-size boundaries): byte at a time through the head, then blocks --
        # the model appends lists, a delivery per body byte would cost O(n^2) there
        out.append([s[i:i + 1] for i in range(300)] + [s[i:i + 1000] for i in range(300, n, 1000)])
    interesting = [i + d for i, c in enumerate(s[:3000]) if c in (13, 10) for d in (0, 1, 2)][:150]
    for c in rng.sample(interesting, min(len(interesting), 4)):
        out.append(cut_at(s, [c]))
    if interesting:
        out.append(cut_at(s, interesting))
    for _ in range(n_random):
        k = rng.randint(1, min(6, n - 1))
        parts = cut_at(s, rng.sample(range(1, n), k))
        if with_empty and rng.random() < 0.3:
            parts.insert(rng.randint(0, len(parts)), b"")
        out.append(parts)
    return out


def dels(parts):
    return ",".join(hx(p) for p in parts)


# ---------------------------------------------------------------- compressed bodies
def gz(data, level=6, name=None, comment=None, extra=None, mtime=0):
    """gzip member with optional header fields (FNAME, FCOMMENT, FEXTRA)"""
    flg = (8 if name is not None else 0) | (16 if comment is not None else 0) | (4 if extra is not None else 0)
    out = b"\x1f\x8b\x08" + bytes([flg]) + mtime.to_bytes(4, "little") + b"\x00\x03"
    if extra is not None:
        out += len(extra).to_bytes(2, "little") + extra
    if name is not None:
        out += name + b"\x00"
    if comment is not None:
        out += comment + b"\x00"
    co = zlib.compressobj(level, zlib.DEFLATED, -15)
    out += co.compress(data) + co.flush()
    out += (zlib.crc32(data) & 0xffffffff).to_bytes(4, "little") + (len(data) & 0xffffffff).to_bytes(4, "little")
    return out


def zl(data, level=6):
    return zlib.compress(data, level)


def raw_deflate(data, level=6):
    co = zlib.compressobj(level, zlib.DEFLATED, -15)
    return co.compress(data) + co.flush()


def zlib_looking_raw(rng, payload=b"Hello, World!"):
    """a valid *raw* deflate stream (stored blocks only) whose first two bytes pass the zlib header check
    (CM = 8, CINFO <= 7, FDICT clear, multiple of 31): it is not a zlib stream, and the crate has no
    fallback from a failed zlib reading to a raw one"""
    cmf = rng.choice([0x08, 0x18, 0x28, 0x38, 0x48, 0x58, 0x68, 0x78])
    flgs = [f for f in range(256) if (cmf * 256 + f) % 31 == 0 and not f & 0x20]
    flg = rng.choice(flgs)
    ln = flg + 256 * rng.choice([0, 0, 1])
    data = bytes(rng.randrange(256) for _ in range(ln))
    out = bytes([cmf]) + ln.to_bytes(2, "little") + (ln ^ 0xffff).to_bytes(2, "little") + data
    out += b"\x00" + len(payload).to_bytes(2, "little") + (len(payload) ^ 0xffff).to_bytes(2, "little") + payload
    out += b"\x01\x00\x00\xff\xff"
    return out, data + payload


def gen_plain(rng, big=False):
    k = rng.random()
    if k < 0.15:
        return b""
    if k < 0.3:
        return bytes(rng.randrange(256) for _ in range(rng.randint(1, 8)))
    if k < 0.5:
        return bytes(rng.randrange(256) for _ in range(rng.randint(50, 300)))
    if k < 0.8:
        return (b"hello world " * rng.randint(1, 40))[:rng.randint(1, 400)]
    if big:
        return bytes(rng.choice(b"ab") for _ in range(rng.randint(33000, 40000)))
    return b"\x00" * rng.randint(1, 200)


CODERS = {"gzip": lambda rng, d: gz(d, rng.randint(0, 9),
                                   name=rng.choice([None, None, b"f.txt"]),
                                   comment=rng.choice([None, None, b"c"]),
                                   extra=rng.choice([None, None, b"ab\x02\x00xy"]),
                                   mtime=rng.choice([0, 1, 0x5f000000])),
          "zlib": lambda rng, d: zl(d, rng.randint(0, 9)),
          "raw": lambda rng, d: raw_deflate(d, rng.randint(0, 9))}
TOKEN_OF = {"gzip": "gzip", "zlib": "deflate", "raw": "deflate"}


def spell_token(rng, tok):
    t = case_perm(rng, tok.encode()).decode() if rng.random() < 0.5 else tok
    return rng.choice(["", " ", "\t", "  "]) + t + rng.choice(["", " ", "\t"])
