(* ResponseGrammar.v -- what a complete response is:

     response = "HTTP/1.1" SP code SP reason CRLF  header-block  body
   code: 1*DIGIT with value < 1000; reason: anything up to the CRLF (possibly empty, may contain
   SP), the status line valid UTF-8; header-block as in Spec/HeaderGrammar.v (no line limit);
   body selected in this order:
     Content-Length present  -> exactly that many bytes (value 1*DIGIT fitting usize);
     else Transfer-Encoding lists chunked -> a well-formed chunked body (Spec/ChunkedGrammar.v);
          the stored headers are then the rewritten ones, the stored body the payload;
     else no body. *)
From Coq Require Import String.
From Http Require Import Model.Bytes Model.Utf8 Model.Num Model.Headers Model.Request
     Model.Chunked Model.Response Spec.HeaderGrammar Spec.ChunkedGrammar.

Record resp_value := { w_code : N; w_reason : bytes; w_headers : list header; w_body : bytes }.

Definition status_line (codetext reason : bytes) : bytes :=
  HTTP11 ++ [SP] ++ codetext ++ [SP] ++ reason.

Definition status_line_ok (codetext reason : bytes) (code : N) : Prop :=
  parse_dec codetext = Some code /\ (code < 1000)%N /\
  is_line (status_line codetext reason) /\ utf8_valid (status_line codetext reason) = true.

Inductive framing_of (hs : list header) : bytes -> list header -> bytes -> Prop :=
| Fr_fixed t n body :
    header_value hs CONTENT_LENGTH = Some t -> parse_dec t = Some n -> length body = N.to_nat n ->
    framing_of hs body hs body
| Fr_chunked c payload tfields :
    header_value hs CONTENT_LENGTH = None -> has_header_token hs TRANSFER_ENCODING CHUNKED = true ->
    IsChunked c payload tfields ->
    framing_of hs c (dechunk_headers hs tfields payload) payload
| Fr_none :
    header_value hs CONTENT_LENGTH = None -> has_header_token hs TRANSFER_ENCODING CHUNKED = false ->
    framing_of hs [] hs [].

(* [IsResponse m v]: the bytes m are exactly one response with value v *)
Definition IsResponse (m : bytes) (v : resp_value) : Prop :=
  exists codetext fs wire,
    m = status_line codetext (w_reason v) ++ CRLF ++ header_block fs ++ wire /\
    status_line_ok codetext (w_reason v) (w_code v) /\
    block_ok None fs /\
    framing_of (map field_header fs) wire (w_headers v) (w_body v).

Definition resp_value_of (st : resp_state) : resp_value :=
  {| w_code := s_code st; w_reason := s_reason st; w_headers := s_headers st; w_body := s_body st |}.
