(* ChunkGrammar.v -- the chunk decoder accepts exactly the chunked-body grammar (C05). *)
From Coq Require Import Lia ZifyN ZifyNat.
From Http Require Import Model.Bytes Model.Utf8 Model.Num Model.Headers Model.Request
     Model.Chunked Spec.ChunkedGrammar Proofs.BytesLemmas Proofs.HeadersResume Proofs.ChunkResume.

Lemma size_field_eq line : size_field line = match find_byte SEMI line with Some d => firstn d line | None => line end.
Proof. reflexivity. Qed.

Lemma parse_chunk_size_field line : parse_chunk_size line = parse_hex (size_field line).
Proof. unfold parse_chunk_size, size_field. destruct (find_byte SEMI line); reflexivity. Qed.

Lemma is_line_find line rest : is_line line -> find_crlf (line ++ CRLF ++ rest) = Some (length line).
Proof. intros H. rewrite app_assoc. apply find_crlf_app. exact H. Qed.

(* decode_size on a buffer that starts with a size line *)
Lemma decode_size_line st line n rest :
  size_line line n ->
  decode_size st (line ++ CRLF ++ rest) =
  CPart (set_cphase st (if N.eqb n 0 then CTrailer else CData n)) (length line + 2).
Proof.
  intros [Hl [Hu Hp]]. unfold decode_size. rewrite (is_line_find _ rest Hl). cbv zeta.
  rewrite firstn_app_le by lia. rewrite firstn_all. rewrite Hu. cbn [negb].
  rewrite parse_chunk_size_field, Hp. reflexivity.
Qed.

Lemma skipn_line line rest : skipn (length line + 2) (line ++ CRLF ++ rest) = rest.
Proof.
  rewrite app_assoc. rewrite skipn_app.
  replace (length line + 2 - length (line ++ CRLF)) with 0 by (rewrite app_length; simpl; lia).
  rewrite skipn_all2 by (rewrite app_length; simpl; lia). reflexivity.
Qed.

(* ---- completeness: every well-formed chunked body is decoded to its payload and trailers,
   stopping exactly at its end ---- *)
Lemma chunk_loop_complete c p t :
  IsChunked c p t ->
  forall rest f b0 off,
    length (c ++ rest) < f ->
    chunk_loop f {| c_phase := CSize; c_buffer := b0; c_trailer := [] |} (c ++ rest) off =
    ({| c_phase := CTrailer; c_buffer := b0 ++ p; c_trailer := t |}, Complete (off + length c)).
Proof.
  induction 1 as [line block fields Hs Ht|line n data rest0 payload fields Hs Hn Hd Hc IH];
    intros rest f b0 off Hf.
  - (* last chunk *)
    destruct f as [|f]; [lia|]. rewrite chunk_loop_step. unfold chunk_step. cbn [c_phase].
    rewrite <- !app_assoc. rewrite (decode_size_line _ line 0 (block ++ rest) Hs). cbn [N.eqb].
    rewrite skipn_line.
    destruct f as [|f]; [rewrite !app_length in Hf; simpl in Hf; lia|].
    rewrite chunk_loop_step. unfold chunk_step, set_cphase. cbn [c_phase c_buffer c_trailer].
    unfold decode_trailer. cbn [c_trailer c_buffer].
    pose proof (hdr_parse_app None [] block rest (or_introl eq_refl)) as HP.
    unfold is_trailer in Ht. rewrite Ht in HP. destruct HP as [_ HP]. rewrite HP.
    rewrite app_nil_r. f_equal. f_equal. rewrite !app_length. simpl. lia.
  - (* one more chunk *)
    destruct f as [|f]; [lia|]. rewrite chunk_loop_step. unfold chunk_step. cbn [c_phase].
    rewrite <- !app_assoc. rewrite (decode_size_line _ line n _ Hs).
    destruct (N.eqb n 0) eqn:Z; [apply N.eqb_eq in Z; congruence|].
    rewrite skipn_line.
    assert (Hlen : length (line ++ CRLF ++ data ++ CRLF ++ rest0 ++ rest) =
                   length line + 2 + length data + 2 + length (rest0 ++ rest))
      by (rewrite !app_length; simpl; lia).
    rewrite <- !app_assoc in Hf. rewrite Hlen in Hf.
    destruct f as [|f]; [lia|].
    rewrite chunk_loop_step. unfold chunk_step, set_cphase. cbn [c_phase c_buffer c_trailer].
    unfold decode_data. cbv zeta. cbn [c_buffer c_trailer].
    assert (E1 : N.leb n (N.of_nat (length (data ++ CRLF ++ rest0 ++ rest))) = true)
      by (apply N.leb_le; rewrite app_length; lia).
    rewrite E1.
    replace (n - N.of_nat (N.to_nat n))%N with 0%N by lia. cbn [N.eqb].
    rewrite <- Hd. rewrite firstn_app_le by lia. rewrite firstn_all.
    rewrite skipn_app_le by lia. rewrite skipn_all. cbn [app].
    destruct f as [|f]; [lia|].
    rewrite chunk_loop_step. unfold chunk_step. cbn [c_phase]. unfold decode_terminator.
    cbn [app CRLF]. rewrite !N.eqb_refl. cbn [andb skipn].
    unfold set_cphase. cbn [c_buffer c_trailer].
    rewrite (IH rest f (b0 ++ data) (off + (length line + 2) + length data + 2)) by lia.
    rewrite <- app_assoc. f_equal. f_equal. rewrite !app_length. simpl. rewrite !app_length. simpl. lia.
Qed.

Theorem chunk_decode_complete c p t rest :
  IsChunked c p t ->
  chunk_decode chunk_init (c ++ rest) =
  ({| c_phase := CTrailer; c_buffer := p; c_trailer := t |}, Complete (length c)).
Proof.
  intros H. unfold chunk_decode, chunk_init.
  rewrite (chunk_loop_complete c p t H rest _ [] 0) by lia. reflexivity.
Qed.

(* ---- soundness: Complete is only ever reported for a well-formed chunked body, and the
   body is made of the declared data ranges only ---- *)
Lemma decode_size_inv st buf st' c :
  decode_size st buf = CPart st' c ->
  exists line n rest,
    buf = line ++ CRLF ++ rest /\ c = length line + 2 /\ size_line line n /\
    st' = set_cphase st (if N.eqb n 0 then CTrailer else CData n).
Proof.
  unfold decode_size. destruct (find_crlf buf) as [e|] eqn:E; [|discriminate]. cbv zeta.
  destruct (negb (utf8_valid (firstn e buf))) eqn:U; [discriminate|].
  destruct (parse_chunk_size (firstn e buf)) as [n|] eqn:PC; [|discriminate].
  intros H. inversion H; subst. clear H.
  pose proof (find_crlf_bound _ _ E) as B. pose proof (find_crlf_at _ _ E) as At.
  exists (firstn e buf), n, (skipn (e + 2) buf).
  assert (Hl : length (firstn e buf) = e) by (rewrite firstn_length; lia).
  split; [|split; [|split]].
  - rewrite <- (firstn_skipn e buf) at 1. rewrite At. reflexivity.
  - lia.
  - split; [|split].
    + unfold is_line. rewrite Hl.
      assert (Hb : firstn e buf ++ CRLF = firstn (e + 2) buf).
      { rewrite firstn_plus, At. reflexivity. }
      rewrite Hb. apply find_crlf_firstn; [exact E|lia].
    + apply negb_false_iff in U. exact U.
    + rewrite <- parse_chunk_size_field. exact PC.
  - reflexivity.
Qed.

Lemma chunk_loop_sound f : forall st s off st1 c b0,
  c_phase st = CSize -> c_buffer st = b0 -> c_trailer st = [] ->
  length s < f ->
  chunk_loop f st s off = (st1, Complete c) ->
  exists p, off <= c /\ c - off <= length s /\
            IsChunked (firstn (c - off) s) p (c_trailer st1) /\ c_buffer st1 = b0 ++ p.
Proof.
  induction f as [|f IH]; intros st s off st1 c b0 Hph Hb Ht Hf H; [lia|].
  rewrite chunk_loop_step in H. unfold chunk_step in H. rewrite Hph in H.
  destruct (decode_size st s) as [st' c1|st' c1|st' c1|e] eqn:DS; try discriminate.
  2:{ unfold decode_size in DS. destruct (find_crlf s); [|discriminate]. cbv zeta in DS.
      destruct (negb _); [discriminate|]. destruct (parse_chunk_size _); discriminate. }
  destruct (decode_size_inv _ _ _ _ DS) as [line [n [rest [Hs [Hc1 [Hsl Hst']]]]]].
  subst s c1. rewrite skipn_line in H.
  assert (Hlen : length (line ++ CRLF ++ rest) = length line + 2 + length rest)
    by (rewrite !app_length; simpl; lia).
  rewrite Hlen in Hf.
  destruct (N.eqb n 0) eqn:Z.
  - (* last chunk: the trailer section follows *)
    apply N.eqb_eq in Z. subst n.
    destruct f as [|f1]; [lia|]. rewrite chunk_loop_step in H. unfold chunk_step in H.
    subst st'. unfold set_cphase in H. cbn [c_phase c_buffer c_trailer] in H.
    unfold decode_trailer in H. cbn [c_buffer c_trailer] in H. rewrite Ht in H.
    destruct (hdr_parse None [] rest) as [hs c2|hs c2|e2] eqn:HP; try discriminate.
    inversion H; subst. clear H. cbn [c_buffer c_trailer].
    pose proof (hdr_parse_complete_tail _ _ _ _ _ HP) as [_ [Hc2 _]].
    pose proof (hdr_parse_complete_firstn _ _ _ _ _ HP) as Loc.
    exists []. split; [lia|]. split; [lia|]. split; [|rewrite app_nil_r; reflexivity].
    replace (off + (length line + 2) + c2 - off) with ((length line + 2) + c2) by lia.
    assert (Hfn : firstn (length line + 2 + c2) (line ++ CRLF ++ rest) = line ++ CRLF ++ firstn c2 rest).
    { rewrite app_assoc. rewrite firstn_app.
      replace (length line + 2 + c2 - length (line ++ CRLF)) with c2 by (rewrite app_length; simpl; lia).
      rewrite firstn_all2 by (rewrite app_length; simpl; lia). rewrite <- app_assoc. reflexivity. }
    rewrite Hfn. apply IC_last; [exact Hsl|].
    unfold is_trailer. rewrite firstn_length. replace (Nat.min c2 (length rest)) with c2 by lia.
    exact Loc.
  - (* a data chunk *)
    apply N.eqb_neq in Z.
    destruct f as [|f1]; [lia|]. rewrite chunk_loop_step in H. unfold chunk_step in H.
    subst st'. unfold set_cphase in H. cbn [c_phase c_buffer c_trailer] in H.
    unfold decode_data in H. cbv zeta in H. cbn [c_buffer c_trailer] in H.
    destruct (N.leb n (N.of_nat (length rest))) eqn:E1.
    2:{ apply N.leb_gt in E1.
        destruct (N.eqb (n - N.of_nat (length rest)) 0) eqn:Z2; [apply N.eqb_eq in Z2; lia|discriminate]. }
    apply N.leb_le in E1.
    replace (n - N.of_nat (N.to_nat n))%N with 0%N in H by lia. cbn [N.eqb] in H.
    destruct f1 as [|f2]; [lia|]. rewrite chunk_loop_step in H. unfold chunk_step in H.
    cbn [c_phase] in H. unfold decode_terminator in H.
    set (k := N.to_nat n) in *.
    destruct (skipn k rest) as [|x [|y tl]] eqn:Sk; try discriminate.
    { destruct (N.eqb x CR); discriminate. }
    destruct (N.eqb x CR && N.eqb y LF)%bool eqn:XY; [|discriminate].
    apply andb_prop in XY as [X Y]. apply N.eqb_eq in X, Y. subst x y.
    unfold set_cphase in H. cbn [c_buffer c_trailer skipn] in H.
    assert (Hk : k <= length rest) by lia.
    assert (Hrest : rest = firstn k rest ++ CRLF ++ tl).
    { rewrite <- (firstn_skipn k rest) at 1. rewrite Sk. reflexivity. }
    assert (Htl : length rest = k + 2 + length tl).
    { rewrite Hrest at 1. rewrite !app_length, firstn_length. simpl. lia. }
    set (stn := {| c_phase := CSize; c_buffer := c_buffer st ++ firstn k rest;
                   c_trailer := c_trailer st |}) in *.
    rewrite (chunk_loop_fuel f2 (S (S f2)) stn tl _ I) in H by lia.
    assert (Hb' : c_buffer stn = b0 ++ firstn k rest) by (unfold stn; cbn [c_buffer]; rewrite Hb; reflexivity).
    assert (Hlt : length tl < S (S f2)) by lia.
    destruct (IH stn tl _ st1 c (b0 ++ firstn k rest) eq_refl Hb' Ht Hlt H) as [p [H1 [H2 [H3 H4]]]].
    exists (firstn k rest ++ p). split; [lia|]. split; [lia|]. split; [|rewrite H4, app_assoc; reflexivity].
    set (c' := c - (off + (length line + 2) + k + 2)) in *.
    replace (c - off) with (length line + 2 + (k + 2 + c')) by lia.
    assert (Hfn : firstn (length line + 2 + (k + 2 + c')) (line ++ CRLF ++ rest) =
                  line ++ CRLF ++ firstn k rest ++ CRLF ++ firstn c' tl).
    { rewrite app_assoc. rewrite firstn_app.
      replace (length line + 2 + (k + 2 + c') - length (line ++ CRLF)) with (k + 2 + c')
        by (rewrite app_length; simpl; lia).
      rewrite firstn_all2 by (rewrite app_length; simpl; lia). rewrite <- app_assoc. f_equal. f_equal.
      rewrite Hrest at 1. rewrite firstn_app. rewrite firstn_length.
      replace (Nat.min k (length rest)) with k by lia.
      rewrite firstn_all2 by (rewrite firstn_length; lia). f_equal.
      replace (k + 2 + c' - k) with (2 + c') by lia. reflexivity. }
    rewrite Hfn. apply (IC_chunk line n (firstn k rest) (firstn c' tl) p); try assumption.
    rewrite firstn_length. lia.
Qed.

Theorem chunk_decode_sound s st n :
  chunk_decode chunk_init s = (st, Complete n) ->
  IsChunked (firstn n s) (c_buffer st) (c_trailer st).
Proof.
  unfold chunk_decode. intros H.
  destruct (chunk_loop_sound _ chunk_init s 0 st n [] eq_refl eq_refl eq_refl (Nat.lt_succ_diag_r _) H)
    as [p [_ [_ [H3 H4]]]].
  replace (n - 0) with n in H3 by lia. rewrite H4. exact H3.
Qed.

(* the payload of a well-formed chunked body is determined by its bytes (so "exactly the
   payload"), and the grammar is unambiguous *)
Theorem IsChunked_functional c p t p' t' :
  IsChunked c p t -> IsChunked c p' t' -> p = p' /\ t = t'.
Proof.
  intros H1 H2.
  pose proof (chunk_decode_complete c p t [] H1) as E1.
  pose proof (chunk_decode_complete c p' t' [] H2) as E2.
  rewrite E1 in E2. inversion E2. split; reflexivity.
Qed.
