(* HeaderGrammar.v -- the header-block grammar accepted by rhymessage (as used by rhymuweb),
   stated without reference to the parser's loop.

     block   = *field CRLF
     field   = name ":" seg0 CRLF *( cont CRLF )
     name    = *graphic-without-colon            (0x21-0x7E except ':'; may be empty)
     seg0    = *( HT / SP / graphic )
     cont    = ( SP / HT ) *( HT / SP / graphic ) (a folded continuation line; non-empty)

   value(field) = trim( seg0 " " trim(cont1) " " trim(cont2) ... )
   limit: the first line of every field, and the empty line, must fit the line limit with
   their CRLF (continuation lines are not limited -- known finding K1).  *)
From Http Require Import Model.Bytes Model.Headers.

Record field := { f_name : bytes; f_seg0 : bytes; f_conts : list bytes }.

Definition name_ok (n : bytes) : Prop :=
  forallb is_graphic n = true /\ find_byte COLON n = None.

Definition cont_ok (c : bytes) : Prop :=
  match c with
  | b :: _ => is_wsp b = true /\ forallb is_vchar c = true
  | [] => False
  end.

Definition first_line (f : field) : bytes := f_name f ++ [COLON] ++ f_seg0 f.

Definition field_ok (lim : option N) (f : field) : Prop :=
  name_ok (f_name f) /\ forallb is_vchar (f_seg0 f) = true /\
  Forall cont_ok (f_conts f) /\
  over_limit (length (first_line f) + 2) lim = false.

Definition conts_bytes (cs : list bytes) : bytes := flat_map (fun c => c ++ CRLF) cs.

Definition field_bytes (f : field) : bytes := first_line f ++ CRLF ++ conts_bytes (f_conts f).

(* unfolding: each continuation contributes a single space and its trimmed text *)
Definition unfolded (v0 : bytes) (cs : list bytes) : bytes :=
  fold_left (fun v c => v ++ [SP] ++ trim c) cs v0.

Definition field_header (f : field) : header :=
  (f_name f, trim (unfolded (f_seg0 f) (f_conts f))).

Definition header_block (fs : list field) : bytes := flat_map field_bytes fs ++ CRLF.

Definition block_ok (lim : option N) (fs : list field) : Prop :=
  Forall (field_ok lim) fs /\ over_limit 2 lim = false.
