(* C06 -- no input can crash the library.  PARTIAL by nature: what is proved here is that the
   conditions under which the crate's own parsing code would panic are never met in the model
   (slice ranges, `content_length - body.len()`, str slicing at char boundaries, byte-count
   arithmetic); panic-freedom inside rhymuri / flate2 / encoding_rs / rhymessage's generator,
   stack and allocator behaviour are runtime facts, covered by the supervised correspondence
   run (catch_unwind + process-abort detection, overflow checks on and off). *)
From Coq Require Import String.
From Http Require Import Model.Bytes Model.Utf8 Model.Num Model.Request Model.Chunked Model.Response
     Model.Checked Model.Coding Proofs.ReqResume Proofs.ChunkResume Proofs.RespResume Proofs.Safety Proofs.CheckedOk Proofs.CheckedReuse.

(* `&raw_message[total_consumed..]`, `&raw_message[..needed]`: consumed never exceeds the input *)
Theorem C06_request_consumed_within_input :
  forall (uri : Type) (uri_parse : bytes -> option uri) cfg (st : req_state uri) buf st1 c,
    req_parse uri uri_parse cfg st buf = (st1, Complete c) \/
    req_parse uri uri_parse cfg st buf = (st1, Incomplete c) -> c <= length buf.
Proof. exact req_parse_consumed. Qed.
Print Assumptions C06_request_consumed_within_input.

Theorem C06_response_consumed_within_input :
  forall st buf st1 c, rwf st ->
    resp_parse st buf = (st1, Complete c) \/ resp_parse st buf = (st1, Incomplete c) -> c <= length buf.
Proof. exact resp_parse_consumed. Qed.
Print Assumptions C06_response_consumed_within_input.

Theorem C06_chunk_consumed_within_input :
  forall st buf st1 c, cwf st ->
    chunk_decode st buf = (st1, Complete c) \/ chunk_decode st buf = (st1, Incomplete c) -> c <= length buf.
Proof. exact chunk_decode_consumed. Qed.
Print Assumptions C06_chunk_consumed_within_input.

(* `content_length - self.body.len()` cannot underflow: invariant of every reachable state *)
Theorem C06_body_never_longer_than_declared :
  forall (uri : Type) (uri_parse : bytes -> option uri) cfg (st : req_state uri) buf st1 o,
    body_inv uri st -> req_dispatch uri uri_parse cfg st buf = (st1, o) ->
    match o with
    | Reject _ => True
    | _ => body_inv uri st1 /\ length (r_body st1) <= length (r_body st) + length buf
    end.
Proof. exact req_dispatch_inv. Qed.
Print Assumptions C06_body_never_longer_than_declared.

(* the byte count saturates: it never exceeds usize::MAX, whatever is added (no overflow in
   either build mode) *)
Theorem C06_count_saturates :
  forall a b : N, (sat_add a b <= USIZE_MAX)%N.
Proof. intros a b. unfold sat_add. apply N.le_min_r. Qed.
Print Assumptions C06_count_saturates.

(* str slicing (`&line[..i]`, `&line[i+1..]` at a found ' ', ':', ';', '/', '='): both indices
   are char boundaries of the UTF-8-valid line, for multi-byte text at any position *)
Theorem C06_slices_at_char_boundaries :
  forall (s : bytes) (c : N) (i : nat),
    utf8_valid s = true -> (c < 128)%N -> find_byte c s = Some i ->
    char_boundary s i /\ char_boundary s (S i).
Proof. exact ascii_delimiter_boundaries. Qed.
Print Assumptions C06_slices_at_char_boundaries.

(* ---- the checked model (Model/Checked.v): every slice range, str range (char boundaries
   included), usize subtraction and addition, reserve / extend of the crate's own parsing code is
   an explicit partial operation labelled with its source site; the control structure is the
   source's loop over `total_consumed`.  No operation ever fails, for every input, every parser
   state reachable under the documented protocol and every limit configuration, and the checked
   parsers compute exactly what the pure model computes.  The one premise about the machine:
   stored bytes plus presented bytes fit the address space (Vec lengths <= isize::MAX). ---- *)
Theorem C06_request_parse_never_panics :
  forall (uri : Type) (uri_parse : bytes -> option uri) cfg (st : req_state uri) raw,
    req_reach uri uri_parse cfg st -> fits (length (r_body st)) raw ->
    c_req_parse uri uri_parse cfg st raw = COk (req_parse uri uri_parse cfg st raw).
Proof. exact c_req_parse_reachable. Qed.
Print Assumptions C06_request_parse_never_panics.

(* the same for any state that satisfies the invariant (a caller may also build one by hand) *)
Theorem C06_request_parse_never_panics_inv :
  forall (uri : Type) (uri_parse : bytes -> option uri) cfg (st : req_state uri) raw,
    body_inv uri st -> fits (length (r_body st)) raw ->
    c_req_parse uri uri_parse cfg st raw = COk (req_parse uri uri_parse cfg st raw).
Proof. exact c_req_parse_ok. Qed.
Print Assumptions C06_request_parse_never_panics_inv.

Theorem C06_response_parse_never_panics :
  forall st raw, resp_reach st -> resp_fits st raw ->
    exists r, c_resp_parse st raw = COk r /\ roeq r (resp_parse st raw).
Proof. exact c_resp_parse_reachable. Qed.
Print Assumptions C06_response_parse_never_panics.

Theorem C06_response_invariant_kept :
  forall st buf st' c, resp_inv st -> resp_parse st buf = (st', Incomplete c) -> resp_inv st'.
Proof. exact resp_inv_preserved. Qed.
Print Assumptions C06_response_invariant_kept.

Theorem C06_chunk_decode_never_panics :
  forall st raw, cwf st ->
    (N.of_nat (length (c_buffer st)) + N.of_nat (length raw) <= ISIZE_MAX)%N ->
    c_chunk_decode st raw = COk (chunk_decode st raw).
Proof. exact c_chunk_decode_ok. Qed.
Print Assumptions C06_chunk_decode_never_panics.

(* `u16::from(cmf) * 256 + u16::from(flg)` in deflate_decode stays within u16 for all bytes *)
Theorem C06_zlib_sniff_arithmetic :
  forall cmf flg, (cmf < 256)%N -> (flg < 256)%N ->
    c_zlib_check_value cmf flg = COk ((cmf * 256 + flg) mod 31)%N.
Proof. exact c_zlib_check_value_ok. Qed.
Print Assumptions C06_zlib_sniff_arithmetic.

(* ---- a parser value that is kept and fed one message after the other (every call that did not
   answer with a rejection may be followed by another): still no operation fails.  For responses
   this is not obvious -- after a chunked message the value holds a non-empty body while the parser
   is back in its first phase -- and rests on the headers of the finished message staying in the
   collection: the Content-Length that de-chunking added is joined with any new one (two values: a
   text with a comma, rejected; none: exactly the body length). ---- *)
Theorem C06_request_reuse_never_panics :
  forall (uri : Type) (uri_parse : bytes -> option uri) cfg (st : req_state uri) raw,
    req_reach2 uri uri_parse cfg st -> fits (length (r_body st)) raw ->
    c_req_parse uri uri_parse cfg st raw = COk (req_parse uri uri_parse cfg st raw).
Proof. exact c_req_parse_reused. Qed.
Print Assumptions C06_request_reuse_never_panics.

Theorem C06_response_reuse_never_panics :
  forall st raw, resp_reach2 st -> resp_fits st raw ->
    exists r, c_resp_parse st raw = COk r /\ roeq r (resp_parse st raw).
Proof. exact c_resp_parse_reused. Qed.
Print Assumptions C06_response_reuse_never_panics.

Theorem C06_response_reuse_invariant_kept :
  forall st buf st' o, resp_inv2 st -> body_ok st -> resp_parse st buf = (st', o) ->
    match o with Reject _ => True | _ => resp_inv2 st' end.
Proof. exact resp_inv2_preserved. Qed.
Print Assumptions C06_response_reuse_invariant_kept.

(* a second message on a value that has just finished a chunked one: the state is reachable, holds a
   body, and the next message's declared length cannot undercut it *)
Example C06_reuse_after_chunked :
  let m1 := str "HTTP/1.1 200 OK"%string ++ CRLF ++ str "Transfer-Encoding: chunked"%string ++ CRLF ++ CRLF
            ++ str "5"%string ++ CRLF ++ str "hello"%string ++ CRLF ++ str "0"%string ++ CRLF ++ CRLF in
  let m2 := str "HTTP/1.1 200 OK"%string ++ CRLF ++ str "Content-Length: 2"%string ++ CRLF ++ CRLF ++ str "ab"%string in
  let st1 := fst (resp_parse resp_init m1) in
  s_body st1 = str "hello"%string /\ s_phase st1 = SStatusLine
  /\ snd (resp_parse st1 m2) = Reject EInvalidContentLength
  /\ c_resp_parse st1 m2 = COk (resp_parse st1 m2).
Proof. vm_compute. repeat split. Qed.

(* the str slicing of decode_body_as_text and split_at (header values are Strings: valid UTF-8) *)
Theorem C06_split_at_never_panics :
  forall c s, utf8_valid s = true -> (c < 128)%N -> (N.of_nat (length s) <= ISIZE_MAX)%N ->
    c_split_at c s = COk (split_at c s).
Proof. exact c_split_at_ok. Qed.
Print Assumptions C06_split_at_never_panics.

Theorem C06_content_type_split_never_panics :
  forall ct, utf8_valid ct = true -> (N.of_nat (length ct) <= ISIZE_MAX)%N ->
    c_content_type_split ct = COk (match find_byte SEMI ct with
                                   | Some d => (firstn d ct, skipn (S d) ct)
                                   | None => (ct, [])
                                   end).
Proof. exact c_content_type_split_ok. Qed.
Print Assumptions C06_content_type_split_never_panics.

(* non-vacuity: the partial operations do fail when their condition is violated, the checked
   parsers run on real input, and a state that breaks the invariant (body longer than the
   declared length, which no sequence of calls produces) is exactly where the checked model panics *)
Example C06_checked_ops_can_fail :
  ck_subN "s" 2%N 5%N = CPanic "s" /\ ck_from "s" [1%N] 2 = CPanic "s"
  /\ ck_str_to "s" [195%N; 169%N] 1 = CPanic "s" /\ ck_grow "s" 1 ISIZE_MAX = CPanic "s"
  /\ c_zlib_check_value 256%N 0%N = CPanic "coding.rs:deflate_decode:u16::from(*cmf) * 256".
Proof. vm_compute. repeat split. Qed.

Example C06_checked_parsers_run :
  let m := str "POST /a b"%string ++ CRLF in
  let good := str "POST / HTTP/1.1"%string ++ CRLF ++ str "Content-Length: 3"%string ++ CRLF ++ CRLF ++ str "abcd"%string in
  c_req_parse bytes (fun b => Some b) default_cfg req_init good
    = COk (req_parse bytes (fun b => Some b) default_cfg req_init good)
  /\ snd (req_parse bytes (fun b => Some b) default_cfg req_init good) = Complete 41
  /\ c_resp_parse resp_init (str "HTTP/1.1 200 OK"%string ++ CRLF ++ str "Transfer-Encoding: chunked"%string
                             ++ CRLF ++ CRLF ++ str "3;x"%string ++ CRLF ++ str "abc"%string ++ CRLF ++ str "0"%string ++ CRLF ++ CRLF)
    = COk (resp_parse resp_init (str "HTTP/1.1 200 OK"%string ++ CRLF ++ str "Transfer-Encoding: chunked"%string
                             ++ CRLF ++ CRLF ++ str "3;x"%string ++ CRLF ++ str "abc"%string ++ CRLF ++ str "0"%string ++ CRLF ++ CRLF)).
Proof. vm_compute. repeat split. Qed.

(* a state no sequence of calls produces (body longer than the declared length): the checked
   model shows where the source would panic, so the invariant premise is not idle *)
Example C06_invariant_is_needed :
  c_req_parse bytes (fun b => Some b) default_cfg
    {| r_phase := PBody 1; r_method := []; r_target := None; r_headers := []; r_body := [1%N; 2%N]; r_total := 0%N |}
    [3%N]
  = CPanic "request.rs:parse_message_for_body:content_length - self.body.len()".
Proof. vm_compute. reflexivity. Qed.


(* the numeric extremes of the quantifier text, on the model: rejected or waiting, never stuck *)
Example C06_extremes :
  let big := str "POST / HTTP/1.1"%string ++ CRLF ++ str "Content-Length: 18446744073709551615"%string ++ CRLF ++ CRLF in
  snd (req_parse bytes (fun b => Some b) default_cfg req_init big) = Reject EMessageTooLong
  /\ snd (req_parse bytes (fun b => Some b) {| rl := None; hl := None; mm := None |} req_init big) = Incomplete 57
  /\ snd (resp_parse resp_init (str "HTTP/1.1 200 OK"%string ++ CRLF ++ str "Transfer-Encoding: chunked"%string
                                ++ CRLF ++ CRLF ++ str "FFFFFFFFFFFFFFFF"%string ++ CRLF ++ str "x"%string)) = Incomplete 66.
Proof. vm_compute. repeat split. Qed.
