(* CopyMatch.v -- the one-traversal copy used by the model for a match that does not overlap itself
   is the byte-at-a-time copy of RFC 1951 3.2.3 ("a distance/length pair means: move backwards
   distance bytes in the output and copy length bytes from there", one byte at a time, so that a
   match may overlap the bytes it produces).  Positions before the start of the output read as zero
   (flate2's streaming window; see Model/Inflate.v). *)
From Coq Require Import List NArith Arith Bool Lia.
From Http Require Import Model.Bytes Model.Inflate.
Import ListNotations.

Lemma copy_match_nonoverlap : forall len d out,
    len <= d ->
    copy_match len d out = map (fun i => nth i out 0%N) (seq (d - len) len) ++ out.
Proof.
  induction len as [|len IH]; intros d out H.
  - reflexivity.
  - cbn [copy_match]. rewrite IH by lia.
    replace (d - len) with (S (d - S len)) by lia.
    rewrite (seq_S (d - S len) len) || idtac.
    (* seq (S a) len over x :: out  =  seq a len over out, then the element at a + len = d - 1 *)
    assert (E : map (fun i => nth i (nth (pred d) out 0%N :: out) 0%N) (seq (S (d - S len)) len)
                = map (fun i => nth i out 0%N) (seq (d - S len) len)).
    { rewrite <- seq_shift, map_map. apply map_ext. intros i. reflexivity. }
    rewrite E. change (seq (d - S len) (S len)) with (seq (d - S len) (S len)).
    rewrite seq_S, map_app. cbn [map]. rewrite <- app_assoc. cbn [app].
    replace (d - S len + len) with (pred d) by lia. reflexivity.
Qed.

Lemma skipn_S_tail {A} : forall a (out : list A) x rest, skipn a out = x :: rest -> skipn (S a) out = rest.
Proof.
  induction a as [|a IH]; intros out x rest H.
  - cbn in H. subst out. reflexivity.
  - destruct out as [|y out']; [discriminate|]. cbn [skipn] in H. exact (IH _ _ _ H).
Qed.

Lemma window_as_nth : forall len a (out : bytes),
    firstn len (skipn a out) ++ repeat 0%N (len - length (firstn len (skipn a out)))
    = map (fun i => nth i out 0%N) (seq a len).
Proof.
  induction len as [|len IH]; intros a out.
  - reflexivity.
  - destruct (skipn a out) as [|x rest] eqn:E.
    + (* past the end: zeros *)
      cbn [firstn length app Nat.sub]. assert (Ha : length out <= a).
      { destruct (Nat.le_gt_cases (length out) a) as [H|H]; [exact H|]. exfalso.
        assert (length (skipn a out) = length out - a) by apply skipn_length. rewrite E in H0. simpl in H0. lia. }
      cbn [repeat seq map]. rewrite (nth_overflow out) by lia. f_equal.
      specialize (IH (S a) out). assert (E2 : skipn (S a) out = []) by (apply skipn_all2; lia).
      rewrite E2 in IH. cbn [firstn length app Nat.sub] in IH. destruct len; exact IH.
    + cbn [firstn length app Nat.sub seq map].
      assert (Hx : nth a out 0%N = x).
      { rewrite <- (firstn_skipn a out) at 1. rewrite E.
        assert (La : length (firstn a out) = a).
        { apply firstn_length_le. assert (length (skipn a out) = length out - a) by apply skipn_length.
          rewrite E in H. simpl in H. lia. }
        rewrite app_nth2 by lia. rewrite La, Nat.sub_diag. reflexivity. }
      rewrite Hx. f_equal.
      assert (Er : skipn (S a) out = rest).
      { exact (skipn_S_tail _ _ _ _ E). }
      rewrite <- Er. apply IH.
Qed.

Theorem copy_match_fast_is_rfc_copy len d out : copy_match_fast len d out = copy_match len d out.
Proof.
  unfold copy_match_fast. destruct (Nat.leb len d) eqn:E; [|reflexivity].
  apply Nat.leb_le in E. rewrite copy_match_nonoverlap by exact E.
  rewrite app_assoc. f_equal. apply window_as_nth.
Qed.

(* the RFC copy, one byte: the new byte equals the byte d positions back *)
Lemma copy_match_step len d out :
  copy_match (S len) d out = copy_match len d (nth (pred d) out 0%N :: out).
Proof. reflexivity. Qed.

Lemma copy_match_length len : forall d out, length (copy_match len d out) = len + length out.
Proof. induction len as [|len IH]; intros d out; [reflexivity|]. cbn [copy_match]. rewrite IH. simpl. lia. Qed.
