(* ReqResume.v -- Request::parse is resumable (the engine of C01, C08-early, C09). *)
From Coq Require Import Lia ZifyN ZifyNat.
From Http Require Import Model.Bytes Model.Utf8 Model.Num Model.Headers Model.Request
     Proofs.BytesLemmas Proofs.HeadersResume.

(* ---- strip_cr ---- *)
Lemma strip_cr_snoc x y : strip_cr (x ++ [y]) = if N.eqb y CR then x else x ++ [y].
Proof.
  unfold strip_cr. rewrite rev_app_distr. simpl.
  destruct (N.eqb y CR); [apply rev_involutive|reflexivity].
Qed.

Lemma strip_cr_nil : strip_cr [] = [].
Proof. reflexivity. Qed.

Lemma ends_cr_snoc x y : ends_cr (x ++ [y]) = N.eqb y CR.
Proof. apply ends_cr_app_single. Qed.

Lemma strip_cr_length s : length (strip_cr s) <= length s.
Proof.
  destruct s as [|a s'] using rev_ind; [simpl; lia|].
  rewrite strip_cr_snoc. destruct (N.eqb a CR); rewrite ?app_length; simpl; lia.
Qed.

Lemma strip_cr_app_ne a b : b <> [] -> strip_cr (a ++ b) = a ++ strip_cr b.
Proof.
  intros H. destruct b as [|y b'] using rev_ind; [congruence|].
  rewrite app_assoc, !strip_cr_snoc. destruct (N.eqb y CR); [reflexivity|].
  rewrite app_assoc. reflexivity.
Qed.

Lemma strip_cr_decomp a :
  exists t, a = strip_cr a ++ t /\ (t = [] \/ t = [CR]) /\ (t = [] -> ends_cr a = false).
Proof.
  destruct a as [|y a'] using rev_ind.
  - exists []. repeat split; auto.
  - rewrite strip_cr_snoc, ends_cr_snoc. destruct (N.eqb y CR) eqn:E.
    + apply N.eqb_eq in E. subst. exists [CR]. repeat split; auto. discriminate.
    + exists []. rewrite app_nil_r. repeat split; auto.
Qed.

Lemma strip_cr_skipn c a : c <= length (strip_cr a) -> strip_cr (skipn c a) = skipn c (strip_cr a).
Proof.
  destruct a as [|y a'] using rev_ind; intros H.
  - rewrite strip_cr_nil, !skipn_nil. reflexivity.
  - rewrite strip_cr_snoc in *. destruct (N.eqb y CR) eqn:E.
    + rewrite skipn_app_le by lia. rewrite strip_cr_snoc, E. reflexivity.
    + rewrite app_length in H. simpl in H.
      destruct (Nat.eq_dec c (length a' + 1)) as [->|Hne].
      * rewrite !skipn_all2 by (rewrite app_length; simpl; lia). reflexivity.
      * rewrite skipn_app_le by lia. rewrite strip_cr_snoc, E. reflexivity.
Qed.

(* how the stripped buffer grows when bytes are appended *)
Lemma strip_cr_extend a b :
  exists u, strip_cr (a ++ b) = strip_cr a ++ u
            /\ (ends_cr (strip_cr a) && starts_lf u)%bool = false
            /\ forall c, c <= length (strip_cr a) ->
                 strip_cr (skipn c a ++ b) = skipn c (strip_cr a) ++ u.
Proof.
  destruct b as [|b0 b'].
  - exists []. rewrite !app_nil_r. split; [reflexivity|]. split.
    + unfold starts_lf. apply andb_false_r.
    + intros c Hc. rewrite !app_nil_r. apply strip_cr_skipn. exact Hc.
  - remember (b0 :: b') as b eqn:Hb. assert (Hne : b <> []) by (subst; discriminate).
    destruct (strip_cr_decomp a) as [t [Ha [Ht Hends]]].
    exists (t ++ strip_cr b). split; [|split].
    + rewrite strip_cr_app_ne by exact Hne. rewrite Ha at 1. rewrite <- app_assoc. reflexivity.
    + destruct Ht as [->| ->].
      * (* a does not end with CR: strip_cr a = a *)
        rewrite app_nil_r in Ha. rewrite <- Ha. rewrite (Hends eq_refl). reflexivity.
      * simpl. apply andb_false_r.
    + intros c Hc. rewrite strip_cr_app_ne by exact Hne.
      rewrite Ha at 1. rewrite skipn_app_le by exact Hc. rewrite <- app_assoc. reflexivity.
Qed.

Section WithUri.
  Variable uri : Type.
  Variable uri_parse : bytes -> option uri.

  Notation state := (req_state uri).
  Notation D := (req_dispatch uri uri_parse).
  Notation P := (req_parse uri uri_parse).

  (* equal answers; for rejections only the category matters (the state that comes
     with a rejection is never used) *)
  Definition oeq (r1 r2 : state * outcome) : Prop :=
    match r1, r2 with
    | (_, Reject e1), (_, Reject e2) => e1 = e2
    | _, _ => r1 = r2
    end.

  Lemma oeq_refl r : oeq r r.
  Proof. destruct r as [s [c|c|e]]; reflexivity. Qed.

  Lemma oeq_shift k r1 r2 : oeq r1 r2 -> oeq (shift uri k r1) (shift uri k r2).
  Proof.
    destruct r1 as [s1 [c1|c1|e1]], r2 as [s2 [c2|c2|e2]]; simpl; intros H;
      try (inversion H; subst; reflexivity); try discriminate; exact H.
  Qed.

  Lemma shift_shift k1 k2 r : shift uri k1 (shift uri k2 r) = shift uri (k1 + k2) r.
  Proof. destruct r as [s [c|c|e]]; simpl; try reflexivity; f_equal; f_equal; lia. Qed.

  Lemma shift_0 r : shift uri 0 r = r.
  Proof. destruct r as [s [c|c|e]]; reflexivity. Qed.

  (* what appending bytes to the buffer of one call may do to the answer *)
  Definition res_spec (cfg : rcfg) (r_a r_ab : state * outcome) (a b : bytes) : Prop :=
    match r_a with
    | (st1, Complete c) => c <= length a /\ r_ab = (st1, Complete c)
    | (st1, Incomplete c) =>
        c <= length a /\ oeq r_ab (shift uri c (D cfg st1 (skipn c a ++ b)))
    | (_, Reject e) => exists st' e', r_ab = (st', Reject e')
    end.

  Lemma res_spec_shift cfg k a b r_a r_ab :
    k <= length a ->
    res_spec cfg r_a r_ab (skipn k a) b ->
    res_spec cfg (shift uri k r_a) (shift uri k r_ab) a b.
  Proof.
    intros Hk. destruct r_a as [s1 [c|c|e]]; simpl; rewrite ?skipn_length.
    - intros [Hc ->]. split; [lia|reflexivity].
    - intros [Hc H]. split; [lia|].
      rewrite skipn_skipn' in H. rewrite (Nat.add_comm c k) in H.
      rewrite <- shift_shift. apply oeq_shift. exact H.
    - intros [st' [e' ->]]. exists st', e'. reflexivity.
  Qed.

  (* ---- body phase ---- *)
  Lemma req_body_spec cfg st n a b :
    r_phase st = PBody n ->
    res_spec cfg (req_body uri st n a) (req_body uri st n (a ++ b)) a b.
  Proof.
    intros Hph. unfold req_body. cbv zeta.
    set (needed_n := (n - N.of_nat (length (r_body st)))%N).
    destruct (N.leb needed_n (N.of_nat (length a))) eqn:E1.
    - apply N.leb_le in E1. simpl. split; [lia|].
      assert (E2 : N.leb needed_n (N.of_nat (length (a ++ b))) = true)
        by (apply N.leb_le; rewrite app_length; lia).
      rewrite E2. rewrite firstn_app_le by lia. reflexivity.
    - apply N.leb_gt in E1. simpl. split; [lia|].
      rewrite skipn_all. simpl.
      unfold req_dispatch. simpl. rewrite Hph. unfold req_body. cbv zeta. simpl r_body.
      rewrite app_length.
      replace (n - N.of_nat (length (r_body st) + length a))%N
        with (needed_n - N.of_nat (length a))%N by lia.
      destruct (N.leb needed_n (N.of_nat (length (a ++ b)))) eqn:E2.
      + apply N.leb_le in E2. rewrite app_length in E2.
        assert (E3 : N.leb (needed_n - N.of_nat (length a)) (N.of_nat (length b)) = true)
          by (apply N.leb_le; lia).
        rewrite E3. simpl.
        replace (N.to_nat needed_n) with (length a + N.to_nat (needed_n - N.of_nat (length a))) by lia.
        rewrite firstn_app_2. rewrite <- app_assoc. reflexivity.
      + apply N.leb_gt in E2. rewrite app_length in E2.
        assert (E3 : N.leb (needed_n - N.of_nat (length a)) (N.of_nat (length b)) = false)
          by (apply N.leb_gt; lia).
        rewrite E3. simpl. rewrite <- app_assoc, app_length. reflexivity.
  Qed.

  (* ---- byte counting ---- *)
  Lemma count_bytes_assoc cfg t c1 c2 t1 :
    count_bytes cfg t c1 = Some t1 ->
    count_bytes cfg t (c1 + c2) = count_bytes cfg t1 c2.
  Proof.
    unfold count_bytes, sat_add, USIZE_MAX. destruct (mm cfg) as [m|].
    - destruct (N.ltb m (N.min (t + c1) 18446744073709551615)) eqn:E; [discriminate|].
      intros H. inversion H; subst t1. clear H.
      replace (N.min (N.min (t + c1) 18446744073709551615 + c2) 18446744073709551615)
        with (N.min (t + (c1 + c2)) 18446744073709551615) by lia.
      reflexivity.
    - intros H. inversion H; subst t1. f_equal. lia.
  Qed.

  Lemma count_bytes_fail_mono cfg t c1 c2 :
    count_bytes cfg t c1 = None -> count_bytes cfg t (c1 + c2) = None.
  Proof.
    unfold count_bytes, sat_add, USIZE_MAX. destruct (mm cfg) as [m|]; [|discriminate].
    destruct (N.ltb m (N.min (t + c1) 18446744073709551615)) eqn:E; [|discriminate].
    intros _. apply N.ltb_lt in E.
    assert (E2 : N.ltb m (N.min (t + (c1 + c2)) 18446744073709551615) = true) by (apply N.ltb_lt; lia).
    rewrite E2. reflexivity.
  Qed.

  (* ---- header phase ---- *)
  Lemma req_headers_spec cfg st a b :
    res_spec cfg (req_headers uri cfg st a) (req_headers uri cfg st (a ++ b)) a b.
  Proof.
    destruct (strip_cr_extend a b) as [u [Hab [Hside Hskip]]].
    pose proof (strip_cr_length a) as Hlen.
    pose proof (hdr_parse_app (hl cfg) (r_headers st) (strip_cr a) u (or_intror Hside)) as HP.
    unfold req_headers at 1.
    destruct (hdr_parse (hl cfg) (r_headers st) (strip_cr a)) as [hs1 c|hs1 c|e] eqn:E1.
    - (* HComplete *)
      destruct HP as [Hc HP]. unfold req_headers at 1. rewrite Hab, HP.
      destruct (count_bytes cfg (r_total st) (N.of_nat c)) as [t|]; [|simpl; eauto].
      destruct (header_value hs1 CONTENT_LENGTH) as [v|].
      + destruct (parse_dec v) as [n|]; [|simpl; eauto].
        destruct (count_bytes cfg t n) as [t2|]; [|simpl; eauto].
        rewrite skipn_app_le by lia.
        apply res_spec_shift; [lia|]. apply req_body_spec. reflexivity.
      + simpl. split; [lia|reflexivity].
    - (* HIncomplete *)
      destruct HP as [Hc HP].
      assert (Hrest : strip_cr (skipn c a ++ b) = skipn c (strip_cr a) ++ u) by (apply Hskip; exact Hc).
      destruct (count_bytes cfg (r_total st) (N.of_nat c)) as [t1|] eqn:C1.
      + simpl. split; [lia|].
        unfold req_headers at 1. rewrite Hab, HP.
        unfold req_dispatch. simpl r_phase. cbv iota.
        unfold req_headers at 1. simpl r_headers. simpl r_total. rewrite Hrest.
        destruct (hdr_parse (hl cfg) hs1 (skipn c (strip_cr a) ++ u)) as [hs2 c2|hs2 c2|e2]; simpl hshift.
        * rewrite Nat2N.inj_add. rewrite (count_bytes_assoc _ _ _ _ _ C1).
          destruct (count_bytes cfg t1 (N.of_nat c2)) as [t2|]; [|simpl; reflexivity].
          simpl r_method. simpl r_target. simpl r_body.
          destruct (header_value hs2 CONTENT_LENGTH) as [v|].
          -- destruct (parse_dec v) as [n|]; [|simpl; reflexivity].
             destruct (count_bytes cfg t2 n) as [t3|]; [|simpl; reflexivity].
             rewrite shift_shift.
             replace (skipn (c + c2) (a ++ b)) with (skipn c2 (skipn c a ++ b)).
             ++ apply oeq_refl.
             ++ rewrite <- (skipn_app_le c a b) by lia. rewrite skipn_skipn'. f_equal. lia.
          -- simpl. reflexivity.
        * rewrite Nat2N.inj_add. rewrite (count_bytes_assoc _ _ _ _ _ C1).
          destruct (count_bytes cfg t1 (N.of_nat c2)) as [t2|]; simpl; reflexivity.
        * simpl. reflexivity.
      + simpl. unfold req_headers at 1. rewrite Hab, HP.
        destruct (hdr_parse (hl cfg) hs1 (skipn c (strip_cr a) ++ u)) as [hs2 c2|hs2 c2|e2]; simpl hshift.
        * rewrite Nat2N.inj_add, (count_bytes_fail_mono _ _ _ _ C1). eauto.
        * rewrite Nat2N.inj_add, (count_bytes_fail_mono _ _ _ _ C1). eauto.
        * eauto.
    - (* HError *)
      destruct HP as [e' HP]. simpl. unfold req_headers at 1. rewrite Hab, HP. eauto.
  Qed.

  (* ---- request line phase ---- *)
  Lemma req_line_spec cfg st a b :
    r_phase st = PRequestLine ->
    res_spec cfg (req_line uri uri_parse cfg st a) (req_line uri uri_parse cfg st (a ++ b)) a b.
  Proof.
    intros Hph. unfold req_line at 1.
    destruct (find_crlf a) as [e|] eqn:E.
    - pose proof (find_crlf_bound _ _ E) as B.
      unfold req_line at 1. rewrite (find_crlf_app _ b _ E).
      destruct (over_limit e (rl cfg)); [simpl; eauto|].
      rewrite firstn_app_le by lia.
      destruct (negb (utf8_valid (firstn e a))); [simpl; eauto|].
      destruct (count_bytes cfg (r_total st) (N.of_nat (e + 2))) as [t|]; [|simpl; eauto].
      destruct (parse_request_line uri uri_parse (firstn e a)) as [[meth u]|er]; [|simpl; eauto].
      rewrite skipn_app_le by lia.
      apply res_spec_shift; [lia|]. apply req_headers_spec.
    - destruct (over_limit (length (strip_cr a)) (rl cfg)) eqn:O.
      + simpl. unfold req_line at 1.
        destruct (find_crlf (a ++ b)) as [e2|] eqn:E2.
        * assert (length (strip_cr a) <= e2).
          { pose proof (find_crlf_app_none _ _ _ E E2) as H1.
            destruct (strip_cr_decomp a) as [t [Ha [[->| ->] Hends]]].
            - rewrite app_nil_r in Ha. rewrite <- Ha.
              eapply find_crlf_app_none_strict; [exact E| |exact E2].
              rewrite (Hends eq_refl). reflexivity.
            - apply (f_equal (@length N)) in Ha. rewrite app_length in Ha. simpl in Ha. lia. }
          rewrite (over_limit_mono _ _ _ H O). eauto.
        * assert (length (strip_cr a) <= length (strip_cr (a ++ b))).
          { destruct (strip_cr_extend a b) as [u [Hab _]]. rewrite Hab, app_length. lia. }
          rewrite (over_limit_mono _ _ _ H O). eauto.
      + simpl. split; [lia|]. rewrite shift_0.
        unfold req_dispatch. rewrite Hph. apply oeq_refl.
  Qed.

  Lemma req_dispatch_spec cfg st a b :
    res_spec cfg (D cfg st a) (D cfg st (a ++ b)) a b.
  Proof.
    unfold req_dispatch at 1 2. destruct (r_phase st) as [| |n] eqn:Hph.
    - apply req_line_spec. exact Hph.
    - apply req_headers_spec.
    - apply req_body_spec. exact Hph.
  Qed.
End WithUri.
