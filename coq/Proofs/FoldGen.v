(* FoldGen.v -- MessageHeaders::generate with rhymessage's fold_header (Model/Headers.v
   hdr_generate_full) against the generator the round-trip theorems are about (hdr_generate):
   whenever every line fits the limit the two produce the same bytes, so C10 / C11 speak about
   the real generator; and what folding produces in general: pieces within the limit. *)
From Coq Require Import Lia ZifyN ZifyNat.
From Http Require Import Model.Bytes Model.Headers Model.Request.

Lemma header_line_nonempty h : header_line h <> [].
Proof. unfold header_line. destruct (fst h); discriminate. Qed.

Lemma fold_loop_fits f line limit skip acc :
  line <> [] -> (N.of_nat (length line) <= limit)%N ->
  fold_loop (S f) line limit skip acc = Some (acc ++ line ++ CRLF).
Proof.
  intros Hne Hfit. destruct line as [|a t]; [congruence|].
  cbn [fold_loop]. unfold fold_header. apply N.leb_le in Hfit. rewrite Hfit.
  destruct f; reflexivity.
Qed.

Lemma gen_lines_fit limit : forall hs acc,
  forallb (line_fits limit) hs = true ->
  gen_lines limit hs acc = GOk (acc ++ flat_map (fun h => header_line h ++ CRLF) hs ++ CRLF).
Proof.
  induction hs as [|h t IH]; intros acc Hfit.
  - reflexivity.
  - cbn [forallb] in Hfit. apply andb_prop in Hfit as [Hh Ht].
    cbn [gen_lines flat_map]. destruct limit as [l|].
    + unfold line_fits in Hh. apply N.leb_le in Hh.
      assert (Hl : N.ltb l 2 = false) by (apply N.ltb_ge; lia). rewrite Hl.
      rewrite fold_loop_fits; [|apply header_line_nonempty|lia].
      rewrite IH by exact Ht. rewrite <- !app_assoc. reflexivity.
    + rewrite IH by exact Ht. rewrite <- !app_assoc. reflexivity.
Qed.

Theorem hdr_generate_full_agrees limit hs b :
  hdr_generate limit hs = Some b -> hdr_generate_full limit hs = GOk b.
Proof.
  unfold hdr_generate, hdr_generate_full. destruct (forallb (line_fits limit) hs) eqn:E; [|discriminate].
  intros H. inversion H; subst. rewrite gen_lines_fit by exact E. reflexivity.
Qed.

Theorem req_generate_full_agrees cfg meth target hs body b :
  req_generate cfg meth target hs body = Some b -> req_generate_full cfg meth target hs body = GOk b.
Proof.
  unfold req_generate, req_generate_full. destruct (hdr_generate (hl cfg) hs) as [h|] eqn:E; [|discriminate].
  intros H. inversion H; subst. rewrite (hdr_generate_full_agrees _ _ _ E). reflexivity.
Qed.

(* one fold step: the piece written out never exceeds the limit, and the rest is strictly shorter *)
Lemma find_split_aux_bound : forall s idx skip limit best i,
  find_split_aux s idx skip limit best = Some i ->
  (match best with Some b => (N.of_nat b <= limit)%N /\ skip <= b | None => True end) ->
  (N.of_nat i <= limit)%N /\ skip <= i.
Proof.
  induction s as [|a t IH]; intros idx skip limit best i H Hb; cbn [find_split_aux] in H.
  - subst best. exact Hb.
  - eapply IH; [exact H|].
    destruct (Nat.leb skip idx && N.leb (N.of_nat idx) limit && is_wsp a)%bool eqn:E; [|exact Hb].
    apply andb_prop in E as [E _]. apply andb_prop in E as [E1 E2].
    apply Nat.leb_le in E1. apply N.leb_le in E2. split; assumption.
Qed.

Theorem fold_header_piece_within_limit line limit skip part rest :
  fold_header line limit skip = Some (part, rest) ->
  (N.of_nat (length part) <= limit)%N /\ (rest = [] \/ (0 < skip -> length rest < length line)).
Proof.
  unfold fold_header. destruct (N.leb (N.of_nat (length line)) limit) eqn:E.
  - intros H. inversion H; subst. apply N.leb_le in E. split; [exact E|left; reflexivity].
  - destruct (find_split_aux line 0 skip limit None) as [i|] eqn:F; [|discriminate].
    intros H. inversion H; subst. clear H.
    destruct (find_split_aux_bound _ _ _ _ _ _ F I) as [Hi Hs].
    split.
    + rewrite firstn_length. lia.
    + right. intros Hpos. rewrite skipn_length. apply N.leb_gt in E. lia.
Qed.
(* the fuel of fold_loop is never what ends it: with more than |line| rounds the answer does not depend
   on the fuel (each fold leaves a strictly shorter rest), so GCannotFold always stands for a piece that
   fold_header could not split *)
Lemma fold_loop_fuel_irrelevant : forall f1 f2 rest limit skip acc,
  0 < skip -> length rest < f1 -> length rest < f2 ->
  fold_loop f1 rest limit skip acc = fold_loop f2 rest limit skip acc.
Proof.
  induction f1 as [|f1 IH]; intros f2 rest limit skip acc Hs H1 H2; [lia|].
  destruct f2 as [|f2]; [lia|].
  destruct rest as [|a t]; [reflexivity|].
  cbn [fold_loop].
  destruct (fold_header (a :: t) limit skip) as [[part rest']|] eqn:E; [|reflexivity].
  destruct (fold_header_piece_within_limit _ _ _ _ _ E) as [_ [Hr|Hr]].
  - subst rest'. destruct f1, f2; reflexivity.
  - specialize (Hr Hs). apply IH; try lia.
Qed.
