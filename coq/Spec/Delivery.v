(* Delivery.v -- the documented calling protocol as a function: "any unused input
   should be included in the next call along with additional input". *)
From Http Require Import Model.Bytes Model.Request.

Section Feed.
  Variable state : Type.
  Variable P : state -> bytes -> state * outcome.

  Inductive fres :=
  | Done (st : state) (total : nat) (rest : bytes)       (* message complete *)
  | NeedMore (st : state) (total : nat) (pending : bytes)
  | Rejected (e : err).

  (* [pending]: bytes presented but not consumed so far; [ds]: further deliveries *)
  Fixpoint feed (st : state) (pending : bytes) (ds : list bytes) (tot : nat) : fres :=
    match ds with
    | [] => NeedMore st tot pending
    | d :: ds' =>
      let buf := pending ++ d in
      match P st buf with
      | (st', Complete c) => Done st' (tot + c) (skipn c buf)
      | (st', Incomplete c) => feed st' (skipn c buf) ds' (tot + c)
      | (_, Reject e) => Rejected e
      end
    end.

  (* same, also recording the answer of every call (for the correspondence run) *)
  Fixpoint feed_trace (st : state) (pending : bytes) (ds : list bytes) (tot : nat)
    : list outcome * fres :=
    match ds with
    | [] => ([], NeedMore st tot pending)
    | d :: ds' =>
      let buf := pending ++ d in
      match P st buf with
      | (st', Complete c) => ([Complete c], Done st' (tot + c) (skipn c buf))
      | (st', Incomplete c) =>
        let '(tr, r) := feed_trace st' (skipn c buf) ds' (tot + c) in
        (Incomplete c :: tr, r)
      | (_, Reject e) => ([Reject e], Rejected e)
      end
    end.
End Feed.

Arguments Done {state}. Arguments NeedMore {state}. Arguments Rejected {state}.
