(* C02 -- Response parsing is independent of how the bytes are delivered. *)
From Coq Require Import String.
From Http Require Import Model.Bytes Model.Request Model.Chunked Model.Response Spec.Delivery
     Proofs.FeedGeneric Proofs.RespResume Proofs.C02Response Proofs.TrailingData.

(* For every stream and every way of cutting it into a non-empty list of deliveries: both
   accept, with the same status code, reason phrase, final header list and body and the same
   boundary (bytes consumed minus bytes set aside as trailing data) -- [same_response];
   or both ask for more input with the same partial state, total consumed and pending bytes;
   or both reject.  Every framing: declared length, chunked (extensions, trailers), none. *)
Theorem C02_response_delivery_independent :
  forall ds : list bytes,
    ds <> [] ->
    feq resp_state same_response
        (feed _ resp_parse resp_init [] ds 0)
        (feed _ resp_parse resp_init [] [concat ds] 0).
Proof. exact response_delivery_independent. Qed.
Print Assumptions C02_response_delivery_independent.

Check same_response :
  resp_state -> nat -> resp_state -> nat -> Prop.
Check (eq_refl : same_response =
  fun s1 t1 s2 t2 =>
    s_code s1 = s_code s2 /\ s_reason s1 = s_reason s2 /\ s_headers s1 = s_headers s2 /\
    s_body s1 = s_body s2 /\ t1 + length (s_trailer s2) = t2 + length (s_trailer s1)).

(* the trailing data is exactly the delivered (consumed) bytes that follow the boundary,
   verbatim and in order, whatever the delivery schedule *)
Theorem C02_trailing_data_exact :
  forall (ds : list bytes) (st : resp_state) (tot : nat) (rest : bytes),
    feed _ resp_parse resp_init [] ds 0 = Done st tot rest ->
    let boundary := tot - length (s_trailer st) in
    length (s_trailer st) <= tot /\
    s_trailer st = skipn boundary (firstn tot (concat ds)).
Proof.
  intros ds st tot rest H. cbv zeta.
  destruct (feed_trailing_data ds resp_init [] 0 [] st tot rest rwf_init eq_refl eq_refl H)
    as [k [used [_ [Hk [Hu [Hl Ht]]]]]].
  cbn [app] in Hu. subst used.
  assert (Hlen : length (s_trailer st) = tot - k) by (rewrite Ht, skipn_length, Hl; reflexivity).
  split; [rewrite Hlen; apply Nat.le_sub_l|].
  rewrite Hlen. replace (tot - (tot - k)) with k; [exact Ht|].
  symmetry. apply Nat.add_sub_eq_l. apply Nat.sub_add. exact Hk.
Qed.
Print Assumptions C02_trailing_data_exact.

(* the resumption law of one call, all phases including the chunk decoder's sub-states *)
Theorem C02_one_call_resumable :
  forall (st : resp_state) (a b : bytes), rwf st ->
    rspec (resp_parse st a) (resp_parse st (a ++ b)) a b.
Proof. exact resp_parse_spec. Qed.
Print Assumptions C02_one_call_resumable.

(* non-vacuity: chunked response with extension, folded trailer and bytes after the end,
   cut inside the size line, inside the data, between data and CRLF, inside the folded
   trailer field, and after the end *)
Definition ex_resp : bytes :=
  str "HTTP/1.1 200 OK"%string ++ CRLF ++ str "Transfer-Encoding: chunked"%string ++ CRLF ++ CRLF
  ++ str "5;x=y"%string ++ CRLF ++ str "hello"%string ++ CRLF ++ str "0"%string ++ CRLF
  ++ str "A: b"%string ++ CRLF ++ str " c"%string ++ CRLF ++ CRLF ++ str "NEXT"%string.
Definition cut_at (ks : list nat) (s : bytes) : list bytes :=
  (fix go (prev : nat) (ks : list nat) : list bytes :=
     match ks with
     | [] => [skipn prev s]
     | k :: ks' => firstn (k - prev) (skipn prev s) :: go k ks'
     end) 0 ks.
Example C02_example :
  match feed _ resp_parse resp_init [] (cut_at [16; 48; 54; 59; 63; 70; 77] ex_resp) 0,
        feed _ resp_parse resp_init [] [ex_resp] 0 with
  | Done s1 t1 _, Done s2 t2 _ =>
      same_response s1 t1 s2 t2 /\ s_body s1 = str "hello"%string /\ t2 = 76
  | _, _ => False
  end.
Proof. vm_compute. repeat split. Qed.
