(* FoldRoundTrip.v -- what rhymessage's folding generator writes is a header block of the grammar
   (Spec/HeaderGrammar.v: first lines and continuation lines), and for values whose only white space
   is single spaces between graphic characters it unfolds to the very same header list.  With the
   grammar-completeness theorem this gives the parse-back: such headers survive generate -> parse
   whatever their length; what does not survive is confined to tabs and runs of white space at a
   split point (and to values that cannot be split at all): known finding K6. *)
From Coq Require Import Lia ZifyN ZifyNat.
From Http Require Import Model.Bytes Model.Headers Spec.HeaderGrammar
     Proofs.BytesLemmas Proofs.TrimLemmas Proofs.HeaderGrammarProofs Proofs.RoundTrip Proofs.FoldGen.

(* graphic characters separated by single spaces; begins and ends with a graphic character *)
Inductive tight : bytes -> Prop :=
| tight_one b : is_graphic b = true -> tight [b]
| tight_cons b w : is_graphic b = true -> tight w -> tight (b :: w)
| tight_sp b w : is_graphic b = true -> tight w -> tight (b :: SP :: w).

Lemma graphic_not_wsp b : is_graphic b = true -> is_wsp b = false.
Proof.
  unfold is_graphic, is_wsp, between, SP, HT. intros H. apply andb_prop in H as [H1 H2].
  apply N.leb_le in H1. apply N.leb_le in H2.
  destruct (N.eqb_spec b 32), (N.eqb_spec b 9); try lia; reflexivity.
Qed.

Lemma graphic_not_ws b : is_graphic b = true -> is_ws b = false.
Proof.
  unfold is_graphic, is_ws, between. intros H. apply andb_prop in H as [H1 H2].
  apply N.leb_le in H1. apply N.leb_le in H2.
  repeat match goal with
         | |- context [N.leb ?x ?y] => let E := fresh in destruct (N.leb_spec x y) as [E|E]; try lia
         | |- context [N.eqb ?x ?y] => let E := fresh in destruct (N.eqb_spec x y) as [E|E]; try lia
         end; reflexivity.
Qed.

Lemma graphic_vchar b : is_graphic b = true -> is_vchar b = true.
Proof. intros H. unfold is_vchar. rewrite H. apply orb_true_r. Qed.

Lemma tight_vchars w : tight w -> forallb is_vchar w = true.
Proof.
  induction 1 as [b Hb|b w Hb _ IH|b w Hb _ IH]; cbn [forallb]; rewrite ?(graphic_vchar _ Hb), ?IH; reflexivity.
Qed.

Lemma tight_head w : tight w -> exists b t, w = b :: t /\ is_graphic b = true.
Proof. induction 1; eexists; eexists; split; try reflexivity; assumption. Qed.

Lemma tight_last w : tight w -> exists t b, w = t ++ [b] /\ is_graphic b = true.
Proof.
  induction 1 as [b Hb|b w Hb _ [t [c [E Hc]]]|b w Hb _ [t [c [E Hc]]]].
  - exists [], b. split; [reflexivity|exact Hb].
  - exists (b :: t), c. rewrite E. split; [reflexivity|exact Hc].
  - exists (b :: SP :: t), c. rewrite E. split; [reflexivity|exact Hc].
Qed.

(* trimming a tight text preceded by one space gives the text *)
Lemma trim_sp_tight w : tight w -> trim (SP :: w) = w.
Proof.
  intros H. rewrite trim_sp. unfold trim.
  destruct (tight_head w H) as [b [t [E Hb]]].
  assert (Hs : trim_start w = w).
  { unfold trim_start. apply drop_while_noop. rewrite E. apply graphic_not_ws. exact Hb. }
  rewrite Hs. unfold trim_end.
  destruct (tight_last w H) as [t' [c [E' Hc]]].
  rewrite E'. rewrite rev_app_distr. cbn [rev app].
  rewrite drop_while_noop by (apply graphic_not_ws; exact Hc).
  cbn [rev]. rewrite rev_involutive. reflexivity.
Qed.

(* cutting a tight text at one of its spaces leaves two tight texts *)
Lemma tight_split : forall w, tight w -> forall w1 b w2, w = w1 ++ b :: w2 -> is_wsp b = true ->
  b = SP /\ tight w1 /\ tight w2.
Proof.
  induction 1 as [c Hc|c w Hc Hw IH|c w Hc Hw IH]; intros w1 b w2 E Hb.
  - destruct w1 as [|x w1]; cbn [app] in E; inversion E; subst.
    + rewrite (graphic_not_wsp _ Hc) in Hb. discriminate.
    + destruct w1; discriminate.
  - destruct w1 as [|x w1]; cbn [app] in E; inversion E; subst.
    + rewrite (graphic_not_wsp _ Hc) in Hb. discriminate.
    + destruct (IH w1 b w2 eq_refl Hb) as [Eb [T1 T2]]. split; [exact Eb|]. split; [|exact T2].
      apply tight_cons; assumption.
  - destruct w1 as [|x w1]; cbn [app] in E; inversion E; subst.
    + rewrite (graphic_not_wsp _ Hc) in Hb. discriminate.
    + destruct w1 as [|y w1]; cbn [app] in H1; inversion H1; subst.
      * split; [reflexivity|]. split; [apply tight_one; exact Hc|exact Hw].
      * destruct (IH w1 b w2 eq_refl Hb) as [Eb [T1 T2]]. split; [exact Eb|]. split; [|exact T2].
        apply tight_sp; assumption.
Qed.

(* what find_split_aux returns *)
Lemma find_split_aux_spec : forall s idx skip L best i,
  find_split_aux s idx skip L best = Some i ->
  best = Some i \/
  exists k b, i = idx + k /\ nth_error s k = Some b /\ is_wsp b = true /\ skip <= i /\ (N.of_nat i <= L)%N.
Proof.
  induction s as [|a t IH]; intros idx skip L best i H; cbn [find_split_aux] in H.
  - left. exact H.
  - destruct (IH _ _ _ _ _ H) as [E|[k [b [Ei [Hn [Hw [Hs Hl]]]]]]].
    + destruct (Nat.leb skip idx && N.leb (N.of_nat idx) L && is_wsp a)%bool eqn:C.
      * inversion E; subst. right. exists 0, a.
        apply andb_prop in C as [C Hw]. apply andb_prop in C as [C1 C2].
        apply Nat.leb_le in C1. apply N.leb_le in C2.
        repeat split; try assumption; try lia. 
      * left. exact E.
    + right. exists (S k), b. repeat split; try assumption; lia.
Qed.

Lemma nth_error_split' {A} (l : list A) k b : nth_error l k = Some b -> l = firstn k l ++ b :: skipn (S k) l.
Proof.
  revert k. induction l as [|a t IH]; intros k H; [destruct k; discriminate|].
  destruct k as [|k]; cbn in *.
  - inversion H. reflexivity.
  - f_equal. apply IH. exact H.
Qed.

Lemma count_wsp_one b w : is_wsp b = true -> (match w with c :: _ => is_wsp c = false | [] => True end) ->
  count_wsp (b :: w) = 1.
Proof.
  intros Hb Hw. cbn [count_wsp]. rewrite Hb. destruct w as [|c t]; [reflexivity|].
  cbn [count_wsp]. rewrite Hw. reflexivity.
Qed.

(* one fold of text that starts at position [pre] of the line (the name and ": " for the first piece,
   the kept space for a continuation): either it fits, or it is cut at a space of the tight text *)
Lemma fold_header_tight pre w L :
  tight w -> forallb (fun b => negb (is_wsp b)) pre = true \/ True ->
  forall skip, skip = length pre ->
  (forall k b, nth_error pre k = Some b -> k < skip) ->
  fold_header (pre ++ w) L skip = None \/
  fold_header (pre ++ w) L skip = Some (pre ++ w, []) /\ (N.of_nat (length (pre ++ w)) <= L)%N \/
  exists w1 w2, w = w1 ++ SP :: w2 /\ tight w1 /\ tight w2 /\
                fold_header (pre ++ w) L skip = Some (pre ++ w1, SP :: w2) /\
                (N.of_nat (length (pre ++ w1)) <= L)%N.
Proof.
  intros Hw _ skip Hskip _. unfold fold_header.
  destruct (N.leb (N.of_nat (length (pre ++ w))) L) eqn:E.
  - right. left. apply N.leb_le in E. split; [reflexivity|exact E].
  - destruct (find_split_aux (pre ++ w) 0 skip L None) as [i|] eqn:F; [|left; reflexivity].
    right. right.
    destruct (find_split_aux_spec _ _ _ _ _ _ F) as [X|[k [b [Ei [Hn [Hb [Hs Hl]]]]]]]; [discriminate|].
    cbn [plus] in Ei. subst k.
    (* the index lies in w *)
    assert (Hi : length pre <= i) by lia.
    rewrite nth_error_app2 in Hn by exact Hi.
    pose proof (nth_error_split' _ _ _ Hn) as Ew.
    destruct (tight_split w Hw _ _ _ Ew Hb) as [Eb [T1 T2]]. subst b.
    set (w1 := firstn (i - length pre) w) in *. set (w2 := skipn (S (i - length pre)) w) in *.
    exists w1, w2. split; [exact Ew|]. split; [exact T1|]. split; [exact T2|].
    assert (L1 : length w1 = i - length pre).
    { subst w1. rewrite firstn_length. apply nth_error_Some_lt in Hn || idtac.
      assert (i - length pre < length w) by (apply nth_error_Some; rewrite Hn; discriminate). lia. }
    assert (Hf : firstn i (pre ++ w) = pre ++ w1).
    { rewrite Ew. rewrite firstn_app. rewrite firstn_all2 by lia.
      f_equal. rewrite firstn_app. replace (i - length pre - length w1) with 0 by lia.
      cbn [firstn]. rewrite app_nil_r. apply firstn_all2. lia. }
    assert (Hk : skipn i (pre ++ w) = SP :: w2).
    { rewrite Ew. rewrite skipn_app. rewrite skipn_all2 by lia. cbn [app].
      rewrite skipn_app. rewrite skipn_all2 by lia. cbn [app].
      replace (i - length pre - length w1) with 0 by lia. reflexivity. }
    split.
    + rewrite Hk. rewrite count_wsp_one; [|reflexivity|].
      * replace (i + (1 - 1)) with i by lia. rewrite Hf, Hk. reflexivity.
      * destruct (tight_head w2 T2) as [c [t [Ec Hc]]]. rewrite Ec. apply graphic_not_wsp. exact Hc.
    + rewrite app_length, L1. lia.
Qed.

(* the continuation pieces of " w": lines that each start with the kept space, and that unfold to " w" *)
Lemma fold_loop_conts : forall f w L acc out,
  tight w -> fold_loop f (SP :: w) L 1 acc = Some out ->
  exists conts, out = acc ++ conts_bytes conts /\ Forall cont_ok conts /\
                forall v0, unfolded v0 conts = v0 ++ SP :: w.
Proof.
  induction f as [|f IH]; intros w L acc out Hw H; [discriminate|].
  cbn [fold_loop] in H.
  destruct (fold_header_tight [SP] w L Hw (or_intror I) 1 eq_refl) as [E|[[E _]|[w1 [w2 [Ew [T1 [T2 [E _]]]]]]]].
  - intros k b Hn. destruct k as [|k]; [lia|destruct k; discriminate].
  - cbn [app] in E. rewrite E in H. discriminate.
  - cbn [app] in E. rewrite E in H.
    assert (Ho : out = acc ++ (SP :: w) ++ CRLF) by (destruct f; cbn [fold_loop] in H; inversion H; reflexivity).
    exists [SP :: w]. split; [|split].
    + rewrite Ho. unfold conts_bytes. cbn [flat_map]. rewrite app_nil_r. reflexivity.
    + constructor; [|constructor]. split; [reflexivity|]. cbn [forallb]. rewrite (tight_vchars _ Hw). reflexivity.
    + intros v0. unfold unfolded. cbn [fold_left]. rewrite (trim_sp_tight _ Hw). reflexivity.
  - cbn [app] in E. rewrite E in H.
    destruct (IH w2 L _ out T2 H) as [conts [Ho [Hc Hu]]].
    exists ((SP :: w1) :: conts). split; [|split].
    + rewrite Ho. unfold conts_bytes. cbn [flat_map]. rewrite <- !app_assoc. reflexivity.
    + constructor; [|exact Hc]. split; [reflexivity|]. cbn [forallb]. rewrite (tight_vchars _ T1). reflexivity.
    + intros v0. unfold unfolded in *. cbn [fold_left]. rewrite Hu. rewrite (trim_sp_tight _ T1).
      rewrite Ew. rewrite <- !app_assoc. reflexivity.
Qed.

(* a whole header line *)
Definition tight_header (h : header) : Prop := name_ok (fst h) /\ tight (snd h).

Lemma fold_loop_field f h L acc out :
  tight_header h -> length (header_line h) < f ->
  fold_loop f (header_line h) L (length (fst h) + 2) acc = Some out ->
  exists fld, out = acc ++ field_bytes fld /\ field_ok (Some (L + 2)%N) fld /\ field_header fld = h.
Proof.
  intros [Hn Hv] Hf H. destruct h as [name v]. cbn [fst snd] in *.
  destruct f as [|f]; [lia|].
  unfold header_line in H. cbn [fst snd] in H.
  assert (Hne : name ++ [COLON; SP] ++ v <> []) by (destruct name; discriminate).
  assert (Hstep : fold_loop (S f) (name ++ [COLON; SP] ++ v) L (length name + 2) acc =
                  match fold_header (name ++ [COLON; SP] ++ v) L (length name + 2) with
                  | None => None
                  | Some (part, rest') => fold_loop f rest' L 1 (acc ++ part ++ CRLF)
                  end).
  { destruct (name ++ [COLON; SP] ++ v) eqn:E; [congruence|reflexivity]. }
  rewrite Hstep in H. clear Hstep.
  replace (name ++ [COLON; SP] ++ v) with ((name ++ [COLON; SP]) ++ v) in H by (rewrite <- app_assoc; reflexivity).
  destruct (fold_header_tight (name ++ [COLON; SP]) v L Hv (or_intror I) (length name + 2))
    as [E|[[E Hfit]|[v1 [v2 [Ev [T1 [T2 [E Hfit]]]]]]]].
  - rewrite app_length. reflexivity.
  - intros k b Hk. assert (k < length (name ++ [COLON; SP])) by (apply nth_error_Some; rewrite Hk; discriminate).
    rewrite app_length in *. cbn [length] in *. lia.
  - rewrite E in H. discriminate.
  - (* the line fits: one first line, no continuation *)
    rewrite E in H.
    assert (Ho : out = acc ++ ((name ++ [COLON; SP]) ++ v) ++ CRLF) by (destruct f; cbn [fold_loop] in H; inversion H; reflexivity).
    exists {| f_name := name; f_seg0 := SP :: v; f_conts := [] |}. split; [|split].
    + rewrite Ho. unfold field_bytes, first_line, conts_bytes. cbn [f_name f_seg0 f_conts flat_map].
      rewrite app_nil_r. rewrite <- !app_assoc. reflexivity.
    + unfold field_ok, first_line. cbn [f_name f_seg0 f_conts]. split; [exact Hn|]. split.
      * cbn [forallb]. rewrite (tight_vchars _ Hv). reflexivity.
      * split; [constructor|]. unfold over_limit. apply N.ltb_ge.
        repeat (rewrite ?app_length in *; cbn [length] in * ). lia.
    + unfold field_header, unfolded. cbn [f_name f_seg0 f_conts fold_left]. rewrite (trim_sp_tight _ Hv). reflexivity.
  - (* cut at a space of the value *)
    rewrite E in H.
    destruct (fold_loop_conts f v2 L _ out T2 H) as [conts [Ho [Hc Hu]]].
    exists {| f_name := name; f_seg0 := SP :: v1; f_conts := conts |}. split; [|split].
    + rewrite Ho. unfold field_bytes, first_line. cbn [f_name f_seg0 f_conts].
      rewrite <- !app_assoc. reflexivity.
    + unfold field_ok, first_line. cbn [f_name f_seg0 f_conts]. split; [exact Hn|]. split.
      * cbn [forallb]. rewrite (tight_vchars _ T1). reflexivity.
      * split; [exact Hc|]. unfold over_limit. apply N.ltb_ge.
        repeat (rewrite ?app_length in *; cbn [length] in * ). lia.
    + unfold field_header. cbn [f_name f_seg0 f_conts]. rewrite Hu.
      replace ((SP :: v1) ++ SP :: v2) with (SP :: (v1 ++ SP :: v2)) by reflexivity.
      rewrite <- Ev. rewrite (trim_sp_tight _ Hv). reflexivity.
Qed.

(* the whole generator: a header block of the grammar whose fields unfold to the headers given *)
Lemma gen_lines_fields l : forall hs acc b,
  (2 <= l)%N -> Forall tight_header hs -> gen_lines (Some l) hs acc = GOk b ->
  exists fs, b = acc ++ header_block fs /\ Forall (field_ok (Some l)) fs /\ map field_header fs = hs.
Proof.
  induction hs as [|h t IH]; intros acc b Hl Hw H.
  - cbn [gen_lines] in H. inversion H. exists []. split; [reflexivity|]. split; constructor.
  - inversion Hw as [|h' t' Hh Ht]; subst. cbn [gen_lines] in H.
    assert (Hlt : N.ltb l 2 = false) by (apply N.ltb_ge; exact Hl). rewrite Hlt in H.
    destruct (fold_loop (S (length (header_line h))) (header_line h) (l - 2) (length (fst h) + 2) acc) as [acc'|] eqn:E; [|discriminate].
    destruct (fold_loop_field _ h (l - 2)%N acc acc' Hh (Nat.lt_succ_diag_r _) E) as [fld [Ea [Hok Hfh]]].
    destruct (IH acc' b Hl Ht H) as [fs [Eb [Hfs Hm]]].
    exists (fld :: fs). split; [|split].
    + rewrite Eb, Ea. unfold header_block. cbn [flat_map]. rewrite <- !app_assoc. reflexivity.
    + constructor; [|exact Hfs]. replace (l - 2 + 2)%N with l in Hok by lia. exact Hok.
    + cbn [map]. rewrite Hfh, Hm. reflexivity.
Qed.

Theorem folded_block_is_grammatical l hs b :
  (2 <= l)%N -> Forall tight_header hs -> hdr_generate_full (Some l) hs = GOk b ->
  exists fs, b = header_block fs /\ block_ok (Some l) fs /\ map field_header fs = hs.
Proof.
  intros Hl Hw H. destruct (gen_lines_fields l hs [] b Hl Hw H) as [fs [Eb [Hfs Hm]]].
  exists fs. split; [exact Eb|]. split; [|exact Hm]. split; [exact Hfs|].
  unfold over_limit. apply N.ltb_ge. lia.
Qed.

(* and so it parses back to exactly the headers it was generated from, whatever their length *)
Theorem folded_block_parses_back l hs b rest :
  (2 <= l)%N -> Forall tight_header hs -> hdr_generate_full (Some l) hs = GOk b ->
  hdr_parse (Some l) [] (b ++ rest) = HComplete hs (length b).
Proof.
  intros Hl Hw H. destruct (folded_block_is_grammatical l hs b Hl Hw H) as [fs [Eb [Hok Hm]]].
  subst b. rewrite (hdr_parse_complete (Some l) [] fs rest Hok). rewrite Hm. reflexivity.
Qed.

(* ---- whole requests: C10's round trip without the "lines fit the limit" clause, for tight headers ---- *)
From Http Require Import Model.Utf8 Model.Num Model.Request Spec.RequestGrammar Proofs.ReqGrammar.

Section ReqFolded.
  Variable uri : Type.
  Variable uri_parse : bytes -> option uri.
  Variable uri_show : uri -> bytes.

  (* like WfRequest, except that header lines may be of any length: values are graphic characters separated by
     single spaces, and the folding generator succeeds on them *)
  Definition WfRequestFolded (cfg : rcfg) (v : req_value uri) (hb : bytes) : Prop :=
    v_method v <> [] /\ method_ok (v_method v) /\
    uri_ok uri uri_parse uri_show (v_target v) /\
    over_limit (length (request_line (v_method v) (uri_show (v_target v)))) (rl cfg) = false /\
    (exists l, hl cfg = Some l /\ (2 <= l)%N) /\
    Forall tight_header (v_headers v) /\
    hdr_generate_full (hl cfg) (v_headers v) = GOk hb /\
    let head := N.of_nat (length (request_line (v_method v) (uri_show (v_target v))) + 2 + length hb) in
    match header_value (v_headers v) CONTENT_LENGTH with
    | None => v_body v = [] /\ within_max cfg head
    | Some t => exists n, parse_dec t = Some n /\ length (v_body v) = N.to_nat n /\ within_max cfg (head + n)
    end.

  Theorem request_roundtrip_folded cfg v hb :
    WfRequestFolded cfg v hb ->
    exists g st,
      req_generate_full cfg (v_method v) (uri_show (v_target v)) (v_headers v) (v_body v) = GOk g /\
      req_parse uri uri_parse cfg req_init g = (st, Complete (length g)) /\
      value_of uri st (v_target v) = v /\ r_target st = Some (v_target v).
  Proof.
    intros [Hm [Hmg [[Hup [Hune Hug]] [Hrl [[l [Hl Hl2]] [Hhs [Hgen Hbody]]]]]]].
    rewrite Hl in Hgen.
    destruct (folded_block_is_grammatical l (v_headers v) hb Hl2 Hhs Hgen) as [fs [Ehb [Hok Hmap]]].
    unfold req_generate_full. rewrite Hl, Hgen.
    eexists. 
    assert (HI : IsRequest uri uri_parse cfg
                   (v_method v ++ [SP] ++ uri_show (v_target v) ++ [SP] ++ HTTP11 ++ CRLF ++ hb ++ v_body v) v).
    { unfold IsRequest. exists (uri_show (v_target v)), fs.
      destruct (request_line_wellformed _ _ Hmg Hug) as [Hil Hutf].
      split; [|split; [|split; [|split]]].
      - unfold request_line. rewrite Ehb. rewrite <- !app_assoc. reflexivity.
      - unfold request_line_ok. repeat split; try assumption.
        + apply Hmg.
        + apply graphic_no_sp. exact Hug.
      - rewrite Hl. exact Hok.
      - symmetry. exact Hmap.
      - cbv zeta in *. rewrite <- Ehb. exact Hbody. }
    destruct (req_parse_complete uri uri_parse cfg _ v [] HI) as [st [E [Hv Ht]]].
    rewrite app_nil_r in E. exists st. split; [reflexivity|]. split; [exact E|]. split; assumption.
  Qed.
End ReqFolded.
