(* BytesLemmas.v -- facts about searching and slicing byte lists. *)
From Coq Require Import Lia.
From Http Require Import Model.Bytes.

Lemma find_crlf_cons2 a b t :
  find_crlf (a :: b :: t) =
  if (N.eqb a CR && N.eqb b LF)%bool then Some 0 else option_map S (find_crlf (b :: t)).
Proof. reflexivity. Qed.

Lemma find_crlf_nil : find_crlf [] = None.
Proof. reflexivity. Qed.

Lemma find_crlf_single a : find_crlf [a] = None.
Proof. reflexivity. Qed.

Lemma find_crlf_bound s i : find_crlf s = Some i -> i + 2 <= length s.
Proof.
  revert i. induction s as [|a s IH]; intros i H; [discriminate|].
  destruct s as [|b t]; [discriminate|].
  rewrite find_crlf_cons2 in H.
  destruct (N.eqb a CR && N.eqb b LF)%bool.
  - inversion H; subst. simpl. lia.
  - destruct (find_crlf (b :: t)) as [j|] eqn:E; [|discriminate].
    simpl in H. inversion H; subst. specialize (IH j eq_refl). simpl in *. lia.
Qed.

Lemma find_crlf_app s u i : find_crlf s = Some i -> find_crlf (s ++ u) = Some i.
Proof.
  revert i. induction s as [|a s IH]; intros i H; [discriminate|].
  destruct s as [|b t]; [discriminate|].
  change ((a :: b :: t) ++ u) with (a :: b :: (t ++ u)).
  rewrite find_crlf_cons2 in *.
  destruct (N.eqb a CR && N.eqb b LF)%bool; [exact H|].
  destruct (find_crlf (b :: t)) as [j|] eqn:E; [|discriminate].
  change (b :: t ++ u) with ((b :: t) ++ u). rewrite (IH j eq_refl). exact H.
Qed.

(* the pair found is really CR LF, and nothing before it is *)
Lemma find_crlf_at s i :
  find_crlf s = Some i -> skipn i s = CR :: LF :: skipn (i + 2) s.
Proof.
  revert i. induction s as [|a s IH]; intros i H; [discriminate|].
  destruct s as [|b t]; [discriminate|].
  rewrite find_crlf_cons2 in H.
  destruct (N.eqb a CR && N.eqb b LF)%bool eqn:E.
  - inversion H; subst. apply andb_prop in E as [Ea Eb].
    apply N.eqb_eq in Ea, Eb. subst. reflexivity.
  - destruct (find_crlf (b :: t)) as [j|] eqn:F; [|discriminate].
    simpl in H. inversion H; subst. specialize (IH j eq_refl).
    change (skipn (S j) (a :: b :: t)) with (skipn j (b :: t)).
    rewrite IH. reflexivity.
Qed.

(* if s has no CRLF but s ++ u has one, it ends after s: i + 1 >= length s *)
Lemma find_crlf_app_none s u i :
  find_crlf s = None -> find_crlf (s ++ u) = Some i -> length s <= i + 1.
Proof.
  revert i. induction s as [|a s IH]; intros i H1 H2; [simpl; lia|].
  destruct s as [|b t].
  - simpl. lia.
  - change ((a :: b :: t) ++ u) with (a :: b :: (t ++ u)) in H2.
    rewrite find_crlf_cons2 in H1, H2.
    destruct (N.eqb a CR && N.eqb b LF)%bool; [discriminate|].
    destruct (find_crlf (b :: t)) eqn:E1; [discriminate|].
    change (b :: t ++ u) with ((b :: t) ++ u) in H2.
    destruct (find_crlf ((b :: t) ++ u)) as [j|] eqn:E2; [|discriminate].
    simpl in H2. inversion H2; subst.
    specialize (IH j eq_refl eq_refl). simpl in *. lia.
Qed.

(* when s does not end with CR, or u does not start with LF, the CRLF lies inside u *)
Definition ends_cr (s : bytes) : bool :=
  match rev s with b :: _ => N.eqb b CR | [] => false end.
Definition starts_lf (u : bytes) : bool :=
  match u with b :: _ => N.eqb b LF | [] => false end.

Lemma ends_cr_app_single s b : ends_cr (s ++ [b]) = N.eqb b CR.
Proof. unfold ends_cr. rewrite rev_app_distr. reflexivity. Qed.

Lemma find_crlf_app_none_strict s u i :
  find_crlf s = None -> (ends_cr s && starts_lf u)%bool = false ->
  find_crlf (s ++ u) = Some i -> length s <= i.
Proof.
  revert i. induction s as [|a s IH]; intros i H1 Hs H2; [simpl; lia|].
  destruct s as [|b t].
  - (* s = [a] *)
    change ([a] ++ u) with (a :: u) in H2. destruct u as [|c u']; [discriminate|].
    rewrite find_crlf_cons2 in H2.
    destruct (N.eqb a CR && N.eqb c LF)%bool eqn:E.
    + unfold ends_cr, starts_lf in Hs. simpl in Hs. rewrite E in Hs. discriminate.
    + destruct (find_crlf (c :: u')); [|discriminate]. simpl in H2. inversion H2. simpl. lia.
  - change ((a :: b :: t) ++ u) with (a :: b :: (t ++ u)) in H2.
    rewrite find_crlf_cons2 in H1, H2.
    destruct (N.eqb a CR && N.eqb b LF)%bool; [discriminate|].
    destruct (find_crlf (b :: t)) eqn:E1; [discriminate|].
    change (b :: t ++ u) with ((b :: t) ++ u) in H2.
    destruct (find_crlf ((b :: t) ++ u)) as [j|] eqn:E2; [|discriminate].
    simpl in H2. inversion H2; subst.
    assert (Hs' : (ends_cr (b :: t) && starts_lf u)%bool = false).
    { unfold ends_cr in *. simpl rev in *.
      destruct (rev t ++ [b]) as [|x r] eqn:R.
      - destruct (rev t); discriminate.
      - simpl in Hs. exact Hs. }
    specialize (IH j eq_refl Hs' eq_refl). simpl in *. lia.
Qed.

Lemma firstn_app_le {A} (n : nat) (s u : list A) :
  n <= length s -> firstn n (s ++ u) = firstn n s.
Proof.
  intros H. rewrite firstn_app. replace (n - length s) with 0 by lia.
  simpl. apply app_nil_r.
Qed.

Lemma skipn_app_le {A} (n : nat) (s u : list A) :
  n <= length s -> skipn n (s ++ u) = skipn n s ++ u.
Proof.
  intros H. rewrite skipn_app. replace (n - length s) with 0 by lia. reflexivity.
Qed.

Lemma find_byte_bound c s i : find_byte c s = Some i -> i < length s.
Proof.
  revert i. induction s as [|a s IH]; intros i H; [discriminate|].
  simpl in H. destruct (N.eqb a c).
  - inversion H. simpl. lia.
  - destruct (find_byte c s) as [j|]; [|discriminate]. simpl in H. inversion H.
    specialize (IH j eq_refl). simpl. lia.
Qed.

Lemma skipn_skipn' {A} (a b : nat) (l : list A) : skipn a (skipn b l) = skipn (a + b) l.
Proof.
  revert l. induction b as [|b IH]; intros l.
  - rewrite Nat.add_0_r. reflexivity.
  - destruct l as [|x l]; [rewrite !skipn_nil; reflexivity|].
    rewrite Nat.add_succ_r. simpl. apply IH.
Qed.

Lemma find_crlf_firstn s i n :
  find_crlf s = Some i -> i + 2 <= n -> find_crlf (firstn n s) = Some i.
Proof.
  revert i n. induction s as [|a s IH]; intros i n H Hn; [discriminate|].
  destruct s as [|b t]; [discriminate|].
  rewrite find_crlf_cons2 in H.
  destruct n as [|[|n]]; try lia.
  change (firstn (S (S n)) (a :: b :: t)) with (a :: b :: firstn n t).
  rewrite find_crlf_cons2.
  destruct (N.eqb a CR && N.eqb b LF)%bool; [exact H|].
  destruct (find_crlf (b :: t)) as [j|] eqn:E; [|discriminate].
  simpl in H. inversion H; subst.
  change (b :: firstn n t) with (firstn (S n) (b :: t)).
  rewrite (IH j (S n) eq_refl) by lia. reflexivity.
Qed.

Lemma firstn_firstn_le {A} (i n : nat) (l : list A) : i <= n -> firstn i (firstn n l) = firstn i l.
Proof. intros H. rewrite firstn_firstn. f_equal. lia. Qed.

Lemma skipn_firstn_comm' {A} (m n : nat) (l : list A) :
  skipn m (firstn n l) = firstn (n - m) (skipn m l).
Proof.
  revert n l. induction m as [|m IH]; intros n l.
  - rewrite Nat.sub_0_r. reflexivity.
  - destruct n as [|n]; [reflexivity|]. destruct l as [|x l]; [simpl; rewrite firstn_nil; reflexivity|].
    simpl. apply IH.
Qed.

Lemma firstn_plus {A} (n m : nat) (l : list A) :
  firstn (n + m) l = firstn n l ++ firstn m (skipn n l).
Proof.
  revert l. induction n as [|n IH]; intros l; [reflexivity|].
  destruct l as [|x l]; [simpl; rewrite firstn_nil; reflexivity|].
  simpl. f_equal. apply IH.
Qed.

Lemma skipn_app_cons {A} (a : list A) (x : A) (b : list A) : skipn (S (length a)) (a ++ x :: b) = b.
Proof. induction a as [|y a IH]; [reflexivity|]. simpl. exact IH. Qed.

Lemma skipn_app_exact {A} (a b : list A) : skipn (length a) (a ++ b) = b.
Proof. induction a as [|y a IH]; [reflexivity|]. simpl. exact IH. Qed.

Lemma firstn_app_exact {A} (a b : list A) : firstn (length a) (a ++ b) = a.
Proof. induction a as [|y a IH]; [reflexivity|]. simpl. f_equal. exact IH. Qed.
