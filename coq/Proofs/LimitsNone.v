(* LimitsNone.v -- setting a limit to None disables exactly that limit (C08): a run of
   Request::parse that does not trip limit X gives the same answer and the same parser state
   when X is None, the other two limits unchanged. *)
From Coq Require Import Lia ZifyN ZifyNat.
From Http Require Import Model.Bytes Model.Utf8 Model.Num Model.Headers Model.Request
     Proofs.BytesLemmas Proofs.HeadersResume Proofs.ReqResume Proofs.Limits.

(* ---- the header line limit ---- *)
Lemma over_limit_none n : over_limit n None = false.
Proof. reflexivity. Qed.

Lemma hdr_step_no_limit lim s :
  hdr_step lim s = SErr HTooLong \/ hdr_step lim s = hdr_step None s.
Proof.
  unfold hdr_step. destruct s as [|a s']; [right; reflexivity|].
  destruct (find_crlf (a :: s')) as [lt|].
  - destruct (over_limit (lt + 2) lim); [left; reflexivity|right; reflexivity].
  - destruct (over_limit _ lim); [left; reflexivity|right; reflexivity].
Qed.

Lemma hdr_loop_no_limit f lim : forall s acc off,
  hdr_loop f lim s acc off = HError HTooLong \/ hdr_loop f lim s acc off = hdr_loop f None s acc off.
Proof.
  induction f as [|f IH]; intros s acc off; [right; reflexivity|].
  rewrite !hdr_loop_step.
  destruct (hdr_step_no_limit lim s) as [E|E]; rewrite E; [left; reflexivity|].
  destruct (hdr_step None s) as [|e|c|h c]; try (right; reflexivity).
  apply IH.
Qed.

Lemma hdr_parse_no_limit lim hs s :
  hdr_parse lim hs s <> HError HTooLong -> hdr_parse None hs s = hdr_parse lim hs s.
Proof.
  unfold hdr_parse. intros H. destruct (hdr_loop_no_limit (S (length s)) lim s hs 0) as [E|E];
    [contradiction|symmetry; exact E].
Qed.

Section WithUri.
  Variable uri : Type.
  Variable uri_parse : bytes -> option uri.
  Notation D := (req_dispatch uri uri_parse).
  Notation P := (req_parse uri uri_parse).

  Lemma req_headers_no_header_limit cfg st buf :
    snd (req_headers uri cfg st buf) <> Reject (EHeaders HTooLong) ->
    req_headers uri (with_hl cfg None) st buf = req_headers uri cfg st buf.
  Proof.
    unfold req_headers. cbn [hl with_hl]. intros H.
    assert (E : hdr_parse None (r_headers st) (strip_cr buf) = hdr_parse (hl cfg) (r_headers st) (strip_cr buf)).
    { apply hdr_parse_no_limit. intros E. rewrite E in H. apply H. reflexivity. }
    rewrite E. reflexivity.
  Qed.

  Theorem no_header_line_limit cfg st buf :
    snd (P cfg st buf) <> Reject (EHeaders HTooLong) ->
    P (with_hl cfg None) st buf = P cfg st buf.
  Proof.
    intros H.
    assert (HD : D (with_hl cfg None) st buf = D cfg st buf).
    { assert (H' : snd (D cfg st buf) <> Reject (EHeaders HTooLong)).
      { intros E. apply H. rewrite req_parse_eq. destruct (D cfg st buf) as [s1 [k|k|e]]; cbn [snd] in *;
          try discriminate. exact E. }
      clear H. unfold req_dispatch in *. destruct (r_phase st).
      - unfold req_line in *. cbn [rl hl mm with_hl] in *.
        destruct (find_crlf buf) as [e|]; [|reflexivity].
        destruct (over_limit e (rl cfg)); [reflexivity|].
        destruct (negb _); [reflexivity|].
        change (count_bytes (with_hl cfg None)) with (count_bytes cfg).
        destruct (count_bytes cfg _ _) as [t|]; [|reflexivity].
        destruct (parse_request_line _ _ _) as [[m u]|er]; [|reflexivity].
        rewrite req_headers_no_header_limit; [reflexivity|].
        intros E. apply H'. destruct (req_headers uri cfg _ _) as [sh [k|k|eh]]; cbn [snd shift] in *;
          try discriminate. exact E.
      - apply req_headers_no_header_limit. exact H'.
      - reflexivity. }
    rewrite !req_parse_eq. rewrite HD. reflexivity.
  Qed.

  (* ---- the maximum message size ---- *)
  Lemma count_bytes_no_max cfg t c :
    count_bytes cfg t c = None \/ count_bytes cfg t c = count_bytes (with_mm cfg None) t c.
  Proof.
    unfold count_bytes. cbn [mm with_mm]. destruct (mm cfg) as [m|]; [|right; reflexivity].
    destruct (N.ltb m _); [left; reflexivity|right; reflexivity].
  Qed.

  Lemma req_headers_no_max cfg st buf :
    snd (req_headers uri cfg st buf) <> Reject EMessageTooLong ->
    req_headers uri (with_mm cfg None) st buf = req_headers uri cfg st buf.
  Proof.
    unfold req_headers. cbn [hl with_mm].
    destruct (hdr_parse (hl cfg) (r_headers st) (strip_cr buf)) as [hs c|hs c|e]; [| |reflexivity].
    - destruct (count_bytes_no_max cfg (r_total st) (N.of_nat c)) as [E|E]; rewrite E.
      { intros H. exfalso. apply H. reflexivity. }
      destruct (count_bytes (with_mm cfg None) (r_total st) (N.of_nat c)) as [t|]; [|reflexivity].
      destruct (header_value hs CONTENT_LENGTH) as [v|]; [|reflexivity].
      destruct (parse_dec v) as [n|]; [|reflexivity].
      destruct (count_bytes_no_max cfg t n) as [E2|E2]; rewrite E2.
      { intros H. exfalso. apply H. reflexivity. }
      reflexivity.
    - destruct (count_bytes_no_max cfg (r_total st) (N.of_nat c)) as [E|E]; rewrite E.
      { intros H. exfalso. apply H. reflexivity. }
      reflexivity.
  Qed.

  Theorem no_max_message_size cfg st buf :
    snd (P cfg st buf) <> Reject EMessageTooLong ->
    P (with_mm cfg None) st buf = P cfg st buf.
  Proof.
    intros H.
    assert (H' : snd (D cfg st buf) <> Reject EMessageTooLong).
    { intros E. apply H. rewrite req_parse_eq. destruct (D cfg st buf) as [s1 [k|k|e]]; cbn [snd] in *;
        try discriminate. exact E. }
    assert (HD : D (with_mm cfg None) st buf = D cfg st buf).
    { unfold req_dispatch in *. destruct (r_phase st).
      - unfold req_line in *. cbn [rl hl mm with_mm] in *.
        destruct (find_crlf buf) as [e|]; [|reflexivity].
        destruct (over_limit e (rl cfg)); [reflexivity|].
        destruct (negb _); [reflexivity|].
        destruct (count_bytes_no_max cfg (r_total st) (N.of_nat (e + 2))) as [E|E]; rewrite E in *.
        { exfalso. apply H'. reflexivity. }
        destruct (count_bytes (with_mm cfg None) _ _) as [t|]; [|reflexivity].
        destruct (parse_request_line _ _ _) as [[m u]|er]; [|reflexivity].
        rewrite req_headers_no_max; [reflexivity|].
        intros E2. apply H'. destruct (req_headers uri cfg _ _) as [sh [k|k|eh]]; cbn [snd shift] in *;
          try discriminate. exact E2.
      - apply req_headers_no_max. exact H'.
      - reflexivity. }
    rewrite !req_parse_eq. rewrite HD.
    destruct (D cfg st buf) as [s1 [k|k|e]] eqn:E; try reflexivity.
    unfold presented_ok at 1. cbn [mm with_mm].
    destruct (presented_ok cfg (r_total s1) (length buf - k)) eqn:PO; [reflexivity|].
    exfalso. apply H. rewrite req_parse_eq, E, PO. reflexivity.
  Qed.

  (* and for the request-line limit at the level of parse *)
  Theorem no_request_line_limit_parse cfg st buf :
    snd (P cfg st buf) <> Reject ERequestLineTooLong ->
    P (with_rl cfg None) st buf = P cfg st buf.
  Proof.
    intros H.
    assert (H' : snd (D cfg st buf) <> Reject ERequestLineTooLong).
    { intros E. apply H. rewrite req_parse_eq. destruct (D cfg st buf) as [s1 [k|k|e]]; cbn [snd] in *;
        try discriminate. exact E. }
    rewrite !req_parse_eq. rewrite (no_request_line_limit uri uri_parse cfg st buf H'). reflexivity.
  Qed.
End WithUri.
