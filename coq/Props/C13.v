(* C13 -- content decoding inverts every stack of gzip and deflate codings.
   Relative to three facts about the stream decoders (flate2 is not modelled): each inverts
   its encoders; zlib-wrapped streams start with a valid zlib header, bare deflate streams
   produced by encoders do not.  These facts are sampled by the correspondence run. *)
From Coq Require Import String List NArith.
From Http Require Import Model.Bytes Model.Headers Model.Coding Model.Inflate Spec.DeflateStored
     Proofs.Rewrite Proofs.CodingGlue Proofs.InflateC15 Proofs.InflateStored Proofs.HuffmanCanon Proofs.HuffmanFixed Proofs.CopyMatch Proofs.HuffmanFixedLZ Proofs.HuffmanKraft Proofs.HuffmanGen Proofs.HuffmanDyn Proofs.InflateWf Proofs.DeflateStream.
Import ListNotations.

Theorem C13_decode_inverts_every_stack :
  forall (gunzip inflate_raw inflate_zlib : bytes -> option bytes)
         (enc : format -> bytes -> bytes -> Prop),
    (forall d e, enc Gz d e -> gunzip e = Some d) ->
    (forall d e, enc Zl d e -> inflate_zlib e = Some d /\ zlib_header e = true) ->
    (forall d e, enc Raw d e -> inflate_raw e = Some d /\ zlib_header e = false) ->
    forall (hs : list header) (fs : list format) (d e : bytes),
      Enc enc fs d e ->
      header_tokens hs CONTENT_ENCODING = map coding_token fs ->
      exists hs', decode_body gunzip inflate_raw inflate_zlib hs e = Some (hs', d).
Proof. exact decode_inverts_stack. Qed.
Print Assumptions C13_decode_inverts_every_stack.

(* spelling: tokens are compared after trimming and lower-casing, and may be spread over
   several Content-Encoding headers (any letter case of the header name) *)
Example C13_spelling :
  header_tokens [(str "content-ENCODING"%string, str " GZip ,"%string ++ [HT] ++ str "Deflate"%string);
                 (str "X"%string, str "gzip"%string);
                 (str "Content-Encoding"%string, str "deflate  "%string)] CONTENT_ENCODING
  = map coding_token [Gz; Zl; Raw].
Proof. vm_compute. reflexivity. Qed.

(* the zlib header test of the fix (RFC 1950): 78 9C is one, a typical bare stream is not *)
Example C13_sniff :
  zlib_header [120; 156; 75]%N = true /\ zlib_header [120; 1]%N = true /\
  zlib_header [75; 76; 74]%N = false /\ zlib_header [120]%N = false /\ zlib_header [120; 157]%N = false.
Proof. vm_compute. repeat split. Qed.

(* ---- with the model of flate2 (Model/Inflate.v) in place of the decoder parameters ----
   For the stored-block encoders of Spec/DeflateStored.v (DEFLATE "level 0": any partition of the data
   into blocks of at most 65535 bytes; bare, zlib with any valid header, gzip with any header the parser
   accepts) the three decoder facts above are theorems, so every stack of these encodings over every
   body is inverted, with no hypothesis left.  Huffman-coded blocks (levels 1-9) are covered by the
   general theorem above relative to its hypotheses, and by the correspondence run. *)
Theorem C13_stored_encoders_inverted :
  forall (hs : list header) (fs : list format) (d e : bytes),
    Enc stored_enc fs d e ->
    header_tokens hs CONTENT_ENCODING = map coding_token fs ->
    exists hs', decode_body gunzip_model inflate_raw_model inflate_zlib_model hs e = Some (hs', d).
Proof. exact decode_inverts_stored_stack. Qed.
Print Assumptions C13_stored_encoders_inverted.

Theorem C13_stored_gzip : forall d e, stored_gzip d e -> gunzip_model e = Some d.
Proof. exact gzip_stored_inverts. Qed.
Print Assumptions C13_stored_gzip.

Theorem C13_stored_zlib : forall d e, stored_zlib d e -> inflate_zlib_model e = Some d /\ zlib_header e = true.
Proof. exact zlib_stored_inverts. Qed.
Print Assumptions C13_stored_zlib.

Theorem C13_stored_raw : forall d e, stored_raw d e -> inflate_raw_model e = Some d /\ zlib_header e = false.
Proof. exact raw_stored_inverts. Qed.
Print Assumptions C13_stored_raw.

(* non-vacuity: "hi!" in two stored blocks, as a bare stream, then that stream inside a gzip member *)
Definition ex_raw : bytes := store_chunks [[104; 105]; [33]]%N.
Definition ex_gz : bytes := [31; 139; 8; 0; 0; 0; 0; 0; 0; 3]%N ++ store_chunks [ex_raw] ++ [164; 40; 185; 196; 13; 0; 0; 0]%N.
Example C13_stored_example : Enc stored_enc [Raw; Gz] [104; 105; 33]%N ex_gz.
Proof.
  apply (Enc_cons stored_enc Raw [Gz] [104; 105; 33]%N ex_raw ex_gz).
  - exists [[104; 105]; [33]]%N. split; [|split; reflexivity].
    repeat constructor; vm_compute; discriminate.
  - apply (Enc_cons stored_enc Gz [] ex_raw ex_gz ex_gz); [|apply Enc_nil].
    exists [ex_raw], [31; 139; 8; 0; 0; 0; 0; 0; 0; 3]%N, [164; 40; 185; 196; 13; 0; 0; 0]%N.
    split; [repeat constructor; vm_compute; discriminate|].
    split; [vm_compute; reflexivity|].
    split; [intros y; reflexivity|].
    split; [reflexivity|]. split; [vm_compute; reflexivity|]. split; [vm_compute; reflexivity|]. reflexivity.
Qed.

(* ---- Huffman-coded blocks: first steps towards encoders of levels 1-9 ---- *)

(* For EVERY list of code lengths: the canonical code (RFC 1951 3.2.2) of a symbol of length L, written
   most significant bit first, is decoded to that symbol by the model's one-bit-at-a-time decoder, and the
   input is left just behind the code.  The only premise is that the code fits its length, which holds
   whenever the lengths are not over-subscribed.  (bits_of: the bits an input state still presents.) *)
Theorem C13_canonical_code_decodes :
  forall (lens : list N) (sym L : nat) (s : istate) (t : list bool),
    1 <= L -> L <= 15 ->
    nth_error lens sym = Some (N.of_nat L) ->
    (code_value lens sym L < 2 ^ N.of_nat L)%N ->
    bits_of s = code_bits lens sym L ++ t ->
    exists s', dec_sym (mk_table lens) s = Ok sym s' /\ bits_of s' = t.
Proof. exact dec_sym_canonical. Qed.
Print Assumptions C13_canonical_code_decodes.

(* one final block in the fixed code carrying literals only (zlib: Z_FIXED, no matches), specified by its
   bits: any byte string whose bits, least significant first, are 1 1 0, the codes of the bytes, the code of
   end-of-block and fewer than 8 padding bits, decodes to those bytes *)
Theorem C13_fixed_literal_block_inverted :
  forall (e d : bytes) (pad : list bool),
    Forall (fun b => (b < 256)%N) d ->
    flat_map byte_bits e = [true; true; false] ++ lit_bits d ++ pad ->
    length pad < 8 ->
    inflate_raw_model e = Some d.
Proof. exact fixed_literal_block_inverts. Qed.
Print Assumptions C13_fixed_literal_block_inverted.

(* non-vacuity: what zlib (level 6, Z_FIXED) emits for "abc" is such a byte string *)
Example C13_fixed_block_example :
  exists pad, length pad < 8 /\
    flat_map byte_bits [75; 76; 74; 6; 0]%N = [true; true; false] ++ lit_bits [97; 98; 99]%N ++ pad.
Proof. exists [false; false; false; false; false; false]. split; [simpl; repeat constructor|]. vm_compute. reflexivity. Qed.

(* one final block in the fixed code with literals AND matches (zlib: Z_FIXED at any level), for ANY choice
   of matches: the symbols are literals and (length symbol, extra bits, distance symbol, extra bits); the
   decoder returns what RFC 1951's byte-at-a-time copy (copy_match; a match may overlap what it produces)
   assigns to the sequence.  The model's one-traversal copy is proved equal to that copy. *)
Theorem C13_fixed_block_inverted :
  forall (e : bytes) (xs : list fsym) (pad : list bool),
    Forall fsym_ok xs ->
    flat_map byte_bits e = [true; true; false] ++ block_bits xs ++ pad ->
    length pad < 8 ->
    inflate_raw_model e = Some (rev (fold_left fsym_apply xs [])).
Proof. exact fixed_block_inverts. Qed.
Print Assumptions C13_fixed_block_inverted.

Theorem C13_fast_copy_is_rfc_copy :
  forall len d out, copy_match_fast len d out = copy_match len d out.
Proof. exact copy_match_fast_is_rfc_copy. Qed.
Print Assumptions C13_fast_copy_is_rfc_copy.

(* non-vacuity: zlib (level 6, Z_FIXED) on "abcabcabcabc": four literals and one match of length 8 at
   distance 3, which overlaps itself *)
Example C13_fixed_block_lz_example :
  let xs := [FLit 97; FLit 98; FLit 99; FLit 97; FMatch 262 0 2 0]%N in
  Forall fsym_ok xs /\
  (exists pad, length pad < 8 /\
     flat_map byte_bits [75; 76; 74; 78; 132; 33; 0]%N = [true; true; false] ++ block_bits xs ++ pad) /\
  rev (fold_left fsym_apply xs []) = [97; 98; 99; 97; 98; 99; 97; 98; 99; 97; 98; 99]%N.
Proof.
  split; [|split].
  - repeat constructor; vm_compute; try reflexivity; repeat constructor.
  - eexists. split; [|vm_compute; reflexivity]. simpl. repeat constructor.
  - vm_compute. reflexivity.
Qed.

(* every table the decoder accepts (not over-subscribed) decodes the canonical code of each of its symbols:
   the Kraft bound gives "the code fits its length" *)
Theorem C13_accepted_table_decodes :
  forall (b : bool) (lens : list N) (sym L : nat) (s : istate) (t : list bool),
    table_ok b (mk_table lens) = true -> 1 <= L -> L <= 15 ->
    nth_error lens sym = Some (N.of_nat L) ->
    bits_of s = code_bits lens sym L ++ t ->
    exists s', dec_sym (mk_table lens) s = Ok sym s' /\ bits_of s' = t.
Proof. exact dec_sym_accepted_table. Qed.
Print Assumptions C13_accepted_table_decodes.

(* a final block with a DYNAMIC header, for any header an encoder may write (any HLIT / HDIST / HCLEN, any
   code-length code, any run-length coding of the lengths with the symbols 16, 17, 18), any pair of tables
   the decoder accepts, any literals and matches coded with them: specified by its bits, it decodes to RFC
   1951's copy semantics of its symbols.  This is what zlib emits at levels 1-9 for a body of one block. *)
Theorem C13_dynamic_block_inverted :
  forall (e : bytes) (h : dyn_header) (lens : list N) (xs : list fsym) (pad : list bool),
    header_ok h lens ->
    let litlens := firstn (d_hlit h) lens in
    let distlens := skipn (d_hlit h) lens in
    Forall (gsym_ok litlens distlens) xs -> has_code litlens 256 ->
    flat_map byte_bits e = [true; false; true] ++ header_bits h ++ gblock_bits litlens distlens xs ++ pad ->
    length pad < 8 ->
    inflate_raw_model e = Some (rev (fold_left fsym_apply xs [])).
Proof. exact dynamic_block_inverts. Qed.
Print Assumptions C13_dynamic_block_inverted.

(* ---- C13 in full, over the model of flate2: no hypothesis about the decoders is left ----
   A DEFLATE stream is ANY sequence of stored, fixed-code and dynamic-header blocks (Ser: the bits of the
   blocks in order; a stored block's LEN starts at a byte boundary after arbitrary padding bits; fewer than
   8 padding bits end the stream), with any symbols and any tables the decoder accepts (block_ok).  Its
   meaning is RFC 1951's: literals append a byte, a match copies byte by byte from `distance` back. *)
Theorem C13_deflate_stream_inverted :
  forall (e : bytes) (bs : list block),
    bytes_ok e -> Ser bs (flat_map byte_bits e) -> Forall block_ok bs ->
    inflate_fuel (fuel_for e) e = Ok (rev (fold_left block_apply bs [])) ([], []).
Proof. exact deflate_stream_inverts. Qed.
Print Assumptions C13_deflate_stream_inverted.

(* every stack of gzip (RFC 1952, any member header the parser accepts), zlib (RFC 1950, any valid header)
   and bare deflate codings, by ANY conforming encoder (any level, any block structure, any header
   options), over every body, is inverted by decode_body *)
Theorem C13_every_rfc_encoding_inverted :
  forall (hs : list header) (fs : list format) (d e : bytes),
    Enc rfc_enc fs d e ->
    header_tokens hs CONTENT_ENCODING = map coding_token fs ->
    exists hs', decode_body gunzip_model inflate_raw_model inflate_zlib_model hs e = Some (hs', d).
Proof. exact decode_inverts_every_rfc_stack. Qed.
Print Assumptions C13_every_rfc_encoding_inverted.

(* non-vacuity: zlib (Z_FIXED) on "abc" with a sync flush in the middle: a non-final fixed block, an empty
   non-final stored block behind 3 padding bits, a final empty fixed block and 6 padding bits *)
Example C13_three_block_stream :
  let e := [74; 76; 74; 6; 0; 0; 0; 255; 255; 3; 0]%N in
  let bs := [BFixed [FLit 97; FLit 98; FLit 99]; BStored []; BFixed []]%N in
  bytes_ok e /\ Forall block_ok bs /\ Ser bs (flat_map byte_bits e) /\
  rev (fold_left block_apply bs []) = [97; 98; 99]%N.
Proof.
  split; [repeat constructor|]. split.
  - repeat constructor; vm_compute; discriminate.
  - split; [|vm_compute; reflexivity].
    change (flat_map byte_bits [74; 76; 74; 6; 0; 0; 0; 255; 255; 3; 0]%N)
      with ([false] ++ huff_bits (BFixed [FLit 97; FLit 98; FLit 99]%N)
            ++ ([false; false; false] ++ [false; false; false] ++ flat_map byte_bits (stored_bytes [])
                ++ ([true] ++ huff_bits (BFixed []) ++ [false; false; false; false; false; false]))).
    apply Ser_huff; [reflexivity|]. apply Ser_stored; [simpl; repeat constructor | reflexivity |].
    apply Ser_last_huff; [reflexivity | simpl; repeat constructor].
Qed.
