(* C12 -- after de-chunking, the response headers describe the decoded body. *)
From Coq Require Import String.
From Http Require Import Model.Bytes Model.Num Model.Headers Model.Request Model.Chunked
     Model.Response Proofs.HeaderAlgebra Proofs.Rewrite Proofs.TokenRoundTrip.

(* H: the headers as parsed; T: the trailer fields; body: the decoded body.  The parser
   stores [dechunk_headers H T body] (C12_parser_stores_rewrite). *)

Theorem C12_content_length :
  forall (H T : list header) (body : bytes),
    header_value H CONTENT_LENGTH = None ->      (* chunked framing is chosen only then *)
    header_multi_value (dechunk_headers H T body) CONTENT_LENGTH
    = [show_dec (N.of_nat (length body))].
Proof. exact dechunk_content_length. Qed.
Print Assumptions C12_content_length.

(* the final coding (last non-empty list element) is removed, every other listed coding
   stays, in order, in ONE header joined with ", "; no header when none remain *)
Theorem C12_transfer_encoding :
  forall (H T : list header) (body : bytes),
    let toks := removelast (filter nonempty (header_tokens H TRANSFER_ENCODING)) in
    header_multi_value (dechunk_headers H T body) TRANSFER_ENCODING =
    match toks with [] => [] | _ => [join [COMMA; SP] toks] end.
Proof. exact dechunk_transfer_encoding. Qed.
Print Assumptions C12_transfer_encoding.

(* ... and tokenising that header gives back exactly those codings: the final coding is no longer
   listed, every other listed coding is, in its original order *)
Theorem C12_codings_listed :
  forall (H T : list header) (body : bytes),
    header_tokens (dechunk_headers H T body) TRANSFER_ENCODING =
    removelast (filter nonempty (header_tokens H TRANSFER_ENCODING)).
Proof. exact dechunk_codings_listed. Qed.
Print Assumptions C12_codings_listed.

Theorem C12_no_trailer_header :
  forall (H T : list header) (body : bytes), has_header (dechunk_headers H T body) TRAILER = false.
Proof. exact dechunk_no_trailer. Qed.
Print Assumptions C12_no_trailer_header.

(* all other headers: originals then non-framing trailer fields, order and values kept *)
Theorem C12_other_headers :
  forall (H T : list header) (body : bytes),
    filter (outside FRAMING) (dechunk_headers H T body)
    = filter (outside FRAMING) H ++ filter (outside FRAMING) T.
Proof. exact dechunk_others. Qed.
Print Assumptions C12_other_headers.

(* framing fields in the trailer (any letter case) cannot alter the framing description *)
Theorem C12_trailer_framing_fields_ignored :
  forall (H T : list header) (body : bytes),
    dechunk_headers H T body =
    dechunk_headers H (filter (fun h => negb (is_framing_name (fst h))) T) body.
Proof. exact dechunk_trailer_framing_ignored. Qed.
Print Assumptions C12_trailer_framing_fields_ignored.

Theorem C12_parser_stores_rewrite :
  forall (st : resp_state) (cs : chunk_state) (buf : bytes) (st1 : resp_state) (c : nat),
    resp_chunked st cs buf = (st1, Complete c) ->
    exists cs', chunk_decode cs buf = (cs', Complete c) /\
                s_headers st1 = dechunk_headers (s_headers st) (c_trailer cs') (c_buffer cs') /\
                s_body st1 = c_buffer cs'.
Proof. exact resp_chunked_headers. Qed.
Print Assumptions C12_parser_stores_rewrite.

(* non-vacuity, incl. the three defects repaired by the fix commits: trailer Content-Length,
   several codings, trailing empty list elements *)
Example C12_example :
  let H := [(str "Transfer-Encoding"%string, str "gzip, deflate"%string);
            (str "X"%string, str "1"%string);
            (str "transfer-encoding"%string, str "Chunked,,"%string);
            (str "Trailer"%string, str "Y"%string)] in
  let T := [(str "content-length"%string, str "999"%string); (str "Y"%string, str "2"%string)] in
  dechunk_headers H T (str "hello"%string) =
  [(str "Transfer-Encoding"%string, str "gzip, deflate"%string); (str "X"%string, str "1"%string);
   (str "Y"%string, str "2"%string); (str "Content-Length"%string, str "5"%string)].
Proof. vm_compute. reflexivity. Qed.
