(* Response.v -- model of rhymuweb::Response::{new, parse, generate} (src/response.rs). *)
From Coq Require Import String.
From Http Require Import Model.Bytes Model.Utf8 Model.Num Model.Headers Model.Request
     Model.Chunked.

Inductive sphase :=
| SStatusLine | SHeaders | SFixedBody (n : N) | SChunkedBody (c : chunk_state).

Record resp_state := {
  s_phase : sphase;
  s_code : N;
  s_reason : bytes;
  s_headers : list header;
  s_body : bytes;
  s_trailer : bytes          (* bytes presented after a Content-Length body *)
}.

Definition resp_init : resp_state :=
  {| s_phase := SStatusLine; s_code := 200%N; s_reason := str "OK"%string;
     s_headers := []; s_body := []; s_trailer := [] |}.

(* parse_status_line *)
Definition parse_status_line (line : bytes) : (N * bytes) + err :=
  match find_byte SP line with
  | None => inr EStatusLineNoProtocolDelimiter
  | Some pd =>
    if negb (bytes_eqb (firstn pd line) HTTP11) then inr EStatusLineProtocol else
    let at_code := skipn (S pd) line in
    match find_byte SP at_code with
    | None => inr EStatusLineNoStatusCodeDelimiter
    | Some cd =>
      match parse_dec (firstn cd at_code) with
      | None => inr EInvalidStatusCode
      | Some code =>
        if N.ltb code 1000 then inl (code, skipn (S cd) at_code)
        else inr EStatusCodeOutOfRange
      end
    end
  end.

Definition is_framing_name (n : bytes) : bool :=
  (name_eq n CONTENT_LENGTH || name_eq n TRANSFER_ENCODING || name_eq n TRAILER)%bool.

Definition nonempty (b : bytes) : bool := match b with [] => false | _ => true end.

(* header rewriting after the chunked body completes (after F7) *)
Definition dechunk_headers (hs : list header) (trailer : list header) (body : bytes)
  : list header :=
  let hs1 := hs ++ filter (fun h => negb (is_framing_name (fst h))) trailer in
  let toks := removelast (filter nonempty (header_tokens hs1 TRANSFER_ENCODING)) in
  let hs2 := match toks with
             | [] => remove_header hs1 TRANSFER_ENCODING
             | _ => set_header hs1 TRANSFER_ENCODING (join [COMMA; SP] toks)
             end in
  remove_header
    (add_header hs2 (CONTENT_LENGTH, show_dec (N.of_nat (length body)))) TRAILER.

Definition rshift (k : nat) (r : resp_state * outcome) : resp_state * outcome :=
  match r with
  | (st, Complete c) => (st, Complete (k + c))
  | (st, Incomplete c) => (st, Incomplete (k + c))
  | (st, Reject e) => (st, Reject e)
  end.

(* parse_message_for_fixed_body: consumes everything presented *)
Definition resp_fixed (st : resp_state) (n : N) (buf : bytes) : resp_state * outcome :=
  let needed_n := (n - N.of_nat (length (s_body st)))%N in
  if N.leb needed_n (N.of_nat (length buf)) then
    let needed := N.to_nat needed_n in
    ({| s_phase := SFixedBody n; s_code := s_code st; s_reason := s_reason st;
        s_headers := s_headers st; s_body := s_body st ++ firstn needed buf;
        s_trailer := s_trailer st ++ skipn needed buf |}, Complete (length buf))
  else
    ({| s_phase := SFixedBody n; s_code := s_code st; s_reason := s_reason st;
        s_headers := s_headers st; s_body := s_body st ++ buf;
        s_trailer := s_trailer st |}, Incomplete (length buf)).

(* parse_message_for_chunked_body *)
Definition resp_chunked (st : resp_state) (cs : chunk_state) (buf : bytes)
  : resp_state * outcome :=
  match chunk_decode cs buf with
  | (_, Reject e) => (st, Reject e)
  | (cs', Incomplete c) =>
    ({| s_phase := SChunkedBody cs'; s_code := s_code st; s_reason := s_reason st;
        s_headers := s_headers st; s_body := s_body st; s_trailer := s_trailer st |},
     Incomplete c)
  | (cs', Complete c) =>
    ({| s_phase := SStatusLine; s_code := s_code st; s_reason := s_reason st;
        s_headers := dechunk_headers (s_headers st) (c_trailer cs') (c_buffer cs');
        s_body := c_buffer cs'; s_trailer := s_trailer st |}, Complete c)
  end.

(* parse_message_for_headers and what follows *)
Definition resp_headers (st : resp_state) (buf : bytes) : resp_state * outcome :=
  match hdr_parse None (s_headers st) buf with
  | HError e => (st, Reject (EHeaders e))
  | HIncomplete hs c =>
    ({| s_phase := SHeaders; s_code := s_code st; s_reason := s_reason st;
        s_headers := hs; s_body := s_body st; s_trailer := s_trailer st |},
     Incomplete c)
  | HComplete hs c =>
    let st1 := {| s_phase := SHeaders; s_code := s_code st; s_reason := s_reason st;
                  s_headers := hs; s_body := s_body st; s_trailer := s_trailer st |} in
    match header_value hs CONTENT_LENGTH with
    | Some v =>
      match parse_dec v with
      | None => (st, Reject EInvalidContentLength)
      | Some n => rshift c (resp_fixed st1 n (skipn c buf))
      end
    | None =>
      if has_header_token hs TRANSFER_ENCODING CHUNKED
      then rshift c (resp_chunked st1 chunk_init (skipn c buf))
      else (st1, Complete c)
    end
  end.

(* parse_message_for_status_line and what follows *)
Definition resp_line (st : resp_state) (buf : bytes) : resp_state * outcome :=
  match find_crlf buf with
  | None => (st, Incomplete 0)
  | Some e =>
    let line := firstn e buf in
    if negb (utf8_valid line) then (st, Reject EStatusLineNotValidText) else
    match parse_status_line line with
    | inr er => (st, Reject er)
    | inl (code, reason) =>
      rshift (e + 2)
        (resp_headers
           {| s_phase := SHeaders; s_code := code; s_reason := reason;
              s_headers := s_headers st; s_body := s_body st;
              s_trailer := s_trailer st |}
           (skipn (e + 2) buf))
    end
  end.

(* Response::parse: one call *)
Definition resp_parse (st : resp_state) (buf : bytes) : resp_state * outcome :=
  match s_phase st with
  | SStatusLine => resp_line st buf
  | SHeaders => resp_headers st buf
  | SFixedBody n => resp_fixed st n buf
  | SChunkedBody cs => resp_chunked st cs buf
  end.

(* Response::generate (no line limit on a response's headers unless the caller
   sets one; modelled for limit = None) *)
Definition resp_generate (code : N) (reason : bytes) (hs : list header) (body : bytes)
  : bytes :=
  HTTP11 ++ [SP] ++ show_dec code ++ [SP] ++ reason ++ CRLF
  ++ hdr_generate_nolimit hs ++ body.
