//! Correspondence harness: runs the real rhymuweb (built from /repo's working tree)
//! on case files and serves the dependency oracles (rhymuri, flate2, encoding_rs)
//! to the extracted Coq model.
//!
//! modes:  run <cases> <out>   supervisor: spawns workers, detects process aborts
//!         worker              cases on stdin, one result line per case on stdout
//!         oracle              oracle queries on stdin, answers on stdout

use rhymessage::{Header, MessageHeaders};
use rhymuri::Uri;
use rhymuweb::{
    coding, Error, Request, RequestParseStatus, Response, ResponseParseStatus,
};
use std::alloc::{GlobalAlloc, Layout, System};
use std::io::{BufRead, BufReader, Read, Write};
use std::panic::{catch_unwind, AssertUnwindSafe};
use std::sync::atomic::{AtomicBool, AtomicUsize, Ordering::SeqCst};

// ---------- counting allocator ----------
struct Counting;
static ACTIVE: AtomicBool = AtomicBool::new(false);
static LIVE: AtomicUsize = AtomicUsize::new(0);
static PEAK: AtomicUsize = AtomicUsize::new(0);
static MAXREQ: AtomicUsize = AtomicUsize::new(0);
const REFUSE_ABOVE: usize = 1 << 30;

impl Counting {
    fn note(&self, size: usize) {
        if ACTIVE.load(SeqCst) {
            MAXREQ.fetch_max(size, SeqCst);
            let live = LIVE.fetch_add(size, SeqCst) + size;
            PEAK.fetch_max(live, SeqCst);
        }
    }
}
unsafe impl GlobalAlloc for Counting {
    unsafe fn alloc(&self, l: Layout) -> *mut u8 {
        if l.size() > REFUSE_ABOVE {
            MAXREQ.fetch_max(l.size(), SeqCst);
            return std::ptr::null_mut();
        }
        self.note(l.size());
        System.alloc(l)
    }
    unsafe fn dealloc(&self, p: *mut u8, l: Layout) {
        if ACTIVE.load(SeqCst) {
            let _ = LIVE.fetch_update(SeqCst, SeqCst, |v| Some(v.saturating_sub(l.size())));
        }
        System.dealloc(p, l)
    }
    unsafe fn realloc(&self, p: *mut u8, l: Layout, new: usize) -> *mut u8 {
        if new > REFUSE_ABOVE {
            MAXREQ.fetch_max(new, SeqCst);
            return std::ptr::null_mut();
        }
        if ACTIVE.load(SeqCst) {
            MAXREQ.fetch_max(new, SeqCst);
            if new > l.size() {
                let live = LIVE.fetch_add(new - l.size(), SeqCst) + (new - l.size());
                PEAK.fetch_max(live, SeqCst);
            } else {
                let _ = LIVE.fetch_update(SeqCst, SeqCst, |v| Some(v.saturating_sub(l.size() - new)));
            }
        }
        System.realloc(p, l, new)
    }
}
#[global_allocator]
static GLOBAL: Counting = Counting;

fn measure<T>(f: impl FnOnce() -> T) -> T {
    ACTIVE.store(true, SeqCst);
    let r = f();
    ACTIVE.store(false, SeqCst);
    r
}
fn reset_alloc() {
    LIVE.store(0, SeqCst);
    PEAK.store(0, SeqCst);
    MAXREQ.store(0, SeqCst);
}

// ---------- hex ----------
fn hex(b: &[u8]) -> String {
    let mut s = String::with_capacity(b.len() * 2);
    for x in b {
        s.push_str(&format!("{:02x}", x));
    }
    s
}
fn unhex(s: &str) -> Vec<u8> {
    let s = s.trim();
    if s == "." || s == "-" {
        return Vec::new();
    }
    let b = s.as_bytes();
    let mut v = Vec::with_capacity(b.len() / 2);
    let mut i = 0;
    while i + 1 < b.len() {
        v.push(u8::from_str_radix(&s[i..i + 2], 16).expect("hex"));
        i += 2;
    }
    v
}
fn opt_limit(s: &str) -> Option<usize> {
    if s == "-" {
        None
    } else {
        Some(s.parse::<usize>().expect("limit"))
    }
}
fn deliveries(s: &str) -> Vec<Vec<u8>> {
    s.split(',').map(unhex).collect()
}
fn parse_headers(s: &str) -> Vec<(String, String)> {
    if s == "-" || s.is_empty() {
        return Vec::new();
    }
    s.split(';')
        .map(|nv| {
            let mut it = nv.splitn(2, ':');
            let n = unhex(it.next().unwrap());
            let v = unhex(it.next().unwrap_or(""));
            (String::from_utf8(n).expect("utf8 name"), String::from_utf8(v).expect("utf8 value"))
        })
        .collect()
}
fn show_headers(h: &MessageHeaders) -> String {
    let v: Vec<String> = h
        .headers()
        .iter()
        .map(|h| format!("{}:{}", hex(h.name.as_ref().as_bytes()), hex(h.value.as_bytes())))
        .collect();
    if v.is_empty() {
        "-".to_string()
    } else {
        v.join(",")
    }
}
fn show_uri(u: &Uri) -> String {
    format!("{}#{}", hex(u.to_string().as_bytes()), hex(format!("{:?}", u).as_bytes()))
}

fn herr_cat(e: &rhymessage::Error) -> &'static str {
    use rhymessage::Error as H;
    match e {
        H::HeaderLineCouldNotBeFolded(_) => "CouldNotBeFolded",
        H::HeaderLineInvalidText { .. } => "NotText",
        H::HeaderLineMissingColon(_) => "NoColon",
        H::HeaderLineTooLong(_) => "TooLong",
        H::HeaderNameContainsIllegalCharacter(_) => "BadName",
        H::HeaderValueContainsIllegalCharacter { .. } => "BadValue",
        H::StringFormat(_) => "StringFormat",
    }
}
fn err_cat(e: &Error) -> String {
    match e {
        Error::BadContentEncoding(_) => "BadContentEncoding".into(),
        Error::ChunkSizeLineNotValidText { .. } => "ChunkSizeLineNotValidText".into(),
        Error::Headers(h) => format!("Headers.{}", herr_cat(h)),
        Error::InvalidChunkSize(_) => "InvalidChunkSize".into(),
        Error::InvalidChunkTerminator(_) => "InvalidChunkTerminator".into(),
        Error::InvalidContentLength(_) => "InvalidContentLength".into(),
        Error::InvalidStatusCode(_) => "InvalidStatusCode".into(),
        Error::MessageTooLong => "MessageTooLong".into(),
        Error::RequestLineNoMethodDelimiter(_) => "RequestLineNoMethodDelimiter".into(),
        Error::RequestLineNoMethodOrExtraWhitespace(_) => "RequestLineNoMethodOrExtraWhitespace".into(),
        Error::RequestLineNoTargetDelimiter(_) => "RequestLineNoTargetDelimiter".into(),
        Error::RequestLineNoTargetOrExtraWhitespace(_) => "RequestLineNoTargetOrExtraWhitespace".into(),
        Error::RequestLineNotValidText { .. } => "RequestLineNotValidText".into(),
        Error::RequestLineProtocol(_) => "RequestLineProtocol".into(),
        Error::RequestLineTooLong(_) => "RequestLineTooLong".into(),
        Error::RequestTargetUriInvalid(_) => "RequestTargetUriInvalid".into(),
        Error::StatusCodeOutOfRange(_) => "StatusCodeOutOfRange".into(),
        Error::StatusLineNoProtocolDelimiter(_) => "StatusLineNoProtocolDelimiter".into(),
        Error::StatusLineNoStatusCodeDelimiter(_) => "StatusLineNoStatusCodeDelimiter".into(),
        Error::StatusLineNotValidText { .. } => "StatusLineNotValidText".into(),
        Error::StatusLineProtocol(_) => "StatusLineProtocol".into(),
        Error::StringFormat(_) => "StringFormat".into(),
        Error::Trailer(h) => format!("Trailer.{}", herr_cat(h)),
        // a variant this harness does not know (the crate's error type has grown): keep building, report it
        #[allow(unreachable_patterns)]
        other => format!("Unknown.{}", format!("{:?}", other).split(|c: char| !c.is_alphanumeric()).next().unwrap_or("")),
    }
}

// ---------- the documented feed protocol over the real parsers ----------
enum Step {
    Complete(usize),
    Incomplete(usize),
    Reject(String),
}

fn feed(mut call: impl FnMut(&[u8]) -> Step, dels: &[Vec<u8>]) -> (String, String, usize, usize) {
    // returns (trace, verdict, total consumed, presented bytes)
    let mut pending: Vec<u8> = Vec::new();
    let mut trace: Vec<String> = Vec::new();
    let mut total = 0usize;
    let mut presented = 0usize;
    for d in dels {
        pending.extend_from_slice(d);
        presented += d.len();
        match measure(|| call(&pending)) {
            Step::Complete(c) => {
                trace.push(format!("C{}", c));
                total += c;
                return (trace.join(","), "C".into(), total, presented);
            },
            Step::Incomplete(c) => {
                trace.push(format!("I{}", c));
                total += c;
                if c > pending.len() {
                    return (trace.join(","), "R:ConsumedBeyondInput".into(), total, presented);
                }
                pending.drain(..c);
            },
            Step::Reject(cat) => {
                trace.push("R".into());
                return (trace.join(","), format!("R:{}", cat), total, presented);
            },
        }
    }
    (trace.join(","), "N".into(), total, presented)
}

fn req_fields(r: &Request) -> String {
    format!(
        "m={};t={};h={};b={}",
        hex(r.method.as_bytes()),
        show_uri(&r.target),
        show_headers(&r.headers),
        hex(&r.body)
    )
}
fn resp_fields(r: &Response) -> String {
    format!(
        "code={};r={};h={};b={};x={}",
        r.status_code,
        hex(r.reason_phrase.as_bytes()),
        show_headers(&r.headers),
        hex(&r.body),
        hex(&r.trailer)
    )
}

fn new_request(rl: &str, hl: &str, mm: &str) -> Request {
    new_request_from(Request::new(), rl, hl, mm)
}
// the same limits on top of a value built by the caller: Request::default() must be the value new() builds
fn new_request_from(base: Request, rl: &str, hl: &str, mm: &str) -> Request {
    let mut r = base;
    match rl {
        "d" => (),
        s => r.request_line_limit = opt_limit(s),
    }
    match hl {
        "d" => (),
        s => r.headers.set_line_limit(opt_limit(s)),
    }
    match mm {
        "d" => (),
        s => r.max_message_size = opt_limit(s),
    }
    r
}

fn run_req(a: &[&str]) -> (String, String) {
    run_req_with(new_request(a[0], a[1], a[2]), a)
}
fn run_reqd(a: &[&str]) -> (String, String) {
    run_req_with(new_request_from(Request::default(), a[0], a[1], a[2]), a)
}
fn run_req_with(base: Request, a: &[&str]) -> (String, String) {
    let mut r = base;
    let dels = deliveries(a[3]);
    let (trace, verdict, total, presented) = feed(
        |buf| match r.parse(buf) {
            Ok(res) => match res.status {
                RequestParseStatus::Complete => Step::Complete(res.consumed),
                RequestParseStatus::Incomplete => Step::Incomplete(res.consumed),
            },
            Err(e) => Step::Reject(err_cat(&e)),
        },
        &dels,
    );
    let canon = if verdict.starts_with('R') {
        format!("tr={};v={}", trace, verdict)
    } else {
        format!("tr={};v={};tot={};{}", trace, verdict, total, req_fields(&r))
    };
    (canon, format!("presented={};dbg={}", presented, hex(state_fingerprint(&format!("{:?}", r)).as_bytes())))
}

fn run_resp(a: &[&str]) -> (String, String) {
    run_resp_with(Response::new(), a)
}
fn run_respd(a: &[&str]) -> (String, String) {
    run_resp_with(Response::default(), a)
}
// a caller that goes on after an error: every delivery is presented (what a rejected call was given is dropped);
// whatever the answers are, each call must return (judged by the supervisor: a panic or abort is the failure)
fn run_reqe(a: &[&str]) -> (String, String) {
    let mut r = new_request(a[0], a[1], a[2]);
    let mut pending: Vec<u8> = Vec::new();
    let mut trace = Vec::new();
    for d in deliveries(a[3]) {
        pending.extend_from_slice(&d);
        match measure(|| r.parse(&pending)) {
            Ok(res) => { trace.push(format!("k{}", res.consumed)); let c = res.consumed.min(pending.len()); pending.drain(..c); },
            Err(_) => { trace.push("e".into()); pending.clear(); },
        }
    }
    let _ = measure(|| r.generate());
    (format!("calls={}", trace.len()), String::new())
}
fn run_respe(a: &[&str]) -> (String, String) {
    let mut r = Response::new();
    let mut pending: Vec<u8> = Vec::new();
    let mut trace = Vec::new();
    for d in deliveries(a[0]) {
        pending.extend_from_slice(&d);
        match measure(|| r.parse(&pending)) {
            Ok(res) => { trace.push(format!("k{}", res.consumed)); let c = res.consumed.min(pending.len()); pending.drain(..c); },
            Err(_) => { trace.push("e".into()); pending.clear(); },
        }
    }
    let _ = measure(|| r.generate());
    (format!("calls={}", trace.len()), String::new())
}
// resppre <body hex> <deliveries>: the caller has put something into the public `body` field before parsing (or an
// earlier, abandoned message left it there): an accepted chunked response replaces it
fn run_resppre(a: &[&str]) -> (String, String) {
    let mut r = Response::new();
    r.body = unhex(a[0]);
    run_resp_with(r, &a[1..])
}
// reqretry / respretry: the deliveries are presented until a call answers with an error; then `parse` is called twice
// more on the same value, with nothing and with the pending bytes again.  A rejected message stays rejected.
fn retry_report(first: &str, again: Vec<String>) -> (String, String) {
    (format!("first={};again={}", first, again.join(",")), String::new())
}
fn run_reqretry(a: &[&str]) -> (String, String) {
    let mut r = new_request(a[0], a[1], a[2]);
    let mut pending: Vec<u8> = Vec::new();
    for d in deliveries(a[3]) {
        pending.extend_from_slice(&d);
        match measure(|| r.parse(&pending)) {
            Ok(res) => {
                if res.status == RequestParseStatus::Complete { return ("first=C".into(), String::new()); }
                let c = res.consumed.min(pending.len()); pending.drain(..c);
            },
            Err(e) => {
                let mut again = Vec::new();
                for buf in [&b""[..], &pending[..]] {
                    again.push(match measure(|| r.parse(buf)) {
                        Ok(res) => if res.status == RequestParseStatus::Complete { format!("C{}", res.consumed) } else { "I".into() },
                        Err(_) => "E".into(),
                    });
                }
                return retry_report(&err_cat(&e), again);
            },
        }
    }
    ("first=N".into(), String::new())
}
fn run_respretry(a: &[&str]) -> (String, String) {
    let mut r = Response::new();
    let mut pending: Vec<u8> = Vec::new();
    for d in deliveries(a[0]) {
        pending.extend_from_slice(&d);
        match measure(|| r.parse(&pending)) {
            Ok(res) => {
                if res.status == ResponseParseStatus::Complete { return ("first=C".into(), String::new()); }
                let c = res.consumed.min(pending.len()); pending.drain(..c);
            },
            Err(e) => {
                let mut again = Vec::new();
                for buf in [&b""[..], &pending[..]] {
                    again.push(match measure(|| r.parse(buf)) {
                        Ok(res) => if res.status == ResponseParseStatus::Complete { format!("C{}", res.consumed) } else { "I".into() },
                        Err(_) => "E".into(),
                    });
                }
                return retry_report(&err_cat(&e), again);
            },
        }
    }
    ("first=N".into(), String::new())
}
fn run_resp_with(base: Response, a: &[&str]) -> (String, String) {
    let mut r = base;
    let dels = deliveries(a[0]);
    let (trace, verdict, total, presented) = feed(
        |buf| match r.parse(buf) {
            Ok(res) => match res.status {
                ResponseParseStatus::Complete => Step::Complete(res.consumed),
                ResponseParseStatus::Incomplete => Step::Incomplete(res.consumed),
            },
            Err(e) => Step::Reject(err_cat(&e)),
        },
        &dels,
    );
    let canon = if verdict.starts_with('R') {
        format!("tr={};v={}", trace, verdict)
    } else {
        format!("tr={};v={};tot={};{}", trace, verdict, total, resp_fields(&r))
    };
    (canon, format!("presented={}", presented))
}

// one parser value fed two messages in succession (the second only if the first completed): what a
// caller does on a persistent connection when it keeps the value
fn run_reuse_resp(a: &[&str]) -> (String, String) {
    let mut r = Response::new();
    let mut canons: Vec<String> = Vec::new();
    for (k, arg) in a.iter().take(2).enumerate() {
        let dels = deliveries(arg);
        let (trace, verdict, total, _) = feed(
            |buf| match r.parse(buf) {
                Ok(res) => match res.status {
                    ResponseParseStatus::Complete => Step::Complete(res.consumed),
                    ResponseParseStatus::Incomplete => Step::Incomplete(res.consumed),
                },
                Err(e) => Step::Reject(err_cat(&e)),
            },
            &dels,
        );
        if verdict.starts_with('R') {
            canons.push(format!("m{}:tr={};v={}", k, trace, verdict));
            break;
        }
        canons.push(format!("m{}:tr={};v={};tot={};{}", k, trace, verdict, total, resp_fields(&r)));
        if verdict != "C" {
            break;
        }
    }
    (canons.join("|"), String::new())
}

fn run_reuse_req(a: &[&str]) -> (String, String) {
    let mut r = new_request(a[0], a[1], a[2]);
    let mut canons: Vec<String> = Vec::new();
    for (k, arg) in a.iter().skip(3).take(2).enumerate() {
        let dels = deliveries(arg);
        let (trace, verdict, total, _) = feed(
            |buf| match r.parse(buf) {
                Ok(res) => match res.status {
                    RequestParseStatus::Complete => Step::Complete(res.consumed),
                    RequestParseStatus::Incomplete => Step::Incomplete(res.consumed),
                },
                Err(e) => Step::Reject(err_cat(&e)),
            },
            &dels,
        );
        if verdict.starts_with('R') {
            canons.push(format!("m{}:tr={};v={}", k, trace, verdict));
            break;
        }
        canons.push(format!("m{}:tr={};v={};tot={};{}", k, trace, verdict, total, req_fields(&r)));
        if verdict != "C" {
            break;
        }
    }
    (canons.join("|"), String::new())
}

// private parser state (phase, byte count) from the derived Debug output: diagnostics only
fn state_fingerprint(dbg: &str) -> String {
    let mut out = String::new();
    for key in ["state: ", "total_bytes: "] {
        if let Some(i) = dbg.rfind(key) {
            let rest = &dbg[i + key.len()..];
            let end = rest.find(|c| c == ',' || c == '}').unwrap_or(rest.len());
            out.push_str(key.trim());
            out.push_str(rest[..end].trim());
            out.push(' ');
        }
    }
    out
}

fn build_headers(spec: &str) -> MessageHeaders {
    let mut h = MessageHeaders::new();
    for (n, v) in parse_headers(spec) {
        h.add_header(Header { name: n.as_str().into(), value: v });
    }
    h
}

fn run_dec(a: &[&str]) -> (String, String) {
    let mut h = build_headers(a[0]);
    let body = unhex(a[1]);
    let r = measure(|| coding::decode_body(&mut h, &body));
    let canon = match r {
        Ok(b) => format!("ok;b={};h={}", hex(&b), show_headers(&h)),
        Err(e) => format!("err:{};h={}", err_cat(&e), show_headers(&h)),
    };
    (canon, String::new())
}

// decseq h1 b1 h2 b2 ... : several decode_body calls one after the other on this thread (a caller that
// decodes message after message); each call must behave as if it were the only one
fn run_decseq(a: &[&str]) -> (String, String) {
    let mut out = Vec::new();
    for pair in a.chunks(2) {
        if pair.len() == 2 {
            out.push(run_dec(pair).0);
        }
    }
    (out.join("|"), String::new())
}

// decchain h b1 b2 ... : decode_body called again and again on ONE headers value (a caller that retries, or that
// keeps the value for the next message): each call starts from the headers the previous one left
fn run_decchain(a: &[&str]) -> (String, String) {
    let mut h = build_headers(a[0]);
    let mut out = Vec::new();
    for b in &a[1..] {
        let body = unhex(b);
        let r = measure(|| coding::decode_body(&mut h, &body));
        out.push(match r {
            Ok(b) => format!("ok;b={};h={}", hex(&b), show_headers(&h)),
            Err(e) => format!("err:{};h={}", err_cat(&e), show_headers(&h)),
        });
    }
    (out.join("|"), String::new())
}

fn run_txt(a: &[&str]) -> (String, String) {
    let h = build_headers(a[0]);
    let body = unhex(a[1]);
    let r = measure(|| coding::decode_body_as_text(&h, &body));
    let canon = match r {
        Some(s) => format!("some;{}", hex(s.as_bytes())),
        None => "none".to_string(),
    };
    (canon, String::new())
}

// how generated bytes are presented when they are parsed back: whole ("-" or absent), cut between the
// CR and LF of the start line ("cr"), or cut at byte k ("<k>", taken modulo the length)
fn split_for(g: &[u8], spec: Option<&&str>) -> Vec<Vec<u8>> {
    let p = match spec.copied() {
        None | Some("-") | Some("") => return vec![g.to_vec()],
        Some("cr") => match g.iter().position(|b| *b == b'\r') {
            Some(i) => i + 1,
            None => return vec![g.to_vec()],
        },
        Some(k) => k.parse::<usize>().unwrap_or(0) % (g.len() + 1),
    };
    vec![g[..p].to_vec(), g[p..].to_vec()]
}

fn feed_back_req(r: &mut Request, g: &[u8], spec: Option<&&str>) -> Result<(char, usize), String> {
    let dels = split_for(g, spec);
    let (_, verdict, total, _) = feed(
        |buf| match r.parse(buf) {
            Ok(res) => match res.status {
                RequestParseStatus::Complete => Step::Complete(res.consumed),
                RequestParseStatus::Incomplete => Step::Incomplete(res.consumed),
            },
            Err(e) => Step::Reject(err_cat(&e)),
        },
        &dels,
    );
    match verdict.as_str() {
        "C" => Ok(('C', total)),
        "N" => Ok(('I', total)),
        v => Err(v.to_string()),
    }
}
fn feed_back_resp(r: &mut Response, g: &[u8], spec: Option<&&str>) -> Result<(char, usize), String> {
    let dels = split_for(g, spec);
    let (_, verdict, total, _) = feed(
        |buf| match r.parse(buf) {
            Ok(res) => match res.status {
                ResponseParseStatus::Complete => Step::Complete(res.consumed),
                ResponseParseStatus::Incomplete => Step::Incomplete(res.consumed),
            },
            Err(e) => Step::Reject(err_cat(&e)),
        },
        &dels,
    );
    match verdict.as_str() {
        "C" => Ok(('C', total)),
        "N" => Ok(('I', total)),
        v => Err(v.to_string()),
    }
}

fn parse_back_req(rl: &str, hl: &str, mm: &str, bytes: &[u8], spec: Option<&&str>) -> String {
    let mut r = new_request(rl, hl, mm);
    match feed_back_req(&mut r, bytes, spec) {
        Ok((tag, consumed)) => format!("{}{};{}", tag, consumed, req_fields(&r)),
        Err(v) => v,
    }
}
fn parse_back_resp(bytes: &[u8], spec: Option<&&str>) -> String {
    let mut r = Response::new();
    match feed_back_resp(&mut r, bytes, spec) {
        Ok((tag, consumed)) => format!("{}{};{}", tag, consumed, resp_fields(&r)),
        Err(v) => v,
    }
}

// genreq rl hl mm method target headers body : generate, parse back, generate again
fn run_genreq(a: &[&str]) -> (String, String) {
    let target = match Uri::parse(String::from_utf8(unhex(a[4])).expect("utf8 target")) {
        Ok(u) => u,
        Err(_) => return ("skip:target".into(), String::new()),
    };
    let mut r = new_request(a[0], a[1], a[2]);
    r.method = String::from_utf8(unhex(a[3])).expect("utf8 method").into();
    r.target = target;
    for (n, v) in parse_headers(a[5]) {
        r.headers.add_header(Header { name: n.as_str().into(), value: v });
    }
    r.body = unhex(a[6]);
    let canon = match measure(|| r.generate()) {
        Ok(g) => {
            let mut r2 = new_request(a[0], a[1], a[2]);
            let back = match feed_back_req(&mut r2, &g, a.get(7)) {
                Ok((tag, consumed)) => {
                    let regen = match r2.generate() {
                        Ok(g2) => hex(&g2),
                        Err(e) => format!("err:{}", err_cat(&e)),
                    };
                    format!("{}{};{};regen={}", tag, consumed, req_fields(&r2), regen)
                },
                Err(v) => v,
            };
            format!("gen={};orig={};back={}", hex(&g), req_fields(&r), back)
        },
        Err(e) => format!("generr:{}", err_cat(&e)),
    };
    (canon, String::new())
}

// genresp code reason headers body
fn run_genresp(a: &[&str]) -> (String, String) {
    let mut r = Response::new();
    r.status_code = a[0].parse::<usize>().expect("code");
    r.reason_phrase = String::from_utf8(unhex(a[1])).expect("utf8 reason").into();
    for (n, v) in parse_headers(a[2]) {
        r.headers.add_header(Header { name: n.as_str().into(), value: v });
    }
    r.body = unhex(a[3]);
    let canon = match measure(|| r.generate()) {
        Ok(g) => {
            let mut r2 = Response::new();
            let back = match feed_back_resp(&mut r2, &g, a.get(4)) {
                Ok((tag, consumed)) => {
                    let regen = match r2.generate() {
                        Ok(g2) => hex(&g2),
                        Err(e) => format!("err:{}", err_cat(&e)),
                    };
                    format!("{}{};{};regen={}", tag, consumed, resp_fields(&r2), regen)
                },
                Err(v) => v,
            };
            format!("gen={};orig={};back={}", hex(&g), resp_fields(&r), back)
        },
        Err(e) => format!("generr:{}", err_cat(&e)),
    };
    (canon, String::new())
}

// rtreq rl hl mm input : parse input (one call); if Complete, generate and parse again
fn run_rtreq(a: &[&str]) -> (String, String) {
    let input = unhex(a[3]);
    let mut r = new_request(a[0], a[1], a[2]);
    // optional a[5]: the first parse is fed in these deliveries (documented protocol) instead of one call
    let first = match a.get(5).filter(|s| **s != "-") {
        Some(spec) => {
            let dels = deliveries(spec);
            let (_, verdict, _, _) = feed(
                |buf| match r.parse(buf) {
                    Ok(res) => match res.status {
                        RequestParseStatus::Complete => Step::Complete(res.consumed),
                        RequestParseStatus::Incomplete => Step::Incomplete(res.consumed),
                    },
                    Err(e) => Step::Reject(err_cat(&e)),
                },
                &dels,
            );
            match verdict.as_str() {
                "C" => Ok(true),
                "N" => Ok(false),
                v => Err(v[2..].to_string()),
            }
        },
        None => match r.parse(&input) {
            Ok(res) => Ok(res.status == RequestParseStatus::Complete),
            Err(e) => Err(err_cat(&e)),
        },
    };
    let canon = match first {
        Ok(true) => match measure(|| r.generate()) {
            Ok(g) => format!(
                "first={};gen={};back={}",
                req_fields(&r),
                hex(&g),
                parse_back_req(a[0], a[1], a[2], &g, a.get(4))
            ),
            Err(e) => format!("first={};generr:{}", req_fields(&r), err_cat(&e)),
        },
        Ok(false) => "notcomplete:I".to_string(),
        Err(e) => format!("notcomplete:R:{}", e),
    };
    (canon, String::new())
}
fn run_rtresp(a: &[&str]) -> (String, String) {
    let input = unhex(a[0]);
    let mut r = Response::new();
    let first = match a.get(2).filter(|s| **s != "-") {
        Some(spec) => {
            let dels = deliveries(spec);
            let (_, verdict, _, _) = feed(
                |buf| match r.parse(buf) {
                    Ok(res) => match res.status {
                        ResponseParseStatus::Complete => Step::Complete(res.consumed),
                        ResponseParseStatus::Incomplete => Step::Incomplete(res.consumed),
                    },
                    Err(e) => Step::Reject(err_cat(&e)),
                },
                &dels,
            );
            match verdict.as_str() {
                "C" => Ok(true),
                "N" => Ok(false),
                v => Err(v[2..].to_string()),
            }
        },
        None => match r.parse(&input) {
            Ok(res) => Ok(res.status == ResponseParseStatus::Complete),
            Err(e) => Err(err_cat(&e)),
        },
    };
    let canon = match first {
        Ok(true) => {
            // the value a caller would re-serialise: trailing data is not part of it
            match measure(|| r.generate()) {
                Ok(g) => format!(
                    "first={};gen={};back={}",
                    resp_fields(&r),
                    hex(&g),
                    parse_back_resp(&g, a.get(1))
                ),
                Err(e) => format!("first={};generr:{}", resp_fields(&r), err_cat(&e)),
            }
        },
        Ok(false) => "notcomplete:I".to_string(),
        Err(e) => format!("notcomplete:R:{}", e),
    };
    (canon, String::new())
}

// pipereq rl hl mm buf : split a buffer into successive messages with fresh parsers
fn run_pipereq(a: &[&str]) -> (String, String) {
    let buf = unhex(a[3]);
    let mut rest = &buf[..];
    let mut out: Vec<String> = Vec::new();
    for _ in 0..8 {
        if rest.is_empty() {
            out.push("end".into());
            break;
        }
        let mut r = new_request(a[0], a[1], a[2]);
        match r.parse(rest) {
            Ok(res) if res.status == RequestParseStatus::Complete => {
                out.push(format!("C{}:{}", res.consumed, req_fields(&r)));
                rest = &rest[res.consumed.min(rest.len())..];
            },
            Ok(_) => {
                out.push("I".into());
                break;
            },
            Err(e) => {
                out.push(format!("R:{}", err_cat(&e)));
                break;
            },
        }
    }
    (out.join("|"), String::new())
}
fn run_piperesp(a: &[&str]) -> (String, String) {
    let buf = unhex(a[0]);
    let mut rest = &buf[..];
    let mut out: Vec<String> = Vec::new();
    for _ in 0..8 {
        if rest.is_empty() {
            out.push("end".into());
            break;
        }
        let mut r = Response::new();
        match r.parse(rest) {
            Ok(res) if res.status == ResponseParseStatus::Complete => {
                let boundary = res.consumed.saturating_sub(r.trailer.len());
                r.trailer.clear();
                out.push(format!("C{}:{}", boundary, resp_fields(&r)));
                rest = &rest[boundary.min(rest.len())..];
            },
            Ok(_) => {
                out.push("I".into());
                break;
            },
            Err(e) => {
                out.push(format!("R:{}", err_cat(&e)));
                break;
            },
        }
    }
    (out.join("|"), String::new())
}

// defaults : the limits of a fresh Request
fn run_defaults() -> (String, String) {
    let r = Request::new();
    let dbg = format!("{:?}", r.headers);
    let hl = dbg
        .rfind("line_length_limit: ")
        .map(|i| {
            let rest = &dbg[i + "line_length_limit: ".len()..];
            rest.trim_end_matches(|c| c == '}' || c == ' ').to_string()
        })
        .unwrap_or_else(|| "?".into());
    (
        format!("rl={:?};hl={};mm={:?}", r.request_line_limit, hl, r.max_message_size),
        String::new(),
    )
}

fn run_case(kind: &str, args: &[&str]) -> (String, String) {
    match kind {
        "req" => run_req(args),
        "resp" => run_resp(args),
        "reqd" => run_reqd(args),
        "respd" => run_respd(args),
        "reqe" => run_reqe(args),
        "respe" => run_respe(args),
        "decchain" => run_decchain(args),
        "resppre" => run_resppre(args),
        "reqretry" => run_reqretry(args),
        "respretry" => run_respretry(args),
        "dec" => run_dec(args),
        "decseq" => run_decseq(args),
        "txt" => run_txt(args),
        "genreq" => run_genreq(args),
        "genresp" => run_genresp(args),
        "rtreq" => run_rtreq(args),
        "rtresp" => run_rtresp(args),
        "pipereq" => run_pipereq(args),
        "piperesp" => run_piperesp(args),
        "reuseresp" => run_reuse_resp(args),
        "reusereq" => run_reuse_req(args),
        "defaults" => run_defaults(),
        _ => ("unknown-kind".into(), String::new()),
    }
}

fn worker() {
    std::panic::set_hook(Box::new(|_| {}));
    let stdin = std::io::stdin();
    let stdout = std::io::stdout();
    for line in stdin.lock().lines() {
        let line = line.expect("read");
        if line.is_empty() {
            continue;
        }
        let fields: Vec<&str> = line.split('\t').collect();
        let id = fields[0];
        {
            let mut o = stdout.lock();
            writeln!(o, "BEGIN\t{}", id).unwrap();
            o.flush().unwrap();
        }
        reset_alloc();
        let r = catch_unwind(AssertUnwindSafe(|| run_case(fields[1], &fields[2..])));
        ACTIVE.store(false, SeqCst);
        let (canon, diag) = match r {
            Ok(x) => x,
            Err(p) => {
                let msg = p
                    .downcast_ref::<String>()
                    .cloned()
                    .or_else(|| p.downcast_ref::<&str>().map(|s| s.to_string()))
                    .unwrap_or_default();
                ("PANIC".to_string(), format!("panic={}", hex(msg.as_bytes())))
            },
        };
        let mut o = stdout.lock();
        writeln!(
            o,
            "END\t{}\t{}\tamax={};apeak={};{}",
            id,
            canon,
            MAXREQ.load(SeqCst),
            PEAK.load(SeqCst),
            diag
        )
        .unwrap();
        o.flush().unwrap();
    }
}

fn supervise(cases: &str, out: &str) {
    let exe = std::env::current_exe().expect("exe");
    let text = std::fs::read_to_string(cases).expect("cases");
    let lines: Vec<&str> = text.lines().filter(|l| !l.is_empty()).collect();
    let mut outf = std::io::BufWriter::new(std::fs::File::create(out).expect("out"));
    let mut next = 0usize;
    while next < lines.len() {
        let mut child = std::process::Command::new(&exe)
            .arg("worker")
            .stdin(std::process::Stdio::piped())
            .stdout(std::process::Stdio::piped())
            .stderr(std::process::Stdio::null())
            .spawn()
            .expect("spawn worker");
        let mut cin = child.stdin.take().unwrap();
        let cout = child.stdout.take().unwrap();
        let batch: Vec<String> = lines[next..].iter().map(|s| s.to_string()).collect();
        let writer = std::thread::spawn(move || {
            for l in batch {
                if writeln!(cin, "{}", l).is_err() {
                    break;
                }
            }
        });
        let mut in_flight: Option<String> = None;
        for l in BufReader::new(cout).lines() {
            let l = match l {
                Ok(l) => l,
                Err(_) => break,
            };
            if let Some(id) = l.strip_prefix("BEGIN\t") {
                in_flight = Some(id.to_string());
            } else if let Some(rest) = l.strip_prefix("END\t") {
                writeln!(outf, "{}", rest).unwrap();
                in_flight = None;
                next += 1;
            }
        }
        let status = child.wait().expect("wait");
        let _ = writer.join();
        if let Some(id) = in_flight {
            // the worker died inside this case: process abort (alloc failure, stack overflow)
            writeln!(outf, "{}\tABORT\tstatus={:?}", id, status.code()).unwrap();
            next += 1;
        } else if next < lines.len() && !status.success() {
            let id = lines[next].split('\t').next().unwrap_or("?");
            writeln!(outf, "{}\tABORT\tstatus={:?}", id, status.code()).unwrap();
            next += 1;
        }
    }
    outf.flush().unwrap();
}

fn opt_bytes(r: Option<Vec<u8>>) -> String {
    match r {
        Some(b) => format!("some {}", if b.is_empty() { ".".to_string() } else { hex(&b) }),
        None => "none".to_string(),
    }
}

fn oracle() {
    std::panic::set_hook(Box::new(|_| {}));
    let stdin = std::io::stdin();
    let stdout = std::io::stdout();
    for line in stdin.lock().lines() {
        let line = line.expect("read");
        let f: Vec<&str> = line.split(' ').collect();
        let ans = catch_unwind(AssertUnwindSafe(|| match f[0] {
            "uri" => match String::from_utf8(unhex(f[1])).ok().and_then(|s| Uri::parse(s).ok()) {
                Some(u) => format!("some {}", show_uri(&u)),
                None => "none".to_string(),
            },
            "uridefault" => format!("some {}", show_uri(&Uri::default())),
            "gunzip" => {
                let b = unhex(f[1]);
                let mut out = Vec::new();
                opt_bytes(flate2::bufread::GzDecoder::new(&b[..]).read_to_end(&mut out).ok().map(|_| out))
            },
            "inflate" => {
                let b = unhex(f[1]);
                let mut out = Vec::new();
                opt_bytes(flate2::bufread::DeflateDecoder::new(&b[..]).read_to_end(&mut out).ok().map(|_| out))
            },
            "zlib" => {
                let b = unhex(f[1]);
                let mut out = Vec::new();
                opt_bytes(flate2::bufread::ZlibDecoder::new(&b[..]).read_to_end(&mut out).ok().map(|_| out))
            },
            "label" => match encoding_rs::Encoding::for_label(&unhex(f[1])) {
                Some(e) => format!("some {}", hex(e.name().as_bytes())),
                None => "none".to_string(),
            },
            "decode" => {
                let name = unhex(f[1]);
                let b = unhex(f[2]);
                match encoding_rs::Encoding::for_label(&name) {
                    Some(e) => opt_bytes(
                        e.decode_without_bom_handling_and_without_replacement(&b)
                            .map(|s| s.as_bytes().to_vec()),
                    ),
                    None => "none".to_string(),
                }
            },
            _ => "bad-query".to_string(),
        }))
        .unwrap_or_else(|_| "panic".to_string());
        let mut o = stdout.lock();
        writeln!(o, "{}", ans).unwrap();
        o.flush().unwrap();
    }
}

fn main() {
    let args: Vec<String> = std::env::args().collect();
    match args.get(1).map(String::as_str) {
        Some("run") => supervise(&args[2], &args[3]),
        Some("worker") => worker(),
        Some("oracle") => oracle(),
        _ => {
            eprintln!("usage: verif-harness run <cases> <out> | worker | oracle");
            std::process::exit(2);
        },
    }
}
