(* C15 -- a damaged compressed body is never passed off as content.
   The integrity checks themselves live in flate2 (oracle); what is proved is that the crate's
   glue cannot bypass them: any error of the outermost decoder is an error of decode_body,
   a truncated body fails given that the decoder rejects truncations, and a success is always
   the complete output of each decoder in the chain. *)
From Coq Require Import String.
From Http Require Import Model.Bytes Model.Headers Model.Coding Proofs.Rewrite Proofs.CodingGlue.

Theorem C15_outer_decoder_error_is_failure :
  forall (gunzip inflate_raw inflate_zlib : bytes -> option bytes)
         (hs : list header) (toks : list bytes) (last body : bytes),
    header_tokens hs CONTENT_ENCODING = toks ++ [last] ->
    (bytes_eqb last GZIP = true /\ gunzip body = None) \/
    (bytes_eqb last GZIP = false /\ bytes_eqb last DEFLATE = true /\
     deflate_decode inflate_raw inflate_zlib body = None) ->
    decode_body gunzip inflate_raw inflate_zlib hs body = None.
Proof. exact outer_failure_fails. Qed.
Print Assumptions C15_outer_decoder_error_is_failure.

Theorem C15_truncation_fails :
  forall (gunzip inflate_raw inflate_zlib : bytes -> option bytes)
         (enc : format -> bytes -> bytes -> Prop),
    (forall d e p, enc Gz d e -> strict_prefix p e -> gunzip p = None) ->
    (forall d e p, enc Zl d e -> strict_prefix p e -> deflate_decode inflate_raw inflate_zlib p = None) ->
    (forall d e p, enc Raw d e -> strict_prefix p e -> deflate_decode inflate_raw inflate_zlib p = None) ->
    forall (hs : list header) (f : format) (d e p : bytes),
      enc f d e -> strict_prefix p e ->
      header_tokens hs CONTENT_ENCODING = [coding_token f] ->
      decode_body gunzip inflate_raw inflate_zlib hs p = None.
Proof. exact truncated_body_fails. Qed.
Print Assumptions C15_truncation_fails.

Theorem C15_success_is_full_decoder_output :
  forall (gunzip inflate_raw inflate_zlib : bytes -> option bytes)
         (hs : list header) (body : bytes) (hs' : list header) (b : bytes),
    decode_body gunzip inflate_raw inflate_zlib hs body = Some (hs', b) ->
    exists undone, forallb recognised undone = true /\
                   undo gunzip inflate_raw inflate_zlib (rev undone) body = Some b.
Proof. exact success_is_full_decoder_output. Qed.
Print Assumptions C15_success_is_full_decoder_output.

(* a zlib-wrapped stream is never "rescued" by the bare-deflate decoder: the format is chosen
   by the header alone, before any decoding *)
Theorem C15_zlib_never_falls_back :
  forall (inflate_raw inflate_zlib : bytes -> option bytes) (b : bytes),
    zlib_header b = true -> deflate_decode inflate_raw inflate_zlib b = inflate_zlib b.
Proof. intros ir iz b H. unfold deflate_decode. rewrite H. reflexivity. Qed.
Print Assumptions C15_zlib_never_falls_back.
