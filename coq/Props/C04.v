(* C04 -- the response parser accepts exactly the response grammar and framing order.
   Acceptance (sound, complete), framing order, trailing data, "proper prefixes need more
   input", timeliness and the rejection categories (first offending element) are proved. *)
From Coq Require Import String.
From Http Require Import Model.Bytes Model.Utf8 Model.Num Model.Headers Model.Request
     Model.Chunked Model.Response Spec.HeaderGrammar Spec.ChunkedGrammar Spec.ResponseGrammar
     Spec.Rejections Proofs.RespGrammar Proofs.PrefixNeedsMore Proofs.Timely Proofs.RespRejects.

Check (eq_refl : status_line = fun codetext reason => HTTP11 ++ [SP] ++ codetext ++ [SP] ++ reason).
Check (Fr_fixed : forall hs t n body,
          header_value hs CONTENT_LENGTH = Some t -> parse_dec t = Some n -> length body = N.to_nat n ->
          framing_of hs body hs body).
Check (Fr_chunked : forall hs c payload tfields,
          header_value hs CONTENT_LENGTH = None -> has_header_token hs TRANSFER_ENCODING CHUNKED = true ->
          IsChunked c payload tfields -> framing_of hs c (dechunk_headers hs tfields payload) payload).
Check (Fr_none : forall hs,
          header_value hs CONTENT_LENGTH = None -> has_header_token hs TRANSFER_ENCODING CHUNKED = false ->
          framing_of hs [] hs []).

(* sound: a completed parse is a response of the grammar up to the boundary, and the trailing
   data is exactly the bytes of this call after the boundary, verbatim and in order *)
Theorem C04_accept_sound :
  forall s st c,
    resp_parse resp_init s = (st, Complete c) ->
    let bd := c - length (s_trailer st) in
    c <= length s /\ length (s_trailer st) <= c /\
    IsResponse (firstn bd s) (resp_value_of st) /\
    s_trailer st = skipn bd (firstn c s).
Proof. exact resp_parse_sound. Qed.
Print Assumptions C04_accept_sound.

(* complete: every response of the grammar is accepted with exactly its elements; after a
   Content-Length body everything presented is kept as trailing data, after a chunked or
   body-less message nothing beyond it is consumed *)
Theorem C04_accept_complete :
  forall m v rest,
    IsResponse m v ->
    exists st c,
      resp_parse resp_init (m ++ rest) = (st, Complete c) /\ resp_value_of st = v /\
      c = length m + length (s_trailer st) /\
      (s_trailer st = rest \/ s_trailer st = []).
Proof. exact resp_parse_complete. Qed.
Print Assumptions C04_accept_complete.

Theorem C04_prefix_needs_more :
  forall m v p t,
    IsResponse m v -> m = p ++ t -> t <> [] ->
    exists st c, resp_parse resp_init p = (st, Incomplete c).
Proof. exact response_prefix_needs_more. Qed.
Print Assumptions C04_prefix_needs_more.

(* timeliness: "more input" only while the element being read (status line, header block,
   declared body, chunked body) is unfinished *)
Theorem C04_more_input_only_while_unfinished :
  forall s st c,
    resp_parse resp_init s = (st, Incomplete c) ->
    match s_phase st with
    | SStatusLine => find_crlf s = None /\ c = 0
    | SHeaders =>
        exists e hs k, find_crlf s = Some e /\ c = e + 2 + k /\
                       hdr_parse None [] (skipn (e + 2) s) = HIncomplete hs k
    | SFixedBody n => c = length s /\ (N.of_nat (length (s_body st)) < n)%N
    | SChunkedBody cs => exists e hs ch k, find_crlf s = Some e /\
                       hdr_parse None [] (skipn (e + 2) s) = HComplete hs ch /\
                       chunk_decode chunk_init (skipn ch (skipn (e + 2) s)) = (cs, Incomplete k) /\
                       c = e + 2 + ch + k
    end.
Proof. exact response_incomplete_means_unfinished. Qed.
Print Assumptions C04_more_input_only_while_unfinished.

(* rejections: a fresh parser rejects an input with category e exactly when the input has a first
   offending element of that category (Spec/Rejections.v: response_defect -- status line not
   text / no protocol delimiter / wrong protocol / no code delimiter / code not 1*DIGIT / code
   >= 1000; first defective header line; bad Content-Length; in a chunked body the first bad
   chunk-size line, chunk terminator or trailer line).  Each constructor needs only the bytes
   up to the end of the offending element (line, header block up to that line, chunk up to its
   terminator), so the rejection comes at the latest when that element is complete. *)
Theorem C04_rejection_names_first_defect :
  forall s e, (exists st, resp_parse resp_init s = (st, Reject e)) <-> response_defect s e.
Proof. exact response_reject_iff. Qed.
Print Assumptions C04_rejection_names_first_defect.

Theorem C04_status_line_shape :
  forall line e, parse_status_line line = inr e <-> sshape_defect line e.
Proof. exact parse_status_line_reject. Qed.
Print Assumptions C04_status_line_shape.

(* status codes 0, 007, 999 accepted, 1000 and signed rejected; empty reason; framing order *)
Example C04_examples :
  let r code := snd (resp_parse resp_init (str "HTTP/1.1 "%string ++ code ++ str " "%string ++ CRLF ++ CRLF)) in
  r (str "0"%string) = Complete 15 /\ r (str "007"%string) = Complete 17 /\ r (str "999"%string) = Complete 17
  /\ r (str "1000"%string) = Reject EStatusCodeOutOfRange /\ r (str "+99"%string) = Reject EInvalidStatusCode
  /\ (let both := str "HTTP/1.1 200 OK"%string ++ CRLF ++ str "Transfer-Encoding: chunked"%string ++ CRLF
                   ++ str "Content-Length: 3"%string ++ CRLF ++ CRLF ++ str "0"%string ++ CRLF ++ CRLF in
      match resp_parse resp_init both with
      | (st, Complete c) => s_body st = str "0"%string ++ [CR; LF] /\ s_trailer st = [CR; LF]
      | _ => False
      end).
Proof. vm_compute. repeat split. Qed.

Example C04_rejection_examples :
  response_defect (str "HTTP/1.1 1000 X"%string ++ CRLF) EStatusCodeOutOfRange /\
  response_defect (str "HTTP/1.0 200 OK"%string ++ CRLF) EStatusLineProtocol /\
  response_defect (str "HTTP/1.1 200 OK"%string ++ CRLF ++ str "A: b"%string ++ CRLF ++ str "nocolon"%string ++ CRLF)
    (EHeaders HNoColon) /\
  response_defect (str "HTTP/1.1 200 OK"%string ++ CRLF ++ str "Transfer-Encoding: chunked"%string ++ CRLF ++ CRLF
                   ++ str "2"%string ++ CRLF ++ str "abX"%string) EInvalidChunkTerminator.
Proof.
  repeat split; apply C04_rejection_names_first_defect; eexists; vm_compute; reflexivity.
Qed.
