(* C13 -- content decoding inverts every stack of gzip and deflate codings.
   Relative to three facts about the stream decoders (flate2 is not modelled): each inverts
   its encoders; zlib-wrapped streams start with a valid zlib header, bare deflate streams
   produced by encoders do not.  These facts are sampled by the correspondence run. *)
From Coq Require Import String.
From Http Require Import Model.Bytes Model.Headers Model.Coding Proofs.Rewrite Proofs.CodingGlue.

Theorem C13_decode_inverts_every_stack :
  forall (gunzip inflate_raw inflate_zlib : bytes -> option bytes)
         (enc : format -> bytes -> bytes -> Prop),
    (forall d e, enc Gz d e -> gunzip e = Some d) ->
    (forall d e, enc Zl d e -> inflate_zlib e = Some d /\ zlib_header e = true) ->
    (forall d e, enc Raw d e -> inflate_raw e = Some d /\ zlib_header e = false) ->
    forall (hs : list header) (fs : list format) (d e : bytes),
      Enc enc fs d e ->
      header_tokens hs CONTENT_ENCODING = map coding_token fs ->
      exists hs', decode_body gunzip inflate_raw inflate_zlib hs e = Some (hs', d).
Proof. exact decode_inverts_stack. Qed.
Print Assumptions C13_decode_inverts_every_stack.

(* spelling: tokens are compared after trimming and lower-casing, and may be spread over
   several Content-Encoding headers (any letter case of the header name) *)
Example C13_spelling :
  header_tokens [(str "content-ENCODING"%string, str " GZip ,"%string ++ [HT] ++ str "Deflate"%string);
                 (str "X"%string, str "gzip"%string);
                 (str "Content-Encoding"%string, str "deflate  "%string)] CONTENT_ENCODING
  = map coding_token [Gz; Zl; Raw].
Proof. vm_compute. reflexivity. Qed.

(* the zlib header test of the fix (RFC 1950): 78 9C is one, a typical bare stream is not *)
Example C13_sniff :
  zlib_header [120; 156; 75]%N = true /\ zlib_header [120; 1]%N = true /\
  zlib_header [75; 76; 74]%N = false /\ zlib_header [120]%N = false /\ zlib_header [120; 157]%N = false.
Proof. vm_compute. repeat split. Qed.
