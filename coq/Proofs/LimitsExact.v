(* LimitsExact.v -- a size rejection is issued only when the corresponding limit is really
   exceeded (the other half of "each limit is exact at its boundary value", C08).  Corollaries
   of the rejection theorem of C03. *)
From Coq Require Import Lia ZifyN ZifyNat.
From Http Require Import Model.Bytes Model.Utf8 Model.Num Model.Headers Model.Request
     Spec.ChunkedGrammar Spec.HeaderGrammar Spec.RequestGrammar Spec.Rejections
     Proofs.BytesLemmas Proofs.HeadersResume Proofs.ReqResume Proofs.HeaderGrammarProofs
     Proofs.HeaderRejects Proofs.ReqRejects.

Section WithUri.
  Variable uri : Type.
  Variable uri_parse : bytes -> option uri.
  Notation P := (req_parse uri uri_parse).

  (* request-line limit: the line (terminated, without its CRLF) or the unterminated text so far
     (without a final CR) is longer than the limit *)
  Theorem request_line_too_long_only_if_exceeded cfg s st :
    P cfg req_init s = (st, Reject ERequestLineTooLong) ->
    exists n, rl cfg = Some n /\
      ((exists l rest, s = l ++ CRLF ++ rest /\ is_line l /\ (n < N.of_nat (length l))%N) \/
       (find_crlf s = None /\ (n < N.of_nat (length (strip_cr s)))%N)).
  Proof.
    intros H. apply request_reject_sound in H.
    assert (Hlim : forall k, over_limit k (rl cfg) = true -> exists n, rl cfg = Some n /\ (n < N.of_nat k)%N).
    { intros k. unfold over_limit. destruct (rl cfg) as [n|]; [|discriminate].
      intros E. apply N.ltb_lt in E. eauto. }
    inversion H as [s0 F O|s0 F O W|l rest e Hl Hd|l rest meth u e LG BD|l rest meth u LG BP W
                    |l rest meth u fs LG BC W|l rest meth u fs v LG BC W HV PD
                    |l rest meth u fs v n LG BC W HV PD Wn]; subst.
    - destruct (Hlim _ O) as [n [Hn Hlt]]. exists n. split; [exact Hn|]. right. split; assumption.
    - inversion Hd as [l0 O|l0 O U|l0 O U W|l0 e0 O U W Hs]; subst.
      + destruct (Hlim _ O) as [n [Hn Hlt]]. exists n. split; [exact Hn|]. left. eauto.
      + inversion Hs.
  Qed.

  (* header-line limit: some line of the header block -- the first line of a field or the empty
     line, terminated or not -- is longer (with its CRLF) than the limit *)
  Theorem header_line_too_long_only_if_exceeded cfg s st :
    P cfg req_init s = (st, Reject (EHeaders HTooLong)) ->
    exists n k, hl cfg = Some n /\ (n < N.of_nat k)%N /\ k <= length s + 2.
  Proof.
    intros H. apply request_reject_sound in H.
    inversion H as [s0 F O|s0 F O W|l rest e Hl Hd|l rest meth u e LG BD|l rest meth u LG BP W
                    |l rest meth u fs LG BC W|l rest meth u fs v LG BC W HV PD
                    |l rest meth u fs v n LG BC W HV PD Wn]; subst.
    - inversion Hd as [l0 O|l0 O U|l0 O U W|l0 e0 O U W Hs]; subst. inversion Hs.
    - destruct BD as [fs [r [_ [Hs [Hfd _]]]]].
      assert (Hlim : forall k, over_limit k (hl cfg) = true -> exists n, hl cfg = Some n /\ (n < N.of_nat k)%N).
      { intros k. unfold over_limit. destruct (hl cfg) as [n|]; [|discriminate].
        intros E. apply N.ltb_lt in E. eauto. }
      pose proof (strip_cr_length rest) as Hsl.
      assert (Hr : length r <= length rest).
      { apply (f_equal (@length N)) in Hs. rewrite app_length in Hs. lia. }
      assert (Htot : length rest <= length (l ++ CRLF ++ rest)) by (rewrite !app_length; lia).
      inversion Hfd as [l1 rest1 e1 Hl1 Hld|f l1 rest1 e1 Hf Hl1 Hcd|s1 Hne Fc O]; subst.
      + inversion Hld as [l2 O|l2 O U|l2 O U Hne K|n0 v0 O U K G|n0 v0 O U Hn V]; subst.
        destruct (Hlim _ O) as [n [Hn Hlt]]. exists n, (length l1 + 2). split; [exact Hn|]. split; [exact Hlt|].
        rewrite !app_length in Hr. simpl in Hr. lia.
      + inversion Hcd.
      + destruct (Hlim _ O) as [n [Hn Hlt]]. exists n, (length r + 2). split; [exact Hn|]. split; [exact Hlt|lia].
  Qed.

  (* maximum message size: the bytes presented, or the bytes of request line and header block
     plus the declared body length, exceed the maximum *)
  Theorem message_too_long_only_if_exceeded cfg s st :
    P cfg req_init s = (st, Reject EMessageTooLong) ->
    exists m x, mm cfg = Some m /\ (m < x)%N /\
      ((x <= N.of_nat (length s))%N \/
       (exists l rest fs v n, s = l ++ CRLF ++ rest /\
          header_value (map field_header fs) CONTENT_LENGTH = Some v /\ parse_dec v = Some n /\
          x = N.min (N.of_nat (length l + 2 + length (header_block fs)) + n) USIZE_MAX)).
  Proof.
    intros H. apply request_reject_sound in H.
    assert (Hw : forall x, ~ within_max cfg x -> exists m, mm cfg = Some m /\ (m < N.min x USIZE_MAX)%N).
    { intros x. unfold within_max. destruct (mm cfg) as [m|]; [|tauto]. intros Hx. exists m. split; [reflexivity|lia]. }
    assert (Hmin : forall a b : N, (a <= b)%N -> (N.min a USIZE_MAX <= b)%N) by (intros; lia).
    inversion H as [s0 F O|s0 F O W|l rest e Hl Hd|l rest meth u e LG BD|l rest meth u LG BP W
                    |l rest meth u fs LG BC W|l rest meth u fs v LG BC W HV PD
                    |l rest meth u fs v n LG BC W HV PD Wn]; subst.
    - destruct (Hw _ W) as [m [Hm Hlt]]. exists m, (N.min (N.of_nat (length s)) USIZE_MAX).
      split; [exact Hm|]. split; [exact Hlt|]. left. apply Hmin. lia.
    - inversion Hd as [l0 O|l0 O U|l0 O U W|l0 e0 O U W Hs]; subst.
      + destruct (Hw _ W) as [m [Hm Hlt]]. exists m, (N.min (N.of_nat (length l + 2)) USIZE_MAX).
        split; [exact Hm|]. split; [exact Hlt|]. left. apply Hmin. rewrite !app_length. simpl. lia.
      + inversion Hs.
    - destruct (Hw _ W) as [m [Hm Hlt]]. exists m, (N.min (N.of_nat (length (l ++ CRLF ++ rest))) USIZE_MAX).
      split; [exact Hm|]. split; [exact Hlt|]. left. apply Hmin. lia.
    - destruct (Hw _ W) as [m [Hm Hlt]].
      exists m, (N.min (N.of_nat (length l + 2 + length (header_block fs))) USIZE_MAX).
      split; [exact Hm|]. split; [exact Hlt|]. left. apply Hmin.
      destruct BC as [_ [x Hx]]. apply (f_equal (@length N)) in Hx. rewrite app_length in Hx.
      pose proof (strip_cr_length rest). rewrite !app_length. simpl. lia.
    - destruct (Hw _ Wn) as [m [Hm Hlt]].
      exists m, (N.min (N.of_nat (length l + 2 + length (header_block fs)) + n) USIZE_MAX).
      split; [exact Hm|]. split; [exact Hlt|]. right. exists l, rest, fs, v, n. repeat split; assumption.
  Qed.
End WithUri.
