(* Headers.v -- model of rhymessage 1.3.1 MessageHeaders: the resumable header-block
   parser (faithful, including where it is surprising) and the header collection
   operations used by rhymuweb (specification level). *)
From Http Require Import Model.Bytes Model.Utf8.

Definition header := (bytes * bytes)%type.   (* name, value *)

Inductive herr := HTooLong | HNotText | HNoColon | HBadName | HBadValue.

Definition over_limit (n : nat) (limit : option N) : bool :=
  match limit with
  | None => false
  | Some l => N.ltb l (N.of_nat n)
  end.

(* unfold_header: look at following lines; each one that starts with SP/HT is a
   continuation.  Needs to see the terminated line that follows the field. *)
Inductive ures := UMore | UErr (e : herr) | UOk (v : bytes) (c : nat).

Fixpoint unfold_hdr (fuel : nat) (s : bytes) (v : bytes) (c : nat) : ures :=
  match fuel with
  | O => UMore
  | S f =>
    match find_crlf s with
    | None => UMore
    | Some lt =>
      let line := firstn lt s in
      if negb (utf8_valid line) then UErr HNotText else
      match line with
      | b :: _ =>
        if is_wsp b then
          if negb (forallb is_vchar line) then UErr HBadValue else
          unfold_hdr f (skipn (lt + 2) s) (v ++ [SP] ++ trim line) (c + (lt + 2))
        else UOk v c
      | [] => UOk v c
      end
    end
  end.

(* one iteration of the `while offset < len` loop of MessageHeaders::parse *)
Inductive sres :=
| SMore                                  (* return Incomplete at this offset *)
| SErr (e : herr)
| SDone (c : nat)                        (* empty line: headers complete *)
| SField (h : header) (c : nat).         (* one (unfolded) field consumed *)

Definition hdr_step (limit : option N) (s : bytes) : sres :=
  match s with
  | [] => SMore
  | _ =>
    match find_crlf s with
    | None => if over_limit (length s + 2) limit then SErr HTooLong else SMore
    | Some lt =>
      if over_limit (lt + 2) limit then SErr HTooLong else
      match lt with
      | O => SDone 2
      | _ =>
        let line := firstn lt s in
        if negb (utf8_valid line) then SErr HNotText else
        match find_byte COLON line with
        | None => SErr HNoColon
        | Some k =>
          let name := firstn k line in
          let v0 := skipn (S k) line in
          if negb (forallb is_graphic name) then SErr HBadName else
          if negb (forallb is_vchar v0) then SErr HBadValue else
          match unfold_hdr (length s) (skipn (lt + 2) s) v0 0 with
          | UMore => SMore
          | UErr e => SErr e
          | UOk v c2 => SField (name, trim v) (lt + 2 + c2)
          end
        end
      end
    end
  end.

Inductive hres :=
| HComplete (hs : list header) (c : nat)
| HIncomplete (hs : list header) (c : nat)
| HError (e : herr).

(* the loop; [acc] = headers parsed so far in this call, [off] = bytes consumed *)
Fixpoint hdr_loop (fuel : nat) (limit : option N) (s : bytes)
         (acc : list header) (off : nat) : hres :=
  match fuel with
  | O => HIncomplete acc off
  | S f =>
    match hdr_step limit s with
    | SMore => HIncomplete acc off
    | SErr e => HError e
    | SDone c => HComplete acc (off + c)
    | SField h c => hdr_loop f limit (skipn c s) (acc ++ [h]) (off + c)
    end
  end.

(* MessageHeaders::parse on a collection already holding [hs0] *)
Definition hdr_parse (limit : option N) (hs0 : list header) (s : bytes) : hres :=
  hdr_loop (S (length s)) limit s hs0 0.

(* ---- the header collection ---- *)

Definition name_eq (a b : bytes) : bool := eq_ignore_case a b.

Definition has_header (hs : list header) (name : bytes) : bool :=
  existsb (fun h => name_eq (fst h) name) hs.

Definition header_multi_value (hs : list header) (name : bytes) : list bytes :=
  map snd (filter (fun h => name_eq (fst h) name) hs).

(* header_value: values of all matching headers joined with "," *)
Definition header_value (hs : list header) (name : bytes) : option bytes :=
  match header_multi_value hs name with
  | [] => None
  | vs => Some (join [COMMA] vs)
  end.

Definition value_tokens (v : bytes) : list bytes :=
  map (fun p => lower (trim p)) (split_terminator COMMA v).

Definition header_tokens (hs : list header) (name : bytes) : list bytes :=
  flat_map value_tokens (header_multi_value hs name).

Definition has_header_token (hs : list header) (name tok : bytes) : bool :=
  existsb (bytes_eqb (lower tok)) (header_tokens hs name).

Definition add_header (hs : list header) (h : header) : list header := hs ++ [h].

Definition remove_header (hs : list header) (name : bytes) : list header :=
  filter (fun h => negb (name_eq (fst h) name)) hs.

(* set_header: first match gets the value (keeps its stored name), later matches
   are deleted; appended when there is none *)
Fixpoint set_header_aux (hs : list header) (name value : bytes) : list header :=
  match hs with
  | [] => []
  | h :: t =>
      if name_eq (fst h) name then (fst h, value) :: remove_header t name
      else h :: set_header_aux t name value
  end.

Definition set_header (hs : list header) (name value : bytes) : list header :=
  if has_header hs name then set_header_aux hs name value
  else hs ++ [(name, value)].

(* MessageHeaders::generate for lines that need no folding *)
Definition header_line (h : header) : bytes := fst h ++ [COLON; SP] ++ snd h.

Definition hdr_generate_nolimit (hs : list header) : bytes :=
  flat_map (fun h => header_line h ++ CRLF) hs ++ CRLF.

(* with a limit: Some output when every line fits (len <= limit - 2) and is
   non-empty; None stands for "needs folding / not modelled" *)
Definition line_fits (limit : option N) (h : header) : bool :=
  match limit with
  | None => true
  | Some l => N.leb (N.of_nat (length (header_line h)) + 2) l
  end.

Definition hdr_generate (limit : option N) (hs : list header) : option bytes :=
  if forallb (line_fits limit) hs then Some (hdr_generate_nolimit hs) else None.

(* ---- MessageHeaders::generate in full: rhymessage's fold_header ----
   A line longer than limit - 2 is split at the last SP / HT whose index lies in [skip, limit - 2]
   (skip = name length + 2 for the first piece, so the name and the ": " are never split; 1 for the
   continuation pieces, whose first byte is the whitespace that was kept); the run of whitespace at
   the split point is reduced to its last character, which starts the next piece. *)
Inductive gen_result :=
| GOk (b : bytes)
| GCannotFold                 (* Error::HeaderLineCouldNotBeFolded *)
| GLimitUnderflow.            (* `line_length_limit - 2` with a limit of 0 or 1 (known finding K4) *)

Fixpoint find_split_aux (s : bytes) (idx skip : nat) (limit : N) (best : option nat) : option nat :=
  match s with
  | [] => best
  | b :: t =>
    let best' := if (Nat.leb skip idx && N.leb (N.of_nat idx) limit && is_wsp b)%bool then Some idx else best in
    find_split_aux t (S idx) skip limit best'
  end.

Fixpoint count_wsp (s : bytes) : nat :=
  match s with
  | b :: t => if is_wsp b then S (count_wsp t) else 0
  | [] => 0
  end.

(* fold_header(line, limit, skip): None = cannot be folded *)
Definition fold_header (line : bytes) (limit : N) (skip : nat) : option (bytes * bytes) :=
  if N.leb (N.of_nat (length line)) limit then Some (line, [])
  else match find_split_aux line 0 skip limit None with
       | None => None
       | Some i => Some (firstn i line, skipn (i + (count_wsp (skipn i line) - 1)) line)
       end.

Fixpoint fold_loop (fuel : nat) (rest : bytes) (limit : N) (skip : nat) (acc : bytes) : option bytes :=
  match rest with
  | [] => Some acc
  | _ =>
    match fuel with
    | O => None
    | S f =>
      match fold_header rest limit skip with
      | None => None
      | Some (part, rest') => fold_loop f rest' limit 1 (acc ++ part ++ CRLF)
      end
    end
  end.

Fixpoint gen_lines (limit : option N) (hs : list header) (acc : bytes) : gen_result :=
  match hs with
  | [] => GOk (acc ++ CRLF)
  | h :: t =>
    match limit with
    | None => gen_lines limit t (acc ++ header_line h ++ CRLF)
    | Some l =>
      if N.ltb l 2 then GLimitUnderflow else
      match fold_loop (S (length (header_line h))) (header_line h) (l - 2)%N (length (fst h) + 2) acc with
      | None => GCannotFold
      | Some acc' => gen_lines limit t acc'
      end
    end
  end.

Definition hdr_generate_full (limit : option N) (hs : list header) : gen_result := gen_lines limit hs [].
