#!/bin/bash
# validate_seeded.sh <Cxx> : confirm each delivered change in /tmp/mut/<Cxx>-out against worktree /tmp/mut/<Cxx>
# (applies, full test suite passes, demo fails with it, passes without it)
id=$1
wt=/tmp/mut/$id
out=/tmp/mut/$id-out${2:-}
export CARGO_NET_OFFLINE=true RUST_BACKTRACE=0
cd $wt || exit 2
git checkout -q -- . 
for k in 1 2; do
  [ -f $out/patch$k.diff ] || continue
  res="$id-$k:"
  if ! git apply --check $out/patch$k.diff 2>/dev/null; then echo "$res patch-does-not-apply"; continue; fi
  git apply $out/patch$k.diff
  t=$(cargo test --offline 2>&1 | grep -E "^test result" | head -2 | tr '\n' ' ')
  if echo "$t" | grep -q "75 passed; 0 failed" && echo "$t" | grep -q "4 passed; 0 failed"; then res="$res tests-pass"; else res="$res TESTS-FAIL($t)"; fi
  (cd $out/demo$k && cargo run --offline >/tmp/mut/$id-demo$k-with.log 2>&1); rc1=$?
  if [ $rc1 -ne 0 ] || grep -q FAIL /tmp/mut/$id-demo$k-with.log; then res="$res demo-fails-with-change"; else res="$res DEMO-PASSES-WITH-CHANGE"; fi
  git checkout -q -- .
  (cd $out/demo$k && cargo run --offline >/tmp/mut/$id-demo$k-without.log 2>&1); rc2=$?
  if [ $rc2 -eq 0 ] && ! grep -q FAIL /tmp/mut/$id-demo$k-without.log; then res="$res demo-passes-without"; else res="$res DEMO-FAILS-WITHOUT"; fi
  rm -rf $out/demo$k/target
  echo "$res"
done
rm -rf $wt/target
