(* CaseEndToEnd.v -- C18 at the level of message bytes: changing ASCII letter case anywhere in
   the header block of a message (names, values, tokens) changes neither the verdict, nor the
   boundary, nor the body / trailing data, nor the start-line fields; the stored header lists
   are equal up to letter case. *)
From Coq Require Import ZArith Lia ZifyN ZifyBool.
From Http Require Import Model.Bytes Model.Utf8 Model.Num Model.Headers Model.Request Model.Chunked
     Model.Response Spec.ChunkedGrammar
     Proofs.BytesLemmas Proofs.HeadersResume Proofs.ReqResume Proofs.HeaderAlgebra Proofs.Utf8Lemmas
     Proofs.CaseLemmas Proofs.CaseBytes Proofs.ChunkGrammar Proofs.HeaderRejects Proofs.ReqRejects
     Proofs.RespRejects.

Lemma ci_eq_refl s : ci_eq s s.
Proof. reflexivity. Qed.

Lemma hdrs_ci_refl hs : hdrs_ci hs hs.
Proof. induction hs; constructor; [split; reflexivity|assumption]. Qed.

Lemma hdrs_ci_app a a' b b' : hdrs_ci a a' -> hdrs_ci b b' -> hdrs_ci (a ++ b) (a' ++ b').
Proof. apply Forall2_app. Qed.

Lemma ci_eq_length s s' : ci_eq s s' -> length s = length s'.
Proof. intros H. apply (f_equal (@length N)) in H. rewrite !length_lower in H. exact H. Qed.

(* ---- the header collection operations keep lists equal up to case ---- *)
Lemma remove_header_ci hs hs' n : hdrs_ci hs hs' -> hdrs_ci (remove_header hs n) (remove_header hs' n).
Proof.
  induction 1 as [|h h' hs hs' [H1 H2] _ IH]; [constructor|].
  unfold remove_header in *. cbn [filter]. rewrite (name_eq_ci _ _ n n H1 eq_refl).
  destruct (name_eq (fst h') n); cbn [negb]; [exact IH|constructor; [split; assumption|exact IH]].
Qed.

Lemma set_header_aux_ci hs hs' n v :
  hdrs_ci hs hs' -> hdrs_ci (set_header_aux hs n v) (set_header_aux hs' n v).
Proof.
  induction 1 as [|h h' hs hs' [H1 H2] Hrest IH]; [constructor|].
  cbn [set_header_aux]. rewrite (name_eq_ci _ _ n n H1 eq_refl).
  destruct (name_eq (fst h') n).
  - constructor; [split; [exact H1|reflexivity]|apply remove_header_ci; exact Hrest].
  - constructor; [split; assumption|exact IH].
Qed.

Lemma set_header_ci hs hs' n v : hdrs_ci hs hs' -> hdrs_ci (set_header hs n v) (set_header hs' n v).
Proof.
  intros H. unfold set_header. rewrite (has_header_ci hs hs' n n H eq_refl).
  destruct (has_header hs' n); [apply set_header_aux_ci; exact H|].
  apply hdrs_ci_app; [exact H|apply hdrs_ci_refl].
Qed.

Theorem dechunk_headers_ci hs hs' tr body :
  hdrs_ci hs hs' -> hdrs_ci (dechunk_headers hs tr body) (dechunk_headers hs' tr body).
Proof.
  intros H. unfold dechunk_headers.
  set (t := filter (fun h => negb (is_framing_name (fst h))) tr).
  assert (H1 : hdrs_ci (hs ++ t) (hs' ++ t)) by (apply hdrs_ci_app; [exact H|apply hdrs_ci_refl]).
  cbv zeta.
  rewrite (header_tokens_ci (hs ++ t) (hs' ++ t) TRANSFER_ENCODING TRANSFER_ENCODING H1 eq_refl).
  apply remove_header_ci. unfold add_header. apply hdrs_ci_app; [|apply hdrs_ci_refl].
  destruct (removelast _); [apply remove_header_ci; exact H1|apply set_header_ci; exact H1].
Qed.

(* ---- a complete header block followed by anything ---- *)
Lemma complete_block_ends_lf lim hs0 block hs :
  hdr_parse lim hs0 block = HComplete hs (length block) -> exists p, block = p ++ [CR; LF].
Proof.
  intros H. pose proof (hdr_parse_complete_tail _ _ _ _ _ H) as [H2 [_ H3]].
  rewrite firstn_all in H3. exists (firstn (length block - 2) block).
  rewrite <- H3. symmetry. apply firstn_skipn.
Qed.

Lemma block_side lim hs0 block hs u :
  hdr_parse lim hs0 block = HComplete hs (length block) -> side lim block u.
Proof.
  intros H. destruct (complete_block_ends_lf _ _ _ _ H) as [p ->]. right.
  change (p ++ [CR; LF]) with (p ++ [CR] ++ [LF]). rewrite app_assoc. rewrite ends_cr_app_single. reflexivity.
Qed.

Lemma block_then_rest lim hs0 block hs rest :
  hdr_parse lim hs0 block = HComplete hs (length block) ->
  hdr_parse lim hs0 (block ++ rest) = HComplete hs (length block).
Proof.
  intros H. pose proof (hdr_parse_app lim hs0 block rest (block_side _ _ _ _ rest H)) as A.
  rewrite H in A. tauto.
Qed.

Lemma block_case_variant lim block block' hs :
  ci_eq block block' -> hdr_parse lim [] block = HComplete hs (length block) ->
  exists hs', hdr_parse lim [] block' = HComplete hs' (length block') /\ hdrs_ci hs hs'.
Proof.
  intros Hc H. pose proof (hdr_parse_ci lim [] [] block block' (hdrs_ci_refl []) Hc) as R.
  rewrite H in R. destruct (hdr_parse lim [] block') as [hs' c'|hs' c'|e']; cbn [hres_ci] in R; try contradiction.
  destruct R as [R1 R2]. exists hs'. rewrite <- R2. rewrite (ci_eq_length _ _ Hc). split; [reflexivity|exact R1].
Qed.

(* ---- responses ---- *)
Definition resp_st_ci (st st' : resp_state) : Prop :=
  s_phase st = s_phase st' /\ s_code st = s_code st' /\ s_reason st = s_reason st' /\
  hdrs_ci (s_headers st) (s_headers st') /\ s_body st = s_body st' /\ s_trailer st = s_trailer st'.

Lemma resp_headers_ci code reason buf buf' hs hs' c :
  hdr_parse None [] buf = HComplete hs c -> hdr_parse None [] buf' = HComplete hs' c ->
  hdrs_ci hs hs' -> skipn c buf = skipn c buf' ->
  snd (resp_headers (sst code reason) buf) = snd (resp_headers (sst code reason) buf') /\
  resp_st_ci (fst (resp_headers (sst code reason) buf)) (fst (resp_headers (sst code reason) buf')).
Proof.
  intros HP HP' Hci Hsk. unfold resp_headers. cbn [s_headers sst]. rewrite HP, HP'. cbv zeta.
  pose proof (header_value_ci hs hs' CONTENT_LENGTH CONTENT_LENGTH Hci eq_refl) as HV.
  assert (Hrefl : resp_st_ci (sst code reason) (sst code reason)).
  { unfold resp_st_ci. repeat split. apply hdrs_ci_refl. }
  destruct (header_value hs CONTENT_LENGTH) as [v|], (header_value hs' CONTENT_LENGTH) as [v'|];
    try contradiction.
  - rewrite (parse_dec_ci _ _ HV). destruct (parse_dec v') as [n|]; [|split; [reflexivity|exact Hrefl]].
    rewrite <- Hsk. unfold resp_fixed. cbv zeta. cbn [s_body s_trailer s_code s_reason s_headers].
    destruct (N.leb _ _); cbn [rshift fst snd]; (split; [reflexivity|]);
      unfold resp_st_ci; cbn [s_phase s_code s_reason s_headers s_body s_trailer]; repeat split; exact Hci.
  - rewrite (has_header_token_ci hs hs' _ _ _ _ Hci eq_refl eq_refl).
    destruct (has_header_token hs' TRANSFER_ENCODING CHUNKED).
    + rewrite <- Hsk. unfold resp_chunked. cbn [s_body s_trailer s_code s_reason s_headers].
      destruct (chunk_decode chunk_init (skipn c buf)) as [cs [k|k|e]]; cbn [rshift fst snd].
      * split; [reflexivity|]. unfold resp_st_ci.
        cbn [s_phase s_code s_reason s_headers s_body s_trailer]. repeat split.
        apply dechunk_headers_ci. exact Hci.
      * split; [reflexivity|]. unfold resp_st_ci.
        cbn [s_phase s_code s_reason s_headers s_body s_trailer]. repeat split. exact Hci.
      * split; [reflexivity|]. unfold resp_st_ci.
        cbn [s_phase s_code s_reason s_headers s_body s_trailer]. repeat split. exact Hci.
    + cbn [fst snd]. split; [reflexivity|]. unfold resp_st_ci.
      cbn [s_phase s_code s_reason s_headers s_body s_trailer]. repeat split. exact Hci.
Qed.

Theorem response_case_insensitive l block block' rest hs :
  is_line l -> ci_eq block block' -> hdr_parse None [] block = HComplete hs (length block) ->
  let r := resp_parse resp_init (l ++ CRLF ++ block ++ rest) in
  let r' := resp_parse resp_init (l ++ CRLF ++ block' ++ rest) in
  snd r = snd r' /\ resp_st_ci (fst r) (fst r').
Proof.
  intros Hl Hc HP. cbv zeta.
  rewrite !(resp_parse_line_form l _ Hl).
  assert (Hrefl : resp_st_ci resp_init resp_init).
  { unfold resp_st_ci. repeat split. apply hdrs_ci_refl. }
  destruct (negb (utf8_valid l)); [split; [reflexivity|exact Hrefl]|].
  destruct (parse_status_line l) as [[code reason]|er]; [|split; [reflexivity|exact Hrefl]].
  destruct (block_case_variant None block block' hs Hc HP) as [hs' [HP' Hci]].
  pose proof (block_then_rest None [] block hs rest HP) as E.
  pose proof (block_then_rest None [] block' hs' rest HP') as E'.
  rewrite <- (ci_eq_length _ _ Hc) in E'.
  assert (Hsk : skipn (length block) (block ++ rest) = skipn (length block) (block' ++ rest)).
  { rewrite skipn_app_exact. rewrite (ci_eq_length _ _ Hc). rewrite skipn_app_exact. reflexivity. }
  destruct (resp_headers_ci code reason _ _ hs hs' _ E E' Hci Hsk) as [R1 R2].
  destruct (resp_headers (sst code reason) (block ++ rest)) as [s1 o1],
           (resp_headers (sst code reason) (block' ++ rest)) as [s2 o2].
  cbn [fst snd] in R1, R2. subst o2.
  destruct o1; cbn [rshift fst snd]; (split; [reflexivity|exact R2]).
Qed.

(* ---- requests ---- *)
Section Req.
  Variable uri : Type.
  Variable uri_parse : bytes -> option uri.
  Notation P := (req_parse uri uri_parse).

  Definition req_st_ci (st st' : req_state uri) : Prop :=
    r_phase st = r_phase st' /\ r_method st = r_method st' /\ r_target st = r_target st' /\
    hdrs_ci (r_headers st) (r_headers st') /\ r_body st = r_body st' /\ r_total st = r_total st'.

  Lemma strip_cr_block lim hs0 block hs rest :
    hdr_parse lim hs0 block = HComplete hs (length block) ->
    strip_cr (block ++ rest) = block ++ strip_cr rest.
  Proof.
    intros H. destruct rest as [|x r].
    - rewrite app_nil_r. rewrite strip_cr_nil, app_nil_r.
      destruct (complete_block_ends_lf _ _ _ _ H) as [p ->].
      change (p ++ [CR; LF]) with (p ++ [CR] ++ [LF]). rewrite app_assoc. rewrite strip_cr_snoc. reflexivity.
    - apply strip_cr_app_ne. discriminate.
  Qed.

  Lemma req_headers_ci cfg meth u t block block' rest hs :
    ci_eq block block' -> hdr_parse (hl cfg) [] block = HComplete hs (length block) ->
    let r := req_headers uri cfg (hstate uri meth u t) (block ++ rest) in
    let r' := req_headers uri cfg (hstate uri meth u t) (block' ++ rest) in
    snd r = snd r' /\ req_st_ci (fst r) (fst r').
  Proof.
    intros Hc HP. cbv zeta.
    destruct (block_case_variant (hl cfg) block block' hs Hc HP) as [hs' [HP' Hci]].
    rewrite !req_headers_form.
    rewrite (strip_cr_block _ _ _ _ rest HP), (strip_cr_block _ _ _ _ rest HP').
    rewrite (block_then_rest _ _ _ _ (strip_cr rest) HP), (block_then_rest _ _ _ _ (strip_cr rest) HP').
    rewrite <- (ci_eq_length _ _ Hc).
    assert (Hrefl : req_st_ci (hstate uri meth u t) (hstate uri meth u t)).
    { unfold req_st_ci. repeat split. apply hdrs_ci_refl. }
    destruct (count_bytes cfg t (N.of_nat (length block))) as [t2|]; [|split; [reflexivity|exact Hrefl]].
    pose proof (header_value_ci hs hs' CONTENT_LENGTH CONTENT_LENGTH Hci eq_refl) as HV.
    destruct (header_value hs CONTENT_LENGTH) as [v|], (header_value hs' CONTENT_LENGTH) as [v'|];
      try contradiction.
    - rewrite (parse_dec_ci _ _ HV). destruct (parse_dec v') as [n|]; [|split; [reflexivity|exact Hrefl]].
      destruct (count_bytes cfg t2 n) as [t3|]; [|split; [reflexivity|exact Hrefl]].
      assert (Hsk2 : skipn (length block) (block' ++ rest) = rest)
        by (rewrite (ci_eq_length _ _ Hc); apply skipn_app_exact).
      rewrite skipn_app_exact, Hsk2.
      unfold req_body. cbv zeta. cbn [r_body r_phase r_method r_target r_headers r_total].
      destruct (N.leb _ _); cbn [shift fst snd]; (split; [reflexivity|]);
        unfold req_st_ci; cbn [r_phase r_method r_target r_headers r_body r_total]; repeat split; exact Hci.
    - cbn [fst snd]. split; [reflexivity|]. unfold req_st_ci.
      cbn [r_phase r_method r_target r_headers r_body r_total]. repeat split. exact Hci.
  Qed.

  Theorem request_case_insensitive cfg l block block' rest hs :
    is_line l -> ci_eq block block' -> hdr_parse (hl cfg) [] block = HComplete hs (length block) ->
    let r := P cfg req_init (l ++ CRLF ++ block ++ rest) in
    let r' := P cfg req_init (l ++ CRLF ++ block' ++ rest) in
    snd r = snd r' /\ req_st_ci (fst r) (fst r').
  Proof.
    intros Hl Hc HP. cbv zeta.
    rewrite !(req_parse_line_form uri uri_parse cfg l _ Hl).
    assert (Hrefl : req_st_ci req_init req_init).
    { unfold req_st_ci. repeat split. apply hdrs_ci_refl. }
    destruct (over_limit (length l) (rl cfg)); [split; [reflexivity|exact Hrefl]|].
    destruct (negb (utf8_valid l)); [split; [reflexivity|exact Hrefl]|].
    destruct (count_bytes cfg 0 (N.of_nat (length l + 2))) as [t|]; [|split; [reflexivity|exact Hrefl]].
    destruct (parse_request_line uri uri_parse l) as [[meth u]|er]; [|split; [reflexivity|exact Hrefl]].
    destruct (req_headers_ci cfg meth u t block block' rest hs Hc HP) as [R1 R2].
    assert (Hlen : length (l ++ CRLF ++ block ++ rest) = length (l ++ CRLF ++ block' ++ rest)).
    { rewrite !app_length. rewrite (ci_eq_length _ _ Hc). reflexivity. }
    rewrite Hlen.
    destruct (req_headers uri cfg (hstate uri meth u t) (block ++ rest)) as [s1 o1],
             (req_headers uri cfg (hstate uri meth u t) (block' ++ rest)) as [s2 o2].
    cbn [fst snd] in R1, R2. subst o2.
    destruct o1 as [k|k|e]; cbn [shift f9 fst snd]; try (split; [reflexivity|exact R2]).
    assert (Ht : r_total s1 = r_total s2) by (destruct R2 as [_ [_ [_ [_ [_ R]]]]]; exact R).
    rewrite Ht. destruct (presented_ok cfg (r_total s2) _); cbn [fst snd]; (split; [reflexivity|]);
      [exact R2|exact Hrefl].
  Qed.
End Req.
