(* DechunkWf.v -- the header list stored after de-chunking is well-formed (every name legal,
   every value printable and trimmed), so the parsed chunked response re-serialises (C11). *)
From Coq Require Import Lia ZifyN ZifyNat.
From Http Require Import Model.Bytes Model.Utf8 Model.Num Model.Headers Model.Request Model.Chunked
     Model.Response Spec.HeaderGrammar Spec.ChunkedGrammar Spec.ResponseGrammar
     Proofs.BytesLemmas Proofs.HeadersResume Proofs.HeaderAlgebra Proofs.HeaderGrammarProofs
     Proofs.Rewrite Proofs.NumShow Proofs.TrimLemmas Proofs.Utf8Lemmas Proofs.CaseLemmas Proofs.CaseBytes
     Proofs.RoundTrip Proofs.Reserialise Proofs.ChunkGrammar Proofs.RespGrammar.

(* ---- what trimming leaves ---- *)
Definition edge_ok (s : bytes) : Prop :=
  match s with a :: _ => is_ws a = false | [] => True end /\
  match rev s with a :: _ => is_ws a = false | [] => True end.

Lemma trim_noop s : edge_ok s -> trim s = s.
Proof.
  intros [H1 H2]. unfold trim, trim_start, trim_end.
  rewrite (drop_while_noop is_ws s H1). rewrite (drop_while_noop is_ws (rev s) H2).
  apply rev_involutive.
Qed.

Lemma trim_edges s : edge_ok (trim s).
Proof.
  unfold trim, trim_start. set (y := drop_while is_ws s). split.
  - destruct (trim_end_prefix y) as [w Hw].
    destruct (trim_end y) as [|a t] eqn:E; [exact I|].
    rewrite Hw in *. subst y. cbn [app] in Hw.
    apply (drop_while_head is_ws s a (t ++ w)). exact Hw.
  - unfold trim_end. rewrite rev_involutive.
    destruct (drop_while is_ws (rev y)) as [|a t] eqn:E; [exact I|].
    apply (drop_while_head is_ws (rev y) a t E).
Qed.

Lemma edge_ok_lower s : edge_ok s -> edge_ok (lower s).
Proof.
  intros [H1 H2]. split.
  - destruct s as [|a t]; [exact I|]. cbn [lower map]. rewrite is_ws_to_lower. exact H1.
  - unfold lower. rewrite <- map_rev. destruct (rev s) as [|a t]; [exact I|].
    cbn [map]. rewrite is_ws_to_lower. exact H2.
Qed.

Lemma rev_app_last (a b : bytes) x t : rev b = x :: t -> rev (a ++ b) = x :: t ++ rev a.
Proof. intros H. rewrite rev_app_distr, H. reflexivity. Qed.

Lemma edge_ok_join sep p ps :
  p <> [] -> Forall (fun q => q <> [] /\ edge_ok q) (p :: ps) -> edge_ok (join sep (p :: ps)).
Proof.
  revert p. induction ps as [|q qs IH]; intros p Hne HF.
  - inversion HF as [|? ? [_ H] _]; subst. exact H.
  - inversion HF as [|? ? [_ [Hp1 Hp2]] HF']; subst.
    inversion HF' as [|? ? [Hq _] _]; subst.
    pose proof (IH q Hq HF') as [_ J2].
    change (join sep (p :: q :: qs)) with (p ++ sep ++ join sep (q :: qs)). split.
    + destruct p as [|a t]; [congruence|]. exact Hp1.
    + rewrite app_assoc.
      assert (Hj : join sep (q :: qs) <> []).
      { destruct qs; [exact Hq|]. cbn [join]. destruct q; [congruence|discriminate]. }
      destruct (rev (join sep (q :: qs))) as [|x t] eqn:R.
      { exfalso. apply Hj. apply (f_equal (@rev N)) in R. rewrite rev_involutive in R. exact R. }
      rewrite (rev_app_last _ _ x t R). exact J2.
Qed.

(* ---- pieces and tokens of printable values are printable ---- *)
Lemma split_on_forallb (q : N -> bool) c s :
  forallb q s = true -> Forall (fun p => forallb q p = true) (split_on c s).
Proof.
  induction s as [|a t IH]; intros H; [repeat constructor|].
  cbn [forallb] in H. apply andb_prop in H as [Ha Ht]. specialize (IH Ht).
  cbn [split_on]. destruct (N.eqb a c); [constructor; [reflexivity|exact IH]|].
  destruct (split_on c t) as [|p ps]; [repeat constructor; cbn; rewrite Ha; reflexivity|].
  inversion IH; subst. constructor; [cbn [forallb]; rewrite Ha; assumption|assumption].
Qed.

Lemma drop_last_empty_Forall (P : bytes -> Prop) l : Forall P l -> Forall P (drop_last_empty l).
Proof.
  induction l as [|p ps IH]; intros H; [constructor|]. inversion H; subst.
  cbn [drop_last_empty]. destruct p as [|a p'].
  - destruct ps; [constructor|constructor; [assumption|apply IH; assumption]].
  - constructor; [assumption|apply IH; assumption].
Qed.

Lemma value_tokens_ok v :
  forallb is_vchar v = true ->
  Forall (fun t => forallb is_vchar t = true /\ edge_ok t) (value_tokens v).
Proof.
  intros Hv. unfold value_tokens, split_terminator.
  pose proof (drop_last_empty_Forall _ _ (split_on_forallb is_vchar COMMA v Hv)) as HF.
  induction HF as [|p ps Hp _ IH]; [constructor|]. cbn [map]. constructor; [|exact IH]. split.
  - rewrite (forallb_lower is_vchar) by apply is_vchar_lower. apply forallb_trim. exact Hp.
  - apply edge_ok_lower. apply trim_edges.
Qed.

Lemma header_tokens_ok hs n :
  Forall hdr_wf0 hs -> Forall (fun t => forallb is_vchar t = true /\ edge_ok t) (header_tokens hs n).
Proof.
  intros H. unfold header_tokens, header_multi_value.
  induction H as [|h hs [_ [Hv _]] _ IH]; [constructor|].
  cbn [filter]. destruct (name_eq (fst h) n); [|exact IH].
  cbn [map flat_map]. apply Forall_app. split; [apply value_tokens_ok; exact Hv|exact IH].
Qed.

Lemma Forall_filter {A} (P : A -> Prop) (f : A -> bool) l : Forall P l -> Forall P (filter f l).
Proof.
  induction 1 as [|a l Ha _ IH]; [constructor|]. cbn [filter].
  destruct (f a); [constructor; assumption|assumption].
Qed.

Lemma Forall_removelast {A} (P : A -> Prop) l : Forall P l -> Forall P (removelast l).
Proof.
  induction 1 as [|a l Ha Hl IH]; [constructor|]. cbn [removelast].
  destruct l; [constructor|constructor; assumption].
Qed.

Lemma forallb_join (q : N -> bool) sep l :
  forallb q sep = true -> Forall (fun p => forallb q p = true) l -> forallb q (join sep l) = true.
Proof.
  intros Hs H. induction H as [|p ps Hp Hps IH]; [reflexivity|].
  destruct ps as [|p2 ps2]; [exact Hp|].
  change (join sep (p :: p2 :: ps2)) with (p ++ sep ++ join sep (p2 :: ps2)).
  rewrite !forallb_app, Hp, Hs, IH. reflexivity.
Qed.

Lemma nonempty_true (b : bytes) : nonempty b = true -> b <> [].
Proof. destruct b; [discriminate|discriminate]. Qed.

Lemma joined_tokens_wf toks :
  toks <> [] -> Forall (fun t => nonempty t = true /\ forallb is_vchar t = true /\ edge_ok t) toks ->
  forallb is_vchar (join [COMMA; SP] toks) = true /\ trim (join [COMMA; SP] toks) = join [COMMA; SP] toks.
Proof.
  intros Hne HF. split.
  - apply forallb_join; [reflexivity|]. eapply Forall_impl; [|exact HF]. intros t [_ [H _]]. exact H.
  - apply trim_noop. destruct toks as [|p ps]; [congruence|].
    apply edge_ok_join.
    + inversion HF as [|? ? [H _] _]; subst. apply nonempty_true. exact H.
    + eapply Forall_impl; [|exact HF]. intros t [H1 [_ H3]]. split; [apply nonempty_true; exact H1|exact H3].
Qed.

(* ---- the collection operations keep well-formedness ---- *)
Lemma remove_header_wf hs n : Forall hdr_wf0 hs -> Forall hdr_wf0 (remove_header hs n).
Proof. apply Forall_filter. Qed.

Lemma set_header_aux_wf hs n v :
  forallb is_vchar v = true -> trim v = v -> Forall hdr_wf0 hs -> Forall hdr_wf0 (set_header_aux hs n v).
Proof.
  intros Hv Ht. induction 1 as [|h hs Hh Hhs IH]; [constructor|].
  cbn [set_header_aux]. destruct (name_eq (fst h) n).
  - constructor; [|apply remove_header_wf; exact Hhs].
    destruct Hh as [Hn _]. split; [exact Hn|]. split; assumption.
  - constructor; assumption.
Qed.

Lemma set_header_wf hs n v :
  name_ok n -> forallb is_vchar v = true -> trim v = v -> Forall hdr_wf0 hs ->
  Forall hdr_wf0 (set_header hs n v).
Proof.
  intros Hn Hv Ht H. unfold set_header. destruct (has_header hs n).
  - apply set_header_aux_wf; assumption.
  - apply Forall_app. split; [exact H|]. constructor; [|constructor]. split; [exact Hn|]. split; assumption.
Qed.

Lemma te_name_ok : name_ok TRANSFER_ENCODING. Proof. split; reflexivity. Qed.
Lemma cl_name_ok : name_ok CONTENT_LENGTH. Proof. split; reflexivity. Qed.

Lemma digits_wf d : d <> [] -> forallb is_digit d = true -> forallb is_vchar d = true /\ trim d = d.
Proof.
  intros Hne Hd.
  assert (Hall : forall c, is_digit c = true -> is_vchar c = true /\ is_ws c = false).
  { intros c Hc. unfold is_digit in Hc. apply between_spec in Hc. split.
    - unfold is_vchar, is_graphic. assert (B : between 33 126 c = true) by (apply between_spec; lia).
      rewrite B. apply Bool.orb_true_r.
    - apply is_ws_false_graphic. lia. }
  split.
  - rewrite forallb_forall in *. intros c Hc. apply Hall. apply Hd. exact Hc.
  - apply trim_noop. split.
    + destruct d as [|a t]; [exact I|]. cbn [forallb] in Hd. apply andb_prop in Hd as [Ha _]. apply Hall. exact Ha.
    + rewrite <- forallb_rev in Hd. destruct (rev d) as [|a t]; [exact I|].
      cbn [forallb] in Hd. apply andb_prop in Hd as [Ha _]. apply Hall. exact Ha.
Qed.

Theorem dechunk_headers_wf hs tr body :
  Forall hdr_wf0 hs -> Forall hdr_wf0 tr -> Forall hdr_wf0 (dechunk_headers hs tr body).
Proof.
  intros Hhs Htr. unfold dechunk_headers. cbv zeta.
  set (t := filter (fun h => negb (is_framing_name (fst h))) tr).
  assert (H1 : Forall hdr_wf0 (hs ++ t)).
  { apply Forall_app. split; [exact Hhs|apply Forall_filter; exact Htr]. }
  apply remove_header_wf. unfold add_header. apply Forall_app. split.
  - set (toks := removelast (filter nonempty (header_tokens (hs ++ t) TRANSFER_ENCODING))).
    assert (HT : Forall (fun x => nonempty x = true /\ forallb is_vchar x = true /\ edge_ok x) toks).
    { apply Forall_removelast.
      pose proof (header_tokens_ok (hs ++ t) TRANSFER_ENCODING H1) as HF.
      induction HF as [|x xs [Hx1 Hx2] _ IH]; [constructor|]. cbn [filter].
      destruct (nonempty x) eqn:E; [constructor; [split; [exact E|split; [exact Hx1|exact Hx2]]|exact IH]|exact IH]. }
    destruct toks as [|p ps] eqn:E; [apply remove_header_wf; exact H1|].
    destruct (joined_tokens_wf (p :: ps)) as [J1 J2]; [discriminate|exact HT|].
    apply set_header_wf; [exact te_name_ok|exact J1|exact J2|exact H1].
  - constructor; [|constructor]. split; [exact cl_name_ok|].
    destruct (show_dec_digits (N.of_nat (length body))) as [D1 [D2 _]].
    cbn [snd]. apply digits_wf; assumption.
Qed.

(* ---- every accepted response is a well-formed value ---- *)
Lemma chunked_trailer_wf c p t : IsChunked c p t -> Forall hdr_wf0 t.
Proof.
  induction 1 as [line block fields _ Ht|line n data rest payload fields _ _ _ _ IH]; [|exact IH].
  unfold is_trailer in Ht. destruct (hdr_parse_sound _ _ _ _ _ Ht) as [fs [[Hok _] [_ ->]]].
  cbn [app]. apply (parsed_fields_wf None fs Hok).
Qed.

Lemma all_fit_none hs : lines_fit None hs.
Proof. apply Forall_forall. intros; reflexivity. Qed.

Theorem accepted_response_value_wf x st c :
  resp_parse resp_init x = (st, Complete c) ->
  (N.of_nat (length (s_body st)) <= USIZE_MAX)%N ->
  WfResponse (resp_value_of st).
Proof.
  intros HP Hsz.
  destruct (resp_parse_sound x st c HP) as [_ [_ [HI _]]].
  destruct HI as [codetext [fs [wire [Hm [Hline [[Hfs _] Hframing]]]]]].
  cbn [w_code w_reason w_headers w_body resp_value_of] in *.
  destruct (status_reason_ok _ _ _ Hline) as [Hr Hu].
  destruct Hline as [_ [Hc _]].
  pose proof (parsed_fields_wf None fs Hfs) as Hwf0.
  remember (map field_header fs) as hs0 eqn:Ehs.
  remember (s_headers st) as hfin eqn:Ehf. remember (s_body st) as bfin eqn:Ebf.
  unfold WfResponse. cbn [w_code w_reason w_headers w_body resp_value_of].
  split; [exact Hc|]. split; [exact Hr|]. split; [exact Hu|]. rewrite <- Ehf, <- Ebf.
  destruct Hframing as [t n body HV PD Hlen|cb payload tfields HV HT HC|HV HT].
  - split; [apply wf0_fit; [exact Hwf0|apply all_fit_none]|].
    rewrite HV. exists n. split; [exact PD|exact Hlen].
  - split.
    + apply wf0_fit; [|apply all_fit_none].
      apply dechunk_headers_wf; [exact Hwf0|apply (chunked_trailer_wf _ _ _ HC)].
    + pose proof (dechunk_content_length hs0 tfields payload HV) as D.
      rewrite header_value_hmv, D. cbn [join].
      exists (N.of_nat (length payload)). split; [apply parse_show_dec; exact Hsz|lia].
  - split; [apply wf0_fit; [exact Hwf0|apply all_fit_none]|].
    rewrite HV. split; [reflexivity|exact HT].
Qed.

Theorem every_accepted_response_reserialises x st c :
  resp_parse resp_init x = (st, Complete c) ->
  (N.of_nat (length (s_body st)) <= USIZE_MAX)%N ->
  exists st2,
    resp_parse resp_init (generate_response (resp_value_of st)) =
      (st2, Complete (length (generate_response (resp_value_of st)))) /\
    resp_value_of st2 = resp_value_of st.
Proof.
  intros HP Hsz. apply (response_reserialise x st c HP). apply (accepted_response_value_wf x st c HP Hsz).
Qed.
