(* C09Boundary.v -- a completed parse consumes exactly one message. *)
From Coq Require Import Lia.
From Http Require Import Model.Bytes Model.Request Model.Chunked Model.Response Spec.Delivery
     Proofs.BytesLemmas Proofs.ReqResume Proofs.C01Request Proofs.RespResume Proofs.C02Response.

Section Requests.
  Variable uri : Type.
  Variable uri_parse : bytes -> option uri.
  Notation P := (req_parse uri uri_parse).

  (* appending bytes after a complete request changes nothing *)
  Theorem request_suffix_irrelevant cfg m st c sfx :
    P cfg req_init m = (st, Complete c) ->
    c <= length m /\ P cfg req_init (m ++ sfx) = (st, Complete c).
  Proof.
    intros H. pose proof (req_parse_spec uri uri_parse cfg req_init m sfx (req_init_ok uri cfg)) as HS.
    rewrite H in HS. exact HS.
  Qed.

  (* and the parse depends only on the bytes it consumed *)
  Theorem request_complete_local cfg x st c :
    P cfg req_init x = (st, Complete c) -> P cfg req_init (firstn c x) = (st, Complete c).
  Proof.
    rewrite !req_parse_eq.
    destruct (req_dispatch uri uri_parse cfg req_init x) as [s [k|k|e]] eqn:E.
    - intros H. inversion H; subst. rewrite (req_dispatch_firstn _ _ _ _ _ _ _ E). reflexivity.
    - destruct (presented_ok _ _ _); discriminate.
    - discriminate.
  Qed.

  (* pipelining: splitting a buffer with fresh parsers *)
  Fixpoint req_split (cfg : rcfg) (fuel : nat) (buf : bytes) : list (req_state uri * nat) :=
    match fuel with
    | O => []
    | S f =>
      match buf with
      | [] => []
      | _ =>
        match P cfg req_init buf with
        | (st, Complete c) => (st, c) :: req_split cfg f (skipn c buf)
        | _ => []
        end
      end
    end.

  Definition parses_alone (cfg : rcfg) (m : bytes) : Prop :=
    m <> [] /\ exists st, P cfg req_init m = (st, Complete (length m)).

  Lemma req_split_step cfg f buf :
    buf <> [] ->
    req_split cfg (S f) buf =
    match P cfg req_init buf with
    | (st, Complete c) => (st, c) :: req_split cfg f (skipn c buf)
    | _ => []
    end.
  Proof. destruct buf; [congruence|reflexivity]. Qed.

  Theorem request_pipeline cfg ms :
    Forall (parses_alone cfg) ms ->
    req_split cfg (length ms) (concat ms) =
    map (fun m => (fst (P cfg req_init m), length m)) ms.
  Proof.
    induction ms as [|m ms IH]; intros HF; [reflexivity|].
    inversion HF as [|? ? [Hne [st Hm]] HF']; subst.
    cbn [length concat map].
    destruct (request_suffix_irrelevant cfg m st (length m) (concat ms) Hm) as [_ Hs].
    rewrite req_split_step by (destruct m; [congruence|discriminate]).
    rewrite Hs, Hm. cbn [fst]. f_equal.
    rewrite skipn_app_le by lia. rewrite skipn_all. cbn [app]. apply IH. exact HF'.
  Qed.
End Requests.

(* ---- responses ---- *)
Theorem response_suffix_irrelevant m st c sfx :
  resp_parse resp_init m = (st, Complete c) ->
  c <= length m /\
  exists st' c', resp_parse resp_init (m ++ sfx) = (st', Complete c') /\ same_response st c st' c'.
Proof.
  intros H. pose proof (resp_parse_spec resp_init m sfx rwf_init) as HS. unfold rspec in HS.
  rewrite H in HS. exact HS.
Qed.

(* boundary of a completed response parse: consumed minus trailing data *)
Definition boundary (st : resp_state) (c : nat) : nat := c - length (s_trailer st).

Fixpoint resp_split (fuel : nat) (buf : bytes) : list (resp_state * nat) :=
  match fuel with
  | O => []
  | S f =>
    match buf with
    | [] => []
    | _ =>
      match resp_parse resp_init buf with
      | (st, Complete c) => (st, boundary st c) :: resp_split f (skipn (boundary st c) buf)
      | _ => []
      end
    end
  end.

Definition same_message (a b : resp_state * nat) : Prop :=
  s_code (fst a) = s_code (fst b) /\ s_reason (fst a) = s_reason (fst b) /\
  s_headers (fst a) = s_headers (fst b) /\ s_body (fst a) = s_body (fst b) /\ snd a = snd b.

Definition resp_parses_alone (m : bytes) : Prop :=
  m <> [] /\ exists st, resp_parse resp_init m = (st, Complete (length m)) /\ s_trailer st = [].

Lemma resp_split_step f buf :
  buf <> [] ->
  resp_split (S f) buf =
  match resp_parse resp_init buf with
  | (st, Complete c) => (st, boundary st c) :: resp_split f (skipn (boundary st c) buf)
  | _ => []
  end.
Proof. destruct buf; [congruence|reflexivity]. Qed.

Theorem response_pipeline ms :
  Forall resp_parses_alone ms ->
  Forall2 same_message (resp_split (length ms) (concat ms))
          (map (fun m => (fst (resp_parse resp_init m), length m)) ms).
Proof.
  induction ms as [|m ms IH]; intros HF; [constructor|].
  inversion HF as [|? ? [Hne [st [Hm Htr]]] HF']; subst.
  cbn [length concat map].
  destruct (response_suffix_irrelevant m st (length m) (concat ms) Hm) as [_ [st' [c' [Hs Hsame]]]].
  rewrite resp_split_step by (destruct m; [congruence|discriminate]).
  rewrite Hs, Hm. cbn [fst].
  destruct Hsame as [A1 [A2 [A3 [A4 A5]]]]. rewrite Htr in A5. cbn [length] in A5.
  assert (Hb : boundary st' c' = length m) by (unfold boundary; lia).
  rewrite Hb. constructor.
  - unfold same_message. cbn [fst snd]. repeat split; congruence.
  - rewrite skipn_app_le by lia. rewrite skipn_all. cbn [app]. apply IH. exact HF'.
Qed.
