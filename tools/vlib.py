#!/usr/bin/env python3
"""Infrastructure shared by all property checks: building the proof cone, the
harness and the extracted model; running both sides on case files; evidence."""
import fcntl
import hashlib
import json
import os
import re
import subprocess
import sys
import time
from concurrent.futures import ThreadPoolExecutor

ROOT = os.path.dirname(os.path.dirname(os.path.abspath(__file__)))
COQ = os.path.join(ROOT, "coq")
OCAML = os.path.join(ROOT, "ocaml")
HARNESS = os.path.join(ROOT, "harness")
WORK = os.path.join(ROOT, "work")
REPO = os.environ.get("VERIF_REPO", "/repo")
NPROC = min(16, os.cpu_count() or 4)

FORBIDDEN = re.compile(
    r"\b(Admitted|admit|Axiom|Axioms|Parameter|Parameters|Conjecture|Conjectures|"
    r"Unset\s+Guard|bypass_check|Admit\s+Obligations)\b|type-in-type|impredicative-set")
# axioms of the standard library a theorem may depend on (none is needed so far)
AXIOM_ALLOW = set()

ENV = dict(os.environ, CARGO_NET_OFFLINE="true", RUST_BACKTRACE="0")


def sh(cmd, cwd=None, timeout=1800, env=None):
    p = subprocess.run(cmd, cwd=cwd, shell=isinstance(cmd, str), timeout=timeout,
                       stdout=subprocess.PIPE, stderr=subprocess.STDOUT,
                       env=env or ENV, text=True, errors="replace")
    return p.returncode, p.stdout


class Lock:
    def __init__(self, name):
        os.makedirs(WORK, exist_ok=True)
        self.path = os.path.join(WORK, name + ".lock")

    def __enter__(self):
        self.f = open(self.path, "w")
        fcntl.flock(self.f, fcntl.LOCK_EX)

    def __exit__(self, *a):
        fcntl.flock(self.f, fcntl.LOCK_UN)
        self.f.close()


# ---------------------------------------------------------------- Coq side
def strip_comments(text):
    out, depth, i = [], 0, 0
    while i < len(text):
        if text.startswith("(*", i):
            depth += 1
            i += 2
        elif text.startswith("*)", i) and depth:
            depth -= 1
            i += 2
        else:
            if not depth:
                out.append(text[i])
            i += 1
    return "".join(out)


def cone_of(vfile):
    """transitive closure of `From Http Require Import/Export` below vfile (paths rel. to coq/)"""
    seen, todo = [], [vfile]
    while todo:
        f = todo.pop()
        if f in seen:
            continue
        seen.append(f)
        text = strip_comments(open(os.path.join(COQ, f)).read())
        for m in re.finditer(r"From\s+Http\s+Require\s+(?:Import|Export)\s+", text):
            rest = text[m.end():]
            end = re.search(r"\.(\s|$)", rest)
            mods = rest[:end.start()] if end else rest
            for mod in mods.split():
                p = mod.replace(".", "/") + ".v"
                if os.path.exists(os.path.join(COQ, p)):
                    todo.append(p)
    return seen


def count_obligations(files):
    n = 0
    for f in files:
        text = strip_comments(open(os.path.join(COQ, f)).read())
        n += len(re.findall(r"^\s*(?:Local\s+|Global\s+)?(?:Theorem|Lemma|Corollary|Example|Fact|Remark|Proposition)\s", text, re.M))
    return n


def forbidden_scan():
    hits = []
    for dp, _, fs in os.walk(COQ):
        for f in fs:
            if f.endswith(".v"):
                p = os.path.join(dp, f)
                text = strip_comments(open(p).read())
                for i, line in enumerate(text.split("\n"), 1):
                    if FORBIDDEN.search(line):
                        hits.append(f"{os.path.relpath(p, COQ)}:{i}: {line.strip()}")
    return hits


def coq_build_all(timeout=1500):
    with Lock("coq"):
        if not os.path.exists(os.path.join(COQ, "Makefile")):
            rc, out = sh("coq_makefile -f _CoqProject -o Makefile", cwd=COQ)
            if rc:
                return rc, out
        return sh(f"timeout {timeout} make -j{NPROC}", cwd=COQ, timeout=timeout + 60)


def proof_step(prop, thorough=False):
    """Build Props/<prop>.vo (full .vo build), re-run coqc on the property file to
    capture Print Assumptions, scan for forbidden tokens.  Returns a dict."""
    t0 = time.time()
    vfile = f"Props/{prop}.v"
    if os.environ.get("VERIF_SKIP_PROOF"):      # development only: never set by a registered command
        return {"ok": True, "theorems": [], "assumptions": {}, "log": "", "obligations": 0,
                "discharged": 0, "cone": []}
    res = {"ok": False, "theorems": [], "assumptions": {}, "log": "", "obligations": 0,
           "discharged": 0, "cone": []}
    if not os.path.exists(os.path.join(COQ, vfile)):
        res["log"] = f"{vfile} missing"
        return res
    with Lock("coq"):
        if not os.path.exists(os.path.join(COQ, "Makefile")):
            sh("coq_makefile -f _CoqProject -o Makefile", cwd=COQ)
        rc, out = sh(f"timeout 1500 make -j{NPROC} Props/{prop}.vo", cwd=COQ, timeout=1600)
        if rc == 0:
            # recompile the property file alone to capture its output
            rc, out = sh(f"rm -f Props/{prop}.vo Props/{prop}.glob && timeout 600 make Props/{prop}.vo",
                         cwd=COQ, timeout=700)
    res["log"] = out[-4000:]
    cone = cone_of(vfile)
    res["cone"] = cone
    res["obligations"] = count_obligations(cone)
    hits = forbidden_scan()
    if hits:
        res["log"] += "\nforbidden tokens:\n" + "\n".join(hits)
        return res
    if rc != 0:
        return res
    # parse Print Assumptions blocks:  "Closed under the global context" or "Axioms:\n name : type"
    blocks = re.split(r"(?=Closed under the global context|Axioms:)", out)
    thms = re.findall(r"^\s*Print\s+Assumptions\s+(\w+)\s*\.", strip_comments(open(os.path.join(COQ, vfile)).read()), re.M)
    res["theorems"] = thms
    closed = len(re.findall(r"Closed under the global context", out))
    axioms = []
    for b in blocks:
        if b.startswith("Axioms:"):
            for line in b.split("\n")[1:]:
                m = re.match(r"^(\S+)\s*:", line)
                if m:
                    axioms.append(m.group(1))
                elif line.strip() == "" or not line.startswith(" "):
                    if line.strip() and not line.startswith(" "):
                        break
    bad = [a for a in axioms if a not in AXIOM_ALLOW]
    res["assumptions"] = {"closed_blocks": closed, "axioms": axioms}
    if bad:
        res["log"] += f"\nassumptions outside the allow-list: {bad}"
        return res
    if closed + (1 if axioms else 0) < 1 or closed < len(thms) - (len(thms) if axioms else 0):
        # every Print Assumptions must have produced a block
        if closed < len(thms) and not axioms:
            res["log"] += f"\nexpected {len(thms)} Print Assumptions blocks, saw {closed}"
            return res
    if thorough:
        with Lock("coq"):
            rc2, out2 = sh(f"timeout 1500 coqchk -silent -o -Q . Http Http.Props.{prop}", cwd=COQ, timeout=1600)
        res["coqchk"] = out2[-1500:]
        if rc2 != 0:
            res["log"] += "\ncoqchk failed:\n" + out2[-2000:]
            return res
        m = re.search(r"\* Axioms:\s*(.*?)(?:\n\s*\n|\Z)", out2, re.S)
        if m and "<none>" not in m.group(1):
            res["log"] += "\ncoqchk reports axioms: " + m.group(1)
            return res
    res["ok"] = True
    res["discharged"] = res["obligations"]
    res["wall_s"] = time.time() - t0
    return res


# ---------------------------------------------------------------- implementation + model
def tree_fingerprint():
    h = hashlib.sha256()
    for dp, dn, fs in os.walk(os.path.join(REPO, "src")):
        dn.sort()
        for f in sorted(fs):
            p = os.path.join(dp, f)
            h.update(p.encode())
            h.update(open(p, "rb").read())
    for f in ("Cargo.toml", "Cargo.lock"):
        p = os.path.join(REPO, f)
        if os.path.exists(p):
            h.update(open(p, "rb").read())
    return h.hexdigest()


def build_harness(profiles=("debug",)):
    """cargo build of the harness against /repo's current working tree (path dependency:
    cargo rebuilds rhymuweb whenever its sources changed)."""
    with Lock("cargo"):
        lock_src = os.path.join(REPO, "Cargo.lock")
        if os.path.exists(lock_src):
            data = open(lock_src).read()
            dst = os.path.join(HARNESS, "Cargo.lock.base")
            if not os.path.exists(dst) or open(dst).read() != data:
                open(dst, "w").write(data)
                open(os.path.join(HARNESS, "Cargo.lock"), "w").write(data)
            elif not os.path.exists(os.path.join(HARNESS, "Cargo.lock")):
                open(os.path.join(HARNESS, "Cargo.lock"), "w").write(data)
        logs = []
        for prof in profiles:
            flag = "--release" if prof == "release" else ""
            rc, out = sh(f"cargo build --offline {flag}", cwd=HARNESS, timeout=1500)
            logs.append(out[-3000:])
            if rc:
                return False, "\n".join(logs)
        return True, "\n".join(logs)


def harness_bin(profile="debug"):
    return os.path.join(HARNESS, "target", profile, "verif-harness")


def build_driver():
    with Lock("ocaml"):
        drv = os.path.join(OCAML, "driver")
        srcs = [os.path.join(OCAML, f) for f in ("model.ml", "model.mli", "driver.ml")]
        if not all(os.path.exists(s) for s in srcs):
            return False, "extracted model missing (run the Coq build first)"
        if os.path.exists(drv) and all(os.path.getmtime(drv) >= os.path.getmtime(s) for s in srcs):
            return True, ""
        rc, out = sh("ocamlfind ocamlopt -O3 -package unix -linkpkg -w -a model.mli model.ml driver.ml -o driver",
                     cwd=OCAML, timeout=600)
        return rc == 0, out


def run_sides(workdir, cases, profile="debug", sides=("impl", "model")):
    """cases: list of (id, kind, [args]).  Returns (impl, model): id -> (canon, diag)."""
    os.makedirs(workdir, exist_ok=True)
    nshard = max(1, min(NPROC, len(cases) // 40 + 1))
    shards = [[] for _ in range(nshard)]
    for i, c in enumerate(cases):
        shards[i % nshard].append(c)
    hb = harness_bin(profile)

    def one(k):
        cf = os.path.join(workdir, f"cases.{profile}.{k}.txt")
        with open(cf, "w") as f:
            for cid, kind, args in shards[k]:
                f.write("\t".join([str(cid), kind] + list(args)) + "\n")
        outs = {}
        if "impl" in sides:
            of = os.path.join(workdir, f"impl.{profile}.{k}.txt")
            rc, out = sh([hb, "run", cf, of], timeout=3000)
            if rc:
                raise RuntimeError(f"harness failed: {out[-500:]}")
            outs["impl"] = of
        if "model" in sides:
            of = os.path.join(workdir, f"model.{profile}.{k}.txt")
            rc, out = sh(f"ulimit -s unlimited 2>/dev/null; exec {OCAML}/driver {hb} {cf} {of}", timeout=3000)
            if rc:
                raise RuntimeError(f"driver failed: {out[-500:]}")
            outs["model"] = of
        return outs

    with ThreadPoolExecutor(max_workers=nshard) as ex:
        results = list(ex.map(one, range(nshard)))
    impl, model = {}, {}
    for r in results:
        for side, dst in (("impl", impl), ("model", model)):
            if side in r:
                for line in open(r[side], errors="replace"):
                    parts = line.rstrip("\n").split("\t")
                    if len(parts) >= 2:
                        dst[parts[0]] = (parts[1], parts[2] if len(parts) > 2 else "")
    return impl, model


def fields_of(canon):
    """'a=1;b=2;...' -> dict (first '=' splits); positional tokens under '_k'"""
    d = {}
    for i, tok in enumerate(canon.split(";")):
        if "=" in tok:
            k, v = tok.split("=", 1)
            d[k] = v
        else:
            d[f"_{i}"] = tok
    return d


def write_evidence(prop, tier, seed, coverage, assumptions, wall, violations):
    # /verif/evidence/<id>.json, except when tools/seeded.py runs the check against a deliberately broken
    # tree: those runs must not overwrite the evidence of the real tree
    evdir = os.environ.get("VERIF_EVIDENCE_DIR") or os.path.join(ROOT, "evidence")
    os.makedirs(evdir, exist_ok=True)
    ev = {"property_id": prop, "tier": tier, "seed": seed, "level": "proof",
          "coverage": coverage, "assumptions": assumptions, "wall_s": round(wall, 2),
          "violations": violations}
    p = os.path.join(evdir, f"{prop}.json")
    with open(p, "w") as f:
        json.dump(ev, f, indent=1)
    return p
