(* ReqGrammar.v -- Request::parse reports Complete exactly on the request grammar and
   extracts it faithfully (C03). *)
From Coq Require Import Lia ZifyN ZifyNat String.
From Http Require Import Model.Bytes Model.Utf8 Model.Num Model.Headers Model.Request
     Spec.HeaderGrammar Spec.ChunkedGrammar Spec.RequestGrammar
     Proofs.BytesLemmas Proofs.HeadersResume Proofs.HeaderAlgebra Proofs.HeaderGrammarProofs
     Proofs.ReqResume Proofs.Limits Proofs.ChunkGrammar.

Lemma header_block_ends fs : exists p, header_block fs = p ++ [LF].
Proof. unfold header_block. exists (flat_map field_bytes fs ++ [CR]). rewrite <- app_assoc. reflexivity. Qed.

Lemma strip_cr_after_block fs x : exists x', strip_cr (header_block fs ++ x) = header_block fs ++ x'.
Proof.
  destruct x as [|x0 x1].
  - exists []. rewrite app_nil_r. destruct (header_block_ends fs) as [p ->].
    rewrite strip_cr_snoc. reflexivity.
  - exists (strip_cr (x0 :: x1)). apply strip_cr_app_ne. discriminate.
Qed.

Lemma sat_min a b : sat_add a b = N.min (a + b) USIZE_MAX.
Proof. reflexivity. Qed.

Lemma count_ok_of_within cfg t c :
  within_max cfg (t + c) -> (t <= USIZE_MAX)%N -> count_bytes cfg t c = Some (sat_add t c).
Proof.
  unfold within_max, count_bytes. destruct (mm cfg) as [m|]; [|reflexivity].
  intros H Ht. rewrite sat_min.
  assert (E : N.ltb m (N.min (t + c) USIZE_MAX) = false) by (apply N.ltb_ge; exact H).
  rewrite E. reflexivity.
Qed.

Lemma within_max_mono cfg a b : (a <= b)%N -> within_max cfg b -> within_max cfg a.
Proof.
  unfold within_max. destruct (mm cfg) as [m|]; [|auto]. unfold USIZE_MAX. lia.
Qed.

Section WithUri.
  Variable uri : Type.
  Variable uri_parse : bytes -> option uri.
  Notation P := (req_parse uri uri_parse).
  Notation D := (req_dispatch uri uri_parse).

  (* ---- the request-line splitter inverts the formatting ---- *)
  Lemma parse_request_line_complete lim meth tstr u :
    request_line_ok uri uri_parse lim meth tstr u ->
    parse_request_line uri uri_parse (request_line meth tstr) = inl (meth, u).
  Proof.
    intros [Hm [Hms [Ht [Hts [Hu _]]]]]. unfold parse_request_line, request_line.
    cbn [app]. rewrite (find_byte_app_none SP meth _ Hms).
    destruct (length meth) as [|k] eqn:Lm; [destruct meth; [congruence|discriminate]|].
    rewrite <- Lm. rewrite firstn_app_exact. rewrite skipn_app_cons.
    rewrite (find_byte_app_none SP tstr _ Hts).
    destruct (length tstr) as [|k2] eqn:Lt; [destruct tstr; [congruence|discriminate]|].
    rewrite <- Lt. rewrite firstn_app_exact, Hu. rewrite skipn_app_cons.
    rewrite bytes_eqb_refl. reflexivity.
  Qed.

  Lemma parse_request_line_sound line meth u :
    parse_request_line uri uri_parse line = inl (meth, u) ->
    exists tstr, line = request_line meth tstr /\ meth <> [] /\ find_byte SP meth = None /\
                 tstr <> [] /\ find_byte SP tstr = None /\ uri_parse tstr = Some u.
  Proof.
    unfold parse_request_line.
    destruct (find_byte SP line) as [md|] eqn:F1; [|discriminate].
    destruct md as [|md0]; [discriminate|]. remember (S md0) as md eqn:Emd.
    destruct (find_byte SP (skipn (S md) line)) as [td|] eqn:F2; [|discriminate].
    destruct td as [|td0]; [discriminate|]. remember (S td0) as td eqn:Etd.
    destruct (uri_parse (firstn td (skipn (S md) line))) as [u'|] eqn:U; [|discriminate].
    destruct (bytes_eqb (skipn (S td) (skipn (S md) line)) HTTP11) eqn:B; [|discriminate].
    intros H. inversion H; subst meth u'. clear H.
    apply bytes_eqb_eq in B.
    exists (firstn td (skipn (S md) line)). split; [|split; [|split; [|split; [|split]]]].
    - unfold request_line. rewrite (find_byte_split SP line md F1) at 1. f_equal. cbn [app]. f_equal.
      rewrite (find_byte_split SP _ td F2) at 1. f_equal. cbn [app]. f_equal. exact B.
    - pose proof (find_byte_bound _ _ _ F1). intros Hn. apply (f_equal (@length N)) in Hn.
      rewrite firstn_length in Hn. cbn [length] in Hn. lia.
    - apply find_byte_firstn_none. exact F1.
    - pose proof (find_byte_bound _ _ _ F2). intros Hn. apply (f_equal (@length N)) in Hn.
      rewrite firstn_length in Hn. cbn [length] in Hn. lia.
    - apply find_byte_firstn_none. exact F2.
    - exact U.
  Qed.

  (* ---- completeness ---- *)
  Theorem req_parse_complete cfg m v rest :
    IsRequest uri uri_parse cfg m v ->
    exists st, P cfg req_init (m ++ rest) = (st, Complete (length m)) /\
               value_of uri st (v_target v) = v /\ r_target st = Some (v_target v).
  Proof.
    intros [tstr [fs [Hm [Hline [Hblock [Hhs Hbody]]]]]].
    destruct v as [meth u hs body]. cbn [v_method v_target v_headers v_body] in *.
    pose proof Hline as [_ [_ [_ [_ [_ [Hil [Hutf Hlim]]]]]]].
    pose proof (parse_request_line_complete _ _ _ _ Hline) as Hprl.
    set (line := request_line meth tstr) in *.
    set (block := header_block fs) in *.
    assert (Hfind : find_crlf (m ++ rest) = Some (length line)).
    { rewrite Hm. rewrite <- !app_assoc. apply is_line_find. exact Hil. }
    assert (Hrest : skipn (length line + 2) (m ++ rest) = block ++ body ++ rest).
    { rewrite Hm. rewrite <- !app_assoc. rewrite (app_assoc line CRLF).
      replace (length line + 2) with (length (line ++ CRLF)) by (rewrite app_length; reflexivity).
      apply skipn_app_exact. }
    assert (Hfirst : firstn (length line) (m ++ rest) = line).
    { rewrite Hm. rewrite <- !app_assoc. apply firstn_app_exact. }
    (* the size tests *)
    set (headn := N.of_nat (length line + 2 + length block)) in *.
    assert (Hwhead : within_max cfg headn).
    { destruct (header_value hs CONTENT_LENGTH) as [t|].
      - destruct Hbody as [n [_ [_ Hw]]]. eapply within_max_mono; [|exact Hw]. lia.
      - tauto. }
    assert (Hc1 : count_bytes cfg 0 (N.of_nat (length line + 2)) = Some (sat_add 0 (N.of_nat (length line + 2)))).
    { apply count_ok_of_within; [|unfold USIZE_MAX; lia].
      eapply within_max_mono; [|exact Hwhead]. subst headn. lia. }
    destruct (strip_cr_after_block fs (body ++ rest)) as [x' Hstrip]. fold block in Hstrip.
    pose proof (hdr_parse_complete (hl cfg) [] fs x' Hblock) as HP. fold block in HP.
    rewrite req_parse_eq. unfold req_dispatch. cbn [r_phase req_init]. unfold req_line.
    rewrite Hfind. cbv beta iota. rewrite Hlim, Hfirst, Hutf. cbn [negb r_total req_init].
    rewrite Hc1. rewrite Hprl. cbv beta iota. rewrite Hrest.
    unfold req_headers. cbn [r_headers r_total r_method r_target r_body req_init]. rewrite Hstrip, HP.
    cbv beta iota. cbn [app]. rewrite <- Hhs.
    assert (Hc2 : count_bytes cfg (sat_add 0 (N.of_nat (length line + 2))) (N.of_nat (length block))
                  = Some (sat_add (sat_add 0 (N.of_nat (length line + 2))) (N.of_nat (length block)))).
    { unfold count_bytes. unfold within_max in Hwhead. destruct (mm cfg) as [mx|]; [|reflexivity].
      assert (E : N.ltb mx (sat_add (sat_add 0 (N.of_nat (length line + 2))) (N.of_nat (length block))) = false).
      { apply N.ltb_ge. rewrite sat_add_assoc. rewrite sat_min. subst headn.
        replace (0 + (N.of_nat (length line + 2) + N.of_nat (length block)))%N
          with (N.of_nat (length line + 2 + length block)) by lia. exact Hwhead. }
      rewrite E. reflexivity. }
    rewrite Hc2. cbv beta iota.
    assert (Hskip : skipn (length block) (block ++ body ++ rest) = body ++ rest) by apply skipn_app_exact.
    destruct (header_value hs CONTENT_LENGTH) as [t|] eqn:HV.
    - destruct Hbody as [n [PD [Hlen Hw]]]. rewrite PD. cbv beta iota.
      assert (Hc3 : count_bytes cfg (sat_add (sat_add 0 (N.of_nat (length line + 2))) (N.of_nat (length block))) n
                    = Some (sat_add (sat_add (sat_add 0 (N.of_nat (length line + 2))) (N.of_nat (length block))) n)).
      { unfold count_bytes. unfold within_max in Hw. destruct (mm cfg) as [mx|]; [|reflexivity].
        assert (E : N.ltb mx (sat_add (sat_add (sat_add 0 (N.of_nat (length line + 2))) (N.of_nat (length block))) n) = false).
        { apply N.ltb_ge. rewrite !sat_add_assoc. rewrite sat_min. subst headn.
          replace (0 + (N.of_nat (length line + 2) + (N.of_nat (length block) + n)))%N
            with (N.of_nat (length line + 2 + length block) + n)%N by lia. exact Hw. }
        rewrite E. reflexivity. }
      rewrite Hc3. cbv beta iota. rewrite Hskip. unfold req_body. cbv zeta. cbn [r_body length].
      assert (E4 : N.leb (n - N.of_nat 0) (N.of_nat (length (body ++ rest))) = true)
        by (apply N.leb_le; rewrite app_length; lia).
      rewrite E4. cbn [shift].
      replace (N.to_nat (n - N.of_nat 0)) with (length body) by lia.
      rewrite firstn_app_exact. cbn [app].
      assert (Hlen_m : length m = length line + 2 + (length block + length body))
        by (rewrite Hm, !app_length; cbn [length CRLF]; lia).
      rewrite Hlen_m. eexists. split; [reflexivity|]. split; reflexivity.
    - destruct Hbody as [Hb _]. subst body. cbn [shift app].
      assert (Hlen_m : length m = length line + 2 + length block)
        by (rewrite Hm, !app_length; cbn [length CRLF]; lia).
      rewrite Hlen_m. eexists. split; [reflexivity|]. split; reflexivity.
  Qed.

  (* ---- soundness ---- *)
  Lemma is_line_of_find s e : find_crlf s = Some e -> is_line (firstn e s).
  Proof.
    intros E. unfold is_line. pose proof (find_crlf_bound _ _ E) as B.
    assert (Hl : length (firstn e s) = e) by (rewrite firstn_length; lia).
    rewrite Hl.
    assert (Hb : firstn e s ++ CRLF = firstn (e + 2) s).
    { rewrite firstn_plus, (find_crlf_at _ _ E). reflexivity. }
    rewrite Hb. apply find_crlf_firstn; [exact E|lia].
  Qed.

  Lemma count_within cfg t c t' :
    count_bytes cfg t c = Some t' -> t' = sat_add t c /\ within_max cfg (t + c).
  Proof.
    unfold count_bytes, within_max. destruct (mm cfg) as [mx|].
    - destruct (N.ltb mx (sat_add t c)) eqn:E; [discriminate|].
      intros H. inversion H. split; [reflexivity|]. apply N.ltb_ge in E. exact E.
    - intros H. inversion H. split; [reflexivity|exact I].
  Qed.

  Lemma within_sat cfg a b : within_max cfg (sat_add a b) <-> within_max cfg (a + b).
  Proof. unfold within_max, sat_add. destruct (mm cfg) as [mx|]; [|tauto]. unfold USIZE_MAX. lia. Qed.

  Lemma within_sat0 cfg a b : within_max cfg (sat_add 0 a + b) <-> within_max cfg (a + b).
  Proof. unfold within_max, sat_add. destruct (mm cfg) as [mx|]; [|tauto]. unfold USIZE_MAX. lia. Qed.

  Lemma within3 cfg A B n : within_max cfg (sat_add (sat_add 0 A) B + n) -> within_max cfg (A + B + n).
  Proof. unfold within_max, sat_add. destruct (mm cfg) as [mx|]; [|tauto]. unfold USIZE_MAX. lia. Qed.

  Lemma within2 cfg A B : within_max cfg (sat_add 0 A + B) -> within_max cfg (A + B).
  Proof. unfold within_max, sat_add. destruct (mm cfg) as [mx|]; [|tauto]. unfold USIZE_MAX. lia. Qed.

  Theorem req_parse_sound cfg s st c :
    P cfg req_init s = (st, Complete c) ->
    exists u, r_target st = Some u /\ IsRequest uri uri_parse cfg (firstn c s) (value_of uri st u).
  Proof.
    intros H. apply req_parse_complete_dispatch in H.
    unfold req_dispatch in H. cbn [r_phase req_init] in H. unfold req_line in H.
    destruct (find_crlf s) as [e|] eqn:E.
    2:{ destruct (over_limit _ _); discriminate. }
    pose proof (find_crlf_bound _ _ E) as B.
    destruct (over_limit e (rl cfg)) eqn:O; [discriminate|].
    destruct (negb (utf8_valid (firstn e s))) eqn:U; [discriminate|]. apply negb_false_iff in U.
    cbn [r_total req_init] in H.
    destruct (count_bytes cfg 0 (N.of_nat (e + 2))) as [t1|] eqn:C1; [|discriminate].
    destruct (count_within _ _ _ _ C1) as [-> W1].
    destruct (parse_request_line uri uri_parse (firstn e s)) as [[meth u]|er] eqn:PL; [|discriminate].
    destruct (parse_request_line_sound _ _ _ PL) as [tstr [Hline [Hm [Hms [Ht [Hts Hu]]]]]].
    set (x := skipn (e + 2) s) in *.
    cbn [r_headers r_body req_init] in H.
    match type of H with shift _ _ ?R = _ => destruct R as [sh [k|k|eh]] eqn:EH end;
      cbn [shift] in H; try discriminate.
    inversion H; subst sh c. clear H.
    unfold req_headers in EH. cbn [r_headers r_total r_method r_target r_body] in EH.
    destruct (hdr_parse (hl cfg) [] (strip_cr x)) as [hs ch|hs ch|eh] eqn:HP; try discriminate.
    2:{ destruct (count_bytes _ _ _); discriminate. }
    destruct (hdr_parse_sound _ _ _ _ _ HP) as [fs [Hblock [Hfn Hhs]]]. cbn [app] in Hhs.
    pose proof (hdr_parse_complete_tail _ _ _ _ _ HP) as [_ [Hch _]].
    pose proof (strip_cr_length x) as Hsl.
    assert (Hfx : firstn ch x = header_block fs).
    { rewrite <- Hfn. destruct (strip_cr_decomp x) as [t [Hx _]]. rewrite Hx at 1.
      rewrite firstn_app_le by lia. reflexivity. }
    assert (Hlenb : length (header_block fs) = ch).
    { rewrite <- Hfx. rewrite firstn_length. lia. }
    destruct (count_bytes cfg (sat_add 0 (N.of_nat (e + 2))) (N.of_nat ch)) as [t2|] eqn:C2; [|discriminate].
    destruct (count_within _ _ _ _ C2) as [-> W2].
    assert (Hll : length (firstn e s) = e) by (rewrite firstn_length; lia).
    assert (Hrl : request_line_ok uri uri_parse (rl cfg) meth tstr u).
    { unfold request_line_ok. rewrite <- Hline. rewrite Hll.
      repeat split; try assumption. apply is_line_of_find. exact E. }
    assert (Hsplit : forall j, firstn (e + 2 + j) s = firstn e s ++ CRLF ++ firstn j x).
    { intros j. rewrite firstn_plus. fold x. rewrite firstn_plus.
      rewrite (find_crlf_at _ _ E). cbn [firstn]. rewrite <- app_assoc. reflexivity. }
    destruct (header_value hs CONTENT_LENGTH) as [v|] eqn:HV.
    - destruct (parse_dec v) as [n|] eqn:PD; [|discriminate].
      destruct (count_bytes cfg _ n) as [t3|] eqn:C3; [|discriminate].
      destruct (count_within _ _ _ _ C3) as [-> W3].
      unfold req_body in EH. cbv zeta in EH. cbn [r_body length] in EH.
      destruct (N.leb (n - N.of_nat 0) (N.of_nat (length (skipn ch x)))) eqn:E4; [|discriminate].
      apply N.leb_le in E4. cbn [shift] in EH. inversion EH; subst st k. clear EH.
      exists u. split; [reflexivity|].
      unfold IsRequest, value_of. cbn [v_method v_target v_headers v_body r_method r_headers r_body app].
      exists tstr, fs. rewrite <- Hline. rewrite Hll.
      split; [|split; [exact Hrl|split; [exact Hblock|split; [exact Hhs|]]]].
      + rewrite Hsplit. rewrite firstn_plus. rewrite Hfx. reflexivity.
      + rewrite HV. exists n. split; [exact PD|]. split.
        * rewrite firstn_length. lia.
        * rewrite Hlenb. apply within3 in W3.
          eapply within_max_mono; [|exact W3]. rewrite !Nat2N.inj_add. lia.
    - inversion EH; subst st k. clear EH.
      exists u. split; [reflexivity|].
      unfold IsRequest, value_of. cbn [v_method v_target v_headers v_body r_method r_headers r_body].
      exists tstr, fs. rewrite <- Hline. rewrite Hll.
      split; [|split; [exact Hrl|split; [exact Hblock|split; [exact Hhs|]]]].
      + rewrite Hsplit, Hfx, app_nil_r. reflexivity.
      + rewrite HV. split; [reflexivity|].
        rewrite Hlenb. apply within2 in W2.
        eapply within_max_mono; [|exact W2]. rewrite !Nat2N.inj_add. lia.
  Qed.

  (* a request is determined by its bytes *)
  Theorem IsRequest_functional cfg m v v' :
    IsRequest uri uri_parse cfg m v -> IsRequest uri uri_parse cfg m v' ->
    v_method v = v_method v' /\ v_headers v = v_headers v' /\ v_body v = v_body v'.
  Proof.
    intros H1 H2.
    destruct (req_parse_complete cfg m v [] H1) as [st [E1 [V1 _]]].
    destruct (req_parse_complete cfg m v' [] H2) as [st' [E2 [V2 _]]].
    rewrite E1 in E2. inversion E2; subst st'.
    rewrite <- V1, <- V2. repeat split.
  Qed.
End WithUri.
