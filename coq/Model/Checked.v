(* Checked.v -- the parsers of rhymuweb once more, this time with every operation of the Rust
   source that can panic written as an explicit partial operation: slice ranges
   (`&raw[a..]`, `&raw[..b]`), str ranges (which also need char boundaries), `usize`
   subtraction and addition (a wrap in release mode is treated like the dev-mode panic: either
   is a failure of C06), `Vec::reserve` / growth beyond isize::MAX ("capacity overflow").
   The control structure follows the source: one loop per `parse` / `decode` that slices the
   remainder at `total_consumed`, calls the phase function and adds what it consumed.
   Each partial operation carries the source site it stands for (file:function:expression);
   tools/panic_sites.py compares those labels with the sites it finds in /repo/src on every run.
   Proofs/CheckedOk.v proves that no operation ever fails and that the result is the pure
   model's (Model/Request.v, Chunked.v, Response.v), for every input, state and configuration. *)
From Coq Require Import String.
From Http Require Import Model.Bytes Model.Utf8 Model.Num Model.Headers Model.Request
     Model.Chunked Model.Response.

Inductive chk (A : Type) : Type :=
| COk (a : A)
| CPanic (site : string).
Arguments COk {A} a. Arguments CPanic {A} site.

Definition cbind {A B} (x : chk A) (f : A -> chk B) : chk B :=
  match x with COk a => f a | CPanic s => CPanic s end.
Notation "x <- e ;; f" := (cbind e (fun x => f)) (at level 61, e at next level, right associativity).

Definition ISIZE_MAX : N := 9223372036854775807%N.

(* &s[k..] on a byte slice *)
Definition ck_from (site : string) (s : bytes) (k : nat) : chk bytes :=
  if Nat.leb k (length s) then COk (skipn k s) else CPanic site.
(* &s[..k] *)
Definition ck_to (site : string) (s : bytes) (k : nat) : chk bytes :=
  if Nat.leb k (length s) then COk (firstn k s) else CPanic site.
(* a + b on usize values that are lengths or offsets *)
Definition ck_addn (site : string) (a b : nat) : chk nat :=
  if N.leb (N.of_nat a + N.of_nat b) USIZE_MAX then COk (a + b) else CPanic site.
(* a - b on usize *)
Definition ck_subn (site : string) (a b : nat) : chk nat :=
  if Nat.leb b a then COk (a - b) else CPanic site.
Definition ck_subN (site : string) (a b : N) : chk N :=
  if N.leb b a then COk (a - b)%N else CPanic site.
(* Vec::reserve(additional) / extend on a vector of length len: the new length must not
   exceed isize::MAX *)
Definition ck_grow (site : string) (len : nat) (additional : N) : chk unit :=
  if N.leb (N.of_nat len + additional) ISIZE_MAX then COk tt else CPanic site.

(* str::is_char_boundary *)
Definition is_boundaryb (s : bytes) (k : nat) : bool :=
  (Nat.eqb k 0 || Nat.eqb k (length s)
   || match nth_error s k with Some b => negb (is_cont b) | None => false end)%bool.
(* &text[..k] and &text[k..] on a str *)
Definition ck_str_to (site : string) (s : bytes) (k : nat) : chk bytes :=
  if (Nat.leb k (length s) && is_boundaryb s k)%bool then COk (firstn k s) else CPanic site.
Definition ck_str_from (site : string) (s : bytes) (k : nat) : chk bytes :=
  if (Nat.leb k (length s) && is_boundaryb s k)%bool then COk (skipn k s) else CPanic site.

Arguments ck_from site%string s k.  Arguments ck_to site%string s k.
Arguments ck_addn site%string a b.  Arguments ck_subn site%string a b.  Arguments ck_subN site%string a b.
Arguments ck_grow site%string len additional.
Arguments ck_str_to site%string s k.  Arguments ck_str_from site%string s k.
Arguments CPanic {A} site%string.

(* ------------------------------------------------------------------ request.rs *)
Section CReq.
  Variable uri : Type.
  Variable uri_parse : bytes -> option uri.
  Notation req_state := (req_state uri).

  (* parse_request_line(request_line: &str) *)
  Definition c_parse_request_line (line : bytes) : chk ((bytes * uri) + err) :=
    match find_byte SP line with
    | None => COk (inr ERequestLineNoMethodDelimiter)
    | Some md =>
      meth <- ck_str_to "request.rs:parse_request_line:request_line[0..method_delimiter]" line md ;;
      match md with
      | O => COk (inr ERequestLineNoMethodOrExtraWhitespace)
      | _ =>
        md1 <- ck_addn "request.rs:parse_request_line:method_delimiter + 1" md 1 ;;
        at_target <- ck_str_from "request.rs:parse_request_line:request_line[method_delimiter + 1..]" line md1 ;;
        match find_byte SP at_target with
        | None => COk (inr ERequestLineNoTargetDelimiter)
        | Some td =>
          match td with
          | O => COk (inr ERequestLineNoTargetOrExtraWhitespace)
          | _ =>
            tgt <- ck_str_to "request.rs:parse_request_line:request_line_at_target[..target_delimiter]" at_target td ;;
            match uri_parse tgt with
            | None => COk (inr ERequestTargetUriInvalid)
            | Some u =>
              td1 <- ck_addn "request.rs:parse_request_line:target_delimiter + 1" td 1 ;;
              proto <- ck_str_from "request.rs:parse_request_line:request_line_at_target[target_delimiter + 1..]" at_target td1 ;;
              COk (if bytes_eqb proto HTTP11 then inl (meth, u) else inr ERequestLineProtocol)
            end
          end
        end
      end
    end.

  (* result of one phase function *)
  Inductive rstep :=
  | RPart (st : req_state) (c : nat)
  | RWhole (st : req_state) (c : nat)
  | RInc (st : req_state) (c : nat)
  | RErr (e : err).

  (* parse_message_for_body *)
  Definition c_req_body (st : req_state) (n : N) (rem : bytes) : chk rstep :=
    needed_n <- ck_subN "request.rs:parse_message_for_body:content_length - self.body.len()"
                        n (N.of_nat (length (r_body st))) ;;
    if N.leb needed_n (N.of_nat (length rem)) then
      let needed := N.to_nat needed_n in
      part <- ck_to "request.rs:parse_message_for_body:raw_message[..needed]" rem needed ;;
      _ <- ck_grow "request.rs:parse_message_for_body:self.body.extend(&raw_message[..needed])"
                   (length (r_body st)) (N.of_nat (length part)) ;;
      COk (RWhole {| r_phase := r_phase st; r_method := r_method st; r_target := r_target st;
                     r_headers := r_headers st; r_body := r_body st ++ part;
                     r_total := r_total st |} needed)
    else
      _ <- ck_grow "request.rs:parse_message_for_body:self.body.extend(raw_message)"
                   (length (r_body st)) (N.of_nat (length rem)) ;;
      COk (RInc {| r_phase := r_phase st; r_method := r_method st; r_target := r_target st;
                   r_headers := r_headers st; r_body := r_body st ++ rem;
                   r_total := r_total st |} (length rem)).

  (* parse_message_for_headers *)
  Definition c_req_headers (cfg : rcfg) (st : req_state) (rem : bytes) : chk rstep :=
    let held := strip_cr rem in
    match hdr_parse (hl cfg) (r_headers st) held with
    | HError e => COk (RErr (EHeaders e))
    | HIncomplete hs c =>
      match count_bytes cfg (r_total st) (N.of_nat c) with
      | None => COk (RErr EMessageTooLong)
      | Some t =>
        COk (RInc {| r_phase := PHeaders; r_method := r_method st; r_target := r_target st;
                     r_headers := hs; r_body := r_body st; r_total := t |} c)
      end
    | HComplete hs c =>
      match count_bytes cfg (r_total st) (N.of_nat c) with
      | None => COk (RErr EMessageTooLong)
      | Some t =>
        match header_value hs CONTENT_LENGTH with
        | None =>
          COk (RWhole {| r_phase := PHeaders; r_method := r_method st; r_target := r_target st;
                         r_headers := hs; r_body := r_body st; r_total := t |} c)
        | Some v =>
          match parse_dec v with
          | None => COk (RErr EInvalidContentLength)
          | Some n =>
            match count_bytes cfg t n with
            | None => COk (RErr EMessageTooLong)
            | Some t2 =>
              _ <- ck_grow "request.rs:parse_message_for_headers:self.body.reserve(content_length.min(raw_message.len()))"
                           (length (r_body st)) (N.min n (N.of_nat (length held))) ;;
              COk (RPart {| r_phase := PBody n; r_method := r_method st; r_target := r_target st;
                            r_headers := hs; r_body := r_body st; r_total := t2 |} c)
            end
          end
        end
      end
    end.

  (* parse_message_for_request_line *)
  Definition c_req_line (cfg : rcfg) (st : req_state) (rem : bytes) : chk rstep :=
    match find_crlf rem with
    | Some e =>
      if over_limit e (rl cfg) then
        (* Err(RequestLineTooLong(raw_message[..limit].to_vec())) *)
        match rl cfg with
        | Some l =>
          _ <- ck_to "request.rs:parse_message_for_request_line:raw_message[..limit] (terminated line)" rem (N.to_nat l) ;;
          COk (RErr ERequestLineTooLong)
        | None => COk (RErr ERequestLineTooLong)
        end
      else
      line <- ck_to "request.rs:parse_message_for_request_line:raw_message[0..request_line_end]" rem e ;;
      if negb (utf8_valid line) then COk (RErr ERequestLineNotValidText) else
      consumed <- ck_addn "request.rs:parse_message_for_request_line:request_line_end + CRLF.len()" e 2 ;;
      match count_bytes cfg (r_total st) (N.of_nat consumed) with
      | None => COk (RErr EMessageTooLong)
      | Some t =>
        r <- c_parse_request_line line ;;
        match r with
        | inr er => COk (RErr er)
        | inl (meth, u) =>
          COk (RPart {| r_phase := PHeaders; r_method := meth; r_target := Some u;
                        r_headers := r_headers st; r_body := r_body st; r_total := t |} consumed)
        end
      end
    | None =>
      if over_limit (length (strip_cr rem)) (rl cfg) then
        match rl cfg with
        | Some l =>
          _ <- ck_to "request.rs:parse_message_for_request_line:raw_message[..limit] (unterminated line)" rem (N.to_nat l) ;;
          COk (RErr ERequestLineTooLong)
        | None => COk (RErr ERequestLineTooLong)
        end
      else COk (RInc st 0)
    end.

  Definition c_req_step (cfg : rcfg) (st : req_state) (rem : bytes) : chk rstep :=
    match r_phase st with
    | PRequestLine => c_req_line cfg st rem
    | PHeaders => c_req_headers cfg st rem
    | PBody n => c_req_body st n rem
    end.

  (* the loop of Request::parse.  Fuel: the phases only advance (request line, headers,
     body), so three rounds always suffice; running out is reported like a panic. *)
  Fixpoint c_req_loop (fuel : nat) (cfg : rcfg) (st : req_state) (raw : bytes) (total : nat)
    : chk (req_state * outcome) :=
    match fuel with
    | O => CPanic "request.rs:parse:loop does not end"
    | S f =>
      rem <- ck_from "request.rs:parse:raw_message[total_consumed..]" raw total ;;
      r <- c_req_step cfg st rem ;;
      match r with
      | RErr e => COk (st, Reject e)
      | RPart st' c =>
        total' <- ck_addn "request.rs:parse:total_consumed += consumed" total c ;;
        c_req_loop f cfg st' raw total'
      | RWhole st' c =>
        total' <- ck_addn "request.rs:parse:total_consumed += consumed" total c ;;
        COk (st', Complete total')
      | RInc st' c =>
        total' <- ck_addn "request.rs:parse:total_consumed += consumed" total c ;;
        COk (st', Incomplete total')
      end
    end.

  Definition c_req_parse (cfg : rcfg) (st : req_state) (raw : bytes) : chk (req_state * outcome) :=
    r <- c_req_loop 3 cfg st raw 0 ;;
    match r with
    | (st', Incomplete c) =>
      unconsumed <- ck_subn "request.rs:parse:raw_message.len() - total_consumed" (length raw) c ;;
      COk (if presented_ok cfg (r_total st') unconsumed
           then (st', Incomplete c) else (st, Reject EMessageTooLong))
    | r => COk r
    end.
End CReq.

(* ------------------------------------------------------------------ chunked_body.rs *)

(* parse_chunk_size(chunk_size_line: &str) *)
Definition c_parse_chunk_size (line : bytes) : chk (option N) :=
  let d := match find_byte SEMI line with Some d => d | None => length line end in
  field <- ck_str_to "chunked_body.rs:parse_chunk_size:chunk_size_line[..delimiter]" line d ;;
  COk (parse_hex field).

Definition c_decode_size (st : chunk_state) (rem : bytes) : chk cstep :=
  match find_crlf rem with
  | None => COk (CInc st 0)
  | Some e =>
    line <- ck_to "chunked_body.rs:decode_size:raw_message[0..chunk_size_line_end]" rem e ;;
    if negb (utf8_valid line) then COk (CErr EChunkSizeLineNotValidText) else
    consumed <- ck_addn "chunked_body.rs:decode_size:chunk_size_line_end + CRLF.len()" e 2 ;;
    r <- c_parse_chunk_size line ;;
    match r with
    | None => COk (CErr EInvalidChunkSize)
    | Some n =>
      _ <- ck_grow "chunked_body.rs:decode_size:self.buffer.reserve(self.chunk_bytes_needed.min(raw_message.len()))"
                   (length (c_buffer st)) (N.min n (N.of_nat (length rem))) ;;
      COk (CPart (set_cphase st (if N.eqb n 0 then CTrailer else CData n)) consumed)
    end
  end.

Definition c_decode_data (st : chunk_state) (needed : N) (rem : bytes) : chk cstep :=
  (* let consumed = raw_message.len().min(self.chunk_bytes_needed) *)
  let k := if N.leb needed (N.of_nat (length rem)) then N.to_nat needed else length rem in
  left <- ck_subN "chunked_body.rs:decode_data:self.chunk_bytes_needed -= consumed" needed (N.of_nat k) ;;
  part <- ck_to "chunked_body.rs:decode_data:raw_message[..consumed]" rem k ;;
  _ <- ck_grow "chunked_body.rs:decode_data:self.buffer.extend(&raw_message[..consumed])"
               (length (c_buffer st)) (N.of_nat (length part)) ;;
  let st' := {| c_phase := if N.eqb left 0 then CTerminator else CData left;
                c_buffer := c_buffer st ++ part;
                c_trailer := c_trailer st |} in
  COk (if N.eqb left 0 then CPart st' k else CInc st' k).

Definition c_chunk_step (st : chunk_state) (rem : bytes) : chk cstep :=
  match c_phase st with
  | CSize => c_decode_size st rem
  | CData n => c_decode_data st n rem
  | CTerminator => COk (decode_terminator st rem)     (* slice patterns only: nothing can fail *)
  | CTrailer => COk (decode_trailer st rem)           (* rhymessage's parser: Model/Headers.v *)
  end.

(* the loop of ChunkedBody::decode *)
Fixpoint c_chunk_loop (fuel : nat) (st : chunk_state) (raw : bytes) (total : nat)
  : chk (chunk_state * outcome) :=
  match fuel with
  | O => CPanic "chunked_body.rs:decode:loop does not end"
  | S f =>
    rem <- ck_from "chunked_body.rs:decode:input[total_consumed..]" raw total ;;
    r <- c_chunk_step st rem ;;
    match r with
    | CErr e => COk (st, Reject e)
    | CWhole st' c =>
      total' <- ck_addn "chunked_body.rs:decode:total_consumed += consumed" total c ;;
      COk (st', Complete total')
    | CInc st' c =>
      total' <- ck_addn "chunked_body.rs:decode:total_consumed += consumed" total c ;;
      COk (st', Incomplete total')
    | CPart st' c =>
      total' <- ck_addn "chunked_body.rs:decode:total_consumed += consumed" total c ;;
      c_chunk_loop f st' raw total'
    end
  end.

(* every CompletePart consumes at least one byte, except that the size line of the last chunk
   is followed by the trailer phase at once: 2 rounds per byte are more than enough *)
Definition c_chunk_decode (st : chunk_state) (raw : bytes) : chk (chunk_state * outcome) :=
  c_chunk_loop (S (length raw)) st raw 0.

(* ------------------------------------------------------------------ response.rs *)

(* parse_status_line(status_line: &str) *)
Definition c_parse_status_line (line : bytes) : chk ((N * bytes) + err) :=
  match find_byte SP line with
  | None => COk (inr EStatusLineNoProtocolDelimiter)
  | Some pd =>
    proto <- ck_str_to "response.rs:parse_status_line:status_line[..protocol_delimiter]" line pd ;;
    if negb (bytes_eqb proto HTTP11) then COk (inr EStatusLineProtocol) else
    pd1 <- ck_addn "response.rs:parse_status_line:protocol_delimiter + 1" pd 1 ;;
    at_code <- ck_str_from "response.rs:parse_status_line:status_line[protocol_delimiter + 1..]" line pd1 ;;
    match find_byte SP at_code with
    | None => COk (inr EStatusLineNoStatusCodeDelimiter)
    | Some cd =>
      code_text <- ck_str_to "response.rs:parse_status_line:status_line_at_status_code[..status_code_delimiter]" at_code cd ;;
      match parse_dec code_text with
      | None => COk (inr EInvalidStatusCode)
      | Some code =>
        if N.ltb code 1000 then
          cd1 <- ck_addn "response.rs:parse_status_line:status_code_delimiter + 1" cd 1 ;;
          reason <- ck_str_from "response.rs:parse_status_line:status_line_at_status_code[status_code_delimiter + 1..]" at_code cd1 ;;
          COk (inl (code, reason))
        else COk (inr EStatusCodeOutOfRange)
      end
    end
  end.

Inductive sstep :=
| SPart (st : resp_state) (c : nat)
| SWhole (st : resp_state) (c : nat)
| SInc (st : resp_state) (c : nat)
| SErr (e : err).

(* parse_message_for_fixed_body *)
Definition c_resp_fixed (st : resp_state) (n : N) (rem : bytes) : chk sstep :=
  needed_n <- ck_subN "response.rs:parse_message_for_fixed_body:content_length - self.body.len()"
                      n (N.of_nat (length (s_body st))) ;;
  if N.leb needed_n (N.of_nat (length rem)) then
    let needed := N.to_nat needed_n in
    part <- ck_to "response.rs:parse_message_for_fixed_body:raw_message[..needed]" rem needed ;;
    rest <- ck_from "response.rs:parse_message_for_fixed_body:raw_message[needed..]" rem needed ;;
    _ <- ck_grow "response.rs:parse_message_for_fixed_body:self.body.extend(&raw_message[..needed])"
                 (length (s_body st)) (N.of_nat (length part)) ;;
    _ <- ck_grow "response.rs:parse_message_for_fixed_body:self.trailer.extend(&raw_message[needed..])"
                 (length (s_trailer st)) (N.of_nat (length rest)) ;;
    COk (SWhole {| s_phase := SFixedBody n; s_code := s_code st; s_reason := s_reason st;
                   s_headers := s_headers st; s_body := s_body st ++ part;
                   s_trailer := s_trailer st ++ rest |} (length rem))
  else
    _ <- ck_grow "response.rs:parse_message_for_fixed_body:self.body.extend(raw_message)"
                 (length (s_body st)) (N.of_nat (length rem)) ;;
    COk (SInc {| s_phase := SFixedBody n; s_code := s_code st; s_reason := s_reason st;
                 s_headers := s_headers st; s_body := s_body st ++ rem;
                 s_trailer := s_trailer st |} (length rem)).

(* parse_message_for_chunked_body *)
Definition c_resp_chunked (st : resp_state) (cs : chunk_state) (rem : bytes) : chk sstep :=
  r <- c_chunk_decode cs rem ;;
  COk match r with
      | (_, Reject e) => SErr e
      | (cs', Incomplete c) =>
        SInc {| s_phase := SChunkedBody cs'; s_code := s_code st; s_reason := s_reason st;
                s_headers := s_headers st; s_body := s_body st; s_trailer := s_trailer st |} c
      | (cs', Complete c) =>
        SWhole {| s_phase := SStatusLine; s_code := s_code st; s_reason := s_reason st;
                  s_headers := dechunk_headers (s_headers st) (c_trailer cs') (c_buffer cs');
                  s_body := c_buffer cs'; s_trailer := s_trailer st |} c
      end.

(* parse_message_for_headers *)
Definition c_resp_headers (st : resp_state) (rem : bytes) : chk sstep :=
  match hdr_parse None (s_headers st) rem with
  | HError e => COk (SErr (EHeaders e))
  | HIncomplete hs c =>
    COk (SInc {| s_phase := SHeaders; s_code := s_code st; s_reason := s_reason st;
                 s_headers := hs; s_body := s_body st; s_trailer := s_trailer st |} c)
  | HComplete hs c =>
    match header_value hs CONTENT_LENGTH with
    | Some v =>
      match parse_dec v with
      | None => COk (SErr EInvalidContentLength)
      | Some n =>
        _ <- ck_grow "response.rs:parse_message_for_headers:self.body.reserve(content_length.min(raw_message.len()))"
                     (length (s_body st)) (N.min n (N.of_nat (length rem))) ;;
        COk (SPart {| s_phase := SFixedBody n; s_code := s_code st; s_reason := s_reason st;
                      s_headers := hs; s_body := s_body st; s_trailer := s_trailer st |} c)
      end
    | None =>
      if has_header_token hs TRANSFER_ENCODING CHUNKED then
        COk (SPart {| s_phase := SChunkedBody chunk_init; s_code := s_code st; s_reason := s_reason st;
                      s_headers := hs; s_body := s_body st; s_trailer := s_trailer st |} c)
      else
        COk (SWhole {| s_phase := SHeaders; s_code := s_code st; s_reason := s_reason st;
                       s_headers := hs; s_body := s_body st; s_trailer := s_trailer st |} c)
    end
  end.

(* parse_message_for_status_line *)
Definition c_resp_line (st : resp_state) (rem : bytes) : chk sstep :=
  match find_crlf rem with
  | None => COk (SInc st 0)
  | Some e =>
    line <- ck_to "response.rs:parse_message_for_status_line:raw_message[0..status_line_end]" rem e ;;
    if negb (utf8_valid line) then COk (SErr EStatusLineNotValidText) else
    consumed <- ck_addn "response.rs:parse_message_for_status_line:status_line_end + CRLF.len()" e 2 ;;
    r <- c_parse_status_line line ;;
    match r with
    | inr er => COk (SErr er)
    | inl (code, reason) =>
      COk (SPart {| s_phase := SHeaders; s_code := code; s_reason := reason;
                    s_headers := s_headers st; s_body := s_body st;
                    s_trailer := s_trailer st |} consumed)
    end
  end.

Definition c_resp_step (st : resp_state) (rem : bytes) : chk sstep :=
  match s_phase st with
  | SStatusLine => c_resp_line st rem
  | SHeaders => c_resp_headers st rem
  | SFixedBody n => c_resp_fixed st n rem
  | SChunkedBody cs => c_resp_chunked st cs rem
  end.

(* the loop of Response::parse: status line, headers, one body phase *)
Fixpoint c_resp_loop (fuel : nat) (st : resp_state) (raw : bytes) (total : nat)
  : chk (resp_state * outcome) :=
  match fuel with
  | O => CPanic "response.rs:parse:loop does not end"
  | S f =>
    rem <- ck_from "response.rs:parse:raw_message[total_consumed..]" raw total ;;
    r <- c_resp_step st rem ;;
    match r with
    | SErr e => COk (st, Reject e)
    | SPart st' c =>
      total' <- ck_addn "response.rs:parse:total_consumed += consumed" total c ;;
      c_resp_loop f st' raw total'
    | SWhole st' c =>
      total' <- ck_addn "response.rs:parse:total_consumed += consumed" total c ;;
      COk (st', Complete total')
    | SInc st' c =>
      total' <- ck_addn "response.rs:parse:total_consumed += consumed" total c ;;
      COk (st', Incomplete total')
    end
  end.

Definition c_resp_parse (st : resp_state) (raw : bytes) : chk (resp_state * outcome) :=
  c_resp_loop 3 st raw 0.

(* ------------------------------------------------------------------ coding.rs *)
(* deflate_decode: the zlib header test computes cmf * 256 + flg modulo 31 in u16 arithmetic *)
Definition U16_MAX : N := 65535%N.
Definition c_zlib_check_value (cmf flg : N) : chk N :=
  let m := (cmf * 256)%N in
  if negb (N.leb m U16_MAX) then CPanic "coding.rs:deflate_decode:u16::from(*cmf) * 256" else
  let s := (m + flg)%N in
  if negb (N.leb s U16_MAX) then CPanic "coding.rs:deflate_decode:u16::from(*cmf) * 256 + u16::from(*flg)" else
  COk (s mod 31)%N.

(* split_at(composite: &str, delimiter: char) for an ASCII delimiter *)
Definition c_split_at (c : N) (s : bytes) : chk (option (bytes * bytes)) :=
  match find_byte c s with
  | Some d =>
    a <- ck_str_to "coding.rs:split_at:composite[..delimiter]" s d ;;
    d1 <- ck_addn "coding.rs:split_at:delimiter + 1" d 1 ;;
    b <- ck_str_from "coding.rs:split_at:composite[delimiter + 1..]" s d1 ;;
    COk (Some (a, b))
  | None => COk None
  end.

(* decode_body_as_text: the media type and the parameter text around the first ';' *)
Definition c_content_type_split (ct : bytes) : chk (bytes * bytes) :=
  match find_byte SEMI ct with
  | Some d =>
    a <- ck_str_to "coding.rs:decode_body_as_text:content_type[..delimiter]" ct d ;;
    d1 <- ck_addn "coding.rs:decode_body_as_text:delimiter + 1" d 1 ;;
    b <- ck_str_from "coding.rs:decode_body_as_text:content_type[delimiter + 1..]" ct d1 ;;
    COk (a, b)
  | None => COk (ct, [])
  end.
