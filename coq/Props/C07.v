(* C07 -- declared lengths cannot make the parser allocate out of proportion to input.
   PARTIAL by nature: the theorem bounds what the model asks Vec::reserve for and how much
   its own buffers grow per call; real allocator traffic (Vec doubling, error payloads, the
   dependencies' Strings) is measured by the counting allocator of the correspondence run. *)
From Coq Require Import String.
From Http Require Import Model.Bytes Model.Num Model.Request Model.Chunked Model.Response
     Proofs.ChunkResume Proofs.Safety.

(* request: the reservation made when the header block completes is at most the bytes
   presented to that call, whatever Content-Length says (0 .. 2^64-1) *)
Theorem C07_request_reserve_bounded :
  forall (uri : Type) cfg (st : req_state uri) (buf : bytes) (n : N),
    req_reserve uri cfg st buf = Some n -> (n <= N.of_nat (length buf))%N.
Proof. intros uri cfg st buf n. exact (req_reserve_bounded uri (fun _ => None) cfg st buf n). Qed.
Print Assumptions C07_request_reserve_bounded.

(* chunk decoder: every reservation of one decode call, for every chunk size *)
Theorem C07_chunk_reserves_bounded :
  forall (f : nat) (st : chunk_state) (buf : bytes),
    Forall (fun n => (n <= N.of_nat (length buf))%N) (chunk_reserves f st buf).
Proof. exact chunk_reserves_bounded. Qed.
Print Assumptions C07_chunk_reserves_bounded.

(* the request body buffer grows by at most the bytes presented in the call *)
Theorem C07_request_body_growth :
  forall (uri : Type) (uri_parse : bytes -> option uri) cfg (st : req_state uri) buf st1 o,
    body_inv uri st -> req_dispatch uri uri_parse cfg st buf = (st1, o) ->
    match o with
    | Reject _ => True
    | _ => body_inv uri st1 /\ length (r_body st1) <= length (r_body st) + length buf
    end.
Proof. exact req_dispatch_inv. Qed.
Print Assumptions C07_request_body_growth.

(* the chunk buffer grows by at most what the step consumed *)
Theorem C07_chunk_buffer_growth :
  forall (st : chunk_state) (buf : bytes),
    match chunk_step st buf with
    | CPart st' c | CWhole st' c | CInc st' c =>
        exists k, k <= c /\ length (c_buffer st') = length (c_buffer st) + k
    | CErr _ => True
    end.
Proof. exact chunk_step_buffer. Qed.
Print Assumptions C07_chunk_buffer_growth.

Example C07_example :
  req_reserve bytes default_cfg req_init
    (str "POST / HTTP/1.1"%string ++ CRLF ++ str "Content-Length: 9999999"%string ++ CRLF ++ CRLF ++ str "ab"%string)
  = Some 29%N
  /\ chunk_reserves 9 chunk_init (str "FFFFFFFF"%string ++ CRLF ++ str "x"%string) = [11%N].
Proof. vm_compute. split; reflexivity. Qed.
