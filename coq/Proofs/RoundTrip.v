(* RoundTrip.v -- generated messages parse back to the value they were generated from (C10),
   and whatever is accepted can be re-serialised to an equivalent message (C11). *)
From Coq Require Import ZArith Lia ZifyN ZifyNat String.
From Http Require Import Model.Bytes Model.Utf8 Model.Num Model.Headers Model.Request
     Model.Chunked Model.Response
     Spec.HeaderGrammar Spec.ChunkedGrammar Spec.RequestGrammar Spec.ResponseGrammar
     Proofs.BytesLemmas Proofs.HeaderAlgebra Proofs.HeaderGrammarProofs Proofs.ChunkGrammar
     Proofs.ReqGrammar Proofs.RespGrammar Proofs.NumShow Proofs.Utf8Lemmas Proofs.Utf8Split.

(* ---- headers: generation is the header-block grammar without folding ---- *)
Definition to_field (h : header) : field :=
  {| f_name := fst h; f_seg0 := SP :: snd h; f_conts := [] |}.

Definition hdr_wf (lim : option N) (h : header) : Prop :=
  name_ok (fst h) /\ forallb is_vchar (snd h) = true /\ trim (snd h) = snd h /\
  over_limit (length (header_line h) + 2) lim = false.

Lemma hdr_generate_block hs : hdr_generate_nolimit hs = header_block (map to_field hs).
Proof.
  unfold hdr_generate_nolimit, header_block.
  assert (H : flat_map (fun h => header_line h ++ CRLF) hs = flat_map field_bytes (map to_field hs)).
  { induction hs as [|h hs IH]; [reflexivity|].
    cbn [flat_map map]. rewrite IH. f_equal. }
  rewrite H. reflexivity.
Qed.

Lemma trim_sp v : trim (SP :: v) = trim v.
Proof. reflexivity. Qed.

Lemma first_line_to_field h : first_line (to_field h) = header_line h.
Proof. unfold first_line, to_field, header_line. cbn [f_name f_seg0]. reflexivity. Qed.

Lemma to_field_ok lim h : hdr_wf lim h -> field_ok lim (to_field h) /\ field_header (to_field h) = h.
Proof.
  intros [Hn [Hv [Ht Hl]]]. split.
  - unfold field_ok. rewrite first_line_to_field. cbn [to_field f_name f_seg0 f_conts].
    split; [exact Hn|]. split; [cbn [forallb]; rewrite Hv; reflexivity|]. split; [constructor|exact Hl].
  - unfold field_header, to_field. cbn [f_name f_seg0 f_conts unfolded fold_left].
    rewrite trim_sp, Ht. destruct h; reflexivity.
Qed.

Lemma to_fields_ok lim hs :
  Forall (hdr_wf lim) hs -> Forall (field_ok lim) (map to_field hs) /\ map field_header (map to_field hs) = hs.
Proof.
  induction 1 as [|h hs Hh _ [IH1 IH2]]; [split; [constructor|reflexivity]|].
  destruct (to_field_ok lim h Hh) as [H1 H2]. cbn [map]. split; [constructor; assumption|].
  rewrite H2, IH2. reflexivity.
Qed.

Lemma hdr_generate_wf lim hs :
  Forall (hdr_wf lim) hs -> hdr_generate lim hs = Some (hdr_generate_nolimit hs).
Proof.
  intros H. unfold hdr_generate.
  assert (Hf : forallb (line_fits lim) hs = true).
  { apply forallb_forall. intros h Hin. rewrite Forall_forall in H.
    destruct (H h Hin) as [_ [_ [_ Hl]]]. unfold line_fits, over_limit in *.
    destruct lim as [l|]; [|reflexivity]. apply N.ltb_ge in Hl. apply N.leb_le. lia. }
  rewrite Hf. reflexivity.
Qed.

(* a prefix without CR or LF does not create or hide a CRLF *)
Lemma find_crlf_clean_prefix a b :
  Forall (fun x => x <> CR /\ x <> LF) a ->
  find_crlf (a ++ b) = option_map (fun i => length a + i) (find_crlf b).
Proof.
  induction 1 as [|x a [Hc Hl] _ IH]; [cbn [app length]; destruct (find_crlf b); reflexivity|].
  cbn [app]. destruct (a ++ b) as [|y t] eqn:E.
  - destruct a; [|discriminate]. simpl in E. subst b. reflexivity.
  - rewrite find_crlf_cons2.
    assert (Hx : N.eqb x CR = false) by (apply N.eqb_neq; exact Hc). rewrite Hx. cbn [andb].
    rewrite IH. destruct (find_crlf b); reflexivity.
Qed.

Lemma is_line_iff s : is_line s <-> find_crlf s = None.
Proof.
  unfold is_line. split.
  - intros H. destruct (find_crlf s) as [i|] eqn:E; [|reflexivity].
    rewrite (find_crlf_app s CRLF i E) in H. pose proof (find_crlf_bound _ _ E). inversion H. lia.
  - intros H. destruct (find_crlf (s ++ CRLF)) as [i|] eqn:E.
    + pose proof (find_crlf_bound _ _ E) as B. rewrite app_length in B. simpl in B.
      pose proof (find_crlf_app_none s CRLF i H E) as L.
      destruct (Nat.eq_dec i (length s)) as [->|Hne]; [reflexivity|].
      exfalso. assert (Hi : S i = length s) by lia.
      destruct s as [|a s'] using rev_ind; [simpl in Hi; lia|].
      rewrite app_length in Hi. simpl in Hi. assert (i = length s') by lia. subst i.
      pose proof (find_crlf_at _ _ E) as At.
      rewrite <- app_assoc in At. rewrite skipn_app_exact in At. inversion At.
    + exfalso. clear H. induction s as [|a s IH]; [discriminate|].
      cbn [app] in E. destruct (s ++ CRLF) as [|y t] eqn:E2; [destruct s; discriminate|].
      rewrite find_crlf_cons2 in E. destruct (N.eqb a CR && N.eqb y LF)%bool; [discriminate|].
      destruct (find_crlf (y :: t)); [discriminate|]. apply IH. reflexivity.
Qed.

(* ---- requests ---- *)
Section Req.
  Variable uri : Type.
  Variable uri_parse : bytes -> option uri.
  Variable uri_show : uri -> bytes.

  (* what the round trip needs of rhymuri for THIS target (checked per case by the
     correspondence run; K2 is where it fails) *)
  Definition uri_ok (u : uri) : Prop :=
    uri_parse (uri_show u) = Some u /\ uri_show u <> [] /\ forallb is_graphic (uri_show u) = true.

  (* a method the parser stores: non-empty (stated separately), no SP, valid UTF-8, no CRLF
     inside.  Every graphic-ASCII token qualifies (graphic_method_ok). *)
  Definition method_ok (m : bytes) : Prop :=
    find_byte SP m = None /\ utf8_valid m = true /\ find_crlf m = None.

  Definition WfRequest (cfg : rcfg) (v : req_value uri) : Prop :=
    v_method v <> [] /\ method_ok (v_method v) /\
    uri_ok (v_target v) /\
    over_limit (length (request_line (v_method v) (uri_show (v_target v)))) (rl cfg) = false /\
    Forall (hdr_wf (hl cfg)) (v_headers v) /\ over_limit 2 (hl cfg) = false /\
    let head := N.of_nat (length (request_line (v_method v) (uri_show (v_target v))) + 2
                          + length (hdr_generate_nolimit (v_headers v))) in
    match header_value (v_headers v) CONTENT_LENGTH with
    | None => v_body v = [] /\ within_max cfg head
    | Some t => exists n, parse_dec t = Some n /\ length (v_body v) = N.to_nat n /\ within_max cfg (head + n)
    end.

  Definition generate_request (cfg : rcfg) (v : req_value uri) : option bytes :=
    req_generate cfg (v_method v) (uri_show (v_target v)) (v_headers v) (v_body v).

  Lemma graphic_no_sp s : forallb is_graphic s = true -> find_byte SP s = None.
  Proof.
    induction s as [|a s IH]; [reflexivity|]. simpl. intros H. apply andb_prop in H as [Ha Hs].
    destruct (N.eqb a SP) eqn:E; [apply N.eqb_eq in E; subst; discriminate|].
    rewrite (IH Hs). reflexivity.
  Qed.

  Lemma graphics_vchars s : forallb is_graphic s = true -> forallb is_vchar s = true.
  Proof.
    intros H. rewrite forallb_forall in *. intros b Hb. apply graphic_vchar. apply H. exact Hb.
  Qed.

  Lemma request_line_vchars meth tstr :
    forallb is_graphic meth = true -> forallb is_graphic tstr = true ->
    forallb is_vchar (request_line meth tstr) = true.
  Proof.
    intros Hm Ht. unfold request_line. rewrite !forallb_app.
    rewrite (graphics_vchars _ Hm), (graphics_vchars _ Ht). reflexivity.
  Qed.

  Lemma vchars_is_line s : forallb is_vchar s = true -> is_line s.
  Proof.
    intros H. unfold is_line. pose proof (vchars_find_crlf s [] H) as E.
    rewrite app_nil_r in E. exact E.
  Qed.

  Lemma graphic_method_ok m : forallb is_graphic m = true -> method_ok m.
  Proof.
    intros H. split; [apply graphic_no_sp; exact H|]. pose proof (graphics_vchars _ H) as Hv.
    split; [apply vchars_utf8_valid; exact Hv|]. apply (proj1 (is_line_iff _)). apply vchars_is_line. exact Hv.
  Qed.

  Lemma request_line_wellformed meth tstr :
    method_ok meth -> forallb is_graphic tstr = true ->
    is_line (request_line meth tstr) /\ utf8_valid (request_line meth tstr) = true.
  Proof.
    intros [_ [Hu Hc]] Ht.
    assert (Hv : forallb is_vchar ([SP] ++ tstr ++ [SP] ++ HTTP11) = true).
    { rewrite !forallb_app. rewrite (graphics_vchars _ Ht). reflexivity. }
    unfold request_line. split.
    - apply (proj2 (is_line_iff _)). apply find_crlf_app_both_none; [exact Hc| |reflexivity].
      apply (proj1 (is_line_iff _)). apply vchars_is_line. exact Hv.
    - rewrite utf8_valid_app by exact Hu. apply vchars_utf8_valid. exact Hv.
  Qed.

  Theorem generated_request_is_request cfg v :
    WfRequest cfg v ->
    exists g, generate_request cfg v = Some g /\ IsRequest uri uri_parse cfg g v.
  Proof.
    intros [Hm [Hmg [[Hup [Hune Hug]] [Hrl [Hhs [Hl2 Hbody]]]]]].
    unfold generate_request, req_generate. rewrite (hdr_generate_wf _ _ Hhs).
    eexists. split; [reflexivity|].
    destruct (to_fields_ok (hl cfg) (v_headers v) Hhs) as [Hfs Hmap].
    unfold IsRequest. exists (uri_show (v_target v)), (map to_field (v_headers v)).
    destruct (request_line_wellformed _ _ Hmg Hug) as [Hil Hutf].
    split; [|split; [|split; [|split]]].
    - unfold request_line. rewrite hdr_generate_block. rewrite <- !app_assoc. reflexivity.
    - unfold request_line_ok. repeat split; try assumption.
      + apply Hmg.
      + apply graphic_no_sp. exact Hug.
    - split; assumption.
    - symmetry. exact Hmap.
    - cbv zeta in *. rewrite <- hdr_generate_block. exact Hbody.
  Qed.

  (* C10 for requests *)
  Theorem request_roundtrip cfg v :
    WfRequest cfg v ->
    exists g st,
      generate_request cfg v = Some g /\
      req_parse uri uri_parse cfg req_init g = (st, Complete (length g)) /\
      value_of uri st (v_target v) = v /\ r_target st = Some (v_target v) /\
      generate_request cfg (value_of uri st (v_target v)) = Some g.
  Proof.
    intros Hwf. destruct (generated_request_is_request cfg v Hwf) as [g [Hg HI]].
    destruct (req_parse_complete uri uri_parse cfg g v [] HI) as [st [E [Hv Ht]]].
    rewrite app_nil_r in E. exists g, st. repeat split; try assumption.
    rewrite Hv. exact Hg.
  Qed.
End Req.

(* ---- responses ---- *)
Definition WfResponse (v : resp_value) : Prop :=
  (w_code v < 1000)%N /\
  find_crlf (w_reason v) = None /\ utf8_valid (w_reason v) = true /\
  Forall (hdr_wf None) (w_headers v) /\
  match header_value (w_headers v) CONTENT_LENGTH with
  | Some t => exists n, parse_dec t = Some n /\ length (w_body v) = N.to_nat n
  | None => w_body v = [] /\ has_header_token (w_headers v) TRANSFER_ENCODING CHUNKED = false
  end.

Definition generate_response (v : resp_value) : bytes :=
  resp_generate (w_code v) (w_reason v) (w_headers v) (w_body v).

Lemma digits_clean s : forallb is_digit s = true -> Forall (fun x => x <> CR /\ x <> LF) s.
Proof.
  intros H. apply Forall_forall. intros x Hx. rewrite forallb_forall in H. specialize (H x Hx).
  unfold is_digit in H. apply between_spec in H. unfold CR, LF. split; intros ->; destruct H as [H1 H2];
    [apply H1|apply H1]; reflexivity.
Qed.

Lemma digits_ascii s : forallb is_digit s = true -> Forall (fun b => (b < 128)%N) s.
Proof.
  intros H. apply Forall_forall. intros x Hx. rewrite forallb_forall in H. specialize (H x Hx).
  unfold is_digit in H. apply between_spec in H. lia.
Qed.

Lemma utf8_valid_ascii_app a b :
  Forall (fun x => (x < 128)%N) a -> utf8_valid (a ++ b) = utf8_valid b.
Proof.
  induction 1 as [|x a Hx _ IH]; [reflexivity|].
  cbn [app utf8_valid]. apply N.ltb_lt in Hx. rewrite Hx. exact IH.
Qed.

Lemma status_line_ok_show code reason :
  (code < 1000)%N -> find_crlf reason = None -> utf8_valid reason = true ->
  status_line_ok (show_dec code) reason code.
Proof.
  intros Hc Hr Hu. destruct (show_dec_digits code) as [Hne [Hd Hv]].
  assert (PD : parse_dec (show_dec code) = Some code) by (apply parse_show_dec; unfold USIZE_MAX; lia).
  unfold status_line_ok. split; [exact PD|]. split; [exact Hc|].
  set (pre := HTTP11 ++ [SP] ++ show_dec code ++ [SP]).
  assert (Hsl : status_line (show_dec code) reason = pre ++ reason).
  { unfold status_line, pre. rewrite <- !app_assoc. reflexivity. }
  assert (Hclean : Forall (fun x => x <> CR /\ x <> LF) pre).
  { unfold pre. apply Forall_app. split; [repeat constructor; discriminate|].
    apply Forall_app. split; [repeat constructor; discriminate|].
    apply Forall_app. split; [apply digits_clean; exact Hd|repeat constructor; discriminate]. }
  assert (Hascii : Forall (fun x => (x < 128)%N) pre).
  { unfold pre. apply Forall_app. split; [repeat constructor|].
    apply Forall_app. split; [repeat constructor|].
    apply Forall_app. split; [apply digits_ascii; exact Hd|repeat constructor]. }
  rewrite Hsl. split.
  - apply is_line_iff. rewrite find_crlf_clean_prefix by exact Hclean. rewrite Hr. reflexivity.
  - rewrite utf8_valid_ascii_app by exact Hascii. exact Hu.
Qed.

Theorem generated_response_is_response v :
  WfResponse v -> IsResponse (generate_response v) v.
Proof.
  intros [Hc [Hr [Hu [Hhs Hbody]]]].
  destruct (to_fields_ok None (w_headers v) Hhs) as [Hfs Hmap].
  unfold IsResponse, generate_response, resp_generate.
  exists (show_dec (w_code v)), (map to_field (w_headers v)), (w_body v).
  split; [|split; [|split]].
  - unfold status_line. rewrite hdr_generate_block. rewrite <- !app_assoc. reflexivity.
  - apply status_line_ok_show; assumption.
  - split; [exact Hfs|reflexivity].
  - rewrite Hmap. destruct (header_value (w_headers v) CONTENT_LENGTH) as [t|] eqn:HV.
    + destruct Hbody as [n [PD Hlen]]. apply (Fr_fixed _ t n); assumption.
    + destruct Hbody as [Hb HT]. rewrite Hb. apply Fr_none; assumption.
Qed.

(* C10 for responses *)
Theorem response_roundtrip v :
  WfResponse v ->
  exists st,
    resp_parse resp_init (generate_response v) = (st, Complete (length (generate_response v))) /\
    resp_value_of st = v /\ s_trailer st = [] /\
    generate_response (resp_value_of st) = generate_response v.
Proof.
  intros Hwf. pose proof (generated_response_is_response v Hwf) as HI.
  destruct (resp_parse_complete _ v [] HI) as [st [c [E [Hv [Hc Htr]]]]].
  rewrite app_nil_r in E.
  assert (Htr0 : s_trailer st = []) by (destruct Htr; assumption).
  rewrite Htr0 in Hc. simpl in Hc. rewrite Nat.add_0_r in Hc. subst c.
  exists st. repeat split; try assumption. rewrite Hv. reflexivity.
Qed.
