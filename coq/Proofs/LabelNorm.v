(* LabelNorm.v -- encoding_rs::Encoding::for_label as "normalise, then look up": leading and trailing
   ASCII whitespace (09 0A 0C 0D 20) removed, ASCII letters lower-cased, the result looked up in the
   label table (any function on normalised labels).  Case-insensitivity of the charset label is then a
   theorem instead of a hypothesis about the oracle. *)
From Coq Require Import Lia.
From Http Require Import Model.Bytes Model.Utf8 Model.Headers Model.Coding Proofs.CaseLemmas.

Lemma drop_while_map (p : N -> bool) (f : N -> N) s :
  (forall b, p (f b) = p b) -> drop_while p (map f s) = map f (drop_while p s).
Proof.
  intros H. induction s as [|a t IH]; [reflexivity|].
  cbn [map drop_while]. rewrite H. destruct (p a); [exact IH|reflexivity].
Qed.

Lemma label_ws_lower b : is_label_ws (to_lower b) = is_label_ws b.
Proof.
  unfold to_lower. destruct (between 65 90 b) eqn:E; [|reflexivity].
  unfold between in E. apply andb_prop in E as [E1 E2]. apply N.leb_le in E1. apply N.leb_le in E2.
  unfold is_label_ws.
  repeat match goal with |- context [N.eqb ?x ?y] => let H := fresh in destruct (N.eqb_spec x y) as [H|H]; try lia end;
    reflexivity.
Qed.

Lemma label_trim_lower l : label_trim (lower l) = lower (label_trim l).
Proof.
  unfold label_trim, lower.
  rewrite (drop_while_map _ _ _ label_ws_lower), <- map_rev,
          (drop_while_map _ _ _ label_ws_lower), <- map_rev. reflexivity.
Qed.

Theorem label_norm_ci l l' : ci_eq l l' -> label_norm l = label_norm l'.
Proof.
  unfold ci_eq, label_norm. intros H. rewrite <- !label_trim_lower, H. reflexivity.
Qed.

Theorem label_norm_idem l : label_norm (label_norm l) = label_norm l.
Proof.
  unfold label_norm. rewrite label_trim_lower.
  assert (Hl : forall x, lower (lower x) = lower x).
  { intros x. unfold lower. rewrite map_map. apply map_ext. apply to_lower_idem. }
  rewrite Hl.
  (* trimming twice *)
  assert (Ht : forall s, label_trim (label_trim s) = label_trim s).
  { intros s. unfold label_trim.
    assert (D : forall x, drop_while is_label_ws (drop_while is_label_ws x) = drop_while is_label_ws x).
    { induction x as [|a t IH]; [reflexivity|]. cbn [drop_while]. destruct (is_label_ws a) eqn:E; [exact IH|].
      cbn [drop_while]. rewrite E. reflexivity. }
    (* the front of an already front-trimmed string stays: trimming the back never uncovers new front whitespace
       unless everything goes *)
    assert (F : forall x, drop_while is_label_ws (rev (drop_while is_label_ws (rev (drop_while is_label_ws x))))
                          = rev (drop_while is_label_ws (rev (drop_while is_label_ws x)))).
    { intros x. set (y := drop_while is_label_ws x).
      assert (Hy : drop_while is_label_ws y = y) by (subst y; apply D).
      destruct y as [|a t]; [reflexivity|].
      cbn [drop_while] in Hy. destruct (is_label_ws a) eqn:Ea.
      - exfalso. assert (L : length (drop_while is_label_ws t) <= length t).
        { clear. induction t as [|b u IH]; [apply le_n|]. cbn [drop_while]. destruct (is_label_ws b); simpl; lia. }
        rewrite Hy in L. simpl in L. lia.
      - (* a is not whitespace: whatever the back-trim removes, a stays in front *)
        assert (R : exists u, rev (drop_while is_label_ws (rev (a :: t))) = a :: u).
        { clear - Ea. cbn [rev].
          assert (G : forall p, exists q, drop_while is_label_ws (p ++ [a]) = q ++ [a]).
          { induction p as [|b p IH]; cbn [app drop_while].
            - rewrite Ea. exists []. reflexivity.
            - destruct (is_label_ws b); [exact IH|]. exists (b :: p). reflexivity. }
          destruct (G (rev t)) as [q Hq]. rewrite Hq. rewrite rev_app_distr. cbn [rev app]. eexists. reflexivity. }
        destruct R as [u Hu]. rewrite Hu. cbn [drop_while]. rewrite Ea. reflexivity. }
    rewrite F. rewrite rev_involutive. apply F. }
  rewrite Ht. reflexivity.
Qed.

Section TextNorm.
  Variable enc : Type.
  Variable lookup : bytes -> option enc.          (* the label table, on normalised labels *)
  Variable enc_decode : enc -> bytes -> option (list N).

  Theorem decode_text_ci_unconditional hs hs' body :
    hdrs_ci hs hs' ->
    decode_text enc (for_label_of lookup) enc_decode hs body
    = decode_text enc (for_label_of lookup) enc_decode hs' body.
  Proof.
    apply decode_text_ci. intros l l' H. unfold for_label_of. rewrite (label_norm_ci _ _ H). reflexivity.
  Qed.
End TextNorm.
