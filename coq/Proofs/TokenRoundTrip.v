(* TokenRoundTrip.v -- the Transfer-Encoding header written after de-chunking lists exactly the
   remaining codings: tokenising "t1, t2, ..., tn" gives back t1 ... tn (C12). *)
From Coq Require Import Lia ZifyN ZifyBool.
From Http Require Import Model.Bytes Model.Utf8 Model.Num Model.Headers Model.Request Model.Chunked
     Model.Response Proofs.BytesLemmas Proofs.HeaderAlgebra Proofs.Rewrite Proofs.TrimLemmas
     Proofs.Utf8Lemmas Proofs.CaseLemmas Proofs.CaseBytes.

(* a token as the tokeniser produces it: no comma, trimmed, lower case *)
Definition tok_clean (t : bytes) : Prop :=
  find_byte COMMA t = None /\ trim t = t /\ lower t = t.

(* ---- pieces of a split have no delimiter; trimming and lower-casing keep that ---- *)
Lemma split_on_no_delim c s : Forall (fun p => find_byte c p = None) (split_on c s).
Proof.
  induction s as [|a t IH]; [repeat constructor|].
  cbn [split_on]. destruct (N.eqb a c) eqn:E; [constructor; [reflexivity|exact IH]|].
  destruct (split_on c t) as [|p ps]; [repeat constructor; cbn; rewrite E; reflexivity|].
  inversion IH as [|? ? Hp Hps]; subst. constructor; [|exact Hps].
  cbn [find_byte]. rewrite E, Hp. reflexivity.
Qed.

Lemma find_byte_none_forall c s : find_byte c s = None <-> Forall (fun x => x <> c) s.
Proof.
  induction s as [|a t IH]; [split; [constructor|reflexivity]|].
  cbn [find_byte]. destruct (N.eqb a c) eqn:E.
  - split; [discriminate|]. intros H. inversion H; subst. apply N.eqb_eq in E. contradiction.
  - apply N.eqb_neq in E. destruct (find_byte c t).
    + split; [discriminate|]. intros H. inversion H; subst.
      assert (@None nat = None) by reflexivity. apply IH in H3. discriminate.
    + split; [intros _; constructor; [exact E|apply IH; reflexivity]|reflexivity].
Qed.

Lemma Forall_drop_while (P : N -> Prop) (p : N -> bool) (s : bytes) :
  Forall P s -> Forall P (drop_while p s).
Proof. induction 1 as [|a t Ha Ht IH]; [constructor|]. cbn [drop_while]. destruct (p a); [exact IH|constructor; assumption]. Qed.

Lemma Forall_rev' {A} (P : A -> Prop) (s : list A) : Forall P s -> Forall P (rev s).
Proof. intros H. apply Forall_forall. intros x Hx. rewrite Forall_forall in H. apply H. apply in_rev. exact Hx. Qed.

Lemma trim_no_delim c s : find_byte c s = None -> find_byte c (trim s) = None.
Proof.
  rewrite !find_byte_none_forall. intros H. unfold trim, trim_start, trim_end.
  apply Forall_rev'. apply Forall_drop_while. apply Forall_rev'. apply Forall_drop_while. exact H.
Qed.

Lemma value_tokens_clean v : Forall tok_clean (value_tokens v).
Proof.
  unfold value_tokens, split_terminator.
  assert (H : Forall (fun p => find_byte COMMA p = None) (drop_last_empty (split_on COMMA v))).
  { pose proof (split_on_no_delim COMMA v) as H0. revert H0. generalize (split_on COMMA v).
    induction l as [|p ps IH]; intros H0; [constructor|]. inversion H0; subst.
    cbn [drop_last_empty]. destruct p as [|a p'].
    - destruct ps; [constructor|constructor; [assumption|apply IH; assumption]].
    - constructor; [assumption|apply IH; assumption]. }
  induction H as [|p ps Hp _ IH]; [constructor|]. cbn [map]. constructor; [|exact IH].
  split; [|split].
  - rewrite (find_byte_lower COMMA) by reflexivity. apply trim_no_delim. exact Hp.
  - rewrite <- trim_lower. rewrite trim_idem. reflexivity.
  - apply lower_idem.
Qed.

Lemma header_tokens_clean hs n : Forall tok_clean (header_tokens hs n).
Proof.
  unfold header_tokens. induction (header_multi_value hs n) as [|v vs IH]; [constructor|].
  cbn [flat_map]. apply Forall_app. split; [apply value_tokens_clean|exact IH].
Qed.

(* ---- tokenising the joined list ---- *)
Lemma split_on_app_delim c a b : find_byte c a = None -> split_on c (a ++ c :: b) = a :: split_on c b.
Proof.
  induction a as [|x a IH]; intros H.
  - cbn [app split_on]. rewrite N.eqb_refl. reflexivity.
  - cbn [find_byte] in H. destruct (N.eqb x c) eqn:E; [discriminate|].
    destruct (find_byte c a) eqn:F; [discriminate|].
    cbn [app split_on]. rewrite E. rewrite (IH eq_refl). reflexivity.
Qed.

Lemma split_on_no_delim_whole c a : find_byte c a = None -> split_on c a = [a].
Proof.
  induction a as [|x a IH]; intros H; [reflexivity|].
  cbn [find_byte] in H. destruct (N.eqb x c) eqn:E; [discriminate|].
  destruct (find_byte c a) eqn:F; [discriminate|].
  cbn [split_on]. rewrite E. rewrite (IH eq_refl). reflexivity.
Qed.

Lemma trim_sp s : trim (SP :: s) = trim s.
Proof. reflexivity. Qed.

(* the pieces of "t1, t2, ..., tn": t1, " t2", ..., " tn" *)
Fixpoint spaced (ts : list bytes) : list bytes :=
  match ts with [] => [] | t :: r => (SP :: t) :: spaced r end.

Lemma split_joined t ts :
  Forall (fun x => find_byte COMMA x = None) (t :: ts) ->
  split_on COMMA (join [COMMA; SP] (t :: ts)) = t :: spaced ts.
Proof.
  revert t. induction ts as [|u us IH]; intros t H.
  - cbn [join spaced]. inversion H; subst. apply split_on_no_delim_whole. assumption.
  - inversion H as [|? ? Ht Hr]; subst.
    change (join [COMMA; SP] (t :: u :: us)) with (t ++ COMMA :: (SP :: join [COMMA; SP] (u :: us))).
    rewrite (split_on_app_delim COMMA t _ Ht).
    (* SP :: join (u :: us) = join ((SP :: u) :: us) *)
    assert (E : SP :: join [COMMA; SP] (u :: us) = join [COMMA; SP] ((SP :: u) :: us)).
    { destruct us; reflexivity. }
    rewrite E. rewrite IH.
    + reflexivity.
    + inversion Hr as [|? ? Hu Hus]; subst. constructor; [|exact Hus].
      cbn [find_byte]. rewrite Hu. reflexivity.
Qed.

Lemma drop_last_empty_nonempty l : Forall (fun p => p <> []) l -> drop_last_empty l = l.
Proof.
  induction 1 as [|p ps Hp _ IH]; [reflexivity|]. cbn [drop_last_empty].
  destruct p as [|a p']; [congruence|]. rewrite IH. reflexivity.
Qed.

Lemma spaced_nonempty ts : Forall (fun p => p <> []) (spaced ts).
Proof. induction ts; constructor; [discriminate|assumption]. Qed.

Lemma map_tok_spaced ts :
  Forall tok_clean ts -> map (fun p => lower (trim p)) (spaced ts) = ts.
Proof.
  induction 1 as [|t r [_ [Ht Hl]] _ IH]; [reflexivity|].
  cbn [spaced map]. rewrite trim_sp, Ht, Hl, IH. reflexivity.
Qed.

Theorem value_tokens_join toks :
  Forall (fun t => tok_clean t /\ t <> []) toks -> toks <> [] ->
  value_tokens (join [COMMA; SP] toks) = toks.
Proof.
  intros H Hne. destruct toks as [|t ts]; [congruence|].
  assert (Hc : Forall tok_clean (t :: ts)) by (eapply Forall_impl; [|exact H]; intros a [Ha _]; exact Ha).
  assert (Hnc : Forall (fun x => find_byte COMMA x = None) (t :: ts))
    by (eapply Forall_impl; [|exact Hc]; intros a [Ha _]; exact Ha).
  unfold value_tokens, split_terminator. rewrite (split_joined t ts Hnc).
  rewrite drop_last_empty_nonempty.
  - cbn [map]. inversion Hc as [|? ? [_ [Ht Hl]] Hr]; subst. rewrite Ht, Hl.
    rewrite (map_tok_spaced ts Hr). reflexivity.
  - inversion H as [|? ? [_ Htne] _]; subst. constructor; [exact Htne|apply spaced_nonempty].
Qed.

(* ---- C12: the codings listed after de-chunking ---- *)
Lemma filtered_tokens_ok hs n :
  Forall (fun t => tok_clean t /\ t <> []) (filter nonempty (header_tokens hs n)).
Proof.
  pose proof (header_tokens_clean hs n) as HC.
  induction HC as [|x xs Hx _ IH]; [constructor|]. cbn [filter].
  destruct (nonempty x) eqn:E; [|exact IH]. constructor; [|exact IH].
  split; [exact Hx|]. destruct x; discriminate.
Qed.

Lemma Forall_removelast' {A} (P : A -> Prop) l : Forall P l -> Forall P (removelast l).
Proof.
  induction 1 as [|a l Ha Hl IH]; [constructor|]. cbn [removelast].
  destruct l; [constructor|constructor; assumption].
Qed.

Theorem dechunk_codings_listed H T body :
  let toks := removelast (filter nonempty (header_tokens H TRANSFER_ENCODING)) in
  header_tokens (dechunk_headers H T body) TRANSFER_ENCODING = toks.
Proof.
  cbv zeta. rewrite header_tokens_hmv. rewrite (dechunk_transfer_encoding H T body).
  pose proof (Forall_removelast' _ _ (filtered_tokens_ok H TRANSFER_ENCODING)) as HF.
  destruct (removelast (filter nonempty (header_tokens H TRANSFER_ENCODING))) as [|t ts]; [reflexivity|].
  cbn [flat_map]. rewrite app_nil_r. apply value_tokens_join; [exact HF|discriminate].
Qed.
