(* ChunkResume.v -- ChunkedBody::decode is resumable at every byte. *)
From Coq Require Import Lia ZifyN ZifyNat.
From Http Require Import Model.Bytes Model.Utf8 Model.Num Model.Headers Model.Request
     Model.Chunked Proofs.BytesLemmas Proofs.HeadersResume.

(* well-formed decoder states: a data phase always still needs at least one byte *)
Definition cwf (st : chunk_state) : Prop :=
  match c_phase st with CData n => n <> 0%N | _ => True end.

Lemma cwf_init : cwf chunk_init.
Proof. exact I. Qed.

Definition coeq (r1 r2 : chunk_state * outcome) : Prop :=
  match r1, r2 with
  | (_, Reject e1), (_, Reject e2) => e1 = e2
  | _, _ => r1 = r2
  end.

Lemma coeq_refl r : coeq r r.
Proof. destruct r as [s [c|c|e]]; reflexivity. Qed.

(* ---- one sub-state step ---- *)
Lemma chunk_step_part st a b st' c :
  cwf st -> chunk_step st a = CPart st' c ->
  chunk_step st (a ++ b) = CPart st' c /\ 0 < c /\ c <= length a /\ cwf st'.
Proof.
  intros Hwf. unfold chunk_step. destruct (c_phase st) as [|needed| |] eqn:Hph.
  - (* size line *)
    unfold decode_size. destruct (find_crlf a) as [e|] eqn:E; [|discriminate].
    pose proof (find_crlf_bound _ _ E) as B.
    rewrite (find_crlf_app _ b _ E). rewrite firstn_app_le by lia.
    destruct (negb (utf8_valid (firstn e a))); [discriminate|].
    destruct (parse_chunk_size (firstn e a)) as [n|]; [|discriminate].
    intros H. inversion H; subst. split; [reflexivity|]. split; [lia|]. split; [lia|].
    unfold cwf, set_cphase. cbn [c_phase]. destruct (N.eqb n 0) eqn:Z; [exact I|].
    apply N.eqb_neq in Z. exact Z.
  - (* data *)
    unfold cwf in Hwf. rewrite Hph in Hwf.
    unfold decode_data. cbv zeta.
    destruct (N.leb needed (N.of_nat (length a))) eqn:E1.
    + apply N.leb_le in E1.
      assert (E2 : N.leb needed (N.of_nat (length (a ++ b))) = true)
        by (apply N.leb_le; rewrite app_length; lia).
      rewrite E2.
      replace (needed - N.of_nat (N.to_nat needed))%N with 0%N by lia. cbn [N.eqb].
      intros H. inversion H; subst. rewrite firstn_app_le by lia.
      split; [reflexivity|]. split; [lia|]. split; [lia|]. exact I.
    + apply N.leb_gt in E1.
      destruct (N.eqb (needed - N.of_nat (length a)) 0) eqn:Z; [apply N.eqb_eq in Z; lia|].
      discriminate.
  - (* terminator *)
    unfold decode_terminator. destruct a as [|x [|y t]]; try discriminate.
    + destruct (N.eqb x CR); discriminate.
    + cbn [app]. destruct (N.eqb x CR && N.eqb y LF)%bool; [|discriminate].
      intros H. inversion H; subst. split; [reflexivity|]. split; [lia|]. split; [simpl; lia|]. exact I.
  - (* trailer *)
    unfold decode_trailer. destruct (hdr_parse None (c_trailer st) a); discriminate.
Qed.

Lemma chunk_step_whole st a b st' c :
  chunk_step st a = CWhole st' c -> chunk_step st (a ++ b) = CWhole st' c /\ c <= length a.
Proof.
  unfold chunk_step. destruct (c_phase st) as [|needed| |].
  - unfold decode_size. destruct (find_crlf a); [|discriminate].
    destruct (negb _); [discriminate|]. destruct (parse_chunk_size _); discriminate.
  - unfold decode_data. cbv zeta. destruct (N.eqb _ 0); discriminate.
  - unfold decode_terminator. destruct a as [|x [|y t]]; try discriminate.
    + destruct (N.eqb x CR); discriminate.
    + destruct (_ && _)%bool; discriminate.
  - unfold decode_trailer.
    pose proof (hdr_parse_app None (c_trailer st) a b (or_introl eq_refl)) as HP.
    destruct (hdr_parse None (c_trailer st) a) as [hs c1|hs c1|e]; try discriminate.
    destruct HP as [Hc HP]. rewrite HP. intros H. inversion H; subst. split; [reflexivity|exact Hc].
Qed.

Lemma chunk_step_err st a b e :
  chunk_step st a = CErr e -> exists e', chunk_step st (a ++ b) = CErr e'.
Proof.
  unfold chunk_step. destruct (c_phase st) as [|needed| |].
  - unfold decode_size. destruct (find_crlf a) as [e0|] eqn:E; [|discriminate].
    pose proof (find_crlf_bound _ _ E) as B.
    rewrite (find_crlf_app _ b _ E). rewrite firstn_app_le by lia.
    destruct (negb (utf8_valid (firstn e0 a))); [eauto|].
    destruct (parse_chunk_size (firstn e0 a)); [discriminate|eauto].
  - unfold decode_data. cbv zeta. destruct (N.eqb _ 0); discriminate.
  - unfold decode_terminator. destruct a as [|x [|y t]]; try discriminate.
    + destruct (N.eqb x CR) eqn:X; [discriminate|]. intros _.
      cbn [app]. destruct b as [|y b']; [rewrite X; eauto|].
      rewrite X. cbn [andb]. eauto.
    + cbn [app]. destruct (_ && _)%bool; [discriminate|eauto].
  - unfold decode_trailer.
    pose proof (hdr_parse_app None (c_trailer st) a b (or_introl eq_refl)) as HP.
    destruct (hdr_parse None (c_trailer st) a) as [hs c1|hs c1|e0]; try discriminate.
    destruct HP as [e' HP]. rewrite HP. eauto.
Qed.

(* ---- the loop ---- *)
Lemma chunk_loop_step f st buf off :
  chunk_loop (S f) st buf off =
  match chunk_step st buf with
  | CErr e => (st, Reject e)
  | CWhole st' c => (st', Complete (off + c))
  | CInc st' c => (st', Incomplete (off + c))
  | CPart st' c => chunk_loop f st' (skipn c buf) (off + c)
  end.
Proof. reflexivity. Qed.

Lemma chunk_loop_fuel f1 f2 st buf off :
  cwf st -> length buf < f1 -> length buf < f2 ->
  chunk_loop f1 st buf off = chunk_loop f2 st buf off.
Proof.
  revert f2 st buf off. induction f1 as [|f1 IH]; intros f2 st buf off Hwf H1 H2; [lia|].
  destruct f2 as [|f2]; [lia|]. rewrite !chunk_loop_step.
  destruct (chunk_step st buf) as [st' c|st' c|st' c|e] eqn:E; try reflexivity.
  destruct (chunk_step_part st buf [] st' c Hwf E) as [_ [Hp [Hc Hwf']]].
  apply IH; [exact Hwf'| |]; rewrite skipn_length; lia.
Qed.

Lemma chunk_loop_off f st buf off :
  chunk_loop f st buf off =
  match chunk_loop f st buf 0 with
  | (s, Complete c) => (s, Complete (off + c))
  | (s, Incomplete c) => (s, Incomplete (off + c))
  | (s, Reject e) => (s, Reject e)
  end.
Proof.
  revert st buf off. induction f as [|f IH]; intros st buf off.
  - simpl. f_equal. f_equal. lia.
  - rewrite !chunk_loop_step.
    destruct (chunk_step st buf) as [st' c|st' c|st' c|e]; try (f_equal; f_equal; lia); try reflexivity.
    rewrite (IH st' _ (off + c)), (IH st' _ (0 + c)).
    destruct (chunk_loop f st' (skipn c buf) 0) as [s [k|k|e]]; try reflexivity; f_equal; f_equal; lia.
Qed.

(* the incomplete answers of the steps, resumed *)
Lemma chunk_step_inc st a b st' c :
  cwf st -> chunk_step st a = CInc st' c ->
  c <= length a /\ cwf st' /\
  forall f', length (a ++ b) < f' ->
    coeq (chunk_loop f' st (a ++ b) 0) 
         (match chunk_loop f' st' (skipn c a ++ b) 0 with
          | (s, Complete k) => (s, Complete (c + k))
          | (s, Incomplete k) => (s, Incomplete (c + k))
          | (s, Reject e) => (s, Reject e)
          end).
Proof.
  intros Hwf. unfold chunk_step at 1. destruct (c_phase st) as [|needed| |] eqn:Hph.
  - (* size: nothing consumed, same state *)
    unfold decode_size. destruct (find_crlf a) as [e|]; [destruct (negb _); [discriminate|];
      destruct (parse_chunk_size _); discriminate|].
    intros H. inversion H; subst. split; [lia|]. split; [exact Hwf|].
    intros f' _. cbn [skipn].
    destruct (chunk_loop f' st' (a ++ b) 0) as [s [k|k|e]]; cbn [coeq plus]; reflexivity.
  - (* data: everything consumed *)
    unfold cwf in Hwf. rewrite Hph in Hwf.
    unfold decode_data. cbv zeta.
    destruct (N.leb needed (N.of_nat (length a))) eqn:E1.
    { apply N.leb_le in E1.
      replace (needed - N.of_nat (N.to_nat needed))%N with 0%N by lia. cbn [N.eqb]. discriminate. }
    apply N.leb_gt in E1.
    destruct (N.eqb (needed - N.of_nat (length a)) 0) eqn:Z; [discriminate|].
    apply N.eqb_neq in Z.
    intros H. inversion H; subst st' c. clear H.
    split; [lia|]. split; [unfold cwf; cbn [c_phase]; exact Z|].
    intros f' Hf'. destruct f' as [|f']; [lia|].
    rewrite skipn_all. cbn [app].
    rewrite firstn_all.
    rewrite !chunk_loop_step. unfold chunk_step. rewrite Hph. cbn [c_phase c_buffer c_trailer].
    unfold decode_data. cbv zeta. cbn [c_phase c_buffer c_trailer].
    rewrite app_length in *.
    destruct (N.leb needed (N.of_nat (length a + length b))) eqn:E2.
    + apply N.leb_le in E2.
      assert (E3 : N.leb (needed - N.of_nat (length a)) (N.of_nat (length b)) = true)
        by (apply N.leb_le; lia).
      rewrite E3.
      replace (needed - N.of_nat (N.to_nat needed))%N with 0%N by lia.
      replace (needed - N.of_nat (length a) - N.of_nat (N.to_nat (needed - N.of_nat (length a))))%N
        with 0%N by lia.
      cbn [N.eqb].
      replace (N.to_nat needed) with (length a + N.to_nat (needed - N.of_nat (length a))) by lia.
      rewrite firstn_app_2. rewrite skipn_app.
      rewrite skipn_all2 by lia. cbn [app].
      replace (length a + N.to_nat (needed - N.of_nat (length a)) - length a)
        with (N.to_nat (needed - N.of_nat (length a))) by lia.
      rewrite <- app_assoc.
      set (stt := {| c_phase := CTerminator; c_buffer := c_buffer st ++ a ++ firstn _ b;
                     c_trailer := c_trailer st |}).
      rewrite (chunk_loop_off f' stt _ (0 + (length a + _))).
      rewrite (chunk_loop_off f' stt _ (0 + _)).
      destruct (chunk_loop f' stt _ 0) as [s [k|k|e]]; cbn [coeq]; try reflexivity;
        f_equal; f_equal; lia.
    + apply N.leb_gt in E2.
      assert (E3 : N.leb (needed - N.of_nat (length a)) (N.of_nat (length b)) = false)
        by (apply N.leb_gt; lia).
      rewrite E3.
      destruct (N.eqb (needed - N.of_nat (length a + length b)) 0) eqn:Z2; [apply N.eqb_eq in Z2; lia|].
      destruct (N.eqb (needed - N.of_nat (length a) - N.of_nat (length b)) 0) eqn:Z3;
        [apply N.eqb_eq in Z3; lia|].
      cbn [coeq]. rewrite firstn_all.
      replace (firstn (length a + length b) (a ++ b)) with (a ++ b)
        by (rewrite <- app_length, firstn_all; reflexivity).
      rewrite <- app_assoc.
      replace (needed - N.of_nat (length a) - N.of_nat (length b))%N
        with (needed - N.of_nat (length a + length b))%N by lia.
      replace (0 + (length a + length b)) with (length a + (0 + length b)) by lia. reflexivity.
  - (* terminator: nothing consumed *)
    unfold decode_terminator. destruct a as [|x [|y t]].
    + intros H. inversion H; subst. split; [simpl; lia|]. split; [exact Hwf|].
      intros f' _. cbn [skipn app].
      destruct (chunk_loop f' st' b 0) as [s [k|k|e]]; cbn [coeq plus]; reflexivity.
    + destruct (N.eqb x CR); [|discriminate].
      intros H. inversion H; subst. split; [simpl; lia|]. split; [exact Hwf|].
      intros f' _. cbn [skipn].
      destruct (chunk_loop f' st' ([x] ++ b) 0) as [s [k|k|e]]; cbn [coeq plus]; reflexivity.
    + destruct (_ && _)%bool; discriminate.
  - (* trailer *)
    unfold decode_trailer.
    pose proof (hdr_parse_app None (c_trailer st) a b (or_introl eq_refl)) as HP.
    destruct (hdr_parse None (c_trailer st) a) as [hs c1|hs c1|e0] eqn:E1; try discriminate.
    destruct HP as [Hc HP].
    intros H. inversion H; subst st' c. clear H.
    split; [exact Hc|]. split; [exact I|].
    intros f' Hf'. destruct f' as [|f']; [lia|].
    rewrite !chunk_loop_step. unfold chunk_step. rewrite Hph. cbn [c_phase c_buffer c_trailer].
    unfold decode_trailer. cbn [c_phase c_buffer c_trailer]. rewrite HP.
    destruct (hdr_parse None hs (skipn c1 a ++ b)) as [hs2 c2|hs2 c2|e2]; cbn [hshift coeq];
      try reflexivity; f_equal; f_equal; lia.
Qed.

Theorem chunk_loop_app f st a b off :
  cwf st -> length a < f ->
  match chunk_loop f st a off with
  | (st1, Complete c) =>
      off <= c /\ c <= off + length a /\
      forall f', length (a ++ b) < f' -> chunk_loop f' st (a ++ b) off = (st1, Complete c)
  | (st1, Incomplete c) =>
      off <= c /\ c <= off + length a /\ cwf st1 /\
      forall f', length (a ++ b) < f' ->
        coeq (chunk_loop f' st (a ++ b) off) (chunk_loop f' st1 (skipn (c - off) a ++ b) c)
  | (_, Reject e) =>
      forall f', length (a ++ b) < f' -> exists st' e', chunk_loop f' st (a ++ b) off = (st', Reject e')
  end.
Proof.
  revert st a off. induction f as [|f IH]; intros st a off Hwf Hf; [lia|].
  rewrite chunk_loop_step.
  destruct (chunk_step st a) as [st' c|st' c|st' c|e] eqn:E.
  - (* CPart *)
    destruct (chunk_step_part st a b st' c Hwf E) as [E' [Hp [Hc Hwf']]].
    assert (Hl : length (skipn c a) < f) by (rewrite skipn_length; lia).
    specialize (IH st' (skipn c a) (off + c) Hwf' Hl). rewrite skipn_length in IH.
    destruct (chunk_loop f st' (skipn c a) (off + c)) as [st1 [c1|c1|e1]].
    + destruct IH as [I1 [I2 I3]]. split; [lia|]. split; [lia|].
      intros f' Hf'. destruct f' as [|f']; [lia|].
      rewrite chunk_loop_step, E'. rewrite skipn_app_le by lia.
      apply I3. rewrite app_length, skipn_length. rewrite app_length in Hf'. lia.
    + destruct IH as [I1 [I2 [I3 I4]]]. split; [lia|]. split; [lia|]. split; [exact I3|].
      intros f' Hf'. destruct f' as [|f']; [lia|].
      rewrite chunk_loop_step, E'. rewrite skipn_app_le by lia.
      assert (Hf2 : length (skipn c a ++ b) < f')
        by (rewrite app_length, skipn_length; rewrite app_length in Hf'; lia).
      specialize (I4 f' Hf2). rewrite skipn_skipn' in I4.
      replace (c1 - (off + c) + c) with (c1 - off) in I4 by lia.
      rewrite (chunk_loop_fuel (S f') f' st1 _ c1); [exact I4|exact I3| |];
        rewrite app_length, skipn_length; rewrite app_length in Hf'; lia.
    + intros f' Hf'. destruct f' as [|f']; [lia|].
      rewrite chunk_loop_step, E'. rewrite skipn_app_le by lia.
      apply IH. rewrite app_length, skipn_length. rewrite app_length in Hf'. lia.
  - (* CWhole *)
    destruct (chunk_step_whole st a b st' c E) as [E' Hc].
    split; [lia|]. split; [lia|].
    intros f' Hf'. destruct f' as [|f']; [lia|]. rewrite chunk_loop_step, E'. reflexivity.
  - (* CInc *)
    destruct (chunk_step_inc st a b st' c Hwf E) as [Hc [Hwf' HI]].
    split; [lia|]. split; [lia|]. split; [exact Hwf'|].
    intros f' Hf'. specialize (HI f' Hf').
    replace (off + c - off) with c by lia.
    rewrite (chunk_loop_off f' st (a ++ b) off), (chunk_loop_off f' st' _ (off + c)).
    destruct (chunk_loop f' st' (skipn c a ++ b) 0) as [s2 [k2|k2|e2]];
      destruct (chunk_loop f' st (a ++ b) 0) as [s1 [k1|k1|e1]]; cbn [coeq] in *;
      try discriminate; try (inversion HI; subst); try reflexivity; try (f_equal; f_equal; lia).
  - (* CErr *)
    intros f' Hf'. destruct f' as [|f']; [lia|].
    destruct (chunk_step_err st a b e E) as [e' E'].
    rewrite chunk_loop_step, E'. eauto.
Qed.

Definition cshift (k : nat) (r : chunk_state * outcome) : chunk_state * outcome :=
  match r with
  | (s, Complete c) => (s, Complete (k + c))
  | (s, Incomplete c) => (s, Incomplete (k + c))
  | (s, Reject e) => (s, Reject e)
  end.

Theorem chunk_decode_app st a b :
  cwf st ->
  match chunk_decode st a with
  | (st1, Complete c) => c <= length a /\ chunk_decode st (a ++ b) = (st1, Complete c)
  | (st1, Incomplete c) =>
      c <= length a /\ cwf st1 /\
      coeq (chunk_decode st (a ++ b)) (cshift c (chunk_decode st1 (skipn c a ++ b)))
  | (_, Reject e) => exists st' e', chunk_decode st (a ++ b) = (st', Reject e')
  end.
Proof.
  intros Hwf. unfold chunk_decode.
  pose proof (chunk_loop_app (S (length a)) st a b 0 Hwf (Nat.lt_succ_diag_r _)) as H.
  destruct (chunk_loop (S (length a)) st a 0) as [st1 [c|c|e]].
  - destruct H as [_ [Hc H]]. split; [lia|]. apply H. lia.
  - destruct H as [_ [Hc [Hwf1 H]]]. split; [lia|]. split; [exact Hwf1|].
    specialize (H (S (length (a ++ b))) (Nat.lt_succ_diag_r _)).
    replace (c - 0) with c in H by lia.
    rewrite (chunk_loop_off _ st1 _ c) in H.
    rewrite (chunk_loop_fuel (S (length (skipn c a ++ b))) (S (length (a ++ b))) st1 _ 0 Hwf1).
    + exact H.
    + lia.
    + rewrite !app_length, skipn_length. lia.
  - apply H. lia.
Qed.
